#!/bin/bash
# usage: refactor_check.sh <agent-worktree> <name>
# Stores a behaviour-preserving refactoring made by a sub-agent under /verif/benign/<name>/ after
# confirming the suite passes with it, applies it to /repo, runs every check and restores /repo.
# Any VIOLATION or CHECK-BROKEN is a false alarm of the machinery.
set -u
export GOFLAGS=-mod=mod GOPROXY=off GOSUMDB=off GOTOOLCHAIN=local
WT=$1; NAME=$2
OUT=/verif/benign/$NAME; mkdir -p "$OUT"
( cd "$WT" && git diff HEAD -- '*.go' ':!*_test.go' ) > "$OUT/patch.diff"
[ -s "$OUT/patch.diff" ] || { echo "EMPTY PATCH"; exit 1; }
S=$(mktemp -d /tmp/benchk.XXXXXX); rmdir "$S"
git -C /repo worktree add -q --detach "$S" HEAD
( cd "$S" && git apply "$OUT/patch.diff" ) || { echo "PATCH DOES NOT APPLY"; git -C /repo worktree remove --force "$S"; exit 1; }
SUITE=$(cd "$S" && go build ./... 2>&1 && go test -vet=off -count=1 ./... 2>&1 | grep -v '^ok\|no test files' | head -5)
echo "suite with refactoring (empty = all ok): [$SUITE]"
# the checks run on the scratch worktree; /repo is not touched
ALARMS=""
for i in 01 02 03 04 05 06 07 08 09 10 11 12 13 14 15 16 17 18 19; do
  mkdir -p /tmp/benverif.$$; cp /verif/known_findings.json /tmp/benverif.$$/
  R=$(/verif/bin/verifcheck check C$i --repo "$S" --verif /tmp/benverif.$$ 2>&1 | grep -v '^KNOWN')
  if echo "$R" | grep -q '^VIOLATION\|^CHECK-BROKEN'; then ALARMS="$ALARMS C$i"; echo "== C$i FALSE ALARM:"; echo "$R" | grep -v '^VIOLATION\|witness' | head -4 | cut -c1-300; fi
done
git -C /repo worktree remove --force "$S"
rm -rf /tmp/benverif.$$
python3 - "$OUT" "$SUITE" "$ALARMS" <<'EOF'
import json,sys
out,suite,alarms=sys.argv[1:4]
json.dump({"kind":"behaviour-preserving refactoring","suite_with_change":"all packages ok" if not suite.strip() else suite,"alarms_when_first_run":alarms.split()},open(out+"/meta.json","w"),indent=1)
print("alarms:",alarms or "none")
EOF
