#!/bin/bash
# usage: seed_confirm.sh <agent-worktree> <seed-name> <property-id> "<needs-to-manifest>" [check ids to run...]
# Confirms a sub-agent's seeded change in a fresh scratch worktree of /repo (suite passes with the
# change, demo fails with it and passes without), stores it under /verif/seeded/<seed-name>/ and
# records which checks report it. /repo itself is only touched by `git apply` + `git checkout -- .`.
set -u
export GOFLAGS=-mod=mod GOPROXY=off GOSUMDB=off GOTOOLCHAIN=local
WT=$1; NAME=$2; PROP=$3; NEEDS=$4; shift 4
CHECKS=${*:-$PROP}
OUT=/verif/seeded/$NAME
mkdir -p "$OUT"
# library change only (no tests, no seeded/ dir)
( cd "$WT" && git diff HEAD -- '*.go' ':!*_test.go' ':!seeded' ) > "$OUT/patch.diff"
if [ ! -s "$OUT/patch.diff" ]; then echo "EMPTY PATCH"; exit 1; fi
DEMO=$(cd "$WT" && git status --porcelain --ignored | awk '{print $2}' | grep 'zz_seeded_demo_test.go$' | head -1)
if [ -z "$DEMO" ]; then echo "NO DEMO TEST"; exit 1; fi
cp "$WT/$DEMO" "$OUT/demo_test.go"
DEMODIR=$(dirname "$DEMO")
S=$(mktemp -d /tmp/seedchk.XXXXXX); rmdir "$S"
git -C /repo worktree add -q --detach "$S" HEAD
( cd "$S" && git apply "$OUT/patch.diff" ) || { echo "PATCH DOES NOT APPLY"; git -C /repo worktree remove --force "$S"; exit 1; }
SUITE=$(cd "$S" && go build ./... 2>&1 && go test -vet=off -count=1 ./... 2>&1 | grep -v '^ok\|no test files' | head -5)
cp "$OUT/demo_test.go" "$S/$DEMO"
DEMO_WITH=$(cd "$S" && go test -vet=off -count=1 ./$DEMODIR/ -run 'Seeded|seeded' 2>&1 | tail -3)
( cd "$S" && git apply -R "$OUT/patch.diff" )
DEMO_WITHOUT=$(cd "$S" && go test -vet=off -count=1 ./$DEMODIR/ -run 'Seeded|seeded' 2>&1 | tail -3)
git -C /repo worktree remove --force "$S"
echo "suite with change (empty = all ok): [$SUITE]"
echo "demo with change: $DEMO_WITH" | tail -2
echo "demo without change: $DEMO_WITHOUT" | tail -1
# run the checks against a scratch worktree of /repo HEAD with the patch applied (/repo itself stays untouched)
S2=$(mktemp -d /tmp/seedrun.XXXXXX); rmdir "$S2"
git -C /repo worktree add -q --detach "$S2" HEAD
( cd "$S2" && git apply "$OUT/patch.diff" ) || { echo "cannot apply"; git -C /repo worktree remove --force "$S2"; exit 1; }
CAUGHT=""
for id in $CHECKS; do
  mkdir -p /tmp/seedverif.$$; cp /verif/known_findings.json /tmp/seedverif.$$/; R=$(/verif/bin/verifcheck check $id --repo "$S2" --verif /tmp/seedverif.$$ 2>&1 | grep -v '^KNOWN' )
  if echo "$R" | grep -q '^VIOLATION\|^CHECK-BROKEN'; then CAUGHT="$CAUGHT $id"; echo "== $id reports:"; echo "$R" | grep -v '^VIOLATION\|witness' | head -3 | cut -c1-240; fi
done
git -C /repo worktree remove --force "$S2"
rm -rf /tmp/seedverif.$$
python3 - "$OUT" "$PROP" "$NEEDS" "$SUITE" "$DEMO_WITH" "$DEMO_WITHOUT" "$CAUGHT" "$DEMO" "$CHECKS" <<'EOF'
import json,sys
out,prop,needs,suite,dw,dwo,caught,demo,checks=sys.argv[1:10]
meta={"property":prop,"needs_to_manifest":needs,"demo_test_path":demo,
 "confirmed":{"suite_with_change":"all packages ok" if not suite.strip() else suite,
   "demo_with_change":"FAIL" if "FAIL" in dw else dw, "demo_without_change":"ok" if dwo.strip().startswith("ok") else dwo},
 "ran":["git apply patch.diff in a scratch worktree of /repo HEAD; go build ./... && go test -vet=off -count=1 ./...","go test ./<pkg>/ -run Seeded with and without the patch","verifcheck check <id> --repo <scratch worktree of /repo HEAD with the patch applied>"],
 "checks_run":checks.split(),"caught_by":caught.split()}
json.dump(meta,open(out+"/meta.json","w"),indent=1)
print("caught_by:",caught)
EOF
mkdir -p /tmp/seedverif.$$ 2>/dev/null; rm -rf /tmp/seedverif.$$
