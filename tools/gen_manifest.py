#!/usr/bin/env python3
"""Regenerates /verif/MANIFEST.json from the table below (kept next to the checks so that the
claimed level, technique and not_applicable reasons stay in one place)."""
import json, sys

BUILD = ("cd /verif/checker && GOFLAGS=-mod=vendor GOPROXY=off GOSUMDB=off GOTOOLCHAIN=local GOWORK=off "
         "go build -o /verif/bin/verifcheck ./cmd/verifcheck")

# id -> (built?, technique, level text, level note, design ref)
P = {
 "C01": (False, "", "", "", "§4 C01"),
 "C02": (True,
   "stream-shape calculus (abstract interpretation of pipeline builders over the type-checked AST, periods and n symbolic) + exact linear entailment",
   "Static analysis. For every indicator Compute the number of values on each output and the anchor of its first value are derived from the current source as piecewise-linear expressions of the input length n and the configuration symbols, and proved equal to max(0, n - IdlePeriod()) / IdlePeriod() for ALL n >= 0 and ALL admissible configurations; unchecked receives whose value is sent on are proved to find an element. This is the quantifier the tests cannot reach (they pin one configuration and n = 251). Values are not decided.",
   "Trusts go/types, the admissibility table Γ, the helper.Ring fullness model and the in-house Fourier–Motzkin procedure; helper stages are re-summarised from helper/ on every run (C16 checks those summaries against the slice models). Sub-indicators are used through their declared IdlePeriod contract in the quick tier; the thorough tier re-derives everything contract-free.",
   "§4 C02"),
 "C16": (True,
   "token-count abstract interpretation of every goroutine stage in helper/ (Engine B) compared with a frozen slice-model table by exact linear entailment",
   "Static analysis. For each stream helper the output length, the number of elements taken from every input, consumption to the end, anchor, fill prefix, output capacity, close-on-every-path and close/drain order are derived from the helper's own source for symbolic input lengths (one symbol per input) and parameters, and proved equal to the slice model for ALL lengths and parameters in the documented domain. Which values are emitted is not decided.",
   "Trusts go/types, the model table (DESIGN appendix B), the Ring fullness model and the Fourier–Motzkin procedure. Seq, Field and the codecs are outside the statement and listed as not modelled in the evidence.",
   "§4 C16"),
}

NA_PENDING = "check not built yet in this round (designed in DESIGN.md §4); not claimed until its machinery exists"

def main():
    checks, na = [], []
    ids = ["C%02d" % i for i in range(1, 20)]
    for pid in ids:
        ent = P.get(pid)
        if not ent or not ent[0]:
            na.append({"property_id": pid, "reason": NA.get(pid, NA_PENDING)})
            continue
        _, tech, text, note, ref = ent
        checks.append({
            "property_id": pid,
            "quick_cmd": f"/verif/bin/verifcheck check {pid} --tier quick",
            "thorough_cmd": f"/verif/bin/verifcheck check {pid} --tier thorough",
            "evidence_file": f"/verif/evidence/{pid}.json",
            "replay_cmd_template": "/verif/bin/verifcheck replay {path}",
            "engine": "verifcheck",
            "level_claimed": {"category": "other", "text": text, "design_ref": "DESIGN.md " + ref},
            "level_note": note,
            "technique": tech,
        })
    m = {
        "version": 1,
        "setup_cmd": BUILD,
        "hooks": {"guard": "verif", "enable": "none: the checks analyse /repo's source as it is; no hook or instrumentation exists in cinar/indicator",
                  "baseline_off_cmd": "cd /repo && GOFLAGS=-mod=mod GOPROXY=off go test -vet=off -count=1 ./...",
                  "source_commits": [], "add_only": True},
        "engines": [{"name": "verifcheck", "path": "/verif/checker", "serves_properties": [c["property_id"] for c in checks],
                     "kind_free_text": "repository-specific static analyser in Go (go/packages + go/types + go/ssa from vendored x/tools v0.29.0): stream-shape calculus, stage summariser, SSA shared-write analysis, decision-table extraction, typestate lints; own exact linear arithmetic"}],
        "checks": checks,
        "not_applicable": na,
        "notes": "All checks are static: they type-check /repo's current working tree on every run and never execute it. Known findings are in /verif/known_findings.json; fix: commits in /repo are recorded there as fixed.",
    }
    json.dump(m, open("/verif/MANIFEST.json", "w"), indent=1)
    print("checks:", [c["property_id"] for c in checks], "na:", len(na))

NA = {}
if __name__ == "__main__":
    main()
