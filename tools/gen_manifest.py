#!/usr/bin/env python3
"""Regenerates /verif/MANIFEST.json from the table below (kept next to the checks so that the
claimed level, technique and not_applicable reasons stay in one place)."""
import json, sys

BUILD = ("cd /verif/checker && GOFLAGS=-mod=vendor GOPROXY=off GOSUMDB=off GOTOOLCHAIN=local GOWORK=off "
         "go build -o /verif/bin/verifcheck ./cmd/verifcheck")

# id -> (built?, technique, level text, level note, design ref)
P = {
 "C01": (True,
   "value-term comparison: for every output of all 61 indicator Compute methods the calculus derives a term over the input series (delays, sub-indicator operators with their periods, arithmetic, inlined stateless closures, running folds) and compares its rational-function normal form with the formula transcribed from the doc comment; loop-free recurrences compared as guarded commands on every ordering of their inputs; where the documented formula divides by configuration constants only, agreement also in integer arithmetic (nothing moved across a division); anchors of all join operands vs. a frozen intrinsic-offset table",
   "Static analysis of the structural part of C01, not a numeric evaluation: (1) the composition each indicator computes (which sub-indicators with which periods on which inputs, how many days delayed, which arithmetic and constants) is proved equal to the documented formula as an identity over uninterpreted operators, for all configurations and hence all series; (2) one step of each loop-free recurrence (EMA, RMA, SMMA, KAMA, moving sum, NVI, OBV) equals the documented update on every sign pattern of its comparisons, ties included; SuperTrend's band/trend selection step is compared with the documented rule on every truth assignment of its eight comparisons and two flags; the counted loops over the ring in Wma and MovingStd are read as sums and compared with the documented window formulas; (3) at every element-wise join (about 110) the operands refer to the same input position or differ by the documented offset; (4) padding of a shifted stream cannot influence the closure consuming it (polynomial use with zero fill, or behind a counter gate covering the padding). Not decided: the contents of the search tree behind MovingMax/MovingMin (C17 covers its comparator agreement), helper.Since, warm-up lengths (C02), floating-point rounding.",
   "Trusts go/types, the formula and recurrence tables transcribed from the doc comments, the intrinsic-offset table, Γ, the declared IdlePeriod contracts of sub-indicators (C02's obligation), Fourier–Motzkin and the polynomial normal forms. Genuine defects pinned by the unedited tests are listed as known findings: Apo, Dema, Emv, Fi (operands of different days), UlcerIndex (sqrt(Sma(PD)^2) instead of sqrt(Sma(PD^2))), Obv (compares the close with the previous OBV). Repaired: MovingMax/MovingMin removed the Shift padding value 0 from the window (6142cb6).",
   "§4 C01"),
 "C03": (True,
   "Kahn-network structure analysis over the stage graph derived by the shape calculus: determinacy lint, channel linearity, close-on-all-exits, drain-on-exit, symbolic buffer >= anchor-skew (plus the element a branch must take when the fork serves it before the branch the join reads first) at every fork/join",
   "Static analysis of structural conditions, not of schedules: (R1) no select/len(ch)/cap(ch) outside make/timers in the pipeline packages, so every stage is a sequential blocking process (determinate by Kahn's argument); (R2) every channel of every pipeline is consumed exactly once; (R3) every stage closes its outputs on all exits; (R4) multi-input stages drain all inputs whichever closes first; (R5) at each join of branches of one fork — including the inputs of an exported Compute fed from one unbuffered Duplicate — capacities plus stages on the early branch cover the anchor skew, symbolically in the periods. A report is a real deadlock/leak under the all-unbuffered schedule; shortfalls smaller than the slack, livelock and runtime goroutines are not decided.",
   "Trusts go/types, the Kahn determinacy argument, the stage summaries (C16), contracts of wrapped strategies/moving averages, Γ. R5's availability is an upper bound and its requirement a lower bound (only misses, no false alarms). Repaired: compound strategies not draining (cebb02b), Atr (06185a9), Fi (e2bb7bb), Qstick (23f8f5d), Bop (dad78bc).",
   "§4 C03"),
 "C04": (True,
   "stream-shape calculus: consumption lead of every indicator output and action stream proved <= its label; closure-purity lint",
   "Static analysis, sufficient for the stated clause: in a stage doing only blocking receives and sends an output cannot depend on inputs consumed after it was sent, so lead <= label for ALL configurations (label = declared warm-up for indicators, 0 for actions) excludes look-ahead, provided stage closures read only their arguments, per-call state and receiver configuration (checked: no channel operation, no package-level variable in any closure run by a stage).",
   "Trusts go/types, the Kahn-stage argument, contracts of sub-indicators and wrapped strategies, Γ, Fourier–Motzkin. Prefix equality of runs is a consequence and is not re-checked numerically.",
   "§4 C04"),
 "C05": (True,
   "stream-shape calculus on every strategy Compute (length, anchor, Hold-fill prefix, fill-taint; the indicator warm-up contracts used on the way are re-proved), registry coverage, action-constant lint",
   "Static analysis. For all 40 strategy types: len(actions) = max(n, warm-up) (so exactly n beyond the warm-up and never fewer than n), anchor exactly 0, the final prefix is strategy.Hold and covers every element computed from another Shift's fill value, for ALL admissible configurations and n >= 0; compounds/decorators against the Strategy contract; every registry entry's type was analysed; Action values originate only from the three constants; the No-Loss/Stop-Loss decorators say Hold and stay not invested while the wrapped strategy says Hold and no position is open, for every closing price (rule actions/decorator-hold, on the closures' guarded commands).",
   "Trusts go/types, the Strategy interface contract for wrapped strategies, sub-indicator contracts, Γ, Fourier–Motzkin. Alligator and SMMA strategies emit n+1 actions one day late (pinned by their tests): known findings.",
   "§4 C05"),
 "C06": (True,
   "value-term extraction over the stage graph (snapshot field projections, sub-indicators as uninterpreted operators, stateless closures inlined) + role typing of indicator arguments + anchor alignment of decision operands + semantic comparison of decision closures with a documented-rule table on all strict sign vectors and, where an indicator value can be undefined (derived from its formula), on the vectors in which every comparison with it is unordered",
   "Static analysis. For each of the 32 base strategies: every argument bound to a role-named parameter of an indicator's Compute is exactly that snapshot field (the role is read from the field the extractor's closure returns); the operands of every decision zip refer to the same snapshot position (two tabled cross-over detectors excepted); the decision closure equals the documented rule as a function of the signs of the compared quantities, evaluated on every strict sign vector — branch order and equivalent rewrites do not matter, a flipped comparison, another threshold field, another indicator output or price field does. Equality positions are exempt as in the property. The numerical correctness of the indicators is C01's concern; TripleRsi's ring-based rule is only role- and alignment-checked.",
   "Trusts go/types, the decision-rule table (from the doc comments; where a comment only says 'crossing' the level test the library uses is the documented reading), the role vocabulary of parameter names, internal/sym. CciStrategy feeds High to all three inputs (pinned by its CSV): known finding.",
   "§4 C06"),
 "C07": (True,
   "decision-table extraction (symbolic execution of loop-free decision closures into guarded commands) evaluated exhaustively on the finite abstract domains their atoms induce and compared with the documented tables",
   "Static analysis, exhaustive on finite domains: Inverse, Split and the MACD-RSI combiner point by point over {Sell,Hold,Buy}; And/Or/Majority on every tally with buy+hold+sell=k, k<=6 (realises every consistent weak ordering of the compared quantities); CountActions takes one action per source and increments exactly the matching counter; every source is denormalised; No-Loss and Stop-Loss as transducers: the closure's guarded commands are compared with the documented step (as a conditional expression) for every wrapped action and every ordering of close, remembered level and 0 - symbolically, not on a price grid - outputs and level updates alike, from which the safety statements follow for all histories. Semantic comparison: branch order and if/switch style do not matter. Wrapped strategies' behaviour and float rounding are not decided.",
   "Trusts go/types and the specification tables (DESIGN appendix C); level 0 encodes 'not invested' (as in the code); non-positive closings are included in the comparison.",
   "§4 C07"),
 "C08": (True,
   "decision-table extraction of NormalizeActions/DenormalizeActions/CountTransactions/Outcome, exhaustive product exploration of the extracted transducers, exact rational-function normal forms for the portfolio updates, sign analysis, shape calculus for lengths",
   "Static analysis: the two action normalisers are extracted as finite transducers, compared with their tables, and explored exhaustively (alternation Buy/Sell starting with Buy; Normalize∘Denormalize = id on that language); Outcome's step is extracted over {cash, invested} x action, its updates and result compared as normalised rational functions with the all-in/all-out portfolio (value conserved across a trade, 0 until the first Buy, idempotent under repeated signals), non-negativity preserved (result >= -1); one entry per (value, action) pair by the shape calculus; ComputeWithOutcome wiring. Float rounding of the compounded product is not decided.",
   "Trusts go/types, the specification tables, exact rational arithmetic in internal/sym.",
   "§4 C08"),
 "C09": (True,
   "SSA mod-summary analysis over go/ssa with a CHA call graph (which parameters / captured variables / package variables may a function write through, to a fixpoint; allocations and received elements are fresh) + closure-cell ownership lint + element-purity (no store into an object that travels through channels by pointer and was not allocated by the storing function)",
   "Static analysis of the mechanism the property anchors: no store, map update or delete reachable from any Compute/Report/IdlePeriod/Name/String method of the indicator and strategy types (through static calls, interface calls resolved by class-hierarchy analysis, goroutines and closures) goes through the receiver or to a package-level variable, so all per-run state is allocated per call; and every mutable local captured by a function that a stage runs in its goroutine has that function as its only user; the indicator and strategy packages keep no package-level variable whose type can hold a reference (nothing for a constructor to share between instances). With C03's determinacy and linearity rules this makes repeated and concurrent calls independent. Not a dynamic race detection and silent about third-party code.",
   "Trusts go/ssa, the CHA call graph and the freshness model (allocations, constructor results, received channel elements are not shared); aliasing is field-insensitive (over-approximate).",
   "§4 C09"),
 "C10": (True,
   "typed-AST lints on every asset.Repository implementation: synchronous consumption and error propagation in Append, decision table of the GetSince filter over {<,=,>}, zero-time returns carry an error, one fresh object per element sent in a loop, Assets() inverts exactly the file-name builder, the factory applies the registered builder to the configuration given, read-modify-write of the locked map within one critical section",
   "Static analysis of structural necessary conditions only: every Append consumes its input in the caller's goroutine and returns the error of each write (needed for read-your-writes); the GetSince filter closures keep exactly the orderings {=,>} of (snapshot date, bound), decided on the finite ordering domain and identically in the sibling implementations; LastDate never returns the zero time with a nil error; unknown assets are errors. Equivalence with a map under arbitrary histories (file system, SQL driver, codecs) is not decided.",
   "Trusts go/types and the semantics of time.Time.Equal/After/Before; the SQL dialect text is not analysed. Repaired: SQLRepository.Append was asynchronous (dd89e0d).",
   "§4 C10"),
 "C11": (True,
   "typed-AST agreement lints between encoder and decoder siblings (reflect kinds, bit-size table, float/time arguments, constant-folded open flags, header-map indexing, JSON delimiters, distinct codec names per struct, no one-sided csv options)",
   "Static analysis of agreement rules without which some value cannot round-trip: same reflect kinds on both sides, a bit size for every sized kind used identically by formatter and parser, FormatFloat(…, -1, bits), one layout value for Format and Parse, WriteToFile truncates and AppendToFile appends (flag sets constant-folded), append only to an existing non-empty file, records indexed through the header map, header i and cell i of every written row come from the same column descriptor at the loop's own position, JSON delimiters agree. Equality of written and re-read values for all inputs (strconv, encoding/csv, encoding/json, time) is not decided.",
   "Trusts go/types constant folding and the documented semantics of the strconv/os functions named. Repaired: WriteToFile lacked O_TRUNC (ac57338); kindToBits lacked Uint8 (6348dc3).",
   "§4 C11"),
 "C12": (True,
   "typed-AST structure lints on the Sync.Run worker closure + SSA shared-write analysis rooted at the go statement started in a loop + go/cfg lock-state lint on InMemoryRepository",
   "Static analysis of structural conditions: start date = target's last date + 1 day or the default; GetSince(name,start) feeds Append(name,·); every error branch in the per-asset loop records the failure and continues (fault isolation) and Run returns an error iff one was recorded; wg.Wait precedes the return; one job channel for all workers; no worker writes memory shared with the others without synchronisation (SSA mod-summaries through the Repository interface via CHA); InMemoryRepository touches its map only under its mutex on every path. Resulting repository contents and idempotence depend on repository semantics and are not decided.",
   "Trusts go/types, go/ssa+CHA, go/cfg, sync/atomic and sync.Mutex. Repaired: racy hasErrors flag (8f086f1), unsynchronised InMemoryRepository (e6c9678).",
   "§4 C12"),
 "C13": (True,
   "typed-AST protocol lints on Backtest.Run/worker (incl. the asset loop is left only when the name channel is exhausted) + SSA shared-write analysis rooted at `go b.worker` + go/cfg lock-state lints on both report types + comparator totality lint",
   "Static analysis of structural conditions: Begin before the workers, End after Wait; per asset AssetBegin, exactly one Write per strategy (unconditional, fed by ComputeWithOutcome of that strategy on a fresh SliceToChan), AssetEnd; nothing reachable from a worker writes shared memory without a mutex, and both bundled reports touch their maps only under the mutex on every path; sort comparators do not convert a float difference to int, put the larger outcome first on all three orderings of two outcomes, and the entry presented as best is the first of the sorted slice; what a report appends to during a run starts empty in Begin/AssetBegin; the worker writes the two results of one ComputeWithOutcome call as they are, on snapshots from LastDays days back; every field of the result the two reports record is the specified term over Write's parameters (SSA form); every slice index in package backtest is the key of a range over that slice, a constant below the constant count of helper.Duplicate, or protected by a length check ('no run crashes'). Equality of the reported numbers with a direct evaluation is not decided.",
   "Trusts go/types, go/ssa+CHA, go/cfg. Repaired: unsynchronised reports (bd51cda), int(float difference) comparators (9dddcd8), HTMLReport.AssetEnd results[0] on an empty list (2e636f6).",
   "§4 C13"),
 "C14": (True,
   "stream-shape calculus on every strategy Report: each column stream vs. the date stream (length and anchor), symbolic in the periods; the indicator warm-up contracts used on the way are re-proved; value terms of the date, Close, annotation and Outcome columns",
   "Static analysis. The report template zips the date stream with one Value() per column per row; every ReportColumn type's Value() is exactly one unconditional receive from its own stream; for all 40 Report methods every column found in the constructed helper.Report is proved to have exactly the date stream's length and anchor for all admissible configurations and every n beyond the warm-up.",
   "Trusts go/types, the template's zip semantics (its shape is re-checked on every run), contracts (C02, C05), Γ, Fourier–Motzkin. The Alligator/SMMA report columns inherit the pinned C05 defect (known findings); the APO column was repaired (fix: d5cfb51).",
   "§4 C14"),
 "C02": (True,
   "stream-shape calculus (abstract interpretation of pipeline builders over the type-checked AST, periods and n symbolic) + exact linear entailment; the constructor-based assumptions of the admissibility table are proved on the objects the constructors return",
   "Static analysis. For every indicator Compute the number of values on each output and the anchor of its first value are derived from the current source as piecewise-linear expressions of the input length n and the configuration symbols, and proved equal to max(0, n - IdlePeriod()) / IdlePeriod() for ALL n >= 0 and ALL admissible configurations; unchecked receives whose value is sent on are proved to find an element. This is the quantifier the tests cannot reach (they pin one configuration and n = 251). Values are not decided.",
   "Trusts go/types, the admissibility table Γ, the helper.Ring fullness model and the in-house Fourier–Motzkin procedure; helper stages are re-summarised from helper/ on every run (C16 checks those summaries against the slice models). Sub-indicators are used through their declared IdlePeriod contract in the quick tier; the thorough tier re-derives everything contract-free.",
   "§4 C02"),
 "C17": (True,
   "typed-AST lints with finite decision tables: no ordering by the sign of a difference in generic numeric code; Insert/search routing agreement over {<,=,>}; Ring index discipline and state invariant; link-write discipline of the tree by path interpretation over symbolic access paths (attach / splice / replace, each store justified on every truth assignment the facts of its path allow; helpers inlined, search loops verified and summarised)",
   "Static analysis of five structural necessary conditions, not of model conformance (the fifth: every store into a child link, the root or a node value in package helper is an attach into a nil link, a splice of a node whose other child is nil out of the link that pointed at it, or the value of the in-order neighbour which is itself spliced out with the parent its verified search loop returned - so Remove loses no node but the one removed): ordering decisions on generic numeric values use comparison operators (a difference overflows for integer element types); evaluated on the three orderings, Insert and searchNode route smaller and larger keys to the same side and search stops on equality; every Ring buffer index is begin/end or reduced modulo len(buffer) and begin/end advance only through nextIndex = (i+1) % len(buffer); the ring's state invariant `empty => begin == end` is established by NewRing and preserved on every path of every method (guarded commands of the methods, receiver fields as state). Conformance to the FIFO/multiset models under arbitrary operation histories is not decided.",
   "Trusts go/types; values are only compared, so three orderings are exhaustive for the routing rule. Repaired: searchNode ordered by subtraction (930a477).",
   "§4 C17"),
 "C18": (True,
   "a type system for homogeneity degrees (price, volume) over the value terms of all indicators and strategies: linear degree forms, unification by exact Gaussian elimination; closure bodies and hand-written loops typed by flow-insensitive inference; sub-indicators through their inferred signature",
   "Static analysis, sufficient over the reals: a solvable constraint system means every output of every indicator is a homogeneous function of a definite degree of the price series and of the volume series, and every comparison in every decision closure relates quantities of equal degree (or a quantity with 0), so multiplying all prices or all volumes by a positive constant scales each indicator by the corresponding power and changes no recommendation — by induction over the composition. Also checked: each indicator's degree equals the one its documented formula dictates (table: averages/bands/differences price, oscillators/ratios unit-free, accumulators volume, FI price·volume, EMV price²/volume); thresholds and fixed-digit rounding touch unit-free quantities only. Bit-exactness for power-of-two factors (no overflow/underflow) is not claimed.",
   "Trusts go/types, the expected-degree table, 'configuration values are dimensionless'. Obv compares the close with an accumulated volume (pinned): known finding.",
   "§4 C18"),
 "C19": (True,
   "typed-AST + go/cfg path lints on the reader goroutines and the HTTP client: bounds guard before indexing a decoded record, close deferred before any exit, error branches leave the loop, Body.Close on every path after a successful request, status check, file closed after the reader",
   "Static analysis of this repository's own reader code, not of the decoders: every index into a decoded CSV record is guarded against len(record); every reader goroutine closes its channel on all exits (go/cfg may-analysis); every error branch in a reader loop leaves the loop; ReadFromFile closes the file after the reader finished; in the Tiingo client a non-200 status is an error before decoding and the response body is closed on every control-flow path after a successful request; JSONToChan checks the opening delimiter; no JSON document is decoded into a pointer to a pointer (`null` would nil it and the caller dereferences). The behaviour of encoding/csv, encoding/json and net/http on arbitrary bytes is not decided.",
   "Trusts go/types, go/cfg, and encoding/csv's field-count check for rows after the first. Repaired: unguarded record index (029c59c), Tiingo body leaks (d70d16c).",
   "§4 C19"),
 "C15": (True,
   "range proof over value terms: each bound of the statement is reduced, on the rational-function normal form of the indicator's derived value term, to polynomial non-negativity and discharged by an exact linear-programming certificate (products of degree <= 2) from the validity of the inputs and the axioms of the primitive operators; conditionals split by cases, sub-indicators enter through their own proved lemmas",
   "Static analysis, a proof for every series and configuration of everything it accepts: for each bound in C15's statement (RSI, MFI, Stochastic %K/%D, Aroon in [0,100]; Williams %R in [-100,0]; Stochastic RSI in [0,1]; MFM, CMF, BoP in [-1,1]; upper >= middle >= lower for Bollinger, Keltner, Donchian, Acceleration, Envelope; ATR, Ulcer index, band width, standard deviation >= 0) the check takes the value term the calculus derives from the source (the one C01 compares with the documented formula), writes bound - value as N/D over atoms and finds non-negative rational multipliers expressing the needed sign of N and of D as a combination of: low <= open, close <= high, prices > 0, volume >= 0 on each day; |x| >= +-x; max/min bounds; MovingMax(x) >= x >= MovingMin(x); positivity, linearity and constant-preservation of Sma/Ema/Rma/Smma/MovingSum; MovingStd >= 0 (its sent value is a math.Sqrt result, checked); whole-number rounding keeps whole bounds. Positions with a zero denominator are exempt as in the statement. Not decided: the clause 'moving min <= value <= moving max' itself (it is the operator axiom, assumed; C17 covers the search tree), floating-point rounding, Atr/Envelope configured with a non-averaging moving average (Dema, Tema, Hma).",
   "Trusts go/types, the value terms (C01), the operator-axiom table, the claims table, the exact simplex in internal/posit, 'configuration parameters are non-negative and periods >= 1', 'a generic input series is a price series'. Aroon Up/Down below 0 on repeated extremes is a genuine defect pinned by TestAroon: known finding.",
   "§4 C15"),
 "C16": (True,
   "token-count abstract interpretation of every goroutine stage in helper/ (Engine B) compared with a frozen slice-model table by exact linear entailment",
   "Static analysis. For each stream helper the output length, the number of elements taken from every input, consumption to the end, anchor, fill prefix, output capacity, close-on-every-path and close/drain order are derived from the helper's own source for symbolic input lengths (one symbol per input) and parameters, and proved equal to the slice model for ALL lengths and parameters in the documented domain. Values: for the 27 arithmetic and copying helpers the term every output element carries (closures inlined, delays from the anchors) is compared with the model term as a rational function (helper-model/value); values of the higher-order helpers are the caller's function, Last/Echo/Count/SliceToChan values are not decided.",
   "Trusts go/types, the model table (DESIGN appendix B), the Ring fullness model and the Fourier–Motzkin procedure. Seq, Field and the codecs are outside the statement and listed as not modelled in the evidence.",
   "§4 C16"),
}

NA_PENDING = "check not built yet in this round (designed in DESIGN.md §4); not claimed until its machinery exists"

def main():
    checks, na = [], []
    ids = ["C%02d" % i for i in range(1, 20)]
    for pid in ids:
        ent = P.get(pid)
        if not ent or not ent[0]:
            na.append({"property_id": pid, "reason": NA.get(pid, NA_PENDING)})
            continue
        _, tech, text, note, ref = ent
        checks.append({
            "property_id": pid,
            "quick_cmd": f"/verif/bin/verifcheck check {pid} --tier quick",
            "thorough_cmd": f"/verif/bin/verifcheck check {pid} --tier thorough",
            "evidence_file": f"/verif/evidence/{pid}.json",
            "replay_cmd_template": "/verif/bin/verifcheck replay {path}",
            "engine": "verifcheck",
            "level_claimed": {"category": "other", "text": text, "design_ref": "DESIGN.md " + ref},
            "level_note": note,
            "technique": tech,
        })
    m = {
        "version": 1,
        "setup_cmd": BUILD,
        "hooks": {"guard": "verif", "enable": "none: the checks analyse /repo's source as it is; no hook or instrumentation exists in cinar/indicator",
                  "baseline_off_cmd": "cd /repo && GOFLAGS=-mod=mod GOPROXY=off go test -vet=off -count=1 ./...",
                  "source_commits": [], "add_only": True},
        "engines": [{"name": "verifcheck", "path": "/verif/checker", "serves_properties": [c["property_id"] for c in checks],
                     "kind_free_text": "repository-specific static analyser in Go (go/packages + go/types + go/ssa from vendored x/tools v0.29.0): stream-shape calculus, stage summariser, SSA shared-write analysis, decision-table extraction, typestate lints; own exact linear arithmetic"}],
        "checks": checks,
        "not_applicable": na,
        "notes": "All checks are static: they type-check /repo's current working tree on every run and never execute it. Known findings are in /verif/known_findings.json; fix: commits in /repo are recorded there as fixed.",
    }
    json.dump(m, open("/verif/MANIFEST.json", "w"), indent=1)
    print("checks:", [c["property_id"] for c in checks], "na:", len(na))

NA = {}
if __name__ == "__main__":
    main()
