#!/bin/bash
# usage: benign_run.sh <name> [check ids...]   (applies /verif/benign/<name>/patch.diff to a scratch worktree of /repo HEAD and runs the checks there)
NAME=$1; shift
IDS=${*:-"C01 C02 C03 C04 C05 C06 C07 C08 C09 C10 C11 C12 C13 C14 C15 C16 C17 C18 C19"}
S=$(mktemp -d /tmp/benrun.XXXXXX); rmdir "$S"
git -C /repo worktree add -q --detach "$S" HEAD
( cd "$S" && git apply /verif/benign/$NAME/patch.diff ) || { git -C /repo worktree remove --force "$S"; exit 1; }
mkdir -p /tmp/benverif.$$; cp /verif/known_findings.json /tmp/benverif.$$/
for id in $IDS; do
  R=$(/verif/bin/verifcheck check $id --repo "$S" --verif /tmp/benverif.$$ 2>&1 | grep -v '^KNOWN')
  if echo "$R" | grep -q '^VIOLATION\|^CHECK-BROKEN'; then echo "== $id FALSE ALARM:"; echo "$R" | grep -v '^VIOLATION\|witness' | head -${LINES_MAX:-4} | cut -c1-${COLS:-260}; fi
done
git -C /repo worktree remove --force "$S"
rm -rf /tmp/benverif.$$
echo "done $NAME"
