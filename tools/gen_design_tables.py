#!/usr/bin/env python3
"""Regenerates the tables of DESIGN.md that are derived from files: known findings, repaired
defects, seeded changes. Text between <!-- BEGIN:x --> and <!-- END:x --> is replaced."""
import json, glob, os, re, collections

def esc(s): return s.replace("|", "\\|").replace("\n", " ")

k = json.load(open('/verif/known_findings.json'))

def fixed_table():
    rows = collections.OrderedDict()
    for x in k:
        if x['status'] != 'fixed': continue
        key = (x['commit'])
        what = re.sub(r'^fixed: property=\S+ \S+ ', '', x['what'])
        rows.setdefault(key, {"props": set(), "rules": set(), "what": []})
        rows[key]["props"].add(x['property']); rows[key]["rules"].add(x['rule'])
        if what not in rows[key]["what"]: rows[key]["what"].append(what)
    out = ["| commit | property | rule(s) that reported it | what failed |", "|---|---|---|---|"]
    for c, r in rows.items():
        out.append(f"| `{c}` | {', '.join(sorted(r['props']))} | {', '.join(sorted(r['rules']))} | {esc(' / '.join(r['what']))[:700]} |")
    return "\n".join(out)

def known_table():
    rows = collections.OrderedDict()
    for x in k:
        if x['status'] != 'known': continue
        root = x['site'].split('/')[0].split(':')[0]
        key = (x['property'], x['rule'], root)
        rows.setdefault(key, {"n": 0, "what": x['what']})
        rows[key]["n"] += 1
    out = ["| property | rule | where | entries | what fails |", "|---|---|---|---|---|"]
    for (p, r, s), v in rows.items():
        out.append(f"| {p} | {r} | `{s}` | {v['n']} | {esc(v['what'])[:600]} |")
    return "\n".join(out)

def seeds_table():
    out = ["| seeded change | property | needs, to manifest | reported by | note |", "|---|---|---|---|---|"]
    for d in sorted(glob.glob('/verif/seeded/*/meta.json')):
        m = json.load(open(d)); name = os.path.basename(os.path.dirname(d))
        out.append(f"| `{name}` | {m['property']} | {esc(m['needs_to_manifest'])[:300]} | {', '.join(m.get('caught_by') or []) or '**not reported**'} | {esc(m.get('note',''))[:300]} |")
    return "\n".join(out)

def benign_table():
    out = ["| refactoring | files touched | checks that raised an alarm when it was first run | now |", "|---|---|---|---|"]
    def keyf(d):
        n = os.path.basename(os.path.dirname(d))
        return int(re.sub(r'\D', '', n) or 0)
    for d in sorted(glob.glob('/verif/benign/*/meta.json'), key=keyf):
        m = json.load(open(d)); name = os.path.basename(os.path.dirname(d))
        files = sorted(set(re.findall(r'^\+\+\+ b/(\S+)', open(os.path.dirname(d) + '/patch.diff').read(), re.M)))
        out.append(f"| `{name}` | {', '.join(files)} | {', '.join(m.get('alarms_when_first_run') or []) or 'none'} | silent |")
    return "\n".join(out)

s = open('/verif/DESIGN.md').read()
for name, fn in (("fixed", fixed_table), ("known", known_table), ("seeds", seeds_table), ("benign", benign_table)):
    b, e = f"<!-- BEGIN:{name} -->", f"<!-- END:{name} -->"
    if b in s and e in s:
        i, j = s.index(b) + len(b), s.index(e)
        s = s[:i] + "\n" + fn() + "\n" + s[j:]
open('/verif/DESIGN.md', 'w').write(s)
print("tables regenerated")
