#!/bin/bash
# usage: mut.sh <check-id> <file-relative-to-repo> <sed-expression> [more file/sed pairs]
# Applies the edit to a scratch copy of /repo (outside /repo and /verif), checks that it builds,
# runs one check against it and removes the copy.
set -u
ID=$1; shift
S=$(mktemp -d /tmp/mutrepo.XXXXXX)
cp -r /repo/. "$S"/ && rm -rf "$S/.git"
while [ $# -ge 2 ]; do
  F=$1; E=$2; shift 2
  sed -i -E "$E" "$S/$F"
  if diff -q "$S/$F" "/repo/$F" >/dev/null; then echo "MUTATION DID NOT APPLY: $F $E"; fi
done
( cd "$S" && GOFLAGS=-mod=mod GOPROXY=off GOTOOLCHAIN=local go build ./... ) || echo "MUTANT DOES NOT BUILD"
if [ "${RUN_TESTS:-0}" = 1 ]; then ( cd "$S" && GOFLAGS=-mod=mod GOPROXY=off GOTOOLCHAIN=local go test -count=1 ./... 2>&1 | grep -v '^ok' | head -20 ); fi
mkdir -p "${VERIF_OUT:-/tmp/mutverif}"; cp /verif/known_findings.json "${VERIF_OUT:-/tmp/mutverif}/"; ${VERIFBIN:-/verif/bin/verifcheck} check "$ID" --repo "$S" --verif "${VERIF_OUT:-/tmp/mutverif}" | grep -v '^KNOWN' | head -${LINES_MAX:-12}
rm -rf "$S"
