#!/usr/bin/env python3
"""Developer-time helper: append an entry to known_findings.json from a replay file. Never used by a check."""
import json, sys
replay, status, what = sys.argv[1], sys.argv[2], sys.argv[3]
commit = sys.argv[4] if len(sys.argv) > 4 else ""
f = json.load(open(replay))
k = json.load(open('/verif/known_findings.json'))
e = {"property": f["property"], "rule": f["rule"], "site": f["site"], "detail": f["detail"], "status": status, "what": what}
if commit: e["commit"] = commit
if not any((x["property"],x["rule"],x["site"],x["detail"])==(e["property"],e["rule"],e["site"],e["detail"]) for x in k):
    k.append(e)
json.dump(k, open('/verif/known_findings.json','w'), indent=1)
print("added", e["property"], e["rule"], e["site"], e["detail"])
