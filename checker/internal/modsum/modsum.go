// Package modsum is Engine C: a field-insensitive "through which of its
// parameters, free variables and globals may this function write memory"
// summary over go/ssa, propagated to a fixpoint over the CHA call graph, with a
// notion of freshness (allocations, constructor results, channel receives) and
// of mutex protection. It inspects SSA only; nothing is executed.
package modsum

import (
	"fmt"
	"go/token"
	"go/types"
	"sort"
	"strings"

	"golang.org/x/tools/go/callgraph"
	"golang.org/x/tools/go/callgraph/cha"
	"golang.org/x/tools/go/packages"
	"golang.org/x/tools/go/ssa"
	"golang.org/x/tools/go/ssa/ssautil"
)

type RootKind int

const (
	Param RootKind = iota
	FreeVar
	Global
)

type Root struct {
	Kind  RootKind
	Index int
	Name  string // global name / parameter name (diagnostics; part of identity for globals)
}

func (r Root) String() string {
	switch r.Kind {
	case Param:
		return fmt.Sprintf("param#%d(%s)", r.Index, r.Name)
	case FreeVar:
		return fmt.Sprintf("captured(%s)", r.Name)
	default:
		return "global(" + r.Name + ")"
	}
}

func (r Root) key() string { return fmt.Sprintf("%d/%d/%s", r.Kind, r.Index, r.Name) }

// Fact: the function may write memory reachable from Root.
type Fact struct {
	Root      Root
	Pos       token.Pos // position of the write instruction (innermost)
	What      string    // "store to field f", "map update", ...
	Via       []string  // call chain from this function down to the write
	Protected bool      // every such write happens with a mutex of the same object held
	Direct    bool      // the captured variable itself is assigned (FreeVar only)
}

type Summary struct {
	Fn          *ssa.Function
	Writes      map[string]*Fact
	Rets        map[string]Root // roots the results may alias
	RetsUnknown bool
}

type Analysis struct {
	Prog    *ssa.Program
	CG      *callgraph.Graph
	Sums    map[*ssa.Function]*Summary
	Funcs   []*ssa.Function
	modPath string
}

// Build constructs SSA for the loaded packages and computes all summaries.
func Build(pkgs []*packages.Package, modPath string, declared []*types.Func) *Analysis {
	prog, _ := ssautil.Packages(pkgs, ssa.BuilderMode(0))
	prog.Build()
	a := &Analysis{Prog: prog, Sums: map[*ssa.Function]*Summary{}, modPath: modPath}
	a.CG = cha.CallGraph(prog)
	have := map[*ssa.Function]bool{}
	var addFn func(fn *ssa.Function)
	addFn = func(fn *ssa.Function) {
		if fn == nil || have[fn] || fn.Blocks == nil || !a.inModule(fn) {
			return
		}
		if strings.HasSuffix(prog.Fset.Position(fn.Pos()).Filename, "_test.go") {
			return
		}
		have[fn] = true
		a.Funcs = append(a.Funcs, fn)
		for _, an := range fn.AnonFuncs {
			addFn(an)
		}
	}
	for fn := range ssautil.AllFunctions(prog) {
		addFn(a.canon(fn))
	}
	// generic methods that are never instantiated inside the module are still part of its API
	for _, obj := range declared {
		addFn(prog.FuncValue(obj))
	}
	sort.Slice(a.Funcs, func(i, j int) bool { return a.Funcs[i].Pos() < a.Funcs[j].Pos() })
	for _, fn := range a.Funcs {
		a.Sums[fn] = &Summary{Fn: fn, Writes: map[string]*Fact{}, Rets: map[string]Root{}}
	}
	for _, fn := range a.Funcs {
		a.local(fn)
	}
	for changed, iter := true, 0; changed && iter < 50; iter++ {
		changed = false
		for _, fn := range a.Funcs {
			if a.propagate(fn) {
				changed = true
			}
		}
	}
	return a
}

func (a *Analysis) inModule(fn *ssa.Function) bool {
	f := fn
	for f.Parent() != nil {
		f = f.Parent()
	}
	if o := f.Origin(); o != nil {
		f = o
	}
	if f.Pkg != nil {
		return strings.HasPrefix(f.Pkg.Pkg.Path(), a.modPath)
	}
	if f.Object() != nil && f.Object().Pkg() != nil {
		return strings.HasPrefix(f.Object().Pkg().Path(), a.modPath)
	}
	return false
}

// canon maps an instantiation to its generic origin (whose body is analysed).
func (a *Analysis) canon(fn *ssa.Function) *ssa.Function {
	if fn == nil {
		return nil
	}
	if o := fn.Origin(); o != nil {
		return o
	}
	return fn
}

func (a *Analysis) SummaryOf(fn *ssa.Function) *Summary { return a.Sums[a.canon(fn)] }

// roots traces a value back to the parameters / free variables / globals it may alias.
// fresh reports whether the value may (also) be freshly allocated.
func (a *Analysis) roots(v ssa.Value, seen map[ssa.Value]bool) (rs []Root, fresh bool) {
	if seen[v] {
		return nil, false
	}
	seen[v] = true
	// a value that cannot hold a reference is a copy: it aliases nothing
	switch v.(type) {
	case *ssa.Field, *ssa.Index, *ssa.Lookup, *ssa.Extract, *ssa.UnOp, *ssa.Call, *ssa.Phi, *ssa.TypeAssert, *ssa.Next:
		if !mayAlias(v.Type()) {
			return nil, true
		}
	}
	switch x := v.(type) {
	case *ssa.Parameter:
		fn := x.Parent()
		for i, p := range fn.Params {
			if p == x {
				return []Root{{Kind: Param, Index: i, Name: p.Name()}}, false
			}
		}
	case *ssa.FreeVar:
		fn := x.Parent()
		for i, p := range fn.FreeVars {
			if p == x {
				return []Root{{Kind: FreeVar, Index: i, Name: p.Name()}}, false
			}
		}
	case *ssa.Global:
		return []Root{{Kind: Global, Name: x.Pkg.Pkg.Name() + "." + x.Name()}}, false
	case *ssa.FieldAddr:
		return a.roots(x.X, seen)
	case *ssa.IndexAddr:
		return a.roots(x.X, seen)
	case *ssa.Field:
		return a.roots(x.X, seen)
	case *ssa.Index:
		return a.roots(x.X, seen)
	case *ssa.Slice:
		return a.roots(x.X, seen)
	case *ssa.Lookup:
		return a.roots(x.X, seen)
	case *ssa.ChangeType:
		return a.roots(x.X, seen)
	case *ssa.Convert:
		return a.roots(x.X, seen)
	case *ssa.ChangeInterface:
		return a.roots(x.X, seen)
	case *ssa.MakeInterface:
		return a.roots(x.X, seen)
	case *ssa.TypeAssert:
		return a.roots(x.X, seen)
	case *ssa.Extract:
		return a.roots(x.Tuple, seen)
	case *ssa.Next:
		return a.roots(x.Iter, seen)
	case *ssa.Range:
		return a.roots(x.X, seen)
	case *ssa.SliceToArrayPointer:
		return a.roots(x.X, seen)
	case *ssa.UnOp:
		if x.Op == token.ARROW {
			return nil, true // ownership of a received element passes to the receiver
		}
		if x.Op == token.MUL {
			// load: from a local cell take what was stored into it, otherwise the pointer's roots
			if al, ok := x.X.(*ssa.Alloc); ok {
				return a.storedInto(al, seen)
			}
			return a.roots(x.X, seen)
		}
		return nil, true
	case *ssa.Phi:
		for _, e := range x.Edges {
			r, f := a.roots(e, seen)
			rs = append(rs, r...)
			fresh = fresh || f
		}
		return rs, fresh
	case *ssa.Alloc:
		// the address of a local cell: the cell itself is fresh (what it holds is reached by a load)
		return nil, true
	case *ssa.Call:
		return a.callRoots(x, seen)
	case *ssa.MakeClosure, *ssa.MakeMap, *ssa.MakeSlice, *ssa.MakeChan, *ssa.Const, *ssa.BinOp, *ssa.Function, *ssa.Builtin:
		return nil, true
	}
	return nil, true
}

// storedInto: union of the roots of everything stored into a local cell (within its function).
func (a *Analysis) storedInto(al *ssa.Alloc, seen map[ssa.Value]bool) (rs []Root, fresh bool) {
	fresh = true
	for _, ref := range *al.Referrers() {
		if st, ok := ref.(*ssa.Store); ok && st.Addr == al {
			r, _ := a.roots(st.Val, seen)
			rs = append(rs, r...)
		}
	}
	return rs, fresh
}

// callRoots: what the result of a call may alias, through the callees' return summaries.
func (a *Analysis) callRoots(call *ssa.Call, seen map[ssa.Value]bool) (rs []Root, fresh bool) {
	fresh = true
	for _, callee := range a.callees(call) {
		s := a.SummaryOf(callee)
		if s == nil {
			continue
		}
		for _, r := range s.Rets {
			if r.Kind == Global {
				rs = append(rs, r)
				continue
			}
			if r.Kind == Param {
				if arg := argOf(call.Common(), callee, r.Index); arg != nil {
					ar, _ := a.roots(arg, seen)
					rs = append(rs, ar...)
				}
			}
		}
	}
	return rs, fresh
}

// argOf returns the caller-side value bound to parameter i of callee.
func argOf(c *ssa.CallCommon, callee *ssa.Function, i int) ssa.Value {
	if c.IsInvoke() {
		if i == 0 {
			return c.Value
		}
		if i-1 < len(c.Args) {
			return c.Args[i-1]
		}
		return nil
	}
	if i < len(c.Args) {
		return c.Args[i]
	}
	return nil
}

func (a *Analysis) callees(site ssa.CallInstruction) []*ssa.Function {
	if f := site.Common().StaticCallee(); f != nil {
		return []*ssa.Function{a.canon(f)}
	}
	fn := site.Parent()
	node := a.CG.Nodes[fn]
	if node == nil {
		return nil
	}
	var out []*ssa.Function
	seen := map[*ssa.Function]bool{}
	for _, e := range node.Out {
		if e.Site == site {
			c := a.canon(e.Callee.Func)
			if !seen[c] {
				seen[c] = true
				out = append(out, c)
			}
		}
	}
	return out
}

func (s *Summary) add(f *Fact) bool {
	k := f.Root.key()
	if old, ok := s.Writes[k]; ok {
		changed := false
		if old.Protected && !f.Protected {
			// an unprotected instance replaces a protected one
			*old = *f
			changed = true
		}
		if f.Direct && !old.Direct && f.Protected == old.Protected {
			old.Direct = true
		}
		return changed
	}
	cp := *f
	s.Writes[k] = &cp
	return true
}

// local records the direct writes and return aliases of fn.
func (a *Analysis) local(fn *ssa.Function) {
	s := a.Sums[fn]
	for _, b := range fn.Blocks {
		for _, ins := range b.Instrs {
			switch x := ins.(type) {
			case *ssa.Store:
				// assigning a local cell is not a heap write unless the cell is shared (captured)
				if _, isAlloc := x.Addr.(*ssa.Alloc); isAlloc {
					continue
				}
				direct := false
				if _, ok := x.Addr.(*ssa.FreeVar); ok {
					direct = true
				}
				rs, _ := a.roots(x.Addr, map[ssa.Value]bool{})
				for _, r := range rs {
					s.add(&Fact{Root: r, Pos: x.Pos(), What: describeAddr(x.Addr), Protected: a.protected(fn, ins, x.Addr), Direct: direct && r.Kind == FreeVar})
				}
			case *ssa.MapUpdate:
				rs, _ := a.roots(x.Map, map[ssa.Value]bool{})
				for _, r := range rs {
					s.add(&Fact{Root: r, Pos: x.Pos(), What: "map update", Protected: a.protected(fn, ins, x.Map)})
				}
			case *ssa.Call:
				if bi, ok := x.Call.Value.(*ssa.Builtin); ok && bi.Name() == "delete" && len(x.Call.Args) > 0 {
					rs, _ := a.roots(x.Call.Args[0], map[ssa.Value]bool{})
					for _, r := range rs {
						s.add(&Fact{Root: r, Pos: x.Pos(), What: "map delete", Protected: a.protected(fn, ins, x.Call.Args[0])})
					}
				}
			case *ssa.Return:
				for _, res := range x.Results {
					if !pointerLike(res.Type()) {
						continue
					}
					rs, _ := a.roots(res, map[ssa.Value]bool{})
					for _, r := range rs {
						s.Rets[r.key()] = r
					}
				}
			}
		}
	}
}

// mayAlias: a value of this type can hold a reference to shared memory.
func mayAlias(t types.Type) bool {
	switch u := t.Underlying().(type) {
	case *types.Pointer, *types.Map, *types.Slice, *types.Interface, *types.Chan, *types.Signature:
		return true
	case *types.Struct:
		for i := 0; i < u.NumFields(); i++ {
			if mayAlias(u.Field(i).Type()) {
				return true
			}
		}
		return false
	case *types.Array:
		return mayAlias(u.Elem())
	case *types.Tuple:
		for i := 0; i < u.Len(); i++ {
			if mayAlias(u.At(i).Type()) {
				return true
			}
		}
		return false
	case *types.Basic:
		return u.Kind() == types.UnsafePointer
	case *types.TypeParam:
		return true
	}
	return true
}

func pointerLike(t types.Type) bool {
	switch t.Underlying().(type) {
	case *types.Pointer, *types.Map, *types.Slice, *types.Interface, *types.Chan, *types.Signature:
		return true
	}
	return false
}

func describeAddr(v ssa.Value) string {
	switch x := v.(type) {
	case *ssa.FieldAddr:
		if st, ok := x.X.Type().Underlying().(*types.Pointer); ok {
			if s, ok := st.Elem().Underlying().(*types.Struct); ok && x.Field < s.NumFields() {
				return "store to field " + s.Field(x.Field).Name()
			}
		}
		return "store to a field"
	case *ssa.IndexAddr:
		return "store to an element"
	case *ssa.FreeVar:
		return "assignment to captured variable " + x.Name()
	case *ssa.Global:
		return "assignment to package variable " + x.Name()
	}
	return "store"
}

// propagate pulls the callees' facts into fn through calls, go statements, defers and closures.
func (a *Analysis) propagate(fn *ssa.Function) bool {
	s := a.Sums[fn]
	changed := false
	for _, b := range fn.Blocks {
		for _, ins := range b.Instrs {
			switch x := ins.(type) {
			case ssa.CallInstruction:
				for _, callee := range a.callees(x) {
					cs := a.SummaryOf(callee)
					if cs == nil {
						continue
					}
					for _, f := range cs.Writes {
						switch f.Root.Kind {
						case Global:
							nf := *f
							nf.Via = append([]string{callee.String()}, f.Via...)
							if s.add(&nf) {
								changed = true
							}
						case Param:
							arg := argOf(x.Common(), callee, f.Root.Index)
							if arg == nil {
								continue
							}
							rs, _ := a.roots(arg, map[ssa.Value]bool{})
							for _, r := range rs {
								nf := Fact{Root: r, Pos: f.Pos, What: f.What, Via: append([]string{callee.String()}, f.Via...), Protected: f.Protected || a.protected(fn, ins, arg)}
								if s.add(&nf) {
									changed = true
								}
							}
						}
					}
				}
			case *ssa.MakeClosure:
				cl, _ := x.Fn.(*ssa.Function)
				cs := a.SummaryOf(cl)
				if cs == nil {
					continue
				}
				for _, f := range cs.Writes {
					switch f.Root.Kind {
					case Global:
						nf := *f
						nf.Via = append([]string{"closure " + cl.Name()}, f.Via...)
						if s.add(&nf) {
							changed = true
						}
					case FreeVar:
						if f.Root.Index >= len(x.Bindings) {
							continue
						}
						bind := x.Bindings[f.Root.Index]
						var rs []Root
						if al, ok := bind.(*ssa.Alloc); ok {
							if f.Direct {
								continue // assigning a cell local to this call
							}
							rs, _ = a.storedInto(al, map[ssa.Value]bool{}) // writes through what the cell holds
						} else {
							rs, _ = a.roots(bind, map[ssa.Value]bool{})
						}
						for _, r := range rs {
							nf := Fact{Root: r, Pos: f.Pos, What: f.What, Via: append([]string{"closure " + cl.Name()}, f.Via...), Protected: f.Protected}
							if s.add(&nf) {
								changed = true
							}
						}
					}
				}
			}
		}
	}
	// return aliases through calls settle in the same fixpoint
	for _, b := range fn.Blocks {
		for _, ins := range b.Instrs {
			if ret, ok := ins.(*ssa.Return); ok {
				for _, res := range ret.Results {
					if !pointerLike(res.Type()) {
						continue
					}
					rs, _ := a.roots(res, map[ssa.Value]bool{})
					for _, r := range rs {
						if _, ok := s.Rets[r.key()]; !ok {
							s.Rets[r.key()] = r
							changed = true
						}
					}
				}
			}
		}
	}
	return changed
}

// protected: a Lock/RLock on a mutex reachable from the same roots as target dominates ins,
// and no explicit Unlock of it lies between.
func (a *Analysis) protected(fn *ssa.Function, ins ssa.Instruction, target ssa.Value) bool {
	troots, _ := a.roots(target, map[ssa.Value]bool{})
	if len(troots) == 0 {
		return false
	}
	tk := map[string]bool{}
	for _, r := range troots {
		tk[r.key()] = true
	}
	sameObj := func(m ssa.Value) bool {
		rs, _ := a.roots(m, map[ssa.Value]bool{})
		for _, r := range rs {
			if tk[r.key()] {
				return true
			}
		}
		return false
	}
	ib := ins.Block()
	locked := false
	for _, b := range fn.Blocks {
		if !b.Dominates(ib) {
			continue
		}
		for _, i2 := range b.Instrs {
			if b == ib && i2 == ins {
				break
			}
			call, ok := i2.(*ssa.Call)
			if !ok {
				continue
			}
			callee := call.Call.StaticCallee()
			if callee == nil || callee.Pkg == nil || callee.Pkg.Pkg.Path() != "sync" {
				continue
			}
			if len(call.Call.Args) == 0 || !sameObj(call.Call.Args[0]) {
				continue
			}
			switch callee.Name() {
			case "Lock", "RLock":
				locked = true
			case "Unlock", "RUnlock":
				locked = false
			}
		}
	}
	return locked
}

// GoSite is a go statement with the summary of what it runs.
type GoSite struct {
	Instr   *ssa.Go
	Fn      *ssa.Function // enclosing function
	InLoop  bool
	Callees []*ssa.Function
}

// GoSites lists the go statements of the module.
func (a *Analysis) GoSites() []*GoSite {
	var out []*GoSite
	for _, fn := range a.Funcs {
		for _, b := range fn.Blocks {
			for _, ins := range b.Instrs {
				g, ok := ins.(*ssa.Go)
				if !ok {
					continue
				}
				gs := &GoSite{Instr: g, Fn: fn, InLoop: inCycle(b)}
				if mc, ok := g.Call.Value.(*ssa.MakeClosure); ok {
					if f, ok := mc.Fn.(*ssa.Function); ok {
						gs.Callees = []*ssa.Function{f}
					}
				} else {
					gs.Callees = a.callees(g)
				}
				out = append(out, gs)
			}
		}
	}
	return out
}

// inCycle: the block can reach itself.
func inCycle(b *ssa.BasicBlock) bool {
	seen := map[*ssa.BasicBlock]bool{}
	var stack []*ssa.BasicBlock
	stack = append(stack, b.Succs...)
	for len(stack) > 0 {
		x := stack[len(stack)-1]
		stack = stack[:len(stack)-1]
		if x == b {
			return true
		}
		if seen[x] {
			continue
		}
		seen[x] = true
		stack = append(stack, x.Succs...)
	}
	return false
}

// BindingInLoop: the captured cell is allocated inside the same loop as the go statement (one per iteration).
func BindingInLoop(g *ssa.Go, idx int) bool {
	mc, ok := g.Call.Value.(*ssa.MakeClosure)
	if !ok || idx >= len(mc.Bindings) {
		return false
	}
	al, ok := mc.Bindings[idx].(*ssa.Alloc)
	if !ok {
		return false
	}
	// allocated in a block that is part of a cycle containing the go statement's block
	ab, gb := al.Block(), g.Block()
	return ab != nil && inCycle(ab) && reaches(ab, gb) && reaches(gb, ab)
}

func reaches(from, to *ssa.BasicBlock) bool {
	if from == to {
		return true
	}
	seen := map[*ssa.BasicBlock]bool{}
	stack := []*ssa.BasicBlock{from}
	for len(stack) > 0 {
		x := stack[len(stack)-1]
		stack = stack[:len(stack)-1]
		if x == to {
			return true
		}
		if seen[x] {
			continue
		}
		seen[x] = true
		stack = append(stack, x.Succs...)
	}
	return false
}

func (a *Analysis) Pos(p token.Pos) token.Position { return a.Prog.Fset.Position(p) }

// ElementStore is a store into a field of an object that the storing function did not allocate
// itself and whose type travels through the module's channels as a pointer.
type ElementStore struct {
	Fn    *ssa.Function
	Pos   token.Pos
	Type  string // element type, e.g. "asset.Snapshot"
	Field string
	From  string // where the pointer came from: "received from a channel", "parameter p", …
}

// ElementStores finds, in the module's functions, stores through pointers of the element types
// (named struct types T such that some channel in the module carries *T) to objects that are not
// allocated in the storing function. Pointers sent on a channel are shared by every consumer of
// every copy of the stream (helper.Duplicate forwards the same pointer), so such a store is a
// write to memory other goroutines read.
func (a *Analysis) ElementStores() []ElementStore {
	// element types
	elem := map[*types.Named]bool{}
	var note func(t types.Type)
	note = func(t types.Type) {
		if ch, ok := t.Underlying().(*types.Chan); ok {
			if p, ok := ch.Elem().(*types.Pointer); ok {
				if n, ok := p.Elem().(*types.Named); ok {
					if _, isStruct := n.Underlying().(*types.Struct); isStruct {
						elem[n.Origin()] = true
					}
				}
			}
		}
	}
	for _, fn := range a.Funcs {
		if !a.inModule(fn) {
			continue
		}
		for _, p := range fn.Params {
			note(p.Type())
		}
		for _, b := range fn.Blocks {
			for _, ins := range b.Instrs {
				if v, ok := ins.(ssa.Value); ok {
					note(v.Type())
				}
			}
		}
	}
	var local func(v ssa.Value, seen map[ssa.Value]bool) (bool, string)
	local = func(v ssa.Value, seen map[ssa.Value]bool) (bool, string) {
		if seen[v] {
			return true, ""
		}
		seen[v] = true
		switch x := v.(type) {
		case *ssa.Alloc:
			return true, ""
		case *ssa.Phi:
			for _, e := range x.Edges {
				if ok, why := local(e, seen); !ok {
					return false, why
				}
			}
			return true, ""
		case *ssa.ChangeType:
			return local(x.X, seen)
		case *ssa.UnOp:
			if x.Op == token.ARROW {
				return false, "received from a channel"
			}
			if x.Op == token.MUL {
				if al, ok := x.X.(*ssa.Alloc); ok {
					// a local variable holding the pointer: everything stored into it must be local
					for _, ref := range *al.Referrers() {
						if st, ok := ref.(*ssa.Store); ok && st.Addr == al {
							if ok, why := local(st.Val, seen); !ok {
								return false, why
							}
						}
					}
					return true, ""
				}
				return false, "loaded from " + x.X.Name()
			}
		case *ssa.Extract:
			if u, ok := x.Tuple.(*ssa.UnOp); ok && u.Op == token.ARROW {
				return false, "received from a channel"
			}
			return false, "a result of " + x.Tuple.Name()
		case *ssa.Parameter:
			// a helper that fills an object handed to it: fine when every caller in the module
			// hands it an object of its own
			fn := x.Parent()
			idx := -1
			for i, p := range fn.Params {
				if p == x {
					idx = i
				}
			}
			node := a.CG.Nodes[fn]
			if idx >= 0 && node != nil && len(node.In) > 0 && fn.Object() != nil && !fn.Object().Exported() {
				all := true
				for _, e := range node.In {
					if e.Site == nil {
						all = false
						break
					}
					arg := argOf(e.Site.Common(), fn, idx)
					if arg == nil {
						all = false
						break
					}
					if ok, _ := local(arg, seen); !ok {
						all = false
						break
					}
				}
				if all {
					return true, ""
				}
			}
			return false, "parameter " + x.Name()
		case *ssa.FreeVar:
			return false, "captured variable " + x.Name()
		case *ssa.Call:
			// a constructor of the module returning a fresh object
			if c := x.Common().StaticCallee(); c != nil {
				if s := a.SummaryOf(c); s != nil && len(s.Rets) == 0 {
					return true, ""
				}
			}
			return false, "the result of a call"
		}
		return false, "a value of unknown origin"
	}
	var out []ElementStore
	for _, fn := range a.Funcs {
		if !a.inModule(fn) {
			continue
		}
		for _, b := range fn.Blocks {
			for _, ins := range b.Instrs {
				st, ok := ins.(*ssa.Store)
				if !ok {
					continue
				}
				fa, ok := st.Addr.(*ssa.FieldAddr)
				if !ok {
					continue
				}
				p, ok := fa.X.Type().(*types.Pointer)
				if !ok {
					continue
				}
				n, ok := p.Elem().(*types.Named)
				if !ok || !elem[n.Origin()] {
					continue
				}
				if isLocal, why := local(fa.X, map[ssa.Value]bool{}); !isLocal {
					fld := ""
					if stt, ok := n.Underlying().(*types.Struct); ok && fa.Field < stt.NumFields() {
						fld = stt.Field(fa.Field).Name()
					}
					out = append(out, ElementStore{Fn: fn, Pos: st.Pos(), Type: n.Obj().Pkg().Name() + "." + n.Obj().Name(), Field: fld, From: why})
				}
			}
		}
	}
	sort.Slice(out, func(i, j int) bool { return out[i].Pos < out[j].Pos })
	return out
}
