// Package sym is a small computer algebra for comparing formulas semantically:
// expressions over named symbols are brought to a canonical rational-function
// form (polynomials with exact rational coefficients; non-polynomial operators
// become uninterpreted atoms over canonical arguments), so that two closures
// computing the same function compare equal whatever their syntax.
package sym

import (
	"fmt"
	"math/big"
	"sort"
	"strings"
)

// Expr is an expression tree.
type Expr interface{ isExpr() }

type Var struct{ Name string }
type Num struct{ V *big.Rat }
type Bin struct {
	Op   string // + - * /
	L, R Expr
}
type Neg struct{ X Expr }
type Call struct {
	Fn   string
	Args []Expr
}
type Cmp struct {
	Op   string // < <= > >= == !=
	L, R Expr
}
type Logic struct {
	Op   string // && || !
	Args []Expr
}
type Ite struct {
	Cond Expr
	A, B Expr
}

func (Var) isExpr()   {}
func (Num) isExpr()   {}
func (Bin) isExpr()   {}
func (Neg) isExpr()   {}
func (Call) isExpr()  {}
func (Cmp) isExpr()   {}
func (Logic) isExpr() {}
func (Ite) isExpr()   {}

func N(i int64) Expr              { return Num{V: big.NewRat(i, 1)} }
func V(name string) Expr          { return Var{Name: name} }
func Add(a, b Expr) Expr          { return Bin{"+", a, b} }
func Sub(a, b Expr) Expr          { return Bin{"-", a, b} }
func Mul(a, b Expr) Expr          { return Bin{"*", a, b} }
func Div(a, b Expr) Expr          { return Bin{"/", a, b} }
func F(fn string, a ...Expr) Expr { return Call{Fn: fn, Args: a} }

// ParseNum parses a Go numeric literal into an exact rational.
func ParseNum(s string) (Expr, bool) {
	r := new(big.Rat)
	if _, ok := r.SetString(strings.ReplaceAll(s, "_", "")); ok {
		return Num{V: r}, true
	}
	return nil, false
}

// ---------------------------------------------------------------------------
// Polynomials.

type mono string // "x^2*y" canonical; "" is the constant monomial

type Poly map[mono]*big.Rat

func pconst(r *big.Rat) Poly {
	if r.Sign() == 0 {
		return Poly{}
	}
	return Poly{"": new(big.Rat).Set(r)}
}

func pvar(name string) Poly { return Poly{mono(name): big.NewRat(1, 1)} }

func (p Poly) clone() Poly {
	q := Poly{}
	for k, v := range p {
		q[k] = new(big.Rat).Set(v)
	}
	return q
}

func padd(a, b Poly, sign int64) Poly {
	r := a.clone()
	for k, v := range b {
		t := new(big.Rat).Set(v)
		if sign < 0 {
			t.Neg(t)
		}
		if old, ok := r[k]; ok {
			old.Add(old, t)
			if old.Sign() == 0 {
				delete(r, k)
			}
		} else if t.Sign() != 0 {
			r[k] = t
		}
	}
	return r
}

func parseMono(m mono) map[string]int {
	r := map[string]int{}
	if m == "" {
		return r
	}
	for _, f := range strings.Split(string(m), "\x1f") {
		name, exp := f, 1
		if i := strings.LastIndex(f, "\x1e"); i >= 0 {
			name = f[:i]
			fmt.Sscan(f[i+1:], &exp)
		}
		r[name] += exp
	}
	return r
}

func makeMono(fs map[string]int) mono {
	var names []string
	for n, e := range fs {
		if e != 0 {
			names = append(names, n)
		}
	}
	sort.Strings(names)
	var parts []string
	for _, n := range names {
		if fs[n] == 1 {
			parts = append(parts, n)
		} else {
			parts = append(parts, fmt.Sprintf("%s\x1e%d", n, fs[n]))
		}
	}
	return mono(strings.Join(parts, "\x1f"))
}

func pmul(a, b Poly) Poly {
	r := Poly{}
	for ka, va := range a {
		fa := parseMono(ka)
		for kb, vb := range b {
			fs := map[string]int{}
			for n, e := range fa {
				fs[n] += e
			}
			for n, e := range parseMono(kb) {
				fs[n] += e
			}
			k := makeMono(fs)
			t := new(big.Rat).Mul(va, vb)
			if old, ok := r[k]; ok {
				old.Add(old, t)
				if old.Sign() == 0 {
					delete(r, k)
				}
			} else if t.Sign() != 0 {
				r[k] = t
			}
		}
	}
	return r
}

func (p Poly) isZero() bool { return len(p) == 0 }

func (p Poly) String() string {
	if len(p) == 0 {
		return "0"
	}
	var ks []string
	for k := range p {
		ks = append(ks, string(k))
	}
	sort.Strings(ks)
	var parts []string
	for _, k := range ks {
		c := p[mono(k)]
		m := strings.ReplaceAll(strings.ReplaceAll(k, "\x1f", "*"), "\x1e", "^")
		switch {
		case m == "":
			parts = append(parts, c.RatString())
		case c.Cmp(big.NewRat(1, 1)) == 0:
			parts = append(parts, m)
		default:
			parts = append(parts, c.RatString()+"*"+m)
		}
	}
	return strings.Join(parts, " + ")
}

// Ratio is num/den.
type Ratio struct{ Num, Den Poly }

func rconst(r *big.Rat) Ratio { return Ratio{pconst(r), pconst(big.NewRat(1, 1))} }

// normalise scales so that the denominator's leading coefficient (in string order) is 1 and
// cancels a constant denominator.
func (r Ratio) normalise() Ratio {
	if len(r.Den) == 1 {
		if c, ok := r.Den[""]; ok {
			inv := new(big.Rat).Inv(c)
			return Ratio{pmul(r.Num, pconst(inv)), pconst(big.NewRat(1, 1))}
		}
	}
	// divide out common monomial factors and make the lexicographically first denominator coefficient 1
	var ks []string
	for k := range r.Den {
		ks = append(ks, string(k))
	}
	sort.Strings(ks)
	if len(ks) > 0 {
		c := r.Den[mono(ks[0])]
		if c.Cmp(big.NewRat(1, 1)) != 0 {
			inv := pconst(new(big.Rat).Inv(c))
			return Ratio{pmul(r.Num, inv), pmul(r.Den, inv)}
		}
	}
	return r
}

func (r Ratio) String() string {
	if len(r.Den) == 1 {
		if c, ok := r.Den[""]; ok && c.Cmp(big.NewRat(1, 1)) == 0 {
			return r.Num.String()
		}
	}
	return "(" + r.Num.String() + ")/(" + r.Den.String() + ")"
}

// ---------------------------------------------------------------------------
// Canonicalisation.

// Canon brings e to rational-function normal form. Uninterpreted operators become atoms
// named by their canonical text.
func Canon(e Expr) Ratio {
	switch x := e.(type) {
	case Num:
		return rconst(x.V)
	case Var:
		return Ratio{pvar(x.Name), pconst(big.NewRat(1, 1))}
	case Neg:
		r := Canon(x.X)
		return Ratio{pmul(r.Num, pconst(big.NewRat(-1, 1))), r.Den}
	case Bin:
		a, b := Canon(x.L), Canon(x.R)
		switch x.Op {
		case "+":
			return Ratio{padd(pmul(a.Num, b.Den), pmul(b.Num, a.Den), 1), pmul(a.Den, b.Den)}.reduce()
		case "-":
			return Ratio{padd(pmul(a.Num, b.Den), pmul(b.Num, a.Den), -1), pmul(a.Den, b.Den)}.reduce()
		case "*":
			return Ratio{pmul(a.Num, b.Num), pmul(a.Den, b.Den)}.reduce()
		case "/":
			return Ratio{pmul(a.Num, b.Den), pmul(a.Den, b.Num)}.reduce()
		}
	case Call:
		if x.Fn == "pow" && len(x.Args) == 2 {
			if k, ok := intConst(x.Args[1]); ok && k >= -6 && k <= 6 {
				b := Canon(x.Args[0])
				r := rconst(big.NewRat(1, 1))
				n := k
				if n < 0 {
					n = -n
				}
				for i := int64(0); i < n; i++ {
					r = Ratio{pmul(r.Num, b.Num), pmul(r.Den, b.Den)}
				}
				if k < 0 {
					r = Ratio{r.Den, r.Num}
				}
				return r.reduce()
			}
		}
		return atom(CanonString(e))
	case Ite:
		return atom(CanonString(e))
	case Cmp, Logic:
		return atom(CanonString(e))
	}
	return atom(fmt.Sprintf("?%T", e))
}

func atom(name string) Ratio { return Ratio{pvar(name), pconst(big.NewRat(1, 1))} }

// reduce cancels when the denominator is a constant or equals a factor trivially.
func (r Ratio) reduce() Ratio {
	if r.Num.isZero() {
		return rconst(new(big.Rat))
	}
	// identical numerator and denominator
	if r.Num.String() == r.Den.String() {
		return rconst(big.NewRat(1, 1))
	}
	// a single-monomial denominator dividing every numerator monomial
	if len(r.Den) == 1 {
		for dk, dc := range r.Den {
			df := parseMono(dk)
			ok := true
			for nk := range r.Num {
				nf := parseMono(nk)
				for n, e := range df {
					if nf[n] < e {
						ok = false
					}
				}
			}
			if ok {
				out := Poly{}
				for nk, nc := range r.Num {
					nf := parseMono(nk)
					for n, e := range df {
						nf[n] -= e
					}
					out[makeMono(nf)] = new(big.Rat).Quo(nc, dc)
				}
				return Ratio{out, pconst(big.NewRat(1, 1))}
			}
		}
	}
	return r.normalise()
}

// Equal: the two expressions denote the same rational function (cross-multiplication).
func Equal(a, b Expr) bool {
	ra, rb := Canon(a), Canon(b)
	l := pmul(ra.Num, rb.Den)
	r := pmul(rb.Num, ra.Den)
	return padd(l, r, -1).isZero()
}

// intConst: e is an integer constant (possibly negated).
func intConst(e Expr) (int64, bool) {
	switch x := e.(type) {
	case Num:
		if x.V.IsInt() && x.V.Num().IsInt64() {
			return x.V.Num().Int64(), true
		}
	case Neg:
		if k, ok := intConst(x.X); ok {
			return -k, true
		}
	}
	r := Canon0(e)
	if r != nil && r.IsInt() && r.Num().IsInt64() {
		return r.Num().Int64(), true
	}
	return 0, false
}

// Canon0 folds a closed arithmetic expression to a constant (nil if it is not one).
func Canon0(e Expr) *big.Rat {
	switch x := e.(type) {
	case Num:
		return x.V
	case Neg:
		if v := Canon0(x.X); v != nil {
			return new(big.Rat).Neg(v)
		}
	case Bin:
		l, r := Canon0(x.L), Canon0(x.R)
		if l == nil || r == nil {
			return nil
		}
		switch x.Op {
		case "+":
			return new(big.Rat).Add(l, r)
		case "-":
			return new(big.Rat).Sub(l, r)
		case "*":
			return new(big.Rat).Mul(l, r)
		case "/":
			if r.Sign() != 0 {
				return new(big.Rat).Quo(l, r)
			}
		}
	}
	return nil
}

// CanonString is a canonical text of e (arguments of uninterpreted operators are canonicalised
// recursively; commutative operators sort their arguments).
func CanonString(e Expr) string {
	switch x := e.(type) {
	case Num, Var, Bin, Neg:
		return Canon(e).String()
	case Call:
		var as []string
		var collect func(args []Expr)
		collect = func(args []Expr) {
			for _, a := range args {
				// max(a, max(b, c)) = max(a, b, c)
				if c, ok := a.(Call); ok && c.Fn == x.Fn && (x.Fn == "max" || x.Fn == "min") {
					collect(c.Args)
					continue
				}
				as = append(as, CanonString(a))
			}
		}
		collect(x.Args)
		switch x.Fn {
		case "max", "min":
			sort.Strings(as)
		}
		return x.Fn + "(" + strings.Join(as, ", ") + ")"
	case Cmp:
		// normalise to (L - R) op 0 with op in {<, <=, ==, !=}
		d := Sub(x.L, x.R)
		op := x.Op
		switch op {
		case ">":
			d, op = Sub(x.R, x.L), "<"
		case ">=":
			d, op = Sub(x.R, x.L), "<="
		}
		r := Canon(d)
		s := r.String()
		if op == "==" || op == "!=" {
			// sign-insensitive
			n := Canon(Neg{d}).String()
			if n < s {
				s = n
			}
		}
		return "[" + s + " " + op + " 0]"
	case Logic:
		var as []string
		for _, a := range x.Args {
			as = append(as, CanonString(a))
		}
		if x.Op != "!" {
			sort.Strings(as)
		}
		return x.Op + "(" + strings.Join(as, ", ") + ")"
	case Ite:
		return "ite(" + CanonString(x.Cond) + "; " + CanonString(x.A) + "; " + CanonString(x.B) + ")"
	}
	return fmt.Sprintf("?%T", e)
}

// Subst replaces variables.
func Subst(e Expr, m map[string]Expr) Expr {
	switch x := e.(type) {
	case Var:
		if r, ok := m[x.Name]; ok {
			return r
		}
		return x
	case Num:
		return x
	case Neg:
		return Neg{Subst(x.X, m)}
	case Bin:
		return Bin{x.Op, Subst(x.L, m), Subst(x.R, m)}
	case Call:
		as := make([]Expr, len(x.Args))
		for i, a := range x.Args {
			as[i] = Subst(a, m)
		}
		return Call{x.Fn, as}
	case Cmp:
		return Cmp{x.Op, Subst(x.L, m), Subst(x.R, m)}
	case Logic:
		as := make([]Expr, len(x.Args))
		for i, a := range x.Args {
			as[i] = Subst(a, m)
		}
		return Logic{x.Op, as}
	case Ite:
		return Ite{Subst(x.Cond, m), Subst(x.A, m), Subst(x.B, m)}
	}
	return e
}

// Vars collects the variable names of e.
func Vars(e Expr, into map[string]bool) {
	switch x := e.(type) {
	case Var:
		into[x.Name] = true
	case Neg:
		Vars(x.X, into)
	case Bin:
		Vars(x.L, into)
		Vars(x.R, into)
	case Call:
		for _, a := range x.Args {
			Vars(a, into)
		}
	case Cmp:
		Vars(x.L, into)
		Vars(x.R, into)
	case Logic:
		for _, a := range x.Args {
			Vars(a, into)
		}
	case Ite:
		Vars(x.Cond, into)
		Vars(x.A, into)
		Vars(x.B, into)
	}
}

// String renders e readably.
func String(e Expr) string {
	switch x := e.(type) {
	case Var:
		return x.Name
	case Num:
		return x.V.RatString()
	case Neg:
		return "-(" + String(x.X) + ")"
	case Bin:
		return "(" + String(x.L) + " " + x.Op + " " + String(x.R) + ")"
	case Call:
		var as []string
		for _, a := range x.Args {
			as = append(as, String(a))
		}
		return x.Fn + "(" + strings.Join(as, ", ") + ")"
	case Cmp:
		return "(" + String(x.L) + " " + x.Op + " " + String(x.R) + ")"
	case Logic:
		var as []string
		for _, a := range x.Args {
			as = append(as, String(a))
		}
		if x.Op == "!" {
			return "!" + as[0]
		}
		return "(" + strings.Join(as, " "+x.Op+" ") + ")"
	case Ite:
		return "ite(" + String(x.Cond) + ", " + String(x.A) + ", " + String(x.B) + ")"
	}
	return "?"
}

// ---------------------------------------------------------------------------
// Access to the normal form for provers: atoms are registered with their expression.

// CanonReg is Canon, additionally recording every atom (uninterpreted operator application,
// conditional, plain variable) of the top-level normal form by its name.
func CanonReg(e Expr, reg map[string]Expr) Ratio {
	r := Canon(e)
	if reg != nil {
		registerAtoms(e, reg)
	}
	return r
}

func registerAtoms(e Expr, reg map[string]Expr) {
	switch x := e.(type) {
	case Var:
		reg[x.Name] = x
	case Neg:
		registerAtoms(x.X, reg)
	case Bin:
		registerAtoms(x.L, reg)
		registerAtoms(x.R, reg)
	case Call:
		if x.Fn == "pow" && len(x.Args) == 2 {
			if k, ok := intConst(x.Args[1]); ok && k >= -6 && k <= 6 {
				registerAtoms(x.Args[0], reg)
				return
			}
		}
		reg[CanonString(e)] = e
	case Ite, Cmp, Logic:
		reg[CanonString(e)] = e
	}
}

// Term is one monomial of a polynomial: Coef * prod(atom^power).
type Term struct {
	Coef    *big.Rat
	Factors map[string]int
}

// Terms lists the monomials of p in a deterministic order.
func (p Poly) Terms() []Term {
	var ks []string
	for k := range p {
		ks = append(ks, string(k))
	}
	sort.Strings(ks)
	var out []Term
	for _, k := range ks {
		out = append(out, Term{Coef: p[mono(k)], Factors: parseMono(mono(k))})
	}
	return out
}

// MonoKey is the canonical key of a monomial.
func MonoKey(fs map[string]int) string { return string(makeMono(fs)) }

func PConst(r *big.Rat) Poly          { return pconst(r) }
func PAtom(name string) Poly          { return pvar(name) }
func PAdd(a, b Poly, sign int64) Poly { return padd(a, b, sign) }
func PMul(a, b Poly) Poly             { return pmul(a, b) }
func (p Poly) IsZero() bool           { return len(p) == 0 }
func (p Poly) Key() string            { return p.String() }

// IsConstDen: the denominator is the constant 1 (after normalisation).
func (r Ratio) IsConstDen() bool {
	if len(r.Den) == 1 {
		if c, ok := r.Den[""]; ok && c.Cmp(big.NewRat(1, 1)) == 0 {
			return true
		}
	}
	return false
}

// Subst2 replaces every occurrence of the atom whose canonical text is name by with.
func Subst2(e Expr, name string, with Expr) Expr {
	switch x := e.(type) {
	case Var:
		if x.Name == name {
			return with
		}
		return x
	case Num:
		return x
	case Neg:
		return Neg{X: Subst2(x.X, name, with)}
	case Bin:
		return Bin{Op: x.Op, L: Subst2(x.L, name, with), R: Subst2(x.R, name, with)}
	case Cmp:
		return Cmp{Op: x.Op, L: Subst2(x.L, name, with), R: Subst2(x.R, name, with)}
	case Logic:
		as := make([]Expr, len(x.Args))
		for i, a := range x.Args {
			as[i] = Subst2(a, name, with)
		}
		return Logic{Op: x.Op, Args: as}
	case Ite:
		if CanonString(e) == name {
			return with
		}
		return Ite{Cond: Subst2(x.Cond, name, with), A: Subst2(x.A, name, with), B: Subst2(x.B, name, with)}
	case Call:
		if CanonString(e) == name {
			return with
		}
		as := make([]Expr, len(x.Args))
		for i, a := range x.Args {
			as[i] = Subst2(a, name, with)
		}
		return Call{Fn: x.Fn, Args: as}
	}
	return e
}

// ExpandPow rewrites pow(x, k) with a small whole k >= 1 into the product x*x*...*x everywhere
// in e (also inside the arguments of other operators), so that x*x and pow(x, 2) are one term.
func ExpandPow(e Expr) Expr {
	switch x := e.(type) {
	case Bin:
		return Bin{x.Op, ExpandPow(x.L), ExpandPow(x.R)}
	case Neg:
		return Neg{ExpandPow(x.X)}
	case Call:
		args := make([]Expr, len(x.Args))
		for i, a := range x.Args {
			args[i] = ExpandPow(a)
		}
		if x.Fn == "pow" && len(args) == 2 {
			if k, ok := intConst(args[1]); ok && k >= 1 && k <= 6 {
				out := args[0]
				for i := int64(1); i < k; i++ {
					out = Bin{"*", out, args[0]}
				}
				return out
			}
		}
		return Call{Fn: x.Fn, Args: args}
	case Cmp:
		return Cmp{x.Op, ExpandPow(x.L), ExpandPow(x.R)}
	case Logic:
		args := make([]Expr, len(x.Args))
		for i, a := range x.Args {
			args[i] = ExpandPow(a)
		}
		return Logic{Op: x.Op, Args: args}
	case Ite:
		return Ite{ExpandPow(x.Cond), ExpandPow(x.A), ExpandPow(x.B)}
	}
	return e
}
