package load

import (
	"go/ast"
	"go/constant"
	"go/token"
	"go/types"
	"strings"

	"golang.org/x/tools/go/packages"
)

// Normalize rewrites, in place and after type checking, a few statement forms of the module's
// non-test files into the equivalent forms the analyses are written for, so that a
// behaviour-preserving change of style does not change any verdict:
//
//	if v, ok := <-c; !ok { … }            ->  v, ok := <-c; if !ok { … }        (if with an init statement)
//	… else if x := f(); c { … }           ->  … else { x := f(); if c { … } }
//	for i := range n / for range n        ->  for i := 0; i < n; i++            (n an integer without calls)
//	switch { case a: A; case b: B; default: D }  ->  if a { A } else if b { B } else { D }
//	for … { if c { continue }; R }        ->  for … { if !c { R } }
//	go func() { …; for … { … return … } }()  ->  … break …   (the loop is the last statement, the return
//	                                            is not inside a nested loop/switch/select)
//
// Synthesised expressions get their type recorded in the package's types.Info. The rewriting is
// idempotent. SSA, where needed, is built before this runs.
func Normalize(p *Program) {
	for _, pk := range p.Pkgs {
		for _, f := range pk.Syntax {
			if strings.HasSuffix(p.Fset.Position(f.Pos()).Filename, "_test.go") {
				continue
			}
			n := &normalizer{pk: pk}
			ast.Inspect(f, func(nd ast.Node) bool {
				switch x := nd.(type) {
				case *ast.FuncDecl:
					if x.Body != nil && x.Type.Results == nil {
						n.tailIf(x.Body)
						n.funcBody(x.Body)
					}
				case *ast.FuncLit:
					if x.Type.Results == nil {
						n.tailIf(x.Body)
						n.funcBody(x.Body)
					}
				}
				return true
			})
			// blocks are rewritten bottom-up in a second traversal
			ast.Inspect(f, func(nd ast.Node) bool {
				switch x := nd.(type) {
				case *ast.BlockStmt:
					x.List = n.list(x.List, false)
				case *ast.CaseClause:
					x.Body = n.list(x.Body, false)
				case *ast.CommClause:
					x.Body = n.list(x.Body, false)
				}
				return true
			})
			// loop bodies: continue-guards
			ast.Inspect(f, func(nd ast.Node) bool {
				switch x := nd.(type) {
				case *ast.ForStmt:
					x.Body.List = n.continueGuards(x.Body.List)
				case *ast.RangeStmt:
					x.Body.List = n.continueGuards(x.Body.List)
				}
				return true
			})
			// range over an integer (after the block rewriting, which may have produced new blocks)
			n.rangeOverInt(f)
			n.countDown(f)
			n.ringDrain(f)
		}
	}
}

type normalizer struct {
	pk *packages.Package
}

func (n *normalizer) info() *types.Info { return n.pk.TypesInfo }

func (n *normalizer) setBool(e ast.Expr) {
	n.info().Types[e] = types.TypeAndValue{Type: types.Typ[types.Bool]}
}

// list rewrites one statement list.
func (n *normalizer) list(in []ast.Stmt, _ bool) []ast.Stmt {
	var out []ast.Stmt
	for _, s := range in {
		switch x := s.(type) {
		case *ast.IfStmt:
			n.elseInits(x)
			if x.Init != nil {
				out = append(out, x.Init)
				x.Init = nil
			}
			out = append(out, x)
		case *ast.SwitchStmt:
			if conv := n.taglessSwitch(x); conv != nil {
				out = append(out, conv...)
			} else {
				out = append(out, x)
			}
		case *ast.LabeledStmt:
			out = append(out, x)
		default:
			out = append(out, s)
		}
	}
	return out
}

// elseInits: `else if init; cond {…}` becomes `else { init; if cond {…} }` down the chain.
func (n *normalizer) elseInits(is *ast.IfStmt) {
	for cur := is; cur != nil; {
		next, ok := cur.Else.(*ast.IfStmt)
		if !ok {
			return
		}
		if next.Init != nil {
			init := next.Init
			next.Init = nil
			cur.Else = &ast.BlockStmt{Lbrace: next.Pos(), List: []ast.Stmt{init, next}, Rbrace: next.End()}
			n.elseInits(next)
			return
		}
		cur = next
	}
}

// taglessSwitch converts `switch { case …: }` without fallthrough into an if chain.
func (n *normalizer) taglessSwitch(sw *ast.SwitchStmt) []ast.Stmt {
	var tag ast.Expr
	if sw.Tag != nil {
		// `switch v { case a: … case b: … }` over variables (no constants, no calls) is the chain
		// `if v == a {…} else if v == b {…}`: the cases are compared in order, as written
		if !n.plainOperand(sw.Tag) {
			return nil
		}
		nonConst := false
		for _, c := range sw.Body.List {
			cc, ok := c.(*ast.CaseClause)
			if !ok {
				return nil
			}
			for _, e := range cc.List {
				if !n.plainOperand(e) {
					return nil
				}
				if tv, ok := n.info().Types[e]; !ok || tv.Value == nil {
					nonConst = true
				}
			}
		}
		if !nonConst {
			return nil // a switch over named constants is a decision table the analyses read as such
		}
		tag = sw.Tag
	}
	var clauses []*ast.CaseClause
	var def *ast.CaseClause
	for _, c := range sw.Body.List {
		cc, ok := c.(*ast.CaseClause)
		if !ok {
			return nil
		}
		for _, s := range cc.Body {
			if b, ok := s.(*ast.BranchStmt); ok && (b.Tok == token.FALLTHROUGH || b.Tok == token.BREAK) {
				return nil // break inside a switch leaves the switch; keep the original
			}
		}
		if hasUnlabelledBreak(cc.Body) {
			return nil
		}
		if cc.List == nil {
			def = cc
		} else {
			clauses = append(clauses, cc)
		}
	}
	if def != nil && len(sw.Body.List) > 0 && sw.Body.List[len(sw.Body.List)-1] != ast.Stmt(def) {
		return nil // default not last: evaluation order of the conditions would still be right, keep it simple
	}
	var out []ast.Stmt
	if sw.Init != nil {
		out = append(out, sw.Init)
	}
	if len(clauses) == 0 {
		if def != nil {
			out = append(out, &ast.BlockStmt{Lbrace: def.Pos(), List: def.Body, Rbrace: def.End()})
		}
		return out
	}
	var first, cur *ast.IfStmt
	for _, cc := range clauses {
		test := func(e ast.Expr) ast.Expr {
			if tag == nil {
				return e
			}
			eq := &ast.BinaryExpr{X: tag, OpPos: e.Pos(), Op: token.EQL, Y: e}
			n.setBool(eq)
			return eq
		}
		cond := test(cc.List[0])
		for _, more := range cc.List[1:] {
			or := &ast.BinaryExpr{X: cond, OpPos: more.Pos(), Op: token.LOR, Y: test(more)}
			n.setBool(or)
			cond = or
		}
		is := &ast.IfStmt{If: cc.Pos(), Cond: cond, Body: &ast.BlockStmt{Lbrace: cc.Colon, List: cc.Body, Rbrace: cc.End()}}
		if first == nil {
			first = is
		} else {
			cur.Else = is
		}
		cur = is
	}
	if def != nil {
		cur.Else = &ast.BlockStmt{Lbrace: def.Colon, List: def.Body, Rbrace: def.End()}
	}
	return append(out, first)
}

func containsBranch(list []ast.Stmt, tok token.Token) bool {
	found := false
	for _, s := range list {
		ast.Inspect(s, func(nd ast.Node) bool {
			switch x := nd.(type) {
			case *ast.BranchStmt:
				if x.Tok == tok {
					found = true
				}
			case *ast.FuncLit:
				return false
			}
			return !found
		})
	}
	return found
}

func hasUnlabelledBreak(list []ast.Stmt) bool {
	found := false
	for _, s := range list {
		ast.Inspect(s, func(nd ast.Node) bool {
			switch x := nd.(type) {
			case *ast.BranchStmt:
				if x.Tok == token.BREAK && x.Label == nil {
					found = true
				}
			case *ast.ForStmt, *ast.RangeStmt, *ast.SwitchStmt, *ast.TypeSwitchStmt, *ast.SelectStmt, *ast.FuncLit:
				return false // a break in there does not refer to the switch being converted
			}
			return !found
		})
	}
	return found
}

// not returns the negation of c, reusing the operand of an existing negation.
func (n *normalizer) not(c ast.Expr) ast.Expr {
	inner := c
	for {
		p, ok := inner.(*ast.ParenExpr)
		if !ok {
			break
		}
		inner = p.X
	}
	if u, ok := inner.(*ast.UnaryExpr); ok && u.Op == token.NOT {
		return u.X
	}
	var operand ast.Expr
	switch inner.(type) {
	case *ast.Ident, *ast.CallExpr, *ast.SelectorExpr, *ast.IndexExpr:
		operand = inner // `!ok`, `!ring.IsFull()`: no parentheses needed
	default:
		p := &ast.ParenExpr{Lparen: c.Pos(), X: c, Rparen: c.End()}
		if tv, ok := n.info().Types[c]; ok {
			n.info().Types[p] = tv
		} else {
			n.setBool(p)
		}
		operand = p
	}
	u := &ast.UnaryExpr{OpPos: c.Pos(), Op: token.NOT, X: operand}
	n.setBool(u)
	return u
}

// continueGuards: `if c { continue }` followed by R becomes `if !c { R }` (loop body lists only);
// `if c { A; continue }` followed by an R that ends in break/return becomes `if !c { R }; A`.
func (n *normalizer) continueGuards(list []ast.Stmt) []ast.Stmt {
	for i, s := range list {
		if is, ok := s.(*ast.IfStmt); ok && is.Else == nil && is.Init == nil && len(is.Body.List) >= 2 && i < len(list)-1 {
			if b, ok := is.Body.List[len(is.Body.List)-1].(*ast.BranchStmt); ok && b.Tok == token.CONTINUE && b.Label == nil {
				rest := list[i+1:]
				exits := false
				switch e := rest[len(rest)-1].(type) {
				case *ast.BranchStmt:
					exits = e.Tok == token.BREAK && e.Label == nil
				case *ast.ReturnStmt:
					exits = true
				}
				if exits && !containsBranch(is.Body.List[:len(is.Body.List)-1], token.CONTINUE) {
					guard := &ast.IfStmt{If: is.If, Cond: n.not(is.Cond), Body: &ast.BlockStmt{Lbrace: rest[0].Pos(), List: append([]ast.Stmt{}, rest...), Rbrace: rest[len(rest)-1].End()}}
					out := append(append([]ast.Stmt{}, list[:i]...), guard)
					out = append(out, is.Body.List[:len(is.Body.List)-1]...)
					return n.continueGuards(out)
				}
			}
		}
		is, ok := s.(*ast.IfStmt)
		if !ok || is.Else != nil || is.Init != nil || len(is.Body.List) != 1 || i == len(list)-1 {
			continue
		}
		b, ok := is.Body.List[0].(*ast.BranchStmt)
		if !ok || b.Tok != token.CONTINUE || b.Label != nil {
			continue
		}
		rest := n.continueGuards(append([]ast.Stmt{}, list[i+1:]...))
		// declarations in R stay visible inside the new block only: nothing after R exists
		guard := &ast.IfStmt{If: is.If, Cond: n.not(is.Cond), Body: &ast.BlockStmt{Lbrace: is.Body.Lbrace, List: rest, Rbrace: list[len(list)-1].End()}}
		return append(append([]ast.Stmt{}, list[:i]...), guard)
	}
	return list
}

// tailIf: in a function without results whose last statement is `if c { R }` (no else), the body
// is equivalent to `if !c { return }; R` - the early-return form the analyses are written for.
func (n *normalizer) tailIf(body *ast.BlockStmt) {
	for iter := 0; iter < 8; iter++ {
		if body == nil || len(body.List) == 0 {
			return
		}
		last, ok := body.List[len(body.List)-1].(*ast.IfStmt)
		if !ok || last.Else != nil || len(last.Body.List) == 0 {
			return
		}
		// only for receive checks and the like: the condition must be a plain identifier or its negation
		c := last.Cond
		for {
			p, isP := c.(*ast.ParenExpr)
			if !isP {
				break
			}
			c = p.X
		}
		if _, isID := c.(*ast.Ident); !isID {
			return
		}
		var pre []ast.Stmt
		pre = append(pre, body.List[:len(body.List)-1]...)
		if last.Init != nil {
			pre = append(pre, last.Init)
		}
		guard := &ast.IfStmt{If: last.If, Cond: n.not(last.Cond), Body: &ast.BlockStmt{Lbrace: last.Body.Lbrace, List: []ast.Stmt{&ast.ReturnStmt{Return: last.Body.Lbrace}}, Rbrace: last.Body.Lbrace}}
		body.List = append(append(pre, guard), last.Body.List...)
	}
}

// funcBody: in a function literal or declaration without results whose last statement is a loop,
// a bare `return` inside that loop (outside nested loops, switches, selects and literals) leaves
// the loop exactly as `break` does.
func (n *normalizer) funcBody(body *ast.BlockStmt) {
	if body == nil || len(body.List) == 0 {
		return
	}
	var loopBody *ast.BlockStmt
	switch l := body.List[len(body.List)-1].(type) {
	case *ast.ForStmt:
		loopBody = l.Body
	case *ast.RangeStmt:
		loopBody = l.Body
	default:
		return
	}
	var walk func(list []ast.Stmt)
	walk = func(list []ast.Stmt) {
		for i, s := range list {
			switch x := s.(type) {
			case *ast.ReturnStmt:
				if len(x.Results) == 0 {
					list[i] = &ast.BranchStmt{TokPos: x.Pos(), Tok: token.BREAK}
				}
			case *ast.IfStmt:
				for cur := x; cur != nil; {
					walk(cur.Body.List)
					switch e := cur.Else.(type) {
					case *ast.IfStmt:
						cur = e
					case *ast.BlockStmt:
						walk(e.List)
						cur = nil
					default:
						cur = nil
					}
				}
			case *ast.BlockStmt:
				walk(x.List)
			}
		}
	}
	walk(loopBody.List)
}

// rangeOverInt: `for i := range n` with an integer n that contains no call becomes a counted loop.
func (n *normalizer) rangeOverInt(f *ast.File) {
	info := n.info()
	replace := func(list []ast.Stmt) {
		for i, s := range list {
			rs, ok := s.(*ast.RangeStmt)
			if !ok || rs.Value != nil {
				continue
			}
			t := info.TypeOf(rs.X)
			if t == nil {
				continue
			}
			bt, ok := t.Underlying().(*types.Basic)
			if !ok || bt.Info()&types.IsInteger == 0 {
				continue
			}
			pure := true
			ast.Inspect(rs.X, func(nd ast.Node) bool {
				if _, isCall := nd.(*ast.CallExpr); isCall {
					if tv, ok := info.Types[nd.(*ast.CallExpr).Fun]; !ok || !tv.IsType() {
						pure = false
					}
				}
				return pure
			})
			if !pure {
				continue
			}
			var key *ast.Ident
			var keyObj types.Object
			if k, ok := rs.Key.(*ast.Ident); ok && k.Name != "_" && rs.Tok == token.DEFINE {
				key = k
				keyObj = info.Defs[k]
			} else if rs.Key == nil || (ok && k.Name == "_") {
				key = &ast.Ident{NamePos: rs.For, Name: "rangeIndex"}
				keyObj = types.NewVar(rs.For, n.pk.Types, "rangeIndex", t)
				info.Defs[key] = keyObj
			} else {
				continue // assigns to an existing variable: leave
			}
			use := func() *ast.Ident {
				id := &ast.Ident{NamePos: rs.For, Name: key.Name}
				info.Uses[id] = keyObj
				info.Types[id] = types.TypeAndValue{Type: t}
				return id
			}
			zero := &ast.BasicLit{ValuePos: rs.For, Kind: token.INT, Value: "0"}
			info.Types[zero] = types.TypeAndValue{Type: t, Value: constant.MakeInt64(0)}
			cond := &ast.BinaryExpr{X: use(), OpPos: rs.For, Op: token.LSS, Y: rs.X}
			n.setBool(cond)
			list[i] = &ast.ForStmt{
				For:  rs.For,
				Init: &ast.AssignStmt{Lhs: []ast.Expr{key}, TokPos: rs.For, Tok: token.DEFINE, Rhs: []ast.Expr{zero}},
				Cond: cond,
				Post: &ast.IncDecStmt{X: use(), TokPos: rs.For, Tok: token.INC},
				Body: rs.Body,
			}
		}
	}
	ast.Inspect(f, func(nd ast.Node) bool {
		switch x := nd.(type) {
		case *ast.BlockStmt:
			replace(x.List)
		case *ast.CaseClause:
			replace(x.Body)
		case *ast.CommClause:
			replace(x.Body)
		}
		return true
	})
}

// countDown: `for r := N; r > 0; r--` whose body does not mention r runs exactly as often as
// `for r := 0; r < N; r++` (N an integer expression without calls, not assigned in the body).
func (n *normalizer) countDown(f *ast.File) {
	info := n.info()
	ast.Inspect(f, func(nd ast.Node) bool {
		fs, ok := nd.(*ast.ForStmt)
		if !ok || fs.Init == nil || fs.Cond == nil || fs.Post == nil {
			return true
		}
		init, ok := fs.Init.(*ast.AssignStmt)
		if !ok || init.Tok != token.DEFINE || len(init.Lhs) != 1 || len(init.Rhs) != 1 {
			return true
		}
		v, ok := init.Lhs[0].(*ast.Ident)
		if !ok {
			return true
		}
		obj := info.Defs[v]
		post, ok := fs.Post.(*ast.IncDecStmt)
		if !ok || post.Tok != token.DEC {
			return true
		}
		if pid, ok := post.X.(*ast.Ident); !ok || info.Uses[pid] != obj {
			return true
		}
		cond, ok := fs.Cond.(*ast.BinaryExpr)
		if !ok {
			return true
		}
		isV := func(e ast.Expr) bool { id, ok := e.(*ast.Ident); return ok && info.Uses[id] == obj }
		isConst := func(e ast.Expr, k int64) bool {
			tv, ok := info.Types[e]
			if !ok || tv.Value == nil {
				return false
			}
			c, exact := constant.Int64Val(tv.Value)
			return exact && c == k
		}
		down := (cond.Op == token.GTR && isV(cond.X) && isConst(cond.Y, 0)) || (cond.Op == token.GEQ && isV(cond.X) && isConst(cond.Y, 1)) ||
			(cond.Op == token.LSS && isConst(cond.X, 0) && isV(cond.Y)) || (cond.Op == token.NEQ && false)
		if !down {
			return true
		}
		bound := init.Rhs[0]
		t := info.TypeOf(bound)
		if bt, ok := t.Underlying().(*types.Basic); !ok || bt.Info()&types.IsInteger == 0 {
			return true
		}
		pure := true
		mentioned := map[types.Object]bool{}
		ast.Inspect(bound, func(m ast.Node) bool {
			switch y := m.(type) {
			case *ast.CallExpr:
				if tv, ok := info.Types[y.Fun]; !ok || !tv.IsType() {
					pure = false
				}
			case *ast.Ident:
				if o := info.Uses[y]; o != nil {
					mentioned[o] = true
				}
			}
			return pure
		})
		if !pure {
			return true
		}
		used := false
		ast.Inspect(fs.Body, func(m ast.Node) bool {
			switch y := m.(type) {
			case *ast.Ident:
				if info.Uses[y] == obj {
					used = true
				}
			case *ast.AssignStmt:
				for _, l := range y.Lhs {
					if id, ok := l.(*ast.Ident); ok && mentioned[info.ObjectOf(id)] {
						used = true
					}
				}
			case *ast.IncDecStmt:
				if id, ok := y.X.(*ast.Ident); ok && mentioned[info.ObjectOf(id)] {
					used = true
				}
			}
			return !used
		})
		if used {
			return true
		}
		use := func() *ast.Ident {
			id := &ast.Ident{NamePos: fs.For, Name: v.Name}
			info.Uses[id] = obj
			info.Types[id] = types.TypeAndValue{Type: t}
			return id
		}
		zero := &ast.BasicLit{ValuePos: fs.For, Kind: token.INT, Value: "0"}
		info.Types[zero] = types.TypeAndValue{Type: t, Value: constant.MakeInt64(0)}
		init.Rhs[0] = zero
		nc := &ast.BinaryExpr{X: use(), OpPos: fs.For, Op: token.LSS, Y: bound}
		n.setBool(nc)
		fs.Cond = nc
		fs.Post = &ast.IncDecStmt{X: use(), TokPos: fs.For, Tok: token.INC}
		return true
	})
}

// ringDrain: `for { v, ok := r.Get(); if !ok { break }; BODY }` on a helper.Ring, where ok is not
// used in BODY, is `for !r.IsEmpty() { v, _ := r.Get(); BODY }`: Get reports false exactly when
// the ring is empty.
func (n *normalizer) ringDrain(f *ast.File) {
	info := n.info()
	ast.Inspect(f, func(nd ast.Node) bool {
		fs, ok := nd.(*ast.ForStmt)
		if !ok || fs.Init != nil || fs.Cond != nil || fs.Post != nil || len(fs.Body.List) < 2 {
			return true
		}
		as, ok := fs.Body.List[0].(*ast.AssignStmt)
		if !ok || as.Tok != token.DEFINE || len(as.Lhs) != 2 || len(as.Rhs) != 1 {
			return true
		}
		call, ok := as.Rhs[0].(*ast.CallExpr)
		if !ok || len(call.Args) != 0 {
			return true
		}
		sel, ok := call.Fun.(*ast.SelectorExpr)
		if !ok || sel.Sel.Name != "Get" {
			return true
		}
		rt := info.TypeOf(sel.X)
		if rt == nil {
			return true
		}
		named := rt
		if p, isPtr := rt.(*types.Pointer); isPtr {
			named = p.Elem()
		}
		nt, isNamed := named.(*types.Named)
		if !isNamed || nt.Obj().Name() != "Ring" || nt.Obj().Pkg() == nil || !strings.HasSuffix(nt.Obj().Pkg().Path(), "/helper") {
			return true
		}
		okID, isID := as.Lhs[1].(*ast.Ident)
		if !isID || okID.Name == "_" {
			return true
		}
		okObj := info.Defs[okID]
		// second statement: if !ok { break }   (the normaliser has already split if-inits)
		is, isIf := fs.Body.List[1].(*ast.IfStmt)
		if !isIf || is.Else != nil || is.Init != nil || len(is.Body.List) != 1 {
			return true
		}
		br, isBr := is.Body.List[0].(*ast.BranchStmt)
		if !isBr || br.Tok != token.BREAK || br.Label != nil {
			return true
		}
		u, isNot := is.Cond.(*ast.UnaryExpr)
		if !isNot || u.Op != token.NOT {
			return true
		}
		if cid, ok := u.X.(*ast.Ident); !ok || info.Uses[cid] != okObj {
			return true
		}
		used := false
		for _, s := range fs.Body.List[2:] {
			ast.Inspect(s, func(m ast.Node) bool {
				if id, ok := m.(*ast.Ident); ok && info.Uses[id] == okObj {
					used = true
				}
				return !used
			})
		}
		if used {
			return true
		}
		// the receiver expression must be a plain variable (evaluated twice now)
		if _, plain := sel.X.(*ast.Ident); !plain {
			return true
		}
		obj, _, _ := types.LookupFieldOrMethod(rt, true, n.pk.Types, "IsEmpty")
		m, isFn := obj.(*types.Func)
		if !isFn {
			return true
		}
		recv := &ast.Ident{NamePos: fs.For, Name: sel.X.(*ast.Ident).Name}
		info.Uses[recv] = info.Uses[sel.X.(*ast.Ident)]
		info.Types[recv] = info.Types[sel.X]
		name := &ast.Ident{NamePos: fs.For, Name: "IsEmpty"}
		info.Uses[name] = m
		msel := &ast.SelectorExpr{X: recv, Sel: name}
		info.Types[msel] = types.TypeAndValue{Type: m.Type()}
		if s0, ok := info.Selections[sel]; ok {
			_ = s0
		}
		ic := &ast.CallExpr{Fun: msel, Lparen: fs.For, Rparen: fs.For}
		n.setBool(ic)
		cond := &ast.UnaryExpr{OpPos: fs.For, Op: token.NOT, X: ic}
		n.setBool(cond)
		fs.Cond = cond
		as.Lhs[1] = &ast.Ident{NamePos: okID.Pos(), Name: "_"}
		fs.Body.List = append([]ast.Stmt{as}, fs.Body.List[2:]...)
		return true
	})
}

// plainOperand: an identifier, a constant or a field selection chain (no calls, no indexing): it
// can be evaluated any number of times.
func (n *normalizer) plainOperand(e ast.Expr) bool {
	switch x := e.(type) {
	case *ast.Ident, *ast.BasicLit:
		return true
	case *ast.ParenExpr:
		return n.plainOperand(x.X)
	case *ast.SelectorExpr:
		return n.plainOperand(x.X)
	}
	return false
}
