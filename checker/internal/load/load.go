// Package load type-checks /repo's current working tree and indexes its
// declarations. Nothing is executed; a load that yields no packages, a type
// error or a missing anchor is a broken check, never a pass.
package load

import (
	"fmt"
	"go/ast"
	"go/token"
	"go/types"
	"os"
	"sort"
	"strings"

	"golang.org/x/tools/go/packages"
)

const ModulePath = "github.com/cinar/indicator/v2"

type Program struct {
	Repo   string
	Fset   *token.FileSet
	Pkgs   []*packages.Package          // module packages, sorted by path
	ByPath map[string]*packages.Package // import path -> package
	All    []*packages.Package          // including dependencies when loaded with AllSyntax
	Decls  map[*types.Func]*FuncInfo    // generic origin -> declaration
	Files  int
}

type FuncInfo struct {
	Fn   *types.Func
	Decl *ast.FuncDecl
	Pkg  *packages.Package
}

// Load type-checks ./... of repo. allSyntax additionally loads the syntax of
// all dependencies (needed for SSA construction).
func Load(repo string, allSyntax bool) (*Program, error) {
	mode := packages.NeedName | packages.NeedFiles | packages.NeedCompiledGoFiles | packages.NeedImports |
		packages.NeedTypes | packages.NeedTypesSizes | packages.NeedSyntax | packages.NeedTypesInfo | packages.NeedDeps | packages.NeedModule
	_ = allSyntax
	env := []string{}
	for _, e := range os.Environ() {
		if strings.HasPrefix(e, "GOFLAGS=") || strings.HasPrefix(e, "GOWORK=") || strings.HasPrefix(e, "GOPROXY=") || strings.HasPrefix(e, "GOTOOLCHAIN=") || strings.HasPrefix(e, "GOSUMDB=") {
			continue
		}
		env = append(env, e)
	}
	env = append(env, "GOFLAGS=-mod=mod", "GOWORK=off", "GOPROXY=off", "GOSUMDB=off", "GOTOOLCHAIN=local")
	cfg := &packages.Config{Mode: mode, Dir: repo, Env: env, Tests: false}
	pkgs, err := packages.Load(cfg, "./...")
	if err != nil {
		return nil, fmt.Errorf("packages.Load: %w", err)
	}
	if len(pkgs) == 0 {
		return nil, fmt.Errorf("no packages loaded from %s", repo)
	}
	p := &Program{Repo: repo, ByPath: map[string]*packages.Package{}, Decls: map[*types.Func]*FuncInfo{}}
	var errs []string
	packages.Visit(pkgs, nil, func(pk *packages.Package) {
		p.All = append(p.All, pk)
		if strings.HasPrefix(pk.PkgPath, ModulePath) {
			for _, e := range pk.Errors {
				errs = append(errs, e.Error())
			}
		}
	})
	if len(errs) > 0 {
		sort.Strings(errs)
		return nil, fmt.Errorf("type errors in %s: %s", repo, strings.Join(errs, "; "))
	}
	for _, pk := range pkgs {
		if !strings.HasPrefix(pk.PkgPath, ModulePath) {
			continue
		}
		if pk.Fset != nil {
			p.Fset = pk.Fset
		}
		p.Pkgs = append(p.Pkgs, pk)
		p.ByPath[pk.PkgPath] = pk
		for _, f := range pk.Syntax {
			p.Files++
			for _, d := range f.Decls {
				fd, ok := d.(*ast.FuncDecl)
				if !ok {
					continue
				}
				obj, _ := pk.TypesInfo.Defs[fd.Name].(*types.Func)
				if obj == nil {
					continue
				}
				p.Decls[obj] = &FuncInfo{Fn: obj, Decl: fd, Pkg: pk}
			}
		}
	}
	sort.Slice(p.Pkgs, func(i, j int) bool { return p.Pkgs[i].PkgPath < p.Pkgs[j].PkgPath })
	if len(p.Pkgs) < 10 {
		return nil, fmt.Errorf("only %d module packages loaded (expected the whole module)", len(p.Pkgs))
	}
	return p, nil
}

// Pkg returns the module package with the given path relative to the module root ("helper", "strategy/trend").
func (p *Program) Pkg(rel string) *packages.Package {
	if rel == "" {
		return p.ByPath[ModulePath]
	}
	return p.ByPath[ModulePath+"/"+rel]
}

// Info returns the FuncInfo for a (possibly instantiated) function object.
func (p *Program) Info(fn *types.Func) *FuncInfo {
	if fn == nil {
		return nil
	}
	return p.Decls[fn.Origin()]
}

// Func looks up a package-level function by relative package path and name.
func (p *Program) Func(rel, name string) *FuncInfo {
	pk := p.Pkg(rel)
	if pk == nil {
		return nil
	}
	fn, _ := pk.Types.Scope().Lookup(name).(*types.Func)
	return p.Info(fn)
}

// Method looks up a method declared on the named type.
func (p *Program) Method(rel, typeName, method string) *FuncInfo {
	pk := p.Pkg(rel)
	if pk == nil {
		return nil
	}
	tn, _ := pk.Types.Scope().Lookup(typeName).(*types.TypeName)
	if tn == nil {
		return nil
	}
	named, _ := tn.Type().(*types.Named)
	if named == nil {
		return nil
	}
	for i := 0; i < named.NumMethods(); i++ {
		if m := named.Method(i); m.Name() == method {
			return p.Info(m)
		}
	}
	return nil
}

// RelPkg returns the package path relative to the module ("helper", "strategy/trend").
func RelPkg(path string) string {
	if path == ModulePath {
		return ""
	}
	return strings.TrimPrefix(path, ModulePath+"/")
}

// Pos renders a position relative to the repo root.
func (p *Program) Pos(pos token.Pos) string {
	if !pos.IsValid() {
		return "?"
	}
	ps := p.Fset.Position(pos)
	f := strings.TrimPrefix(ps.Filename, p.Repo+"/")
	return fmt.Sprintf("%s:%d", f, ps.Line)
}

// FuncName is "trend.(*Dema).Compute" / "helper.Skip".
func FuncName(fn *types.Func) string {
	fn = fn.Origin()
	sig := fn.Type().(*types.Signature)
	pk := ""
	if fn.Pkg() != nil {
		pk = RelPkg(fn.Pkg().Path())
	}
	if r := sig.Recv(); r != nil {
		t := r.Type()
		ptr := ""
		if pt, ok := t.(*types.Pointer); ok {
			t = pt.Elem()
			ptr = "*"
		}
		name := "?"
		if n, ok := t.(*types.Named); ok {
			name = n.Obj().Name()
		}
		return fmt.Sprintf("%s.(%s%s).%s", pk, ptr, name, fn.Name())
	}
	return pk + "." + fn.Name()
}
