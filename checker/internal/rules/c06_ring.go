package rules

import (
	"fmt"
	"go/ast"
	"hash/fnv"
	"sort"
	"strings"

	"verif/checker/internal/dtab"
	"verif/checker/internal/sym"
)

// Decision rules that look at a window of past indicator values kept in a ring (the Triple RSI
// strategy). The closure handed to the zipping helper is read as a decision table whose atoms are
// its comparisons, the ring being full, and bounded existentials over the ring (a loop that
// returns as soon as one pair of neighbours satisfies a comparison). It is compared with the
// documented rule, written as an ordered list of (condition, action) with a default, on every
// assignment of strict signs to the comparisons and of truth values to the other atoms (ties are
// exempt, as in the statement).
type ringDecisionSpec struct {
	Site    string
	Callee  string
	Params  []string
	Rules   [][2]string
	Default string
	Doc     string
}

var ringDecisionSpecs = []ringDecisionSpec{
	{Site: "strategy/momentum.(*TripleRsiStrategy).Compute", Callee: "Operate3", Params: []string{"rsi", "sma", "closing"},
		Rules: [][2]string{
			{"!Ring.IsFull()", "Hold"},
			{"rsi > SellAt", "Sell"},
			{"rsi >= BuyAt", "Hold"},
			{"exists(1, DownDays, Ring.At(k1-1) <= Ring.At(k1))", "Hold"},
			{"Ring.At(0) >= BuySignalAt", "Hold"},
			{"closing <= sma", "Hold"},
		},
		Default: "Buy",
		Doc:     "Sell when the RSI is above SellAt; Buy when the RSI is below BuyAt, has been down DownDays periods in a row (every value below the one before it), was below BuySignalAt at the start of that run and the close is above the moving average; Hold otherwise and until the window is full"},
}

// strictify replaces <= by < and >= by > (ties are exempt) everywhere in e.
func strictify(e sym.Expr) sym.Expr {
	switch x := e.(type) {
	case sym.Cmp:
		op := x.Op
		switch op {
		case "<=":
			op = "<"
		case ">=":
			op = ">"
		}
		return sym.Cmp{Op: op, L: x.L, R: x.R}
	case sym.Logic:
		args := make([]sym.Expr, len(x.Args))
		for i, a := range x.Args {
			args[i] = strictify(a)
		}
		return sym.Logic{Op: x.Op, Args: args}
	case sym.Call:
		args := make([]sym.Expr, len(x.Args))
		for i, a := range x.Args {
			args[i] = strictify(a)
		}
		return sym.Call{Fn: x.Fn, Args: args}
	case sym.Ite:
		return sym.Ite{Cond: strictify(x.Cond), A: strictify(x.A), B: strictify(x.B)}
	}
	return e
}

// boolAtoms collects the non-comparison atoms (calls used as truth values) of a condition.
func boolAtoms(e sym.Expr, into map[string]bool) {
	switch x := e.(type) {
	case sym.Call:
		into[sym.CanonString(x)] = true
	case sym.Logic:
		for _, a := range x.Args {
			boolAtoms(a, into)
		}
	case sym.Ite:
		boolAtoms(x.Cond, into)
		boolAtoms(x.A, into)
		boolAtoms(x.B, into)
	}
}

func evalRingCond(e sym.Expr, t truth) (bool, bool) {
	switch x := e.(type) {
	case sym.Call:
		v, ok := t.bools[sym.CanonString(x)]
		return v, ok
	case sym.Ite:
		// the truth value a helper returns, as the conditional of its returns
		cv, ok := evalRingCond(x.Cond, t)
		if !ok {
			return false, false
		}
		if cv {
			return evalRingCond(x.A, t)
		}
		return evalRingCond(x.B, t)
	case sym.Logic:
		switch x.Op {
		case "!":
			v, ok := evalRingCond(x.Args[0], t)
			return !v, ok
		case "&&":
			for _, a := range x.Args {
				v, ok := evalRingCond(a, t)
				if !ok {
					return false, false
				}
				if !v {
					return false, true
				}
			}
			return true, true
		case "||":
			for _, a := range x.Args {
				v, ok := evalRingCond(a, t)
				if !ok {
					return false, false
				}
				if v {
					return true, true
				}
			}
			return false, true
		}
	}
	return evalB(e, t)
}

func (c *Ctx) ringDecisions() {
	run := c.Run
	for _, sp := range ringDecisionSpecs {
		parts := strings.SplitN(sp.Site, ".(*", 2)
		fi := c.fn(parts[0], strings.TrimSuffix(parts[1], ").Compute"), "Compute")
		if fi == nil {
			run.Break("anchor missing: " + sp.Site)
			continue
		}
		run.Count("ring_decision_rules", 1)
		info := fi.Pkg.TypesInfo
		lit := closureArg(info, fi.Decl, sp.Callee)
		if lit == nil {
			c.violate("decision-rule", sp.Site, "not found", fi.Decl.Pos(), "the closure implementing the documented rule could not be located (undecided, fails closed)")
			continue
		}
		m := dtab.FromFuncLit(info, lit)
		if len(m.Unsupported) > 0 || len(m.Params) != len(sp.Params) || len(m.State) != 0 {
			c.violate("decision-rule", sp.Site, "shape", lit.Pos(), fmt.Sprintf("the decision over the window is not in the analysable form (undecided, fails closed): params %v state %v %v", m.Params, m.State, m.Unsupported))
			continue
		}
		ren := map[string]sym.Expr{}
		env := &specEnv{locals: map[string]bool{}}
		for i, p := range m.Params {
			ren[p] = sym.V(sp.Params[i])
			env.locals[sp.Params[i]] = true
		}
		for _, rd := range m.Reads {
			if i := strings.LastIndex(rd, "."); i >= 0 {
				ren[rd] = sym.V("cfg:" + rd[i+1:])
			}
		}
		type rule struct {
			cond sym.Expr
			act  string
		}
		var spec []rule
		bad := ""
		for _, r := range sp.Rules {
			e, err := env.parse(r[0])
			if err != nil {
				bad = err.Error()
				break
			}
			spec = append(spec, rule{strictify(e), "#" + r[1]})
		}
		if bad != "" {
			run.Break("bad ring decision specification for " + sp.Site + ": " + bad)
			continue
		}
		type cpath struct {
			conds []sym.Expr
			act   string
		}
		var code []cpath
		why := ""
		for _, p := range m.Paths {
			cp := cpath{}
			for _, cd := range p.Conds {
				cp.conds = append(cp.conds, strictify(sym.Subst(cd, ren)))
			}
			if len(p.Ret) != 1 {
				why = "a path of the decision returns no single action"
				break
			}
			cp.act = sym.CanonString(sym.Subst(p.Ret[0], ren))
			// the new value enters the window exactly once per step
			puts := 0
			for _, ef := range p.Effects {
				if strings.Contains(ef, ".Put(") {
					puts++
					if !strings.HasSuffix(ef, ".Put("+m.Params[0]+")") {
						why = "the window is fed with " + ef + ", not with the first input of the step"
					}
				}
			}
			if puts != 1 && why == "" {
				why = fmt.Sprintf("the new value is put into the window %d times in one step", puts)
			}
			code = append(code, cp)
		}
		keys, atoms := map[string]bool{}, map[string]bool{}
		for _, r := range spec {
			collectCondKeys(r.cond, keys)
			boolAtoms(r.cond, atoms)
		}
		for _, cp := range code {
			for _, cd := range cp.conds {
				collectCondKeys(cd, keys)
				boolAtoms(cd, atoms)
			}
		}
		var ks, as []string
		for k := range keys {
			ks = append(ks, k)
		}
		for a := range atoms {
			as = append(as, a)
		}
		sort.Strings(ks)
		sort.Strings(as)
		if why == "" && len(ks)+len(as) > 14 {
			why = "too many distinct atoms to enumerate"
		}
		nAssign, nBad := 0, 0
		first := ""
		if why == "" {
			total := 1 << (len(ks) + len(as))
			for mask := 0; mask < total; mask++ {
				t := truth{sg: map[string]int{}, bools: map[string]bool{}}
				for i, k := range ks {
					t.sg[k] = -1
					if mask&(1<<i) != 0 {
						t.sg[k] = 1
					}
				}
				for i, a := range as {
					t.bools[a] = mask&(1<<(len(ks)+i)) != 0
				}
				want := "#" + sp.Default
				decided := true
				for _, r := range spec {
					v, ok := evalRingCond(r.cond, t)
					if !ok {
						decided = false
						break
					}
					if v {
						want = r.act
						break
					}
				}
				got := ""
				for _, cp := range code {
					all := true
					for _, cd := range cp.conds {
						v, ok := evalRingCond(cd, t)
						if !ok {
							decided = false
						}
						if !v {
							all = false
							break
						}
					}
					if all {
						got = cp.act
						break
					}
				}
				if !decided {
					why = "a condition of the decision is outside the comparison vocabulary (undecided, fails closed)"
					break
				}
				nAssign++
				if got != want {
					nBad++
					if first == "" {
						var d []string
						for _, a := range as {
							d = append(d, fmt.Sprintf("%s=%v", short(a, 70), t.bools[a]))
						}
						for _, k := range ks {
							d = append(d, fmt.Sprintf("%s %s 0", short(k, 40), map[int]string{-1: "<", 1: ">"}[t.sg[k]]))
						}
						first = fmt.Sprintf("with %s the code recommends %s, the documented rule %s", strings.Join(d, ", "), strings.TrimPrefix(got, "#"), strings.TrimPrefix(want, "#"))
					}
				}
			}
		}
		run.Count("ring_decision_assignments", nAssign)
		good := why == "" && nBad == 0
		run.Oblige(good)
		if !good {
			if why == "" {
				why = fmt.Sprintf("%d of %d assignments differ; %s", nBad, nAssign, first)
			}
			h := fnv.New32a()
			h.Write([]byte(why))
			c.violate("decision-rule", sp.Site, fmt.Sprintf("window rule: %s #%08x", short(why, 110), h.Sum32()), lit.Pos(), "the decision is not the documented one ("+sp.Doc+"): "+why)
		}
		// the window holds DownDays values: the ring is created with that capacity
		capOK := false
		ast.Inspect(fi.Decl.Body, func(n ast.Node) bool {
			call, ok := n.(*ast.CallExpr)
			if ok && strings.HasSuffix(calleeName(info, call), "helper.NewRing") && len(call.Args) == 1 {
				if sel, isSel := ast.Unparen(call.Args[0]).(*ast.SelectorExpr); isSel && sel.Sel.Name == "DownDays" {
					capOK = true
				}
			}
			return true
		})
		run.Oblige(capOK)
		if !capOK {
			c.violate("decision-rule", sp.Site, "window size", fi.Decl.Pos(), "the window of past RSI values is not a ring of DownDays elements")
		}
	}
	run.Floor("ring_decision_rules", 1)
}
