package rules

import (
	"go/ast"
	"go/token"

	"golang.org/x/tools/go/cfg"
)

// pathState of a must-pass-through query.
type pathState uint8

const (
	psNotStarted pathState = 1 << iota // the start event has not happened on this path
	psPending                          // started, the required event has not happened yet
	psDone                             // started and the required event happened (or was deferred)
)

// exitsWithout runs a forward may-analysis over the CFG of body and returns the
// exit points (return statements, or the closing brace for falling off the end)
// that are reachable in state "started but required event not seen".
// start==nil means the path is started at function entry.
// An exit for which exempt returns true is ignored.
func exitsWithout(body *ast.BlockStmt, start func(ast.Node) bool, event func(ast.Node) bool, exempt func(*ast.ReturnStmt) bool) []token.Pos {
	g := cfg.New(body, func(*ast.CallExpr) bool { return true })
	in := make(map[*cfg.Block]pathState)
	entry := g.Blocks[0]
	if start == nil {
		in[entry] = psPending
	} else {
		in[entry] = psNotStarted
	}
	apply := func(s pathState, n ast.Node) pathState {
		// events nested anywhere inside the node count (deferred calls included)
		hasStart, hasEvent := false, false
		ast.Inspect(n, func(m ast.Node) bool {
			if m == nil {
				return false
			}
			if _, ok := m.(*ast.FuncLit); ok {
				// a deferred function literal that performs the event counts; other literals do not run here
				return false
			}
			if start != nil && start(m) {
				hasStart = true
			}
			if event(m) {
				hasEvent = true
			}
			return true
		})
		if d, ok := n.(*ast.DeferStmt); ok {
			if fl, ok := d.Call.Fun.(*ast.FuncLit); ok {
				ast.Inspect(fl.Body, func(m ast.Node) bool {
					if m != nil && event(m) {
						hasEvent = true
					}
					return true
				})
			}
		}
		out := pathState(0)
		if s&psNotStarted != 0 {
			if hasStart {
				if hasEvent {
					out |= psDone
				} else {
					out |= psPending
				}
			} else {
				out |= psNotStarted
			}
		}
		if s&psPending != 0 {
			if hasEvent {
				out |= psDone
			} else {
				out |= psPending
			}
		}
		if s&psDone != 0 {
			out |= psDone
		}
		return out
	}
	var bad []token.Pos
	seenBad := map[token.Pos]bool{}
	work := []*cfg.Block{entry}
	outState := make(map[*cfg.Block]pathState)
	for len(work) > 0 {
		b := work[len(work)-1]
		work = work[:len(work)-1]
		s := in[b]
		var ret *ast.ReturnStmt
		for _, n := range b.Nodes {
			if r, ok := n.(*ast.ReturnStmt); ok {
				ret = r
				// the return's own operands may contain the event (return f.Close())
				s = apply(s, n)
				continue
			}
			s = apply(s, n)
		}
		if prev, ok := outState[b]; ok && prev == s {
			continue
		}
		outState[b] = s
		if len(b.Succs) == 0 {
			if s&psPending != 0 {
				p := body.Rbrace
				if ret != nil {
					p = ret.Pos()
					if exempt != nil && exempt(ret) {
						continue
					}
				}
				if b.Live && !seenBad[p] {
					seenBad[p] = true
					bad = append(bad, p)
				}
			}
			continue
		}
		for _, su := range b.Succs {
			if in[su]|s != in[su] {
				in[su] |= s
				work = append(work, su)
			} else if _, done := outState[su]; !done {
				work = append(work, su)
			}
		}
	}
	return bad
}

// unguardedNodes runs a forward may-analysis of a lock's state over the CFG of body and
// returns the `watch` nodes that can be reached while the lock is not held. Deferred
// unlocks are ignored (they run at return). startHeld gives the state at entry.
func unguardedNodes(body *ast.BlockStmt, isLock, isUnlock, watch func(ast.Node) bool, startHeld bool) []ast.Node {
	const held, free = 1, 2
	g := cfg.New(body, func(*ast.CallExpr) bool { return true })
	in := map[*cfg.Block]int{}
	if startHeld {
		in[g.Blocks[0]] = held
	} else {
		in[g.Blocks[0]] = free
	}
	var bad []ast.Node
	seenBad := map[ast.Node]bool{}
	out := map[*cfg.Block]int{}
	work := []*cfg.Block{g.Blocks[0]}
	for len(work) > 0 {
		b := work[len(work)-1]
		work = work[:len(work)-1]
		s := in[b]
		for _, n := range b.Nodes {
			if _, isDefer := n.(*ast.DeferStmt); isDefer {
				continue
			}
			// events inside the node in source order
			type e struct {
				pos  token.Pos
				kind int
				node ast.Node
			}
			var es []e
			ast.Inspect(n, func(m ast.Node) bool {
				if m == nil {
					return false
				}
				if _, ok := m.(*ast.FuncLit); ok {
					return false
				}
				switch {
				case isLock(m):
					es = append(es, e{m.Pos(), 0, m})
				case isUnlock(m):
					es = append(es, e{m.Pos(), 1, m})
				case watch(m):
					es = append(es, e{m.Pos(), 2, m})
				}
				return true
			})
			for i := 0; i < len(es); i++ {
				for j := i + 1; j < len(es); j++ {
					if es[j].pos < es[i].pos {
						es[i], es[j] = es[j], es[i]
					}
				}
			}
			for _, x := range es {
				switch x.kind {
				case 0:
					s = held
				case 1:
					s = free
				case 2:
					if s&free != 0 && !seenBad[x.node] {
						seenBad[x.node] = true
						bad = append(bad, x.node)
					}
				}
			}
		}
		if prev, ok := out[b]; ok && prev == s {
			continue
		}
		out[b] = s
		for _, su := range b.Succs {
			if in[su]|s != in[su] {
				in[su] |= s
				work = append(work, su)
			} else if _, done := out[su]; !done {
				work = append(work, su)
			}
		}
	}
	return bad
}
