package rules

import (
	"fmt"
	"go/ast"
	"go/types"
	"sort"
	"strings"

	"golang.org/x/tools/go/ssa"

	"verif/checker/internal/load"
	"verif/checker/internal/modsum"
	"verif/checker/internal/report"
)

func (c *Ctx) modsum() *modsum.Analysis {
	if c.ms == nil {
		var declared []*types.Func
		for fn := range c.P.Decls {
			declared = append(declared, fn)
		}
		c.ms = modsum.Build(c.P.Pkgs, load.ModulePath, declared)
	}
	return c.ms
}

// PrepareSSA builds the SSA program now (before the syntax trees are normalised).
func (c *Ctx) PrepareSSA() { c.modsum() }

// ssaFunc finds the SSA function of a declared function/method.
func (c *Ctx) ssaFunc(fi *load.FuncInfo) *ssa.Function {
	return c.modsum().Prog.FuncValue(fi.Fn)
}

func viaString(f *modsum.Fact) string {
	if len(f.Via) == 0 {
		return ""
	}
	v := f.Via
	if len(v) > 5 {
		v = append(append([]string{}, v[:4]...), "…", v[len(v)-1])
	}
	return " via " + strings.Join(v, " → ")
}

// instanceMethods are the methods whose receiver must only be read (C09).
var instanceMethods = []string{"Compute", "Report", "IdlePeriod", "Name", "String"}

// CheckC09: instances hold configuration only.
func CheckC09(c *Ctx) {
	run := c.Run
	run.Technique = "SSA mod-summary analysis (Engine C): for every function, through which parameters / captured variables / package variables memory may be written (stores, map updates, deletes; field-insensitive; allocations, constructor results and channel receives are fresh), propagated to a fixpoint over the CHA call graph; closure-cell ownership lint"
	run.Explanation = "For every Compute, Report, IdlePeriod, Name and String method of every indicator and strategy type, no store, map update or delete reachable from the method (through static calls, interface calls resolved by class-hierarchy analysis, goroutines and closures) goes through the receiver or anything loaded from it, and none goes to a package-level variable. All remaining state is then allocated per call, which — together with C03's determinacy and linearity rules — makes repeated and concurrent calls on one instance independent: the mechanism the property anchors ('receivers are only read'). Objects that travel through the module's channels as pointers (snapshots, results) are written only by the function that allocated them (element-purity: a store into a field of a received, passed-in or captured element is reported). Additionally every mutable local captured by a closure that a helper stage runs in its own goroutine is referenced by that one closure only (single owner). The dynamic race detector's view of third-party code is not covered. Instance freshness: the indicator and strategy packages keep no package-level variable whose type can hold a reference, and no slice window (x[a:b] without a capacity bound) is handed to a constructor's variadic list or stored in a field (instances would share a backing array). No function-typed field of an indicator or strategy struct receives a closure that writes one of its captured variables (values resolved on SSA through module functions and generic instantiations): state cannot hide on the instance inside a closure."
	run.Trusted = []string{"go/ssa, CHA call graph (golang.org/x/tools v0.29.0)", "freshness of allocations, constructor results and received channel elements", "field-insensitive aliasing (over-approximation)"}
	ms := c.modsum()
	run.Count("ssa_functions", len(ms.Funcs))
	n := 0
	var roots []*load.FuncInfo
	for _, fi := range c.P.Decls {
		if fi.Decl.Recv == nil || fi.Decl.Body == nil {
			continue
		}
		rel := load.RelPkg(fi.Pkg.PkgPath)
		isInd := rel == "trend" || rel == "momentum" || rel == "volatility" || rel == "volume"
		isStr := strings.HasPrefix(rel, "strategy")
		if !isInd && !isStr {
			continue
		}
		ok := false
		for _, m := range instanceMethods {
			if fi.Fn.Name() == m {
				ok = true
			}
		}
		if !ok || strings.HasSuffix(c.P.Fset.Position(fi.Decl.Pos()).Filename, "_test.go") {
			continue
		}
		roots = append(roots, fi)
	}
	sortFuncs(roots)
	type cand struct {
		site string
		f    *modsum.Fact
		meth string
	}
	best := map[string]cand{}
	others := map[string]int{}
	for _, fi := range roots {
		fn := c.ssaFunc(fi)
		if fn == nil {
			run.Break("no SSA function for " + load.FuncName(fi.Fn))
			continue
		}
		s := ms.SummaryOf(fn)
		if s == nil {
			run.Break("no summary for " + load.FuncName(fi.Fn))
			continue
		}
		n++
		site := load.FuncName(fi.Fn)
		bad := false
		var keys []string
		for k := range s.Writes {
			keys = append(keys, k)
		}
		sort.Strings(keys)
		for _, k := range keys {
			f := s.Writes[k]
			switch {
			case (f.Root.Kind == modsum.Param && f.Root.Index == 0) || f.Root.Kind == modsum.Global:
				bad = true
				run.Oblige(false)
				// one report per offending write, attributed to the method closest to it
				k := fmt.Sprintf("%d|%s|%d", f.Pos, f.What, f.Root.Kind)
				others[k]++
				if b, ok := best[k]; !ok || len(f.Via) < len(b.f.Via) {
					best[k] = cand{site, f, fi.Fn.Name()}
				}
			}
		}
		if !bad {
			run.Oblige(true)
			run.Sample(map[string]string{"obligation": site + " writes neither through its receiver nor to package variables", "verdict": "holds", "writes_through_other_parameters": fmt.Sprint(len(s.Writes))})
		}
	}
	var bk []string
	for k := range best {
		bk = append(bk, k)
	}
	sort.Strings(bk)
	for _, k := range bk {
		b := best[k]
		f := b.f
		more := ""
		if others[k] > 1 {
			more = fmt.Sprintf(" (also reached from %d other instance methods)", others[k]-1)
		}
		if f.Root.Kind == modsum.Global {
			run.Violate(report.Finding{Rule: "receiver-purity", Site: b.site, Detail: "package variable " + f.Root.Name, Pos: c.P.Pos(f.Pos),
				Message: fmt.Sprintf("%s writes the package-level variable %s (%s%s): calls on different instances interfere%s", b.meth, f.Root.Name, f.What, viaString(f), more)})
		} else {
			run.Violate(report.Finding{Rule: "receiver-purity", Site: b.site, Detail: f.What, Pos: c.P.Pos(f.Pos),
				Message: fmt.Sprintf("%s writes through its receiver (%s%s): the instance carries per-run state, so repeated or concurrent calls on one instance interfere%s", b.meth, f.What, viaString(f), more)})
		}
	}
	run.Count("instance_methods", n)
	run.Floor("instance_methods", 200)
	c.closureCells()
	// elements that travel through the module's channels as pointers are shared by all consumers:
	// nobody writes into one it did not allocate itself
	es := ms.ElementStores()
	run.Count("element_store_scan", 1)
	for _, e := range es {
		pos := ms.Pos(e.Pos)
		if strings.HasSuffix(pos.Filename, "_test.go") {
			continue
		}
		run.Oblige(false)
		where := e.Fn.String()
		run.Violate(report.Finding{Rule: "element-purity", Site: where, Detail: e.Type + "." + e.Field, Pos: fmt.Sprintf("%s:%d", strings.TrimPrefix(pos.Filename, c.P.Repo+"/"), pos.Line),
			Message: fmt.Sprintf("%s stores into field %s of a %s it did not allocate (%s): such objects are sent through the pipelines as pointers and helper.Duplicate hands the same pointer to every branch, so this write races with the readers of the other copies and changes what later computations on the same history see", where, e.Field, e.Type, e.From)})
	}
	if len(es) == 0 {
		c.ok()
	}
	c.packageState()
	c.statefulFuncFields()
}

// packageState: the indicator and strategy packages keep no package-level variable through which
// two instances could come to share an object: a variable whose type can hold a pointer (a
// pointer, interface, map, channel, function, or a slice, array or struct containing one). A
// constructor that copies a package-level template hands every instance the template's nested
// objects; the instances then stop "holding configuration only" - reconfiguring one through an
// exported field reconfigures all of them, concurrently with their Computes. Tables of numbers
// and strings that nothing writes are exempt (read-only lookup tables).
func (c *Ctx) packageState() {
	run := c.Run
	n := 0
	for _, pk := range c.P.Pkgs {
		rel := load.RelPkg(pk.PkgPath)
		isInd := rel == "trend" || rel == "momentum" || rel == "volatility" || rel == "volume"
		if !isInd && !strings.HasPrefix(rel, "strategy") {
			continue
		}
		sc := pk.Types.Scope()
		for _, name := range sc.Names() {
			v, ok := sc.Lookup(name).(*types.Var)
			if !ok || strings.HasSuffix(c.P.Fset.Position(v.Pos()).Filename, "_test.go") {
				continue
			}
			n++
			why := holdsPointer(v.Type(), 0)
			if why != "" && readOnlyTable(v) {
				why = ""
			}
			run.Oblige(why == "")
			if why != "" {
				c.violate("instance-freshness", rel+"."+name, "package variable", v.Pos(), fmt.Sprintf("package %s keeps the variable %s of type %s (%s): whatever a constructor or method takes from it is shared by every instance, so an instance no longer holds its own configuration only", rel, name, types.TypeString(v.Type(), types.RelativeTo(pk.Types)), why))
			}
		}
	}
	run.Count("package_variables_in_instance_packages", n)
	// a window into a slice that other objects are carved from, too: x[a:b] (without a capacity
	// bound) handed to a constructor as its variadic list, or stored in a field. The object's list
	// then shares its backing array - and its spare capacity - with its neighbours: an append to
	// one instance's exported list overwrites an element of the next instance's.
	nw := 0
	for _, pk := range c.P.Pkgs {
		rel := load.RelPkg(pk.PkgPath)
		isInd := rel == "trend" || rel == "momentum" || rel == "volatility" || rel == "volume"
		if !isInd && !strings.HasPrefix(rel, "strategy") {
			continue
		}
		info := pk.TypesInfo
		window := func(e ast.Expr) *ast.SliceExpr {
			se, ok := ast.Unparen(e).(*ast.SliceExpr)
			if !ok || se.Slice3 {
				return nil
			}
			if _, isSlice := info.TypeOf(se.X).Underlying().(*types.Slice); !isSlice {
				return nil
			}
			return se
		}
		for _, f := range pk.Syntax {
			if strings.HasSuffix(c.P.Fset.Position(f.Pos()).Filename, "_test.go") {
				continue
			}
			ast.Inspect(f, func(nd ast.Node) bool {
				var se *ast.SliceExpr
				what := ""
				switch x := nd.(type) {
				case *ast.CallExpr:
					if x.Ellipsis.IsValid() && len(x.Args) > 0 {
						if id, isID := x.Fun.(*ast.Ident); isID {
							if _, isB := info.Uses[id].(*types.Builtin); isB {
								return true // append copies the elements
							}
						}
						if fn := callee(info, x); fn != nil && fn.Pkg() != nil && strings.HasPrefix(fn.Pkg().Path(), load.ModulePath) {
							se = window(x.Args[len(x.Args)-1])
							what = "handed to " + fn.Name() + " as its variadic list"
						}
					}
				case *ast.KeyValueExpr:
					se = window(x.Value)
					what = "stored in field " + exprString(x.Key)
				case *ast.AssignStmt:
					for i, l := range x.Lhs {
						if sel, isSel := l.(*ast.SelectorExpr); isSel && i < len(x.Rhs) {
							if v, isF := info.ObjectOf(sel.Sel).(*types.Var); isF && v.IsField() {
								if w := window(x.Rhs[i]); w != nil {
									se, what = w, "stored in field "+sel.Sel.Name
								}
							}
						}
					}
				}
				if se == nil {
					return true
				}
				nw++
				run.Oblige(false)
				c.violate("instance-freshness", rel, "window "+exprString(se), se.Pos(), "the slice window "+exprString(se)+" is "+what+": the object's list shares its backing array (and its spare capacity) with whatever else is carved from "+exprString(se.X)+", so appending to one instance's list overwrites an element of another's")
				return true
			})
		}
	}
	run.Count("shared_slice_windows", nw)
	// the expected count on this code base is zero: keep the classifier honest on built-in examples
	okSample := holdsPointer(types.NewPointer(types.Typ[types.Int]), 0) != "" &&
		holdsPointer(types.NewSlice(types.NewPointer(types.Typ[types.Int])), 0) != "" &&
		holdsPointer(types.NewMap(types.Typ[types.String], types.Typ[types.Int]), 0) != "" &&
		holdsPointer(types.NewArray(types.Typ[types.Float64], 4), 0) == "" &&
		holdsPointer(types.NewStruct([]*types.Var{types.NewField(0, nil, "a", types.Typ[types.Int], false), types.NewField(0, nil, "p", types.NewPointer(types.Typ[types.Int]), false)}, nil), 0) != "" &&
		holdsPointer(types.Typ[types.String], 0) == ""
	run.Oblige(okSample)
	if !okSample {
		run.Break("the package-state rule does not classify its built-in examples as expected")
	}
}

// holdsPointer: "" when no value of type t can hold a reference to a shared object; otherwise
// what in t does.
func holdsPointer(t types.Type, depth int) string {
	if depth > 6 {
		return "a deeply nested type"
	}
	switch u := t.Underlying().(type) {
	case *types.Basic:
		if u.Kind() == types.UnsafePointer {
			return "an unsafe pointer"
		}
		return ""
	case *types.Pointer:
		return "a pointer"
	case *types.Interface:
		return "an interface value"
	case *types.Map:
		return "a map"
	case *types.Chan:
		return "a channel"
	case *types.Signature:
		return "a function value"
	case *types.Slice:
		if w := holdsPointer(u.Elem(), depth+1); w != "" {
			return "a slice of elements holding " + w
		}
		return "a slice (a shared backing array)"
	case *types.Array:
		if w := holdsPointer(u.Elem(), depth+1); w != "" {
			return "an array of elements holding " + w
		}
		return ""
	case *types.Struct:
		for i := 0; i < u.NumFields(); i++ {
			if w := holdsPointer(u.Field(i).Type(), depth+1); w != "" {
				return "field " + u.Field(i).Name() + " holds " + w
			}
		}
		return ""
	}
	return "a value of kind " + t.String()
}

// closureCells: a local variable assigned inside a function literal that is passed to a
// stage helper must be referenced by that one literal only (and not by the enclosing
// function after the literal was created).
func (c *Ctx) closureCells() {
	run := c.Run
	n := 0
	for _, pk := range c.P.Pkgs {
		rel := load.RelPkg(pk.PkgPath)
		if !isPipelinePkg(rel) {
			continue
		}
		info := pk.TypesInfo
		for _, f := range pk.Syntax {
			if strings.HasSuffix(c.P.Fset.Position(f.Pos()).Filename, "_test.go") {
				continue
			}
			for _, d := range f.Decls {
				fd, ok := d.(*ast.FuncDecl)
				if !ok || fd.Body == nil {
					continue
				}
				// literals passed as call arguments (run by a stage goroutine)
				var lits []*ast.FuncLit
				ast.Inspect(fd.Body, func(nd ast.Node) bool {
					call, ok := nd.(*ast.CallExpr)
					if !ok {
						return true
					}
					for _, a := range call.Args {
						if fl, ok := a.(*ast.FuncLit); ok {
							lits = append(lits, fl)
						}
					}
					return true
				})
				// go func literals as well
				ast.Inspect(fd.Body, func(nd ast.Node) bool {
					if g, ok := nd.(*ast.GoStmt); ok {
						if fl, ok := g.Call.Fun.(*ast.FuncLit); ok {
							lits = append(lits, fl)
						}
					}
					return true
				})
				for _, fl := range lits {
					// captured locals assigned inside fl
					written := map[types.Object]ast.Node{}
					ast.Inspect(fl.Body, func(nd ast.Node) bool {
						var targets []ast.Expr
						switch x := nd.(type) {
						case *ast.AssignStmt:
							targets = x.Lhs
						case *ast.IncDecStmt:
							targets = []ast.Expr{x.X}
						}
						for _, t := range targets {
							id, ok := t.(*ast.Ident)
							if !ok {
								continue
							}
							obj := info.Uses[id]
							v, ok := obj.(*types.Var)
							if !ok || v.IsField() {
								continue
							}
							// declared outside the literal but inside the function
							if v.Pos() >= fl.Pos() && v.Pos() <= fl.End() {
								continue
							}
							if v.Pos() < fd.Pos() || v.Pos() > fd.End() {
								continue
							}
							written[obj] = nd
						}
						return true
					})
					for obj := range written {
						n++
						// any reference outside fl after fl starts, or inside another literal, breaks ownership
						shared := false
						var where ast.Node
						ast.Inspect(fd.Body, func(nd ast.Node) bool {
							id, ok := nd.(*ast.Ident)
							if !ok || info.Uses[id] != obj {
								return true
							}
							if id.Pos() >= fl.Pos() && id.Pos() <= fl.End() {
								return true
							}
							if id.Pos() > fl.End() || insideOtherLit(fd, fl, id) {
								shared = true
								where = id
							}
							return true
						})
						run.Oblige(!shared)
						if shared {
							c.violate("closure-cell", load.RelPkg(pk.PkgPath)+"."+fd.Name.Name, obj.Name(), where.Pos(),
								"the local variable "+obj.Name()+" is written inside a function run by a stage goroutine and also used outside it: unsynchronised shared state between goroutines")
						}
					}
				}
			}
		}
	}
	run.Count("closure_cells", n)
	run.Floor("closure_cells", 15)
}

func insideOtherLit(fd *ast.FuncDecl, self *ast.FuncLit, id *ast.Ident) bool {
	inside := false
	ast.Inspect(fd.Body, func(nd ast.Node) bool {
		fl, ok := nd.(*ast.FuncLit)
		if !ok || fl == self {
			return true
		}
		if id.Pos() >= fl.Pos() && id.Pos() <= fl.End() {
			// a literal nested inside self is the same goroutine
			if !(fl.Pos() >= self.Pos() && fl.End() <= self.End()) {
				inside = true
			}
		}
		return true
	})
	return inside
}
