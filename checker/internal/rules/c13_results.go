package rules

import (
	"fmt"
	"go/ast"
	"go/constant"
	"go/token"
	"go/types"
	"sort"
	"strings"

	"golang.org/x/tools/go/ssa"

	"verif/checker/internal/dtab"
	"verif/checker/internal/load"
)

// What a report records for an (asset, strategy) pair, decided on the SSA form of the two bundled
// Write methods: every field of the result object is a fixed function of the streams Write was
// handed - the outcome is the LAST element of the outcome stream (times 100 in the HTML report,
// which prints per cent), the action the LAST recommendation, the transactions are counted over
// all actions - each read from its own branch of one helper.Duplicate of the action stream.
var resultFieldSpecs = map[string]map[string]string{
	"HTMLReport": {
		"AssetName":    "param#1",
		"StrategyName": "invoke.Name(param#2)",
		"Action":       "recv(helper.Last(idx(helper.Duplicate(param#4, 3), _), 1))",
		"Since":        "recv(helper.Last(helper.Since(idx(helper.Duplicate(param#4, 3), _)), 1))",
		"Outcome":      "(100 * recv(helper.Last(param#5, 1)))",
		"Transactions": "recv(helper.Last(strategy.CountTransactions(idx(helper.Duplicate(param#4, 3), _)), 1))",
	},
	"DataReport": {
		"Asset":        "param#1",
		"Strategy":     "param#2",
		"Outcome":      "recv(helper.Last(param#5, 1))",
		"Action":       "recv(helper.Last(idx(helper.Duplicate(param#4, 2), _), 1))",
		"Transactions": "helper.ChanToSlice(idx(helper.Duplicate(param#4, 2), _))",
	},
}

// ssaTerm renders the SSA value v as a term over the parameters of its function. Indices into
// slices are collected in idx (and printed as _): which branch of a duplicate is used for what
// is irrelevant as long as the branches differ.
func ssaTerm(v ssa.Value, idx *[]string, depth int) string {
	if depth > 12 {
		return "…"
	}
	switch x := v.(type) {
	case *ssa.Parameter:
		if t, bound := ssaBind[x]; bound {
			return t
		}
		for i, p := range x.Parent().Params {
			if p == x {
				return fmt.Sprintf("param#%d", i)
			}
		}
	case *ssa.Global:
		return "global:" + x.Name()
	case *ssa.Lookup:
		return "lookup(" + ssaTerm(x.X, idx, depth+1) + ", " + ssaTerm(x.Index, idx, depth+1) + ")"
	case *ssa.TypeAssert:
		return "assert:" + x.AssertedType.String() + "(" + ssaTerm(x.X, idx, depth+1) + ")"
	case *ssa.Const:
		if x.Value == nil {
			return "nil"
		}
		if x.Value.Kind() == constant.Float || x.Value.Kind() == constant.Int {
			if f, ok := constant.Float64Val(x.Value); ok && f == float64(int64(f)) {
				return fmt.Sprint(int64(f))
			}
		}
		return x.Value.ExactString()
	case *ssa.UnOp:
		switch x.Op {
		case token.ARROW:
			if x.CommaOk {
				return "recvok(" + ssaTerm(x.X, idx, depth+1) + ")"
			}
			return "recv(" + ssaTerm(x.X, idx, depth+1) + ")"
		case token.MUL:
			inner := ssaTerm(x.X, idx, depth+1)
			if strings.HasPrefix(inner, "idx(") {
				return inner
			}
			return "load(" + inner + ")"
		}
		return x.Op.String() + ssaTerm(x.X, idx, depth+1)
	case *ssa.BinOp:
		a, b := ssaTerm(x.X, idx, depth+1), ssaTerm(x.Y, idx, depth+1)
		if (x.Op == token.MUL || x.Op == token.ADD || x.Op == token.EQL || x.Op == token.NEQ) && b < a {
			a, b = b, a
		}
		if x.Op == token.NEQ {
			return "!(" + a + " == " + b + ")"
		}
		return "(" + a + " " + x.Op.String() + " " + b + ")"
	case *ssa.MultiConvert:
		return ssaTerm(x.X, idx, depth+1)
	case *ssa.Call:
		var args []string
		for _, a := range x.Call.Args {
			args = append(args, ssaTerm(a, idx, depth+1))
		}
		name := ""
		if x.Call.IsInvoke() {
			name = "invoke." + x.Call.Method.Name()
			args = append([]string{ssaTerm(x.Call.Value, idx, depth+1)}, args...)
		} else if fn := x.Call.StaticCallee(); fn != nil {
			// an unexported straight-line helper of the same package is what it returns
			if in, ok := ssaInline(x, fn, args, idx, depth); ok {
				return in
			}
			o := fn
			if fn.Origin() != nil {
				o = fn.Origin()
			}
			name = o.Name()
			if o.Pkg != nil {
				name = o.Pkg.Pkg.Name() + "." + o.Name()
			}
			if o.Signature.Recv() != nil {
				name = "method." + o.Name()
			}
		} else {
			name = "dyn:" + x.Call.Value.Name()
		}
		return name + "(" + strings.Join(args, ", ") + ")"
	case *ssa.Convert:
		if dtab.Truncates(x.Type(), x.X.Type()) {
			return "trunc:" + x.Type().String() + "(" + ssaTerm(x.X, idx, depth+1) + ")"
		}
		return ssaTerm(x.X, idx, depth+1)
	case *ssa.ChangeType:
		return ssaTerm(x.X, idx, depth+1)
	case *ssa.MakeInterface:
		return ssaTerm(x.X, idx, depth+1)
	case *ssa.ChangeInterface:
		return ssaTerm(x.X, idx, depth+1)
	case *ssa.IndexAddr:
		*idx = append(*idx, ssaTerm(x.X, new([]string), depth+1)+"["+ssaTerm(x.Index, new([]string), depth+1)+"]")
		return "idx(" + ssaTerm(x.X, idx, depth+1) + ", _)"
	case *ssa.Index:
		*idx = append(*idx, ssaTerm(x.X, new([]string), depth+1)+"["+ssaTerm(x.Index, new([]string), depth+1)+"]")
		return "idx(" + ssaTerm(x.X, idx, depth+1) + ", _)"
	case *ssa.Extract:
		return ssaTerm(x.Tuple, idx, depth+1) + "#" + fmt.Sprint(x.Index)
	case *ssa.Phi:
		var es []string
		for _, e := range x.Edges {
			es = append(es, ssaTerm(e, idx, depth+1))
		}
		sort.Strings(es)
		return "phi(" + strings.Join(es, " | ") + ")"
	case *ssa.FieldAddr:
		return ssaTerm(x.X, idx, depth+1) + "." + fieldNameOf(x.X.Type(), x.Field)
	case *ssa.Field:
		return ssaTerm(x.X, idx, depth+1) + "." + fieldNameOf(x.X.Type(), x.Field)
	case *ssa.Alloc:
		return "alloc"
	case *ssa.MakeClosure:
		return ssaTerm(x.Fn, idx, depth+1)
	case *ssa.Function:
		// a function value: what it returns, over its own parameters
		if len(x.Blocks) == 0 {
			return "func:" + x.Name()
		}
		var rets []string
		for _, b := range x.Blocks {
			for _, in := range b.Instrs {
				if r, ok := in.(*ssa.Return); ok {
					var rs []string
					for _, rv := range r.Results {
						rs = append(rs, ssaTerm(rv, idx, depth+1))
					}
					rets = append(rets, strings.Join(rs, ", "))
				}
			}
		}
		sort.Strings(rets)
		return "fn{" + strings.Join(rets, " | ") + "}"
	case *ssa.Slice:
		return "slice(" + ssaTerm(x.X, idx, depth+1) + ")"
	}
	return fmt.Sprintf("%T", v)
}

func fieldNameOf(t types.Type, i int) string {
	if p, ok := t.Underlying().(*types.Pointer); ok {
		t = p.Elem()
	}
	if st, ok := t.Underlying().(*types.Struct); ok && i < st.NumFields() {
		return st.Field(i).Name()
	}
	return fmt.Sprint(i)
}

func (c *Ctx) resultFields() {
	run := c.Run
	n := 0
	var types_ []string
	for t := range resultFieldSpecs {
		types_ = append(types_, t)
	}
	sort.Strings(types_)
	for _, typ := range types_ {
		spec := resultFieldSpecs[typ]
		fi := c.fn("backtest", typ, "Write")
		if fi == nil {
			run.Break("anchor missing: backtest.(*" + typ + ").Write")
			continue
		}
		fn := c.ssaFunc(fi)
		if fn == nil {
			run.Break("no SSA function for backtest.(*" + typ + ").Write")
			continue
		}
		site := "backtest.(*" + typ + ").Write"
		got := map[string][]string{}
		var used []string
		for _, b := range fn.Blocks {
			for _, in := range b.Instrs {
				st, ok := in.(*ssa.Store)
				if !ok {
					continue
				}
				fa, ok := st.Addr.(*ssa.FieldAddr)
				if !ok {
					continue
				}
				if _, isAlloc := fa.X.(*ssa.Alloc); !isAlloc {
					continue
				}
				name := fieldNameOf(fa.X.Type(), fa.Field)
				if _, want := spec[name]; !want {
					continue
				}
				var idx []string
				got[name] = append(got[name], ssaTerm(st.Val, &idx, 0))
				used = append(used, idx...)
			}
		}
		var fields []string
		for f := range spec {
			fields = append(fields, f)
		}
		sort.Strings(fields)
		for _, f := range fields {
			n++
			vals := got[f]
			why := ""
			switch {
			case len(vals) == 0:
				why = "the field is not set in Write (undecided, fails closed)"
			case len(vals) > 1:
				why = fmt.Sprintf("the field is set %d times", len(vals))
			case vals[0] != spec[f]:
				why = "it is " + vals[0] + ", specified " + spec[f]
			}
			run.Oblige(why == "")
			if why != "" {
				c.violate("backtest/result", site, f, fi.Decl.Pos(), fmt.Sprintf("the %s recorded for an (asset, strategy) pair is not what the evaluation yields: %s", f, why))
			}
		}
		// every branch of the duplicate is used for one thing only
		sort.Strings(used)
		dup := ""
		for i := 1; i < len(used); i++ {
			if used[i] == used[i-1] {
				dup = used[i]
			}
		}
		run.Oblige(dup == "")
		if dup != "" {
			c.violate("backtest/result", site, "branch "+dup, fi.Decl.Pos(), "two fields of the result are read from the same branch "+dup+" of the duplicated action stream: the readers compete for its elements")
		}
	}
	run.Count("result_fields", n)
	run.Floor("result_fields", 11)
}

// callTerms: the terms of all calls in the SSA bodies of fi and the unexported functions of its
// package it calls, whose callee belongs to package pkgName.
func (c *Ctx) callTerms(fi *load.FuncInfo, pkgName string) []string {
	var out []string
	for _, f := range c.family(fi) {
		fn := c.ssaFunc(f)
		if fn == nil {
			continue
		}
		for _, b := range fn.Blocks {
			for _, in := range b.Instrs {
				call, ok := in.(*ssa.Call)
				if !ok {
					continue
				}
				if sc := call.Call.StaticCallee(); sc != nil && sc.Pkg != nil && sc.Pkg.Pkg.Name() == pkgName {
					out = append(out, ssaTerm(call, new([]string), 0))
				}
			}
		}
	}
	sort.Strings(out)
	return out
}

// ssaPaths summarises a loop-free function as the set of its paths: the branch conditions taken
// (x != y is printed as !(x == y), operands of == in a fixed order), the module calls made for
// their effect, and what is returned. ok=false when the function has a loop.
func ssaPaths(fn *ssa.Function) ([]string, bool) {
	if fn == nil || len(fn.Blocks) == 0 {
		return nil, false
	}
	var out []string
	ok := true
	var walk func(b *ssa.BasicBlock, seen map[*ssa.BasicBlock]bool, acc []string)
	walk = func(b *ssa.BasicBlock, seen map[*ssa.BasicBlock]bool, acc []string) {
		if seen[b] {
			ok = false
			return
		}
		seen[b] = true
		defer delete(seen, b)
		for _, in := range b.Instrs {
			switch x := in.(type) {
			case *ssa.Call:
				// a call whose result nobody uses is made for its effect
				if x.Referrers() == nil || len(*x.Referrers()) == 0 {
					acc = append(acc, "call "+ssaTerm(x, new([]string), 0))
				}
			case *ssa.Store:
				acc = append(acc, "store "+ssaTerm(x.Addr, new([]string), 0)+" = "+ssaTerm(x.Val, new([]string), 0))
			case *ssa.Return:
				// a truth value computed by a comparison is the same as branching on it
				if len(x.Results) == 1 {
					if bo, isB := x.Results[0].(*ssa.BinOp); isB && (bo.Op == token.EQL || bo.Op == token.NEQ) {
						a, c2 := ssaTerm(bo.X, new([]string), 0), ssaTerm(bo.Y, new([]string), 0)
						if c2 < a {
							a, c2 = c2, a
						}
						eq := "(" + a + " == " + c2 + ")"
						tv, fv := "true", "false"
						if bo.Op == token.NEQ {
							tv, fv = fv, tv
						}
						out = append(out, strings.Join(append(append([]string{}, acc...), eq, "return "+tv), "; "))
						out = append(out, strings.Join(append(append([]string{}, acc...), "!"+eq, "return "+fv), "; "))
						return
					}
				}
				var rs []string
				for _, r := range x.Results {
					rs = append(rs, ssaTerm(r, new([]string), 0))
				}
				out = append(out, strings.Join(append(append([]string{}, acc...), "return "+strings.Join(rs, ", ")), "; "))
				return
			case *ssa.If:
				cond := ssaTerm(x.Cond, new([]string), 0)
				pos, neg := cond, "!"+cond
				if bo, isB := x.Cond.(*ssa.BinOp); isB && (bo.Op == token.NEQ || bo.Op == token.EQL) {
					a, c2 := ssaTerm(bo.X, new([]string), 0), ssaTerm(bo.Y, new([]string), 0)
					if c2 < a {
						a, c2 = c2, a
					}
					eq := "(" + a + " == " + c2 + ")"
					if bo.Op == token.EQL {
						pos, neg = eq, "!"+eq
					} else {
						pos, neg = "!"+eq, eq
					}
				}
				walk(b.Succs[0], seen, append(append([]string{}, acc...), pos))
				walk(b.Succs[1], seen, append(append([]string{}, acc...), neg))
				return
			case *ssa.Jump:
				walk(b.Succs[0], seen, acc)
				return
			case *ssa.Panic:
				out = append(out, strings.Join(append(append([]string{}, acc...), "panic"), "; "))
				return
			}
		}
	}
	walk(fn.Blocks[0], map[*ssa.BasicBlock]bool{}, nil)
	sort.Strings(out)
	return out, ok
}

// ssaBind maps the parameters of a helper being expanded to the terms of its arguments.
var ssaBind = map[*ssa.Parameter]string{}

// ssaInline: the term of a call of an unexported function of the caller's package that consists
// of one block without effects (no stores, sends, go, defer, map updates) and returns one value.
func ssaInline(call *ssa.Call, fn *ssa.Function, args []string, idx *[]string, depth int) (string, bool) {
	o := fn
	if fn.Origin() != nil {
		o = fn.Origin()
	}
	caller := call.Parent()
	if o.Pkg == nil || caller == nil {
		return "", false
	}
	callerPkg := caller.Pkg
	if callerPkg == nil && caller.Origin() != nil {
		callerPkg = caller.Origin().Pkg // an instantiation wrapper
	}
	if callerPkg != o.Pkg {
		return "", false
	}
	body := fn
	if len(body.Blocks) == 0 {
		body = o // an instance of a generic function: the generic body
	}
	if ast.IsExported(o.Name()) || len(body.Blocks) != 1 || len(body.Params) != len(args) || depth > 8 {
		return "", false
	}
	fn = body
	var ret *ssa.Return
	for _, in := range fn.Blocks[0].Instrs {
		switch x := in.(type) {
		case *ssa.Store, *ssa.Send, *ssa.Go, *ssa.Defer, *ssa.MapUpdate, *ssa.Panic, *ssa.RunDefers:
			return "", false
		case *ssa.Return:
			ret = x
		}
	}
	if ret == nil || len(ret.Results) != 1 {
		return "", false
	}
	saved := map[*ssa.Parameter]string{}
	for i, p := range fn.Params {
		if old, had := ssaBind[p]; had {
			saved[p] = old
		}
		ssaBind[p] = args[i]
	}
	t := ssaTerm(ret.Results[0], idx, depth+1)
	for _, p := range fn.Params {
		if old, had := saved[p]; had {
			ssaBind[p] = old
		} else {
			delete(ssaBind, p)
		}
	}
	return t, true
}

// ssaParamReaches: parameter j of fn is handed, as it is, to argument position argIdx of a call
// whose callee satisfies isTarget - in fn itself or in an unexported function of its package that
// fn hands the parameter on to (to depth 3).
func ssaParamReaches(fn *ssa.Function, j int, isTarget func(name string) bool, argIdx int, depth int) bool {
	if fn == nil || j >= len(fn.Params) || depth > 3 {
		return false
	}
	strip := func(v ssa.Value) ssa.Value {
		for {
			switch x := v.(type) {
			case *ssa.ChangeType:
				v = x.X
			case *ssa.Convert:
				v = x.X
			case *ssa.MakeInterface:
				v = x.X
			default:
				return v
			}
		}
	}
	p := fn.Params[j]
	for _, b := range fn.Blocks {
		for _, in := range b.Instrs {
			call, ok := in.(*ssa.Call)
			if !ok {
				continue
			}
			args := call.Call.Args
			name := ""
			var callee *ssa.Function
			if call.Call.IsInvoke() {
				name = "invoke." + call.Call.Method.Name()
			} else if sc := call.Call.StaticCallee(); sc != nil {
				callee = sc
				o := sc
				if sc.Origin() != nil {
					o = sc.Origin()
				}
				name = o.Name()
				if o.Pkg != nil {
					name = o.Pkg.Pkg.Name() + "." + o.Name()
				}
				if o.Signature.Recv() != nil {
					name = "method." + o.Name()
				}
			}
			if isTarget(name) && argIdx < len(args) && strip(args[argIdx]) == ssa.Value(p) {
				return true
			}
			if callee != nil && !ast.IsExported(callee.Name()) {
				body := callee
				if len(body.Blocks) == 0 && callee.Origin() != nil {
					body = callee.Origin()
				}
				for m, a := range args {
					if strip(a) == ssa.Value(p) && ssaParamReaches(body, m, isTarget, argIdx, depth+1) {
						return true
					}
				}
			}
		}
	}
	return false
}

// droppedErrors: calls in fn whose error result nobody looks at (no use of the value: not tested,
// returned, wrapped, logged or passed on). Deferred calls and calls in go statements are separate
// instructions and are not listed.
func droppedErrors(fn *ssa.Function) []*ssa.Call {
	var out []*ssa.Call
	errT := types.Universe.Lookup("error").Type()
	for _, b := range fn.Blocks {
		for _, in := range b.Instrs {
			call, ok := in.(*ssa.Call)
			if !ok {
				continue
			}
			res := call.Call.Signature().Results()
			if res.Len() == 0 {
				continue
			}
			last := res.At(res.Len() - 1).Type()
			if !types.Identical(last, errT) {
				continue
			}
			used := false
			refs := call.Referrers()
			if res.Len() == 1 {
				used = refs != nil && anyLiveUse(*refs)
			} else if refs != nil {
				for _, r := range *refs {
					if ex, isEx := r.(*ssa.Extract); isEx && ex.Index == res.Len()-1 {
						if er := ex.Referrers(); er != nil && anyLiveUse(*er) {
							used = true
						}
					}
				}
			}
			if !used {
				out = append(out, call)
			}
		}
	}
	return out
}

// anyLiveUse: some referrer of an error value looks at it. A store into a variable cell (a
// variable captured by a closure lives in a cell) is a use only if the cell can be loaded before
// it is overwritten: `res, err := do(); x, err = next()` with err captured stores the first
// error and overwrites it unseen.
func anyLiveUse(refs []ssa.Instruction) bool {
	for _, r := range refs {
		switch x := r.(type) {
		case *ssa.DebugRef:
			continue
		case *ssa.Store:
			if !deadStore(x) {
				return true
			}
		default:
			return true
		}
	}
	return false
}

// deadStore: the stored cell is a local variable cell whose every access is visible (loads,
// stores, captures), no capturing closure loads it before storing it, and on every way on from
// the store the cell is overwritten, or the function that owns the cell ends, before any load.
func deadStore(st *ssa.Store) bool {
	var cellRefs *[]ssa.Instruction
	owner := false // the store is in the function that owns the cell: at its end the cell dies (unless captured by a reader)
	switch a := st.Addr.(type) {
	case *ssa.Alloc:
		cellRefs, owner = a.Referrers(), true
	case *ssa.FreeVar:
		cellRefs = a.Referrers()
	default:
		return false
	}
	if cellRefs == nil {
		return false
	}
	for _, r := range *cellRefs {
		switch x := r.(type) {
		case *ssa.Store:
			if x.Addr != st.Addr {
				return false // the address itself is stored somewhere
			}
		case *ssa.UnOp, *ssa.DebugRef:
		case *ssa.MakeClosure:
			cf, _ := x.Fn.(*ssa.Function)
			if cf == nil {
				return false
			}
			for i, b := range x.Bindings {
				if b == st.Addr && (i >= len(cf.FreeVars) || closureLoadsFirst(cf, cf.FreeVars[i], 0)) {
					return false
				}
			}
		default:
			return false
		}
	}
	// forward from the store
	seen := map[*ssa.BasicBlock]bool{}
	var walk func(b *ssa.BasicBlock, from int) bool // true: a load is reached
	walk = func(b *ssa.BasicBlock, from int) bool {
		for i := from; i < len(b.Instrs); i++ {
			switch x := b.Instrs[i].(type) {
			case *ssa.UnOp:
				if x.Op == token.MUL && x.X == st.Addr {
					return true
				}
			case *ssa.Store:
				if x.Addr == st.Addr {
					return false
				}
			case *ssa.Return, *ssa.Panic:
				return !owner // a captured variable outlives the closure that stored it
			}
		}
		for _, s := range b.Succs {
			if seen[s] {
				continue
			}
			seen[s] = true
			if walk(s, 0) {
				return true
			}
		}
		return false
	}
	idx := -1
	for i, in := range st.Block().Instrs {
		if in == ssa.Instruction(st) {
			idx = i
		}
	}
	if idx < 0 {
		return false
	}
	return !walk(st.Block(), idx+1)
}

// closureLoadsFirst: on some way from the closure's entry the captured cell is loaded (or
// handed on) before the closure stores it.
func closureLoadsFirst(fn *ssa.Function, fv *ssa.FreeVar, depth int) bool {
	refs := fv.Referrers()
	if refs == nil {
		return false
	}
	for _, r := range *refs {
		switch x := r.(type) {
		case *ssa.Store:
			if x.Addr != ssa.Value(fv) {
				return true
			}
		case *ssa.UnOp, *ssa.DebugRef:
		case *ssa.MakeClosure:
			cf, _ := x.Fn.(*ssa.Function)
			if cf == nil || depth > 2 {
				return true
			}
			for i, b := range x.Bindings {
				if b == ssa.Value(fv) && (i >= len(cf.FreeVars) || closureLoadsFirst(cf, cf.FreeVars[i], depth+1)) {
					return true
				}
			}
		default:
			return true
		}
	}
	if len(fn.Blocks) == 0 {
		return true
	}
	seen := map[*ssa.BasicBlock]bool{fn.Blocks[0]: true}
	var walk func(b *ssa.BasicBlock) bool
	walk = func(b *ssa.BasicBlock) bool {
		for _, in := range b.Instrs {
			switch x := in.(type) {
			case *ssa.UnOp:
				if x.Op == token.MUL && x.X == ssa.Value(fv) {
					return true
				}
			case *ssa.Store:
				if x.Addr == ssa.Value(fv) {
					return false
				}
			}
		}
		for _, s := range b.Succs {
			if !seen[s] {
				seen[s] = true
				if walk(s) {
					return true
				}
			}
		}
		return false
	}
	return walk(fn.Blocks[0])
}
