package rules

import (
	"fmt"
	"go/ast"
	"go/token"
	"go/types"
	"math/big"
	"sort"
	"strings"

	"verif/checker/internal/load"
	"verif/checker/internal/shape"
	"verif/checker/internal/sym"
)

// Deg is a homogeneity degree: a linear form over the base units "p" (price) and "v" (volume)
// and over unknowns. Any is the polymorphic degree of the literal 0.
type Deg struct {
	Any bool
	M   map[string]*big.Rat
}

func dAny() Deg  { return Deg{Any: true} }
func dZero() Deg { return Deg{M: map[string]*big.Rat{}} }
func dVar(n string) Deg {
	return Deg{M: map[string]*big.Rat{n: big.NewRat(1, 1)}}
}

func (d Deg) String() string {
	if d.Any {
		return "any"
	}
	if len(d.M) == 0 {
		return "1"
	}
	var ks []string
	for k := range d.M {
		ks = append(ks, k)
	}
	sort.Strings(ks)
	var parts []string
	for _, k := range ks {
		name := k
		switch k {
		case "p":
			name = "price"
		case "v":
			name = "volume"
		}
		if d.M[k].Cmp(big.NewRat(1, 1)) == 0 {
			parts = append(parts, name)
		} else {
			parts = append(parts, name+"^"+d.M[k].RatString())
		}
	}
	return strings.Join(parts, "·")
}

func dScale(d Deg, k *big.Rat) Deg {
	if d.Any {
		return d
	}
	r := dZero()
	for n, c := range d.M {
		t := new(big.Rat).Mul(c, k)
		if t.Sign() != 0 {
			r.M[n] = t
		}
	}
	return r
}

func dAdd(a, b Deg, sign int64) Deg {
	if a.Any {
		a = dZero()
	}
	if b.Any {
		b = dZero()
	}
	r := dZero()
	for n, c := range a.M {
		r.M[n] = new(big.Rat).Set(c)
	}
	for n, c := range b.M {
		t := new(big.Rat).Set(c)
		if sign < 0 {
			t.Neg(t)
		}
		if o, ok := r.M[n]; ok {
			o.Add(o, t)
			if o.Sign() == 0 {
				delete(r.M, n)
			}
		} else if t.Sign() != 0 {
			r.M[n] = t
		}
	}
	return r
}

// Units is a unification state over degree unknowns.
type Units struct {
	subst     map[string]Deg // unknown -> form
	Conflicts []string
	n         int
	Rigid     map[string]bool // unknowns standing for a callee's parameters: eliminated last
}

func NewUnits() *Units { return &Units{subst: map[string]Deg{}, Rigid: map[string]bool{}} }

func (u *Units) fresh(hint string) Deg {
	u.n++
	return dVar(fmt.Sprintf("?%s%d", hint, u.n))
}

func isBase(n string) bool { return n == "p" || n == "v" }

// resolve applies the substitution.
func (u *Units) resolve(d Deg) Deg {
	if d.Any {
		return d
	}
	for iter := 0; iter < 50; iter++ {
		changed := false
		r := dZero()
		for n, c := range d.M {
			if s, ok := u.subst[n]; ok {
				r = dAdd(r, dScale(s, c), 1)
				changed = true
			} else {
				r = dAdd(r, Deg{M: map[string]*big.Rat{n: c}}, 1)
			}
		}
		d = r
		if !changed {
			break
		}
	}
	return d
}

// unify requires a = b; what says where (for the conflict message).
func (u *Units) unify(a, b Deg, what string) {
	if a.Any || b.Any {
		return
	}
	d := u.resolve(dAdd(a, b, -1))
	if len(d.M) == 0 {
		return
	}
	// eliminate an unknown if there is one
	var pick string
	var ks []string
	for k := range d.M {
		ks = append(ks, k)
	}
	sort.Strings(ks)
	for _, k := range ks {
		if !isBase(k) && !u.Rigid[k] {
			pick = k
			break
		}
	}
	if pick == "" {
		for i := len(ks) - 1; i >= 0; i-- {
			if u.Rigid[ks[i]] {
				pick = ks[i]
				break
			}
		}
	}
	if pick == "" {
		u.Conflicts = append(u.Conflicts, fmt.Sprintf("%s: %s vs %s", what, u.resolve(a), u.resolve(b)))
		return
	}
	c := d.M[pick]
	rest := dZero()
	for k, v := range d.M {
		if k != pick {
			rest.M[k] = v
		}
	}
	// pick*c + rest = 0  =>  pick = -rest/c
	inv := new(big.Rat).Inv(c)
	inv.Neg(inv)
	u.subst[pick] = dScale(rest, inv)
}

// ---------------------------------------------------------------------------
// Typing of terms.

type unitCtx struct {
	accDeg Deg
	hasAcc bool
	c      *Ctx
	u      *Units
	terms  *shape.Terms
	r      *shape.Result
	srcDeg map[string]Deg // degree of each source parameter
	sigs   map[string]*indSig
	depth  int
}

// indSig is the inferred unit signature of an indicator type for given argument degrees.
type indSig struct {
	outs []Deg
}

func fieldDeg(f string) Deg {
	switch f {
	case "Open", "High", "Low", "Close":
		return dVar("p")
	case "Volume":
		return dVar("v")
	}
	return dZero()
}

func (x *unitCtx) term(e sym.Expr) Deg {
	u := x.u
	switch t := e.(type) {
	case sym.Num:
		if t.V.Sign() == 0 {
			return dAny()
		}
		return dZero()
	case sym.Var:
		switch {
		case strings.HasPrefix(t.Name, "src:"):
			if d, ok := x.srcDeg[t.Name[4:]]; ok {
				return d
			}
			return u.fresh("src")
		case strings.HasPrefix(t.Name, "cfg"):
			return dZero()
		case strings.HasPrefix(t.Name, "#"):
			return dZero()
		case t.Name == "acc" && x.hasAcc:
			return x.accDeg
		}
		return u.fresh("var")
	case sym.Neg:
		return x.term(t.X)
	case sym.Bin:
		l, r := x.term(t.L), x.term(t.R)
		switch t.Op {
		case "+", "-":
			u.unify(l, r, "operands of "+t.Op+" in "+short(sym.String(e), 80))
			if l.Any {
				return r
			}
			return l
		case "*":
			return dAdd(l, r, 1)
		case "/":
			return dAdd(l, r, -1)
		}
	case sym.Cmp:
		l, r := x.term(t.L), x.term(t.R)
		u.unify(l, r, "comparison "+short(sym.String(e), 90))
		return dZero()
	case sym.Logic:
		for _, a := range t.Args {
			x.term(a)
		}
		return dZero()
	case sym.Ite:
		x.term(t.Cond)
		a, b := x.term(t.A), x.term(t.B)
		u.unify(a, b, "branches of a conditional")
		if a.Any {
			return b
		}
		return a
	case sym.Call:
		return x.call(t)
	}
	return u.fresh("t")
}

func (x *unitCtx) call(t sym.Call) Deg {
	u := x.u
	if t.Fn == "scan" && len(t.Args) == 2 {
		// a running fold: acc' = body(acc, elements), started at init
		saved, had := x.accDeg, x.hasAcc
		x.accDeg, x.hasAcc = u.fresh("acc"), true
		acc := x.accDeg
		body := x.term(t.Args[0])
		x.accDeg, x.hasAcc = saved, had
		u.unify(acc, body, "the accumulated value and its update in "+short(sym.String(t), 70))
		u.unify(acc, x.term(t.Args[1]), "the accumulated value and its start value")
		return acc
	}
	var args []Deg
	for _, a := range t.Args {
		args = append(args, x.term(a))
	}
	switch {
	case t.Fn == "at" && len(args) == 2:
		return args[0]
	case strings.HasPrefix(t.Fn, "field:") && len(args) == 1:
		return fieldDeg(t.Fn[6:])
	case t.Fn == "max" || t.Fn == "min":
		var r Deg = dAny()
		for _, a := range args {
			if r.Any {
				r = a
			} else {
				u.unify(r, a, "arguments of "+t.Fn)
			}
		}
		return r
	case t.Fn == "abs" && len(args) == 1:
		return args[0]
	case t.Fn == "trunc" && len(args) == 1:
		u.unify(args[0], dZero(), "truncation to an integer type (a truncated quantity does not scale with its unit)")
		return dZero()
	case t.Fn == "sqrt" && len(args) == 1:
		return dScale(args[0], big.NewRat(1, 2))
	case t.Fn == "pow" && len(args) == 2:
		if n, ok := t.Args[1].(sym.Num); ok {
			return dScale(args[0], n.V)
		}
		if ng, ok := t.Args[1].(sym.Neg); ok {
			if n, ok := ng.X.(sym.Num); ok {
				return dScale(args[0], new(big.Rat).Neg(n.V))
			}
		}
		u.unify(args[0], dZero(), "base of a power with a non-constant exponent")
		return dZero()
	case t.Fn == "sign":
		return dZero()
	case strings.HasPrefix(t.Fn, "RoundDigit"):
		if len(args) > 0 {
			u.unify(args[0], dZero(), "rounding to a fixed number of digits ("+short(sym.String(t), 70)+")")
		}
		return dZero()
	case strings.HasPrefix(t.Fn, "ind:"):
		return x.indicator(t, args)
	case strings.HasPrefix(t.Fn, "closure:"):
		return x.closure(t, args)
	case strings.HasPrefix(t.Fn, "stage:"):
		return x.stage(t, args)
	}
	return u.fresh("call")
}

// indicator applies the unit signature of a sub-indicator, inferred from its own Compute.
func (x *unitCtx) indicator(t sym.Call, args []Deg) Deg {
	u := x.u
	tn := indTypeOf(t.Fn)
	k := 0
	if i := strings.LastIndex(t.Fn, "#"); i >= 0 {
		fmt.Sscan(t.Fn[i+1:], &k)
	}
	i := strings.Index(tn, ".")
	if i < 0 {
		return u.fresh("ind")
	}
	fi := x.c.P.Method(tn[:i], tn[i+1:], "Compute")
	if fi == nil {
		// interface-typed moving average / strategy: degree-preserving on its first argument
		if len(args) > 0 {
			return args[0]
		}
		return u.fresh("ind")
	}
	if x.depth > 12 {
		return u.fresh("deep")
	}
	outs := x.c.indicatorUnits(fi, args, x.u, x.depth+1)
	if k < len(outs) {
		return outs[k]
	}
	return u.fresh("ind")
}

// indicatorUnits types the outputs of an indicator's Compute for the given argument degrees, in
// the caller's unification state (conflicts inside the callee are reported at its own root only).
func (c *Ctx) indicatorUnits(fi *load.FuncInfo, args []Deg, u *Units, depth int) []Deg {
	rs := c.Results(fi, Opts{Mode: shape.ModeContracts})
	if len(rs) == 0 {
		return nil
	}
	r := rs[0]
	sub := NewUnits()
	sub.n = u.n + 1000*depth
	x := &unitCtx{c: c, u: sub, terms: shape.NewTerms(c.P, r), r: r, srcDeg: map[string]Deg{}, depth: depth}
	// arguments: the callee's parameters get fresh unknowns tied to the caller's degrees afterwards
	var pvars []Deg
	for i, ps := range r.ParamStreams {
		v := dVar(fmt.Sprintf("?arg%02d", i))
		sub.Rigid[fmt.Sprintf("?arg%02d", i)] = true
		pvars = append(pvars, v)
		x.srcDeg[ps.Param] = v
	}
	var outs []Deg
	for _, s := range retStreams(r) {
		outs = append(outs, x.term(x.terms.Of(s)))
	}
	// express outputs over the parameter unknowns, then substitute the caller's degrees
	res := make([]Deg, len(outs))
	for i, o := range outs {
		o = sub.resolve(o)
		d := dZero()
		if o.Any {
			res[i] = o
			continue
		}
		for n, coef := range o.M {
			matched := false
			for j, pv := range pvars {
				for pn := range pv.M {
					if pn == n && j < len(args) {
						d = dAdd(d, dScale(args[j], coef), 1)
						matched = true
					}
				}
			}
			if !matched {
				if isBase(n) {
					d = dAdd(d, Deg{M: map[string]*big.Rat{n: coef}}, 1)
				} else {
					d = dAdd(d, dScale(u.fresh("free"), coef), 1)
				}
			}
		}
		res[i] = d
	}
	// equalities the callee imposes between its parameters carry over to the arguments
	for j, pv := range pvars {
		rp := sub.resolve(pv)
		if j >= len(args) || rp.Any {
			continue
		}
		d := dZero()
		ok := true
		for n, coef := range rp.M {
			found := false
			for j2, pv2 := range pvars {
				for pn := range pv2.M {
					if pn == n && j2 < len(args) {
						d = dAdd(d, dScale(args[j2], coef), 1)
						found = true
					}
				}
			}
			if !found {
				if isBase(n) {
					d = dAdd(d, Deg{M: map[string]*big.Rat{n: coef}}, 1)
				} else {
					ok = false
				}
			}
		}
		if ok {
			u.unify(args[j], d, "arguments of "+load.FuncName(fi.Fn))
		}
	}
	return res
}

// closure types a stateful closure by flow-insensitive inference over its body.
func (x *unitCtx) closure(t sym.Call, args []Deg) Deg {
	name := t.Fn[len("closure:"):]
	cl := x.terms.ClosureByName(name)
	if cl == nil {
		return x.u.fresh("cl")
	}
	inf := &astUnits{u: x.u, info: cl.Frame.Info, vars: map[types.Object]Deg{}, conts: map[string]Deg{}, lo: cl.Lit.Pos(), hi: cl.Lit.End(), where: name}
	i := 0
	if cl.Lit.Type.Params != nil {
		for _, f := range cl.Lit.Type.Params.List {
			for _, nm := range f.Names {
				if obj := cl.Frame.Info.Defs[nm]; obj != nil && i < len(args) {
					inf.vars[obj] = args[i]
				}
				i++
			}
		}
	}
	inf.ret = x.u.fresh("ret")
	inf.initCaptured(cl)
	inf.block(cl.Lit.Body)
	return inf.ret
}

// stage types a hand-written stage body: received variables take the degrees of the inputs.
func (x *unitCtx) stage(t sym.Call, args []Deg) Deg {
	name := t.Fn[len("stage:"):]
	st := x.terms.StageByName(name)
	if st == nil || st.Frame == nil {
		return x.u.fresh("st")
	}
	lit := stageLit(st)
	if lit == nil {
		return x.u.fresh("st")
	}
	inf := &astUnits{u: x.u, info: st.Frame.Info, vars: map[types.Object]Deg{}, conts: map[string]Deg{}, lo: lit.Pos(), hi: lit.End(), where: name, recv: map[string]Deg{}}
	for i, in := range st.Ins {
		if i < len(args) {
			inf.recv[in.S.Name] = args[i]
			inf.recvByStream = append(inf.recvByStream, recvBinding{in.S, args[i]})
		}
	}
	inf.stageFrame = st.Frame
	inf.ret = x.u.fresh("out")
	inf.block(lit.Body)
	return inf.ret
}

func stageLit(st *shape.Stage) *ast.FuncLit {
	if st.Frame == nil || st.Frame.Parent == nil || st.Frame.Parent.Decl == nil {
		return nil
	}
	var out *ast.FuncLit
	ast.Inspect(st.Frame.Parent.Decl.Body, func(n ast.Node) bool {
		if g, ok := n.(*ast.GoStmt); ok && g.Pos() == st.Pos {
			if fl, ok := g.Call.Fun.(*ast.FuncLit); ok {
				out = fl
			}
		}
		return true
	})
	if out == nil && st.Frame.Decl != nil && st.Frame.Decl.Body != nil {
		// `go x.worker(in, out)`: the stage's body is the declared function's
		out = &ast.FuncLit{Type: st.Frame.Decl.Type, Body: st.Frame.Decl.Body}
	}
	return out
}

type recvBinding struct {
	s *shape.Stream
	d Deg
}

// astUnits is the flow-insensitive unit inference over a function body.
type astUnits struct {
	u            *Units
	info         *types.Info
	vars         map[types.Object]Deg
	conts        map[string]Deg // element degree of containers (rings, trees) by receiver text
	ret          Deg
	lo, hi       token.Pos
	where        string
	recv         map[string]Deg
	recvByStream []recvBinding
	stageFrame   *shape.Frame
	contAlias    map[string]string // container parameter of an inlined helper -> the caller's container
	depth        int
}

func (a *astUnits) varDeg(obj types.Object) Deg {
	if d, ok := a.vars[obj]; ok {
		return d
	}
	d := a.u.fresh("v")
	// configuration captured from outside that is never assigned inside: dimensionless
	if obj.Pos() < a.lo || obj.Pos() > a.hi {
		if !a.assignedInside(obj) {
			if b, ok := obj.Type().Underlying().(*types.Basic); ok && b.Info()&types.IsNumeric != 0 {
				d = dZero()
			} else if _, ok := obj.Type().(*types.TypeParam); ok {
				d = dZero()
			}
		}
	}
	a.vars[obj] = d
	return d
}

var assignedCache = map[*astUnits]map[types.Object]bool{}

func (a *astUnits) assignedInside(obj types.Object) bool {
	return false // refined by initCaptured: state variables are entered explicitly
}

// initCaptured enters the captured variables that the closure assigns (state) with a fresh degree
// unified with their initial value.
func (a *astUnits) initCaptured(cl *shape.Closure) {
	assigned := map[types.Object]bool{}
	ast.Inspect(cl.Lit.Body, func(n ast.Node) bool {
		var ts []ast.Expr
		switch x := n.(type) {
		case *ast.AssignStmt:
			ts = x.Lhs
		case *ast.IncDecStmt:
			ts = []ast.Expr{x.X}
		}
		for _, t := range ts {
			if id, ok := t.(*ast.Ident); ok {
				if obj := a.info.Uses[id]; obj != nil && (obj.Pos() < a.lo || obj.Pos() > a.hi) {
					assigned[obj] = true
				}
			}
		}
		return true
	})
	for obj := range assigned {
		d := a.u.fresh("state")
		a.vars[obj] = d
		// initial value from the defining statement in the enclosing function
		if cl.Frame != nil && cl.Frame.Decl != nil {
			ast.Inspect(cl.Frame.Decl.Body, func(n ast.Node) bool {
				as, ok := n.(*ast.AssignStmt)
				if !ok || as.Pos() > cl.Lit.Pos() {
					return true
				}
				for i, l := range as.Lhs {
					if id, ok := l.(*ast.Ident); ok && a.info.Defs[id] == obj && i < len(as.Rhs) {
						a.u.unify(d, a.outerExpr(as.Rhs[i]), "initial value of "+obj.Name()+" in "+a.where)
					}
				}
				return true
			})
		}
	}
}

// outerExpr types an initialiser in the enclosing function: literals and configuration only.
func (a *astUnits) outerExpr(e ast.Expr) Deg {
	if tv, ok := a.info.Types[e]; ok && tv.Value != nil {
		if tv.Value.String() == "0" {
			return dAny()
		}
		return dZero()
	}
	switch x := e.(type) {
	case *ast.CallExpr:
		if tv, ok := a.info.Types[x.Fun]; ok && tv.IsType() && len(x.Args) == 1 {
			return a.outerExpr(x.Args[0])
		}
	case *ast.SelectorExpr, *ast.Ident:
		return dZero()
	}
	return a.u.fresh("init")
}

func (a *astUnits) block(b *ast.BlockStmt) {
	if b == nil {
		return
	}
	for _, s := range b.List {
		a.stmt(s)
	}
}

func (a *astUnits) stmt(s ast.Stmt) {
	switch x := s.(type) {
	case *ast.BlockStmt:
		a.block(x)
	case *ast.ExprStmt:
		a.expr(x.X)
	case *ast.DeclStmt:
		if gd, ok := x.Decl.(*ast.GenDecl); ok {
			for _, sp := range gd.Specs {
				if vs, ok := sp.(*ast.ValueSpec); ok {
					for i, nm := range vs.Names {
						if obj := a.info.Defs[nm]; obj != nil && i < len(vs.Values) {
							a.u.unify(a.varDeg(obj), a.expr(vs.Values[i]), "initialisation of "+nm.Name+" in "+a.where)
						}
					}
				}
			}
		}
	case *ast.AssignStmt:
		if len(x.Lhs) == len(x.Rhs) {
			for i, l := range x.Lhs {
				r := a.expr(x.Rhs[i])
				id, ok := l.(*ast.Ident)
				if !ok || id.Name == "_" {
					continue
				}
				obj := a.info.Defs[id]
				if obj == nil {
					obj = a.info.Uses[id]
				}
				if obj == nil {
					continue
				}
				ld := a.varDeg(obj)
				switch x.Tok {
				case token.MUL_ASSIGN:
					a.u.unify(r, dZero(), "scaling of "+id.Name+" in place in "+a.where)
				case token.QUO_ASSIGN:
					a.u.unify(r, dZero(), "scaling of "+id.Name+" in place in "+a.where)
				default:
					a.u.unify(ld, r, "assignment to "+id.Name+" in "+a.where)
				}
			}
		} else if len(x.Rhs) == 1 {
			// v, ok := <-c   /   n, _ := ring.Get()
			r := a.expr(x.Rhs[0])
			if id, ok := x.Lhs[0].(*ast.Ident); ok && id.Name != "_" {
				obj := a.info.Defs[id]
				if obj == nil {
					obj = a.info.Uses[id]
				}
				if obj != nil {
					a.u.unify(a.varDeg(obj), r, "assignment to "+id.Name+" in "+a.where)
				}
			}
		}
	case *ast.IncDecStmt:
		a.u.unify(a.expr(x.X), dZero(), "increment of "+exprString(x.X)+" in "+a.where)
	case *ast.IfStmt:
		if x.Init != nil {
			a.stmt(x.Init)
		}
		a.expr(x.Cond)
		a.block(x.Body)
		if x.Else != nil {
			a.stmt(x.Else)
		}
	case *ast.ForStmt:
		if x.Init != nil {
			a.stmt(x.Init)
		}
		if x.Cond != nil {
			a.expr(x.Cond)
		}
		a.block(x.Body)
	case *ast.RangeStmt:
		// for n := range c
		if id, ok := x.Key.(*ast.Ident); ok && id.Name != "_" {
			if obj := a.info.Defs[id]; obj != nil {
				a.u.unify(a.varDeg(obj), a.expr(x.X), "range variable "+id.Name)
			}
		}
		a.block(x.Body)
	case *ast.ReturnStmt:
		if len(x.Results) == 1 {
			a.u.unify(a.ret, a.expr(x.Results[0]), "returned value of "+a.where)
		}
	case *ast.SendStmt:
		a.u.unify(a.ret, a.expr(x.Value), "value sent by "+a.where)
	case *ast.SwitchStmt:
		if x.Tag != nil {
			a.expr(x.Tag)
		}
		for _, cs := range x.Body.List {
			if cc, ok := cs.(*ast.CaseClause); ok {
				for _, st := range cc.Body {
					a.stmt(st)
				}
			}
		}
	case *ast.DeferStmt, *ast.GoStmt, *ast.BranchStmt, *ast.EmptyStmt:
	}
}

func (a *astUnits) expr(e ast.Expr) Deg {
	u := a.u
	if tv, ok := a.info.Types[e]; ok && tv.Value != nil {
		if tv.Value.String() == "0" {
			return dAny()
		}
		return dZero()
	}
	switch x := e.(type) {
	case *ast.ParenExpr:
		return a.expr(x.X)
	case *ast.Ident:
		obj := a.info.Uses[x]
		if obj == nil {
			obj = a.info.Defs[x]
		}
		if obj == nil {
			return u.fresh("id")
		}
		if _, isVar := obj.(*types.Var); !isVar {
			return dZero()
		}
		// a channel variable of a stage body: the degree of the stream bound to it
		if _, isChan := obj.Type().Underlying().(*types.Chan); isChan {
			return a.chanDeg(obj, x.Name)
		}
		return a.varDeg(obj)
	case *ast.SelectorExpr:
		return dZero() // configuration field
	case *ast.UnaryExpr:
		switch x.Op {
		case token.ARROW:
			return a.expr(x.X)
		case token.NOT:
			a.expr(x.X)
			return dZero()
		}
		return a.expr(x.X)
	case *ast.BinaryExpr:
		l, r := a.expr(x.X), a.expr(x.Y)
		switch x.Op {
		case token.ADD, token.SUB:
			u.unify(l, r, "operands of "+x.Op.String()+" ("+short(exprString(x), 60)+") in "+a.where)
			if l.Any {
				return r
			}
			return l
		case token.MUL:
			return dAdd(l, r, 1)
		case token.QUO:
			return dAdd(l, r, -1)
		case token.LSS, token.LEQ, token.GTR, token.GEQ, token.EQL, token.NEQ:
			if lb, ok := a.info.TypeOf(x.X).Underlying().(*types.Basic); ok && lb.Info()&types.IsBoolean != 0 {
				return dZero()
			}
			u.unify(l, r, "comparison "+short(exprString(x), 60)+" in "+a.where)
			return dZero()
		case token.LAND, token.LOR:
			return dZero()
		}
		return dZero()
	case *ast.IndexExpr:
		// an element of a slice of channels in a stage body: the stream bound to it
		if a.stageFrame != nil {
			if id, ok := x.X.(*ast.Ident); ok {
				if obj := a.info.Uses[id]; obj != nil {
					if cell := a.stageFrame.Env.Lookup(obj); cell != nil {
						if sl, ok := cell.V.(*shape.Slice); ok {
							if k, ok := constInt(a.info, x.Index); ok && int(k) < len(sl.Elems) {
								if s, ok := sl.Elems[k].V.(*shape.Stream); ok {
									for _, rb := range a.recvByStream {
										if rb.s == s {
											return rb.d
										}
									}
								}
							}
						}
					}
				}
			}
		}
		return a.expr(x.X)
	case *ast.CallExpr:
		if tv, ok := a.info.Types[x.Fun]; ok && tv.IsType() && len(x.Args) == 1 {
			d := a.expr(x.Args[0])
			// a conversion of a possibly fractional quantity to an integer type truncates: that
			// commutes with a change of unit only for dimensionless quantities
			if bt, ok := tv.Type.Underlying().(*types.Basic); ok && bt.Info()&types.IsInteger != 0 {
				if at := a.info.TypeOf(x.Args[0]); at != nil {
					fractional := false
					switch u := at.(type) {
					case *types.TypeParam:
						fractional = true
					default:
						if b, ok := u.Underlying().(*types.Basic); ok && b.Info()&types.IsFloat != 0 {
							fractional = true
						}
					}
					if fractional {
						a.u.unify(d, dZero(), "truncation "+types.ExprString(x)+" to an integer type in "+a.where+" (a truncated quantity does not scale with its unit)")
					}
				}
			}
			return d
		}
		var args []Deg
		for _, ar := range x.Args {
			args = append(args, a.expr(ar))
		}
		name := ""
		if fn := callee(a.info, x); fn != nil {
			name = qualName(fn)
		}
		switch name {
		case "math.Max", "math.Min":
			if len(args) == 2 {
				u.unify(args[0], args[1], "arguments of "+name+" in "+a.where)
				if args[0].Any {
					return args[1]
				}
				return args[0]
			}
		case "math.Abs":
			return args[0]
		case "math.Sqrt":
			return dScale(args[0], big.NewRat(1, 2))
		case "math.Pow":
			if tv, ok := a.info.Types[x.Args[1]]; ok && tv.Value != nil {
				if r, ok := new(big.Rat).SetString(tv.Value.ExactString()); ok {
					return dScale(args[0], r)
				}
			}
			u.unify(args[0], dZero(), "base of math.Pow with a non-constant exponent in "+a.where)
			return dZero()
		}
		// container methods
		if sel, ok := x.Fun.(*ast.SelectorExpr); ok {
			recv := exprString(sel.X)
			if strings.HasSuffix(name, "helper.(Ring).Put") || strings.HasSuffix(name, "helper.(Bst).Insert") || strings.HasSuffix(name, "helper.(Bst).Remove") {
				c := a.cont(recv)
				if len(args) > 0 {
					u.unify(c, args[0], "element stored in "+recv+" in "+a.where)
				}
				return c
			}
			if strings.HasSuffix(name, "helper.(Ring).At") || strings.HasSuffix(name, "helper.(Ring).Get") || strings.HasSuffix(name, "helper.(Bst).Max") || strings.HasSuffix(name, "helper.(Bst).Min") {
				return a.cont(recv)
			}
			if strings.Contains(name, "helper.(Ring).Is") || strings.HasSuffix(name, "helper.(Bst).Contains") {
				return dZero()
			}
		}
		// an unexported helper of the same package (an extracted piece of the body): typed through its body
		if d, ok := a.inlineHelper(x, args); ok {
			return d
		}
		// a nested pipeline inside a stage body (the EMA seed): its degree is that of the channel argument
		for i, ar := range x.Args {
			if t := a.info.TypeOf(ar); t != nil {
				if _, isChan := t.Underlying().(*types.Chan); isChan {
					return args[i]
				}
			}
		}
		return u.fresh("call")
	}
	return u.fresh("e")
}

func (a *astUnits) cont(recv string) Deg {
	if al, ok := a.contAlias[recv]; ok {
		recv = al
	}
	if d, ok := a.conts[recv]; ok {
		return d
	}
	d := a.u.fresh("cont")
	a.conts[recv] = d
	return d
}

// chanDeg: the degree of the stream a channel variable of a stage body is bound to.
func (a *astUnits) chanDeg(obj types.Object, name string) Deg {
	if d, ok := a.vars[obj]; ok {
		return d
	}
	d := a.u.fresh("ch")
	if a.stageFrame != nil {
		if cell := a.stageFrame.Env.Lookup(obj); cell != nil {
			if s, ok := cell.V.(*shape.Stream); ok {
				for _, rb := range a.recvByStream {
					if rb.s == s {
						d = rb.d
					}
				}
				if s.Producer != nil && s.Producer.Frame == a.stageFrame {
					d = a.ret // the stage's own output channel
				}
			}
		}
	}
	a.vars[obj] = d
	return d
}

// inlineHelper types a call of an unexported, loop-tolerant helper function or method of the
// module by inferring over its body with the arguments' degrees (containers passed as
// arguments keep their element degree).
func (a *astUnits) inlineHelper(call *ast.CallExpr, args []Deg) (Deg, bool) {
	if declResolver == nil || a.depth > 2 {
		return Deg{}, false
	}
	fn := callee(a.info, call)
	if fn == nil || fn.Exported() {
		return Deg{}, false
	}
	dfi := declResolver(fn.Origin())
	if dfi == nil || dfi.Decl.Body == nil || dfi.Decl.Type.Params == nil {
		return Deg{}, false
	}
	info := dfi.Pkg.TypesInfo
	n := &astUnits{u: a.u, info: info, vars: map[types.Object]Deg{}, conts: a.conts, lo: dfi.Decl.Body.Pos(), hi: dfi.Decl.Body.End(),
		where: a.where, recv: a.recv, contAlias: map[string]string{}, depth: a.depth + 1}
	for k, v := range a.contAlias {
		n.contAlias[k] = v
	}
	n.ret = a.u.fresh("ret")
	i := 0
	for _, f := range dfi.Decl.Type.Params.List {
		for _, nm := range f.Names {
			if i < len(args) {
				if obj := info.Defs[nm]; obj != nil {
					n.vars[obj] = args[i]
				}
				// a ring or tree passed on keeps its element degree
				if i < len(call.Args) {
					if t := a.info.TypeOf(call.Args[i]); t != nil && (strings.Contains(t.String(), "helper.Ring") || strings.Contains(t.String(), "helper.Bst")) {
						caller := exprString(call.Args[i])
						if al, ok := a.contAlias[caller]; ok {
							caller = al
						}
						n.contAlias[nm.Name] = caller
					}
				}
			}
			i++
		}
	}
	n.block(dfi.Decl.Body)
	return n.ret, true
}
