package rules

import (
	"fmt"
	"go/ast"
	"go/token"
	"go/types"
	"os"
	"sort"
	"strings"

	"verif/checker/internal/dtab"
	"verif/checker/internal/load"
	"verif/checker/internal/sym"
)

// ordEval evaluates a boolean expression over the ordering of two designated
// values A and B (ord = -1: A<B, 0: A=B, 1: A>B).
type ordEval struct {
	info *types.Info
	isA  func(ast.Expr) bool
	isB  func(ast.Expr) bool
	defs map[types.Object]ast.Expr // single-definition locals
}

func isZeroLit(info *types.Info, e ast.Expr) bool {
	if v, ok := constInt(info, e); ok && v == 0 {
		return true
	}
	if tv, ok := info.Types[e]; ok && tv.Value != nil && tv.Value.String() == "0" {
		return true
	}
	return false
}

// diffSign: e denotes sign(A-B)*k: returns k (+1 for A-B, -1 for B-A).
func (o *ordEval) diffSign(e ast.Expr) (int, bool) {
	switch x := e.(type) {
	case *ast.ParenExpr:
		return o.diffSign(x.X)
	case *ast.BinaryExpr:
		if x.Op == token.SUB {
			if o.isA(x.X) && o.isB(x.Y) {
				return 1, true
			}
			if o.isB(x.X) && o.isA(x.Y) {
				return -1, true
			}
		}
	case *ast.Ident:
		if obj := o.info.Uses[x]; obj != nil {
			if d, ok := o.defs[obj]; ok {
				return o.diffSign(d)
			}
		}
	}
	return 0, false
}

func cmp(op token.Token, l, r int) (bool, bool) {
	switch op {
	case token.LSS:
		return l < r, true
	case token.LEQ:
		return l <= r, true
	case token.GTR:
		return l > r, true
	case token.GEQ:
		return l >= r, true
	case token.EQL:
		return l == r, true
	case token.NEQ:
		return l != r, true
	}
	return false, false
}

func (o *ordEval) eval(e ast.Expr, ord int) (bool, bool) {
	switch x := e.(type) {
	case *ast.ParenExpr:
		return o.eval(x.X, ord)
	case *ast.UnaryExpr:
		if x.Op == token.NOT {
			v, ok := o.eval(x.X, ord)
			return !v, ok
		}
	case *ast.BinaryExpr:
		switch x.Op {
		case token.LAND, token.LOR:
			l, ok1 := o.eval(x.X, ord)
			r, ok2 := o.eval(x.Y, ord)
			if !ok1 || !ok2 {
				return false, false
			}
			if x.Op == token.LAND {
				return l && r, true
			}
			return l || r, true
		}
		if o.isA(x.X) && o.isB(x.Y) {
			return cmp(x.Op, ord, 0)
		}
		if o.isB(x.X) && o.isA(x.Y) {
			return cmp(x.Op, 0, ord)
		}
		if isZeroLit(o.info, x.Y) {
			if k, ok := o.diffSign(x.X); ok {
				return cmp(x.Op, k*ord, 0)
			}
		}
		if isZeroLit(o.info, x.X) {
			if k, ok := o.diffSign(x.Y); ok {
				return cmp(x.Op, 0, k*ord)
			}
		}
	}
	return false, false
}

func singleDefs(info *types.Info, body *ast.BlockStmt) map[types.Object]ast.Expr {
	defs := map[types.Object]ast.Expr{}
	count := map[types.Object]int{}
	ast.Inspect(body, func(n ast.Node) bool {
		switch x := n.(type) {
		case *ast.IncDecStmt:
			if id, ok := x.X.(*ast.Ident); ok {
				count[info.ObjectOf(id)] += 2
			}
		case *ast.UnaryExpr:
			if id, ok := x.X.(*ast.Ident); ok && x.Op == token.AND {
				count[info.ObjectOf(id)] += 2
			}
		}
		as, ok := n.(*ast.AssignStmt)
		if !ok {
			return true
		}
		if len(as.Lhs) != len(as.Rhs) {
			for _, l := range as.Lhs {
				if id, ok := l.(*ast.Ident); ok {
					count[info.ObjectOf(id)] += 2
				}
			}
			return true
		}
		for i, l := range as.Lhs {
			id, ok := l.(*ast.Ident)
			if !ok {
				continue
			}
			obj := info.Defs[id]
			if obj == nil {
				obj = info.Uses[id]
			}
			if obj == nil {
				continue
			}
			count[obj]++
			defs[obj] = as.Rhs[i]
		}
		return true
	})
	for o, n := range count {
		if n != 1 {
			delete(defs, o)
		}
	}
	return defs
}

// sideOf: which child pointer the block moves to or assigns ("left", "right", "").
func sideOf(b ast.Node) string {
	side := ""
	ast.Inspect(b, func(n ast.Node) bool {
		if sel, ok := n.(*ast.SelectorExpr); ok {
			if sel.Sel.Name == bstF.small || sel.Sel.Name == bstF.large {
				if side == "" {
					side = sel.Sel.Name
				} else if side != sel.Sel.Name {
					side = "both"
				}
			}
		}
		return true
	})
	return side
}

// CheckC17: structural rules for the ring buffer and the search tree.
func CheckC17(c *Ctx) {
	run := c.Run
	c.resolveContainerFields()
	run.Technique = "typed-AST lints with finite decision tables: ordering decisions in generic numeric code must use comparison operators (never the sign of a difference); Insert and search must route every ordering {<,=,>} consistently; every Ring index is reduced modulo the buffer length"
	run.Explanation = "Conformance of Ring and Bst to the FIFO / multiset models under arbitrary histories is NOT decided. Three structural necessary conditions are: (1) no ordering decision on generic numeric values is taken from the sign of a difference (for integer element types the subtraction overflows: Bst[int8] holding -100 cannot find 100); (2) evaluated on the three orderings of (searched value, node value), Insert and searchNode send smaller keys to the same side, larger keys to the same side and searchNode stops on equality; (3) every index into Ring.buffer is begin/end or reduced modulo len(buffer), and begin/end advance only through nextIndex, whose body is (i+1) % len(buffer). Ring state invariant: `empty => begin == end` is established by NewRing and preserved on every path of every Ring method (each method's guarded commands, receiver fields as state); Put writes at end and Get/At read from begin, so an empty ring with different indices returns slots that were never filled. (4) Tree link discipline: the functions of package helper that store into tree links are interpreted path by path over symbolic node names (a variable holds an access path such as n.right, b.root or the results of a verified (node, parent) search loop; unexported non-recursive callees are inlined with their arguments; a loop is entered once from an arbitrary state of the variables it assigns; conditions become propositional facts over equalities of access paths). Every store into a child link, the root or the value of an existing node is an attach (new node into a link that is nil in every truth assignment the facts of the path allow), a splice (the link pointed at N, receives a child of N, and N's other child is nil: only N leaves the tree) or a replace (value of the in-order neighbour found by a verified search below N, which is itself spliced out on the same path); a recursive splicing function is analysed under the precondition that the root or one of the parent's links points at the node, which every call has to establish. The verdict does not depend on how the code is cut into helpers, on recursion versus re-assignment of (node, parent), or on pointer-to-link variables. (5) The observers: Contains, Remove, Min and Max are compared, as SSA path summaries over role names (the verified search, the unlinking method, the extreme finders, the root and value fields), with what the multiset model requires; a search loop runs exactly while there is somewhere to go."
	run.Trusted = []string{"go/types", "finite ordering domain {<,=,>} (values are only compared)"}
	hp := c.P.Pkg("helper")
	if hp == nil {
		run.Break("package helper missing")
		return
	}
	info := hp.TypesInfo
	// (1) ordering by subtraction, everywhere in helper/
	nCmp := 0
	for _, f := range hp.Syntax {
		if strings.HasSuffix(c.P.Fset.Position(f.Pos()).Filename, "_test.go") {
			continue
		}
		for _, d := range f.Decls {
			fd, ok := d.(*ast.FuncDecl)
			if !ok || fd.Body == nil {
				continue
			}
			defs := singleDefs(info, fd.Body)
			isGenericNum := func(e ast.Expr) bool {
				t := info.TypeOf(e)
				if t == nil {
					return false
				}
				_, ok := t.(*types.TypeParam)
				return ok
			}
			var isDiff func(e ast.Expr) bool
			isDiff = func(e ast.Expr) bool {
				switch x := e.(type) {
				case *ast.ParenExpr:
					return isDiff(x.X)
				case *ast.BinaryExpr:
					return x.Op == token.SUB && isGenericNum(x.X) && isGenericNum(x.Y) && !isZeroLit(info, x.Y) && !isZeroLit(info, x.X)
				case *ast.Ident:
					if obj := info.Uses[x]; obj != nil {
						if dd, ok := defs[obj]; ok {
							return isDiff(dd)
						}
					}
				}
				return false
			}
			ast.Inspect(fd.Body, func(n ast.Node) bool {
				be, ok := n.(*ast.BinaryExpr)
				if !ok {
					return true
				}
				switch be.Op {
				case token.LSS, token.LEQ, token.GTR, token.GEQ, token.EQL, token.NEQ:
				default:
					return true
				}
				if !isGenericNum(be.X) && !isGenericNum(be.Y) {
					return true
				}
				nCmp++
				var diff ast.Expr
				if isZeroLit(info, be.Y) && isDiff(be.X) {
					diff = be.X
				}
				if isZeroLit(info, be.X) && isDiff(be.Y) {
					diff = be.Y
				}
				if diff != nil {
					c.violate("order-by-subtraction", "helper."+fd.Name.Name, exprString(be), be.Pos(),
						"an ordering decision on generic numeric values is taken from the sign of a difference ("+exprString(be)+"): for integer element types the subtraction overflows and the decision is wrong at the extremes of the type")
				} else {
					c.ok()
				}
				return true
			})
		}
	}
	run.Count("generic_comparisons", nCmp)
	run.Floor("generic_comparisons", 8)

	// (2) Insert / searchNode agreement
	ins := c.fn("helper", "Bst", "Insert")
	srch := c.anchorVia("helper", "Bst", "searchNode", c.P.Method("helper", "Bst", "Contains"), nil)
	if ins != nil && srch != nil {
		c.bstAgreement(info, ins.Decl, srch.Decl)
	}
	// (3) Ring index discipline
	c.ringDiscipline(info)
	c.ringInvariant()
	c.treeAnswers()
	c.ringSteps()
	// (4) link-write discipline of the tree (removal)
	c.bstLinks()
}

func (c *Ctx) bstAgreement(info *types.Info, ins, srch *ast.FuncDecl) {
	run := c.Run
	isValueOf := func(e ast.Expr) (string, bool) {
		sel, ok := e.(*ast.SelectorExpr)
		if !ok || sel.Sel.Name != bstF.value {
			return "", false
		}
		id, ok := sel.X.(*ast.Ident)
		if !ok {
			return "", false
		}
		return id.Name, true
	}
	// Insert: the new node is the variable assigned from a composite literal
	newNode := ""
	ast.Inspect(ins.Body, func(n ast.Node) bool {
		as, ok := n.(*ast.AssignStmt)
		if !ok || len(as.Lhs) != 1 || len(as.Rhs) != 1 {
			return true
		}
		if u, ok := as.Rhs[0].(*ast.UnaryExpr); ok && u.Op == token.AND {
			if _, ok := u.X.(*ast.CompositeLit); ok {
				if id, ok := as.Lhs[0].(*ast.Ident); ok {
					newNode = id.Name
				}
			}
		}
		return true
	})
	valueParam := func(fd *ast.FuncDecl) string {
		if fd.Type.Params != nil && len(fd.Type.Params.List) > 0 && len(fd.Type.Params.List[0].Names) > 0 {
			return fd.Type.Params.List[0].Names[0].Name
		}
		return ""
	}
	insParam := valueParam(ins)
	oi := &ordEval{info: info, defs: singleDefs(info, ins.Body)}
	oi.isA = func(e ast.Expr) bool {
		if n, ok := isValueOf(e); ok && n == newNode {
			return true
		}
		if id, ok := e.(*ast.Ident); ok && id.Name == insParam {
			return true
		}
		return false
	}
	oi.isB = func(e ast.Expr) bool {
		n, ok := isValueOf(e)
		return ok && n != newNode
	}
	// first if/else in Insert's loop that routes left/right
	var insIf *ast.IfStmt
	ast.Inspect(ins.Body, func(n ast.Node) bool {
		if f, ok := n.(*ast.ForStmt); ok {
			for _, s := range elseFromContinue(f.Body.List) {
				if is, ok := s.(*ast.IfStmt); ok && is.Else != nil && insIf == nil {
					insIf = is
				}
			}
		}
		return true
	})
	sp := valueParam(srch)
	os := &ordEval{info: info, defs: singleDefs(info, srch.Body)}
	os.isA = func(e ast.Expr) bool { id, ok := e.(*ast.Ident); return ok && id.Name == sp }
	os.isB = func(e ast.Expr) bool { _, ok := isValueOf(e); return ok }
	var stopIf, routeIf *ast.IfStmt
	var contCond ast.Expr // a conjunct of the loop condition other than a nil test: the search goes on while it holds
	ast.Inspect(srch.Body, func(n ast.Node) bool {
		if f, ok := n.(*ast.ForStmt); ok {
			var conj func(e ast.Expr)
			conj = func(e ast.Expr) {
				switch x := e.(type) {
				case *ast.ParenExpr:
					conj(x.X)
				case *ast.BinaryExpr:
					if x.Op == token.LAND {
						conj(x.X)
						conj(x.Y)
						return
					}
					if id, isID := x.Y.(*ast.Ident); isID && id.Name == "nil" {
						return
					}
					if id, isID := x.X.(*ast.Ident); isID && id.Name == "nil" {
						return
					}
					if contCond == nil {
						contCond = x
					}
				}
			}
			if f.Cond != nil {
				conj(f.Cond)
			}
			for _, s := range elseFromContinue(f.Body.List) {
				is, ok := s.(*ast.IfStmt)
				if !ok {
					continue
				}
				if k, ok := endsWithExit(is.Body); ok && (k == "break" || k == "return") && is.Else == nil && stopIf == nil {
					stopIf = is
				} else if is.Else != nil && routeIf == nil {
					routeIf = is
				}
			}
		}
		return true
	})
	if insIf == nil || (stopIf == nil && contCond == nil) || routeIf == nil {
		c.violate("bst-agreement", "helper.(*Bst).Insert/searchNode", "shape", ins.Pos(),
			"Insert or searchNode no longer has the if/else routing shape the rule understands (undecided, fails closed)")
		return
	}
	insThen := sideOf(insIf.Body)
	srchThen := sideOf(routeIf.Body)
	names := map[int]string{-1: "smaller", 0: "equal", 1: "larger"}
	for _, ord := range []int{-1, 0, 1} {
		ci, ok1 := oi.eval(insIf.Cond, ord)
		cs, ok2 := os.eval(routeIf.Cond, ord)
		var st, ok3 bool
		stopText := ""
		stopPos := routeIf.Pos()
		if stopIf != nil {
			st, ok3 = os.eval(stopIf.Cond, ord)
			stopText = exprString(stopIf.Cond)
			stopPos = stopIf.Pos()
		} else {
			goOn, okc := os.eval(contCond, ord)
			st, ok3 = !goOn, okc
			stopText = "!(" + exprString(contCond) + ")"
			stopPos = contCond.Pos()
		}
		if !ok1 || !ok2 || !ok3 {
			c.violate("bst-agreement", "helper.(*Bst).Insert/searchNode", "undecided "+names[ord], insIf.Pos(),
				"a routing condition is outside the comparison vocabulary (undecided, fails closed): "+exprString(insIf.Cond)+" / "+exprString(routeIf.Cond)+" / "+stopText)
			continue
		}
		insSide := insThen
		if !ci {
			insSide = other(insThen)
		}
		srchSide := srchThen
		if !cs {
			srchSide = other(srchThen)
		}
		switch ord {
		case 0:
			run.Oblige(st)
			if !st {
				c.violate("bst-agreement", "helper.(*Bst).searchNode", "equal not found", stopPos, "searchNode does not stop on a node whose value equals the searched value")
			}
		default:
			good := !st && insSide == srchSide && (insSide == bstF.small) == (ord < 0)
			run.Oblige(good)
			if !good {
				c.violate("bst-agreement", "helper.(*Bst).Insert/searchNode", names[ord]+" key", routeIf.Pos(),
					"for a "+names[ord]+" key Insert goes "+insSide+" but searchNode "+map[bool]string{true: "stops", false: "goes " + srchSide}[st]+": inserted values cannot be found or removed")
			}
		}
	}
}

func other(s string) string {
	if s == bstF.small {
		return bstF.large
	}
	return bstF.small
}

func (c *Ctx) ringDiscipline(info *types.Info) {
	run := c.Run
	next := c.anchorVia("helper", "Ring", "nextIndex", c.P.Method("helper", "Ring", "Put"), func(fi *load.FuncInfo) bool {
		sig := fi.Fn.Type().(*types.Signature)
		return sig.Params().Len() == 1 && sig.Results().Len() == 1
	})
	if next == nil {
		return
	}
	isLenBuffer := func(e ast.Expr) bool {
		call, ok := ast.Unparen(e).(*ast.CallExpr)
		if !ok || len(call.Args) != 1 {
			return false
		}
		id, ok := call.Fun.(*ast.Ident)
		if !ok || id.Name != "len" {
			return false
		}
		sel, ok := ast.Unparen(call.Args[0]).(*ast.SelectorExpr)
		return ok && sel.Sel.Name == ringF.buf
	}
	// expand: calls of unexported single-expression helpers of the package are replaced by what they return
	expand := func(e ast.Expr) ast.Expr {
		for i := 0; i < 3; i++ {
			e = ast.Unparen(e)
			call, ok := e.(*ast.CallExpr)
			if !ok {
				break
			}
			in := c.inlineSingleReturn(info, call)
			if in == nil {
				break
			}
			e = in
		}
		return e
	}
	isModLen := func(e ast.Expr) bool {
		e = expand(e)
		be, ok := e.(*ast.BinaryExpr)
		return ok && be.Op == token.REM && isLenBuffer(be.Y)
	}
	// nextIndex returns (i+1) % len(buffer)
	okNext := false
	if res := returnedExpr(info, next.Decl, nil); res != nil && isModLen(res) {
		be := expand(res)
		lhs := ast.Unparen(be.(*ast.BinaryExpr).X)
		if add, ok := lhs.(*ast.BinaryExpr); ok && add.Op == token.ADD {
			// the parameter plus one
			pid, isP := ast.Unparen(add.X).(*ast.Ident)
			if v, ok := constInt(info, add.Y); ok && v == 1 && isP && identIsParam(info, next.Decl, pid) {
				okNext = true
			}
		}
	}
	run.Oblige(okNext)
	if !okNext {
		c.violate("ring-index", "helper.(*Ring).nextIndex", "formula", next.Decl.Pos(), "nextIndex is not (i+1) % len(buffer)")
	}
	nIdx := 0
	for _, fi := range c.P.Decls {
		if fi.Decl.Recv == nil || recvTypeName(fi) != "Ring" || fi.Pkg.PkgPath != c.P.Pkg("helper").PkgPath {
			continue
		}
		ast.Inspect(fi.Decl.Body, func(n ast.Node) bool {
			switch x := n.(type) {
			case *ast.IndexExpr:
				sel, ok := x.X.(*ast.SelectorExpr)
				if !ok || sel.Sel.Name != ringF.buf {
					return true
				}
				nIdx++
				index := ast.Unparen(resolveLocals(info, fi.Decl.Body, x.Index)) // a local holding begin/end
				good := isModLen(index)
				if s, ok := index.(*ast.SelectorExpr); ok && (s.Sel.Name == ringF.begin || s.Sel.Name == ringF.end) {
					good = true
				}
				run.Oblige(good)
				if !good {
					c.violate("ring-index", "helper.(*Ring)."+fi.Fn.Name(), exprString(x.Index), x.Pos(),
						"index into the ring buffer is neither begin/end nor reduced modulo len(buffer): positional reads run off the buffer when the ring has wrapped")
				}
			case *ast.AssignStmt:
				for i, l := range x.Lhs {
					s, ok := l.(*ast.SelectorExpr)
					if !ok || (s.Sel.Name != ringF.begin && s.Sel.Name != ringF.end) || i >= len(x.Rhs) {
						continue
					}
					good := false
					if call, ok := x.Rhs[i].(*ast.CallExpr); ok {
						if fn := callee(info, call); fn != nil && next != nil && fn.Origin() == next.Fn.Origin() {
							good = true
						}
					}
					// the emptiness flag recomputed from the indices is not an index update
					_ = good
					if v, ok := constInt(info, x.Rhs[i]); ok && v == 0 {
						good = true
					}
					run.Oblige(good)
					if !good {
						c.violate("ring-index", "helper.(*Ring)."+fi.Fn.Name(), s.Sel.Name+" = "+exprString(x.Rhs[i]), x.Pos(),
							"begin/end is advanced other than through nextIndex")
					}
				}
			}
			return true
		})
	}
	// the ring's state is touched by its own methods and its constructor only: anything else in
	// the package that reads begin/end/buffer re-implements the wrap-around outside these rules
	for _, fi := range c.P.Decls {
		if fi.Pkg.PkgPath != c.P.Pkg("helper").PkgPath || fi.Decl.Body == nil {
			continue
		}
		if strings.HasSuffix(c.P.Fset.Position(fi.Decl.Pos()).Filename, "_test.go") {
			continue
		}
		if (fi.Decl.Recv != nil && recvTypeName(fi) == "Ring") || fi.Fn.Name() == "NewRing" {
			continue
		}
		ast.Inspect(fi.Decl.Body, func(n ast.Node) bool {
			sel, ok := n.(*ast.SelectorExpr)
			if !ok {
				return true
			}
			if t := info.TypeOf(sel.X); t != nil && helperNamed(t) == "Ring" {
				if v, isField := info.ObjectOf(sel.Sel).(*types.Var); isField && v.IsField() {
					run.Oblige(false)
					c.violate("ring-encapsulation", "helper."+fi.Fn.Name(), exprString(sel), sel.Pos(), "helper."+fi.Fn.Name()+" reads or writes the ring's internal field "+sel.Sel.Name+" directly: the FIFO order of a wrapped ring is only guaranteed through Put/Get/At, whose indices these rules check")
				}
			}
			return true
		})
	}
	run.Count("ring_index_sites", nIdx)
	run.Floor("ring_index_sites", 3)
}

// ringInvariant: `empty => begin == end` is established by NewRing and preserved by every method
// of Ring (decided on the guarded commands of each method). Put writes at end and Get reads at
// begin, so an empty ring whose indices disagree hands out slots that were never filled.
func (c *Ctx) ringInvariant() {
	run := c.Run
	hp := c.P.Pkg("helper")
	if hp == nil {
		return
	}
	info := hp.TypesInfo
	methods := 0
	// inside the ring's methods its own observers are what their bodies say (decided below)
	dtab.InlineExported = func(fn *types.Func) bool {
		d := c.P.Decls[fn]
		return d != nil && d.Decl.Recv != nil && recvTypeName(d) == "Ring" && d.Pkg.PkgPath == hp.PkgPath
	}
	defer func() { dtab.InlineExported = nil }()
	for _, fi := range c.P.Decls {
		if fi.Decl.Recv == nil || recvTypeName(fi) != "Ring" || fi.Pkg.PkgPath != hp.PkgPath || fi.Decl.Body == nil {
			continue
		}
		m := dtab.FromFuncDecl(info, fi.Decl)
		touches := false
		for _, s := range m.State {
			if strings.HasSuffix(s, "."+ringF.begin) || strings.HasSuffix(s, "."+ringF.end) || strings.HasSuffix(s, "."+ringF.empty) {
				touches = true
			}
		}
		if !touches {
			continue
		}
		methods++
		site := "helper.(*Ring)." + fi.Fn.Name()
		if os.Getenv("VERIF_DEBUG_DTAB") != "" {
			for i, p := range m.Paths {
				fmt.Fprintf(os.Stderr, "%s path %d conds=%v ret=%v effects=%v exit=%s\n", site, i, exprs(p.Conds), exprs(p.Ret), p.Effects, p.Exit)
				for k, v := range p.Updates {
					fmt.Fprintf(os.Stderr, "    %s := %s\n", k, sym.CanonString(v))
				}
			}
		}
		if len(m.Unsupported) > 0 {
			c.violate("ring-invariant", site, "shape", fi.Decl.Pos(), "the method is not loop-free, the ring invariant is undecided (fails closed): "+strings.Join(m.Unsupported, "; "))
			continue
		}
		recv := ""
		if len(fi.Decl.Recv.List) == 1 && len(fi.Decl.Recv.List[0].Names) == 1 {
			recv = fi.Decl.Recv.List[0].Names[0].Name
		}
		bN, eN, mN := recv+"."+ringF.begin, recv+"."+ringF.end, recv+"."+ringF.empty
		for i, p := range m.Paths {
			post := func(n string) sym.Expr {
				if u, ok := p.Updates[n]; ok {
					return u
				}
				return sym.V(n)
			}
			b2, e2, m2 := post(bN), post(eN), post(mN)
			ok := true
			why := ""
			isConst := func(e sym.Expr, name string) bool { v, isV := e.(sym.Var); return isV && v.Name == name }
			switch {
			case isConst(m2, "#false"):
			case isConst(m2, "#true"):
				ok = sym.Equal(b2, e2)
				if !ok {
					for _, cd := range p.Conds {
						if cmp, isCmp := cd.(sym.Cmp); isCmp && cmp.Op == "==" {
							if (sym.Equal(cmp.L, b2) && sym.Equal(cmp.R, e2)) || (sym.Equal(cmp.L, e2) && sym.Equal(cmp.R, b2)) {
								ok = true
							}
						}
					}
				}
				why = fmt.Sprintf("marks the ring empty with begin = %s and end = %s, which are not known to be equal", sym.CanonString(b2), sym.CanonString(e2))
			default:
				unchanged := sym.Equal(b2, sym.V(bN)) && sym.Equal(e2, sym.V(eN))
				notEmpty := false
				for _, cd := range p.Conds {
					if l, isL := cd.(sym.Logic); isL && l.Op == "!" && len(l.Args) == 1 && isConst(l.Args[0], mN) {
						notEmpty = true
					}
				}
				ok = unchanged || notEmpty
				why = "moves begin/end of a ring that may be empty without keeping them equal"
			}
			run.Oblige(ok)
			if !ok {
				c.violate("ring-invariant", site, fmt.Sprintf("path %d", i), fi.Decl.Pos(), "a path of "+fi.Fn.Name()+" "+why+": the next Put writes at end while Get/At read from begin")
			}
		}
	}
	run.Count("ring_state_methods", methods)
	run.Floor("ring_state_methods", 2)
	// At(i) is the element i places after begin, wrapped, on every path: nothing else decides what it
	// returns (a count of stored elements computed from end - begin goes negative once the ring
	// has wrapped, and a guard on it hides live elements)
	if at := c.P.Method("helper", "Ring", "At"); at != nil && at.Decl.Body != nil {
		site := "helper.(*Ring).At"
		m := dtab.FromFuncDecl(info, at.Decl)
		recv := ""
		if len(at.Decl.Recv.List) == 1 && len(at.Decl.Recv.List[0].Names) == 1 {
			recv = at.Decl.Recv.List[0].Names[0].Name
		}
		param := ""
		if len(m.Params) == 1 {
			param = m.Params[0]
		}
		want := sym.F("index", sym.V(recv+"."+ringF.buf), sym.F("mod", sym.Add(sym.V(recv+"."+ringF.begin), sym.V(param)), sym.F("len", sym.V(recv+"."+ringF.buf))))
		good := len(m.Unsupported) == 0 && len(m.State) == 0 && param != "" && len(m.Paths) > 0
		why := "At is not a side-effect free expression of the ring's state (undecided, fails closed)"
		if good {
			for _, p := range m.Paths {
				if len(p.Ret) != 1 || !(sym.CanonString(p.Ret[0]) == sym.CanonString(want)) {
					good = false
					got := "nothing"
					if len(p.Ret) == 1 {
						got = sym.CanonString(p.Ret[0])
					}
					why = "a path of At returns " + short(got, 80) + ", not buffer[(begin+index) % len(buffer)]: a positional read must not depend on anything but begin, so that a ring that has wrapped (end behind begin) still yields its elements in FIFO order"
				}
			}
		}
		run.Oblige(good)
		if !good {
			c.violate("ring-observers", site, "paths", at.Decl.Pos(), why)
		}
	}
	// the observers are functions of the state the invariant is about: IsEmpty() = empty,
	// IsFull() = !empty && begin == end, on all four combinations. A cached answer kept in a field
	// of its own is a second copy of the state that every method would have to keep up to date.
	for _, ob := range []struct {
		name string
		want func(empty, same bool) bool
	}{
		{"IsEmpty", func(empty, same bool) bool { return empty }},
		{"IsFull", func(empty, same bool) bool { return !empty && same }},
	} {
		fi := c.P.Method("helper", "Ring", ob.name)
		if fi == nil || fi.Decl.Body == nil {
			run.Break("anchor missing: helper.(*Ring)." + ob.name)
			continue
		}
		site := "helper.(*Ring)." + ob.name
		m := dtab.FromFuncDecl(info, fi.Decl)
		recv := ""
		if len(fi.Decl.Recv.List) == 1 && len(fi.Decl.Recv.List[0].Names) == 1 {
			recv = fi.Decl.Recv.List[0].Names[0].Name
		}
		bN, eN, mN := recv+"."+ringF.begin, recv+"."+ringF.end, recv+"."+ringF.empty
		if len(m.Unsupported) > 0 || len(m.State) > 0 {
			c.violate("ring-observers", site, "shape", fi.Decl.Pos(), ob.name+" is not a side-effect free expression of the ring's state (undecided, fails closed)")
			continue
		}
		foreign := ""
		for _, rd := range m.Reads {
			if rd != bN && rd != eN && rd != mN {
				foreign = rd
			}
		}
		if foreign != "" {
			run.Oblige(false)
			c.violate("ring-observers", site, "reads "+foreign, fi.Decl.Pos(), ob.name+" answers from "+foreign+", not from empty/begin/end: a cached copy of the state goes stale in every method that does not refresh it (Get after a full ring still reports full, and the next Put overwrites a live element)")
			continue
		}
		for _, empty := range []bool{true, false} {
			for _, same := range []bool{true, false} {
				env := map[string]sym.Expr{mN: sym.V("#false"), bN: sym.N(0), eN: sym.N(1)}
				if empty {
					env[mN] = sym.V("#true")
				}
				if same {
					env[eN] = sym.N(0)
				}
				ps, ok := m.Select(env, numOracle)
				good := false
				if ok && len(ps) == 1 && len(ps[0].Ret) == 1 {
					if v, decided := dtab.EvalBool(ps[0].Ret[0], env, numOracle); decided {
						good = v == ob.want(empty, same)
					}
				}
				run.Oblige(good)
				if !good {
					c.violate("ring-observers", site, fmt.Sprintf("empty=%v begin==end=%v", empty, same), fi.Decl.Pos(), fmt.Sprintf("%s does not answer %v when empty=%v and begin==end is %v", ob.name, ob.want(empty, same), empty, same))
				}
			}
		}
	}
	// NewRing: begin == end, empty
	if nr := c.fn("helper", "", "NewRing"); nr != nil {
		ok := false
		ast.Inspect(nr.Decl.Body, func(n ast.Node) bool {
			cl, isCL := n.(*ast.CompositeLit)
			if !isCL {
				return true
			}
			vals := map[string]ast.Expr{}
			for _, el := range cl.Elts {
				if kv, isKV := el.(*ast.KeyValueExpr); isKV {
					vals[exprString(kv.Key)] = kv.Value
				}
			}
			b, hasB := vals[ringF.begin]
			e, hasE := vals[ringF.end]
			em, hasM := vals[ringF.empty]
			same := (!hasB && !hasE) || (hasB && hasE && exprString(b) == exprString(e))
			if !hasB && hasE || hasB && !hasE {
				if v, isC := constInt(info, map[bool]ast.Expr{true: b, false: e}[hasB]); isC && v == 0 {
					same = true
				}
			}
			if same && hasM && exprString(em) == "true" {
				ok = true
			}
			return true
		})
		run.Oblige(ok)
		if !ok {
			c.violate("ring-invariant", "helper.NewRing", "initial state", nr.Decl.Pos(), "a new ring must start empty with begin == end")
		}
	}
}

// The unexported fields of Ring and BstNode, found by what they are (the pinned names first).
var ringF = struct{ buf, begin, end, empty string }{"buffer", "begin", "end", "empty"}
var bstF = struct{ value, small, large string }{"value", "left", "right"}

// resolveContainerFields identifies the fields of helper.Ring and helper.BstNode when they were
// renamed: Ring has one slice (the buffer), one bool (empty) and two ints, of which `end` is the
// one Put stores at; a BstNode has one non-pointer field (the value) and two children, of which
// the smaller side is the one the minimum search (behind Min) follows.
func (c *Ctx) resolveContainerFields() {
	hp := c.P.Pkg("helper")
	if hp == nil {
		return
	}
	ringF = struct{ buf, begin, end, empty string }{"buffer", "begin", "end", "empty"}
	bstF = struct{ value, small, large string }{"value", "left", "right"}
	has := func(fs []fieldInfo, n string) bool {
		for _, f := range fs {
			if f.name == n {
				return true
			}
		}
		return false
	}
	rf := structFieldsOf(hp, "Ring")
	if len(rf) > 0 && !(has(rf, "buffer") && has(rf, "begin") && has(rf, "end") && has(rf, "empty")) {
		var ints []string
		for _, f := range rf {
			switch t := f.typ.Underlying().(type) {
			case *types.Slice:
				ringF.buf = f.name
			case *types.Basic:
				if t.Kind() == types.Bool {
					ringF.empty = f.name
				} else if t.Info()&types.IsInteger != 0 {
					ints = append(ints, f.name)
				}
			}
		}
		if put := c.P.Method("helper", "Ring", "Put"); put != nil && len(ints) == 2 {
			ast.Inspect(put.Decl.Body, func(n ast.Node) bool {
				as, ok := n.(*ast.AssignStmt)
				if !ok || len(as.Lhs) != 1 {
					return true
				}
				if ix, ok := as.Lhs[0].(*ast.IndexExpr); ok {
					if sel, ok := ix.Index.(*ast.SelectorExpr); ok {
						ringF.end = sel.Sel.Name
					}
				}
				return true
			})
			for _, n := range ints {
				if n != ringF.end {
					ringF.begin = n
				}
			}
		}
	}
	nf := structFieldsOf(hp, "BstNode")
	if len(nf) > 0 && !(has(nf, "value") && has(nf, "left") && has(nf, "right")) {
		var kids []string
		for _, f := range nf {
			if _, isPtr := f.typ.(*types.Pointer); isPtr {
				kids = append(kids, f.name)
			} else {
				bstF.value = f.name
			}
		}
		if min := c.P.Method("helper", "Bst", "Min"); min != nil && len(kids) == 2 {
			// the child the minimum search follows holds the smaller keys
			follow := ""
			var scan func(fi *load.FuncInfo, depth int)
			scan = func(fi *load.FuncInfo, depth int) {
				ast.Inspect(fi.Decl.Body, func(n ast.Node) bool {
					switch x := n.(type) {
					case *ast.SelectorExpr:
						if (x.Sel.Name == kids[0] || x.Sel.Name == kids[1]) && follow == "" {
							follow = x.Sel.Name
						}
					case *ast.CallExpr:
						if depth < 2 {
							if fn := callee(fi.Pkg.TypesInfo, x); fn != nil && !fn.Exported() {
								if d := c.P.Decls[fn.Origin()]; d != nil && d.Decl.Body != nil {
									scan(d, depth+1)
								}
							}
						}
					}
					return true
				})
			}
			scan(min, 0)
			if follow != "" {
				bstF.small = follow
				for _, k := range kids {
					if k != follow {
						bstF.large = k
					}
				}
			}
		}
	}
}

func identIsParam(info *types.Info, fd *ast.FuncDecl, id *ast.Ident) bool {
	obj := info.ObjectOf(id)
	for _, f := range fd.Type.Params.List {
		for _, nm := range f.Names {
			if info.ObjectOf(nm) == obj {
				return true
			}
		}
	}
	return false
}

// treeAnswers: what the tree's observers answer, read off the SSA paths of the four methods:
// Contains is "the search found a node", Remove reports false without touching the tree when the
// search found none and true after unlinking the node it found (with the parent the same search
// returned), Min and Max return the value of the extreme node below the root and the zero value
// for an empty tree. The searches and the unlinking themselves are decided by bst-agreement and
// bst-links.
var treeAnswerSpecs = map[string][]string{
	"Contains": {
		"!(SEARCH(param#0, param#1)#0 == nil); return true",
		"(SEARCH(param#0, param#1)#0 == nil); return false",
	},
	"Remove": {
		"!(SEARCH(param#0, param#1)#0 == nil); call UNLINK(param#0, SEARCH(param#0, param#1)#0, SEARCH(param#0, param#1)#1); return true",
		"(SEARCH(param#0, param#1)#0 == nil); return false",
	},
	"Min": {
		"!(load(param#0.ROOT) == nil); return load(MINFINDER(load(param#0.ROOT))#0.VALUE)",
		"(load(param#0.ROOT) == nil); return 0",
	},
	"Max": {
		"!(load(param#0.ROOT) == nil); return load(MAXFINDER(load(param#0.ROOT))#0.VALUE)",
		"(load(param#0.ROOT) == nil); return 0",
	},
}

// treeRoles names the unexported parts of the tree by what they are, so that renaming them
// changes nothing: the search method (a verified (node, parent) search from the root), the
// extreme finders (verified searches along the smaller / the larger link only), the unlinking
// method (the other unexported method Remove calls), the root and value fields.
func (c *Ctx) treeRoles() map[string]string {
	roles := map[string]string{}
	hp := c.P.Pkg("helper")
	if hp == nil {
		return roles
	}
	for _, fi := range c.P.Decls {
		if fi.Pkg != hp || fi.Decl.Body == nil || fi.Fn.Exported() {
			continue
		}
		f := c.finderOf(fi.Fn)
		if f == nil {
			continue
		}
		switch {
		case f.startRoot && fi.Decl.Recv != nil:
			roles["method."+fi.Fn.Name()+"("] = "SEARCH("
		case !f.startRoot && len(f.links) == 1 && f.links[bstF.small]:
			roles["helper."+fi.Fn.Name()+"("] = "MINFINDER("
		case !f.startRoot && len(f.links) == 1 && f.links[bstF.large]:
			roles["helper."+fi.Fn.Name()+"("] = "MAXFINDER("
		}
	}
	if rm := c.P.Method("helper", "Bst", "Remove"); rm != nil && rm.Decl.Body != nil {
		ast.Inspect(rm.Decl.Body, func(n ast.Node) bool {
			call, ok := n.(*ast.CallExpr)
			if !ok {
				return true
			}
			fn := callee(hp.TypesInfo, call)
			if fn == nil || fn.Exported() {
				return true
			}
			if sig, _ := fn.Type().(*types.Signature); sig != nil && sig.Recv() != nil && sig.Results().Len() == 0 {
				roles["method."+fn.Name()+"("] = "UNLINK("
			}
			return true
		})
	}
	if tn, _ := hp.Types.Scope().Lookup("Bst").(*types.TypeName); tn != nil {
		if st, ok := tn.Type().Underlying().(*types.Struct); ok {
			for i := 0; i < st.NumFields(); i++ {
				if isNodePtr(st.Field(i).Type()) {
					roles["."+st.Field(i).Name()+")"] = ".ROOT)"
				}
			}
		}
	}
	roles["."+bstF.value+")"] = ".VALUE)"
	return roles
}

func (c *Ctx) treeAnswers() {
	run := c.Run
	n := 0
	roles := c.treeRoles()
	for _, name := range []string{"Contains", "Remove", "Min", "Max"} {
		fi := c.P.Method("helper", "Bst", name)
		if fi == nil {
			run.Break("anchor missing: helper.(*Bst)." + name)
			continue
		}
		fn := c.ssaFunc(fi)
		paths, ok := ssaPaths(fn)
		for i := range paths {
			for from, to := range roles {
				paths[i] = strings.ReplaceAll(paths[i], from, to)
			}
		}
		sort.Strings(paths)
		n++
		site := "helper.(*Bst)." + name
		want := treeAnswerSpecs[name]
		good := ok && strings.Join(paths, " || ") == strings.Join(want, " || ")
		run.Oblige(good)
		if !good {
			why := "the method has a loop (undecided, fails closed)"
			if ok {
				why = "its paths are {" + strings.Join(paths, " || ") + "}, specified {" + strings.Join(want, " || ") + "}"
			}
			c.violate("bst-answers", site, short(strings.Join(paths, " || "), 100), fi.Decl.Pos(), name+" does not answer as the multiset model requires: "+why)
		}
	}
	run.Count("tree_observers", n)
	run.Floor("tree_observers", 4)
}

func exprs(es []sym.Expr) []string {
	var out []string
	for _, e := range es {
		out = append(out, sym.CanonString(e))
	}
	return out
}

// ringSteps: Put and Get, as guarded commands over (begin, end, empty), are compared with the
// bounded-FIFO model on every state of a ring of three slots that satisfies the invariant
// (empty => begin == end): Put stores its argument at end, returns what was there, advances end,
// clears empty and, when the ring was full, advances begin; Get on an empty ring changes nothing
// and answers (zero, false), otherwise it returns the slot at begin, advances begin and sets
// empty exactly when begin has caught up with end.
func (c *Ctx) ringSteps() {
	run := c.Run
	hp := c.P.Pkg("helper")
	if hp == nil {
		return
	}
	info := hp.TypesInfo
	dtab.InlineExported = func(fn *types.Func) bool {
		d := c.P.Decls[fn]
		return d != nil && d.Decl.Recv != nil && recvTypeName(d) == "Ring" && d.Pkg.PkgPath == hp.PkgPath
	}
	defer func() { dtab.InlineExported = nil }()
	const L = 3
	states := 0
	for _, name := range []string{"Put", "Get"} {
		fi := c.P.Method("helper", "Ring", name)
		if fi == nil || fi.Decl.Body == nil {
			run.Break("anchor missing: helper.(*Ring)." + name)
			continue
		}
		site := "helper.(*Ring)." + name
		m := dtab.FromFuncDecl(info, fi.Decl)
		recv := ""
		if len(fi.Decl.Recv.List) == 1 && len(fi.Decl.Recv.List[0].Names) == 1 {
			recv = fi.Decl.Recv.List[0].Names[0].Name
		}
		bN, eN, mN, bufN := recv+"."+ringF.begin, recv+"."+ringF.end, recv+"."+ringF.empty, recv+"."+ringF.buf
		why := ""
		if len(m.Unsupported) > 0 || recv == "" {
			why = "the method is not loop-free (undecided, fails closed)"
		}
		// a store into the buffer is a store at end: its index is end itself (possibly through a
		// local) and it stands before end is advanced
		storeAtEnd := false
		{
			var endAssign token.Pos
			ast.Inspect(fi.Decl.Body, func(n ast.Node) bool {
				if as, ok := n.(*ast.AssignStmt); ok {
					for _, l := range as.Lhs {
						if sel, isSel := l.(*ast.SelectorExpr); isSel && sel.Sel.Name == ringF.end && endAssign == token.NoPos {
							endAssign = as.Pos()
						}
					}
				}
				return true
			})
			ast.Inspect(fi.Decl.Body, func(n ast.Node) bool {
				as, ok := n.(*ast.AssignStmt)
				if !ok || len(as.Lhs) != 1 {
					return true
				}
				ix, isIx := as.Lhs[0].(*ast.IndexExpr)
				if !isIx {
					return true
				}
				if sel, isSel := ix.X.(*ast.SelectorExpr); !isSel || sel.Sel.Name != ringF.buf {
					return true
				}
				idx := ast.Unparen(resolveLocals(info, fi.Decl.Body, ix.Index))
				if sel, isSel := idx.(*ast.SelectorExpr); isSel && sel.Sel.Name == ringF.end && (endAssign == token.NoPos || as.Pos() < endAssign) {
					storeAtEnd = true
				}
				return true
			})
		}
		for b := int64(0); b < L && why == ""; b++ {
			for e := int64(0); e < L && why == ""; e++ {
				for _, empty := range []bool{true, false} {
					if empty && b != e {
						continue
					}
					env := map[string]sym.Expr{bN: sym.N(b), eN: sym.N(e), mN: sym.V("#false"), "len(" + bufN + ")": sym.N(L)}
					if empty {
						env[mN] = sym.V("#true")
					}
					var taken *dtab.Path
					n := 0
					for _, p := range m.Paths {
						all := true
						for _, cd := range p.Conds {
							v, ok := evalRingBool(cd, env)
							if !ok {
								why = "a condition of " + name + " is outside the ring's state: " + sym.CanonString(cd)
							}
							if !v {
								all = false
							}
						}
						if all {
							taken = p
							n++
						}
					}
					if why != "" {
						break
					}
					if n != 1 {
						why = fmt.Sprintf("%d paths of %s apply in the state begin=%d end=%d empty=%v", n, name, b, e, empty)
						break
					}
					states++
					post := func(nm string, dflt int64) (int64, bool) {
						u, has := taken.Updates[nm]
						if !has {
							return dflt, true
						}
						return evalIntTermEnv(u, env)
					}
					postEmpty := empty
					if u, has := taken.Updates[mN]; has {
						v, ok := evalRingBool(u, env)
						if !ok {
							why = "the new value of empty is undecided in " + name
							break
						}
						postEmpty = v
					}
					b2, ok1 := post(bN, b)
					e2, ok2 := post(eN, e)
					if !ok1 || !ok2 {
						why = "the new indices are undecided in " + name
						break
					}
					stores := false
					for _, ef := range taken.Effects {
						if strings.HasPrefix(ef, "assign "+bufN+"[") {
							stores = storeAtEnd
						}
					}
					var wb, we int64
					var wEmpty, wStores bool
					wantRet := ""
					switch name {
					case "Put":
						full := !empty && b == e
						wb, we, wEmpty, wStores = b, (e+1)%L, false, true
						if full {
							wb = (b + 1) % L
						}
						wantRet = "index(" + bufN + ", " + eN + ")"
					case "Get":
						if empty {
							wb, we, wEmpty = b, e, true
							wantRet = "0, #false"
						} else {
							wb, we = (b+1)%L, e
							wEmpty = wb == we
							wantRet = "index(" + bufN + ", " + bN + "), #true"
						}
					}
					gotRet := strings.Join(exprs(taken.Ret), ", ")
					if b2 != wb || e2 != we || postEmpty != wEmpty || stores != wStores || gotRet != wantRet {
						why = fmt.Sprintf("in the state begin=%d end=%d empty=%v %s leaves begin=%d end=%d empty=%v (stores at end: %v) and returns %s; the bounded FIFO has begin=%d end=%d empty=%v (stores at end: %v) and returns %s", b, e, empty, name, b2, e2, postEmpty, stores, gotRet, wb, we, wEmpty, wStores, wantRet)
						break
					}
				}
			}
		}
		// what Put stores is its argument
		if why == "" && name == "Put" {
			stored := false
			ast.Inspect(fi.Decl.Body, func(n ast.Node) bool {
				as, ok := n.(*ast.AssignStmt)
				if !ok || len(as.Lhs) != 1 || len(as.Rhs) != 1 {
					return true
				}
				if ix, isIx := as.Lhs[0].(*ast.IndexExpr); isIx {
					if sel, isSel := ix.X.(*ast.SelectorExpr); isSel && sel.Sel.Name == ringF.buf {
						if id, isID := ast.Unparen(as.Rhs[0]).(*ast.Ident); isID && identIsParam(info, fi.Decl, id) {
							stored = true
						}
					}
				}
				return true
			})
			if !stored {
				why = "what Put stores into the buffer is not its argument"
			}
		}
		run.Oblige(why == "")
		if why != "" {
			c.violate("ring-steps", site, short(why, 80), fi.Decl.Pos(), why)
			states += 24 // the rule was not vacuous: it found something
		}
	}
	run.Count("ring_states", states)
	run.Floor("ring_states", 24)
}

// evalIntTermEnv: evalIntTerm with len(x) looked up by its text.
func evalIntTermEnv(e sym.Expr, env map[string]sym.Expr) (int64, bool) {
	if c, ok := e.(sym.Call); ok && c.Fn == "len" {
		if v, has := env[sym.CanonString(c)]; has {
			return evalIntTerm(v, env)
		}
		return 0, false
	}
	switch x := e.(type) {
	case sym.Bin:
		l, ok1 := evalIntTermEnv(x.L, env)
		r, ok2 := evalIntTermEnv(x.R, env)
		if !ok1 || !ok2 {
			return 0, false
		}
		return evalIntTerm(sym.Bin{Op: x.Op, L: sym.N(l), R: sym.N(r)}, env)
	case sym.Call:
		if (x.Fn == "mod" || x.Fn == "%") && len(x.Args) == 2 {
			l, ok1 := evalIntTermEnv(x.Args[0], env)
			r, ok2 := evalIntTermEnv(x.Args[1], env)
			if ok1 && ok2 && r != 0 {
				return l % r, true
			}
		}
		return 0, false
	}
	return evalIntTerm(e, env)
}

func evalRingBool(e sym.Expr, env map[string]sym.Expr) (bool, bool) {
	switch x := e.(type) {
	case sym.Var:
		if v, ok := env[x.Name]; ok {
			if vv, isV := v.(sym.Var); isV {
				if vv.Name == "#true" {
					return true, true
				}
				if vv.Name == "#false" {
					return false, true
				}
			}
		}
		if x.Name == "#true" {
			return true, true
		}
		if x.Name == "#false" {
			return false, true
		}
		return false, false
	case sym.Logic:
		switch x.Op {
		case "!":
			v, ok := evalRingBool(x.Args[0], env)
			return !v, ok
		case "&&", "||":
			res := x.Op == "&&"
			for _, a := range x.Args {
				v, ok := evalRingBool(a, env)
				if !ok {
					return false, false
				}
				if x.Op == "&&" {
					res = res && v
				} else {
					res = res || v
				}
			}
			return res, true
		}
	case sym.Cmp:
		l, ok1 := evalIntTermEnv(x.L, env)
		r, ok2 := evalIntTermEnv(x.R, env)
		if !ok1 || !ok2 {
			return false, false
		}
		switch x.Op {
		case "==":
			return l == r, true
		case "!=":
			return l != r, true
		case "<":
			return l < r, true
		case "<=":
			return l <= r, true
		case ">":
			return l > r, true
		case ">=":
			return l >= r, true
		}
	case sym.Ite:
		cv, ok := evalRingBool(x.Cond, env)
		if !ok {
			return false, false
		}
		if cv {
			return evalRingBool(x.A, env)
		}
		return evalRingBool(x.B, env)
	}
	return false, false
}

// elseFromContinue: in the statement list of a loop body, `if c { A; continue }` followed by R is
// `if c { A } else { R }`; the list is returned in that form (the nodes of A and R are shared).
func elseFromContinue(list []ast.Stmt) []ast.Stmt {
	for i, s := range list {
		is, ok := s.(*ast.IfStmt)
		if !ok || is.Else != nil || is.Init != nil || len(is.Body.List) < 2 || i == len(list)-1 {
			continue
		}
		b, isB := is.Body.List[len(is.Body.List)-1].(*ast.BranchStmt)
		if !isB || b.Tok != token.CONTINUE || b.Label != nil {
			continue
		}
		rest := elseFromContinue(list[i+1:])
		both := &ast.IfStmt{If: is.If, Cond: is.Cond,
			Body: &ast.BlockStmt{Lbrace: is.Body.Lbrace, List: is.Body.List[:len(is.Body.List)-1], Rbrace: is.Body.Rbrace},
			Else: &ast.BlockStmt{Lbrace: rest[0].Pos(), List: rest, Rbrace: rest[len(rest)-1].End()}}
		return append(append([]ast.Stmt{}, list[:i]...), both)
	}
	return list
}
