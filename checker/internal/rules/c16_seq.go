package rules

import (
	"go/token"
	"go/types"
	"strings"

	"golang.org/x/tools/go/ssa"
)

// seqValues: helper.Seq(from, to, increment) is the stream form of the slice loop
// `for i := from; i < to; i += increment { out = append(out, i) }`. On the SSA form of its
// goroutine: every value sent is the loop-carried counter, a phi of the parameter `from` itself
// and of that same counter plus the parameter `increment` itself, and the branch that guards the
// send compares that counter with the parameter `to` itself, strictly (counter < to on the edge
// into the sending block). A bound recomputed from the parameters (to-increment, to+1, …) or a
// non-strict test changes the number of elements for some (from, to, increment) and is reported.
func (c *Ctx) seqValues() {
	run := c.Run
	fi := c.fn("helper", "", "Seq")
	if fi == nil {
		return
	}
	fn := c.ssaFunc(fi)
	why := ""
	sends := 0
	if fn == nil || len(fn.Params) != 3 {
		why = "no SSA form or not three parameters (undecided, fails closed)"
	} else {
		strip := func(v ssa.Value) ssa.Value {
			for {
				switch x := v.(type) {
				case *ssa.ChangeType:
					v = x.X
				case *ssa.UnOp:
					if x.Op != token.MUL {
						return v
					}
					v = x.X // a load of the captured variable
				default:
					return v
				}
			}
		}
		isParam := func(v ssa.Value, i int) bool {
			v = strip(v)
			switch x := v.(type) {
			case *ssa.FreeVar:
				return x.Name() == fn.Params[i].Name()
			case *ssa.Parameter:
				return x == fn.Params[i]
			}
			return false
		}
		funcs := append([]*ssa.Function{fn}, fn.AnonFuncs...)
		for _, f := range funcs {
			for _, b := range f.Blocks {
				for _, in := range b.Instrs {
					snd, ok := in.(*ssa.Send)
					if !ok {
						continue
					}
					sends++
					phi, isPhi := strip(snd.X).(*ssa.Phi)
					if !isPhi || len(phi.Edges) != 2 {
						why = "the value sent is not a loop-carried counter"
						continue
					}
					okStart, okStep := false, false
					for _, e := range phi.Edges {
						if isParam(e, 0) {
							okStart = true
							continue
						}
						if bo, isB := strip(e).(*ssa.BinOp); isB && bo.Op == token.ADD {
							x, y := strip(bo.X), strip(bo.Y)
							if (x == ssa.Value(phi) && isParam(bo.Y, 2)) || (y == ssa.Value(phi) && isParam(bo.X, 2)) {
								okStep = true
							}
						}
					}
					// the guard: the unique predecessor chain from the phi's block into the sending block
					okGuard := false
					guardWhy := "no comparison of the counter with `to` guards the send"
					pb := phi.Block()
					if len(pb.Instrs) > 0 {
						if br, isIf := pb.Instrs[len(pb.Instrs)-1].(*ssa.If); isIf && len(pb.Succs) == 2 {
							if cmp, isB := br.Cond.(*ssa.BinOp); isB {
								x, y := strip(cmp.X), strip(cmp.Y)
								onTrue := pb.Succs[0] == b || (len(pb.Succs[0].Succs) == 1 && pb.Succs[0].Succs[0] == b)
								onFalse := pb.Succs[1] == b || (len(pb.Succs[1].Succs) == 1 && pb.Succs[1].Succs[0] == b)
								cx, ty := x == ssa.Value(phi) && isParam(cmp.Y, 1), y == ssa.Value(phi) && isParam(cmp.X, 1)
								switch {
								case !cx && !ty:
									guardWhy = "the loop test does not compare the counter with the parameter `to` itself"
								case onTrue && !onFalse && ((cx && cmp.Op == token.LSS) || (ty && cmp.Op == token.GTR)):
									okGuard = true
								case onFalse && !onTrue && ((cx && cmp.Op == token.GEQ) || (ty && cmp.Op == token.LEQ)):
									okGuard = true
								default:
									guardWhy = "the loop test is not `counter < to` (strict, upper bound exclusive)"
								}
							}
						}
					}
					if !okStart {
						why = "the counter does not start at the parameter `from` itself"
					} else if !okStep {
						why = "the counter is not advanced by adding the parameter `increment` itself"
					} else if !okGuard {
						why = guardWhy
					}
				}
			}
		}
		if sends == 0 && why == "" {
			why = "Seq no longer sends from its own stage (undecided, fails closed)"
		}
	}
	run.Oblige(why == "")
	run.Count("seq_sends", sends)
	if why != "" {
		c.violate("helper-model/value", "helper.Seq", short(why, 60), fi.Decl.Pos(), "Seq must emit from, from+increment, … while the value is below `to`, like its slice loop: "+why)
	}
}

// fieldValues: helper.Field(c, name) is the stream form of `for _, s := range rows { out =
// append(out, s.<name>) }`, where <name> may be a field promoted from an embedded struct. On the
// SSA form of its goroutine: every value sent is the Interface() of the element's field selected
// either by (reflect.Value).FieldByIndex with the complete Index path of the StructField looked
// up by name, or by (reflect.Value).FieldByName with the parameter `name` itself. A single
// component of the path, a slice of it or a positional Field(i) selects another field (or the
// embedded struct itself) for promoted fields and is reported.
func (c *Ctx) fieldValues() {
	run := c.Run
	fi := c.fn("helper", "", "Field")
	if fi == nil {
		return
	}
	fn := c.ssaFunc(fi)
	why := ""
	sends := 0
	if fn == nil {
		why = "no SSA form (undecided, fails closed)"
	} else {
		strip := func(v ssa.Value) ssa.Value {
			for {
				switch x := v.(type) {
				case *ssa.ChangeType:
					v = x.X
				case *ssa.ChangeInterface:
					v = x.X
				case *ssa.TypeAssert:
					v = x.X
				case *ssa.UnOp:
					if x.Op != token.MUL {
						return v
					}
					v = x.X
				default:
					return v
				}
			}
		}
		reflectCall := func(v ssa.Value, name string) *ssa.Call {
			call, ok := strip(v).(*ssa.Call)
			if !ok {
				return nil
			}
			cal := call.Common().StaticCallee()
			if cal == nil || cal.Pkg == nil || cal.Pkg.Pkg.Path() != "reflect" || cal.Name() != name {
				return nil
			}
			return call
		}
		funcs := append([]*ssa.Function{fn}, fn.AnonFuncs...)
		for _, f := range funcs {
			for _, b := range f.Blocks {
				for _, in := range b.Instrs {
					snd, ok := in.(*ssa.Send)
					if !ok {
						continue
					}
					sends++
					iface := reflectCall(snd.X, "Interface")
					if iface == nil || len(iface.Common().Args) != 1 {
						why = "the value sent is not the Interface() of a reflected field"
						continue
					}
					sel := iface.Common().Args[0]
					if byIdx := reflectCall(sel, "FieldByIndex"); byIdx != nil && len(byIdx.Common().Args) == 2 {
						// the whole Index path of a reflect.StructField
						arg := strip(byIdx.Common().Args[1])
						if fv, isFV := arg.(*ssa.FreeVar); isFV {
							// a local of the enclosing function assigned exactly once: take what was assigned
							if one := singleStoreOfCaptured(f, fv); one != nil {
								arg = strip(one)
							}
						}
						switch p := arg.(type) {
						case *ssa.FieldAddr:
							if st, isS := p.X.Type().Underlying().(*types.Pointer); !isS || !strings.HasSuffix(st.Elem().String(), "reflect.StructField") || st.Elem().Underlying().(*types.Struct).Field(p.Field).Name() != "Index" {
								why = "FieldByIndex does not receive the Index path of the StructField looked up by name"
							}
						case *ssa.Field:
							if !strings.HasSuffix(p.X.Type().String(), "reflect.StructField") || p.X.Type().Underlying().(*types.Struct).Field(p.Field).Name() != "Index" {
								why = "FieldByIndex does not receive the Index path of the StructField looked up by name"
							}
						default:
							why = "FieldByIndex receives something other than the complete Index path (a slice or a copy of part of it)"
						}
					} else if byName := reflectCall(sel, "FieldByName"); byName != nil && len(byName.Common().Args) == 2 {
						a := strip(byName.Common().Args[1])
						okName := false
						switch x := a.(type) {
						case *ssa.FreeVar:
							okName = len(fn.Params) == 2 && x.Name() == fn.Params[1].Name()
						case *ssa.Parameter:
							okName = len(fn.Params) == 2 && x == fn.Params[1]
						}
						if !okName {
							why = "FieldByName does not receive the parameter `name` itself"
						}
					} else {
						why = "the field is selected by position (or otherwise) instead of by the complete index path or the name: for a field promoted from an embedded struct this is another field"
					}
				}
			}
		}
		if sends == 0 && why == "" {
			why = "Field no longer sends from its own stage (undecided, fails closed)"
		}
	}
	run.Oblige(why == "")
	run.Count("field_sends", sends)
	if why != "" {
		c.violate("helper-model/value", "helper.Field", short(why, 60), fi.Decl.Pos(), "Field must emit s.<name> of every element, also for promoted fields: "+why)
	}
}

// singleStoreOfCaptured: fv is a variable the closure f captured from its parent; when the parent
// stores into that variable exactly once (and no closure does), the stored value is returned.
func singleStoreOfCaptured(f *ssa.Function, fv *ssa.FreeVar) ssa.Value {
	par := f.Parent()
	if par == nil {
		return nil
	}
	idx := -1
	for i, x := range f.FreeVars {
		if x == fv {
			idx = i
		}
	}
	if idx < 0 {
		return nil
	}
	var cell ssa.Value
	for _, b := range par.Blocks {
		for _, in := range b.Instrs {
			if mc, ok := in.(*ssa.MakeClosure); ok && mc.Fn == ssa.Value(f) && idx < len(mc.Bindings) {
				cell = mc.Bindings[idx]
			}
		}
	}
	if cell == nil {
		return nil
	}
	var val ssa.Value
	n := 0
	for _, r := range *cell.Referrers() {
		switch x := r.(type) {
		case *ssa.Store:
			if x.Addr == cell {
				n++
				val = x.Val
			}
		case *ssa.MakeClosure:
			// other closures capturing the cell: any store there makes the value undecided
			if cf, ok := x.Fn.(*ssa.Function); ok {
				for j, bnd := range x.Bindings {
					if bnd != cell || j >= len(cf.FreeVars) {
						continue
					}
					for _, rr := range *cf.FreeVars[j].Referrers() {
						if st, isSt := rr.(*ssa.Store); isSt && st.Addr == ssa.Value(cf.FreeVars[j]) {
							n += 2
						}
					}
				}
			}
		}
	}
	if n != 1 {
		return nil
	}
	return val
}

// roundDigitValue: helper.RoundDigits maps every element through RoundDigit(n, d), whose slice
// model is round-half-away-from-zero at d decimal digits: math.Round(n * 10^d) / 10^d. The SSA
// term of RoundDigit's result over its parameters must be exactly that (10^d spelled math.Pow or
// math.Pow10); Floor(x+0.5), Trunc, RoundToEven … differ on negative ties or halves.
func (c *Ctx) roundDigitValue() {
	run := c.Run
	fi := c.fn("helper", "", "RoundDigit")
	if fi == nil {
		return
	}
	fn := c.ssaFunc(fi)
	why := ""
	got := ""
	if fn == nil {
		why = "no SSA form (undecided, fails closed)"
	} else {
		n := 0
		for _, b := range fn.Blocks {
			for _, in := range b.Instrs {
				r, ok := in.(*ssa.Return)
				if !ok || len(r.Results) != 1 {
					continue
				}
				n++
				var idx []string
				got = ssaTerm(r.Results[0], &idx, 0)
				norm := strings.ReplaceAll(got, "math.Pow10(param#1)", "math.Pow(10, param#1)")
				norm = strings.ReplaceAll(norm, "conv(", "(")
				want1 := "(math.Round((math.Pow(10, param#1) * param#0)) / math.Pow(10, param#1))"
				if norm != want1 {
					why = "the value returned is " + got + ", not math.Round(n * 10^d) / 10^d"
				}
			}
		}
		if n != 1 && why == "" {
			why = "RoundDigit does not have exactly one return (undecided, fails closed)"
		}
	}
	run.Oblige(why == "")
	if why != "" {
		c.violate("helper-model/value", "helper.RoundDigit", short(why, 80), fi.Decl.Pos(), "RoundDigit must round half away from zero at d digits (math.Round), for negative values and ties too: "+why)
	}
}
