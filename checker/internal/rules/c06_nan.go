package rules

import (
	"go/ast"
	"go/types"
	"strings"

	"verif/checker/internal/load"

	"verif/checker/internal/shape"
	"verif/checker/internal/sym"
)

// Undefined indicator values (C06).
//
// An indicator whose formula divides by a quantity that can be zero yields NaN there (MFI with no
// money flow over the window is 0/0). Every ordered comparison with NaN is false, so the
// documented rule "Sell at or above s, Buy at or below b" gives Hold; a decision written as a
// cascade whose last band is the fall-through gives Buy. The decision comparison therefore has,
// besides the strict sign vectors, the vectors in which every comparison that involves a
// possibly undefined value is unordered.

var nanTypeMemo = map[string]int{} // 0 unknown, 1 in progress, 2 no, 3 yes

// mayBeNaNType: the documented composition of the indicator type divides by a non-constant
// quantity, or applies an indicator that does.
func (c *Ctx) mayBeNaNType(tn string) bool {
	switch nanTypeMemo[tn] {
	case 1, 2:
		return false
	case 3:
		return true
	}
	nanTypeMemo[tn] = 1
	res := false
	i := strings.Index(tn, ".")
	if i > 0 {
		if fi := c.P.Method(tn[:i], tn[i+1:], "Compute"); fi != nil {
			for _, r := range c.Results(fi, Opts{Mode: shape.ModeContracts}) {
				tm := c.termsOf(r)
				for _, o := range retStreams(r) {
					func() {
						defer func() { _ = recover() }()
						if c.mayBeNaN(tm.Of(o)) {
							res = true
						}
					}()
				}
				break
			}
		}
	}
	if res {
		nanTypeMemo[tn] = 3
	} else {
		nanTypeMemo[tn] = 2
	}
	return res
}

func (c *Ctx) mayBeNaN(e sym.Expr) bool {
	switch x := e.(type) {
	case sym.Bin:
		if x.Op == "/" {
			if r := sym.Canon0(x.R); r == nil {
				// a configuration constant (cfg:Period, …) is not zero for admissible configurations
				vars := map[string]bool{}
				sym.Vars(x.R, vars)
				onlyCfg := true
				for v := range vars {
					if !strings.HasPrefix(v, "cfg:") {
						onlyCfg = false
					}
				}
				if !onlyCfg || hasCall(x.R) {
					return true
				}
			}
		}
		return c.mayBeNaN(x.L) || c.mayBeNaN(x.R)
	case sym.Neg:
		return c.mayBeNaN(x.X)
	case sym.Ite:
		return c.mayBeNaN(x.A) || c.mayBeNaN(x.B)
	case sym.Call:
		if tn := indTypeOf(x.Fn); tn != "" && c.mayBeNaNType(tn) {
			return true
		}
		for _, a := range x.Args {
			if c.mayBeNaN(a) {
				return true
			}
		}
	}
	return false
}

func hasCall(e sym.Expr) bool {
	found := false
	walkCalls(e, func(sym.Call) { found = true })
	return found
}

// nanKeys: the comparison keys of e one of whose operands may be undefined.
func (c *Ctx) nanKeys(e sym.Expr, into map[string]bool) {
	switch x := e.(type) {
	case sym.Cmp:
		if c.mayBeNaN(x.L) || c.mayBeNaN(x.R) {
			into[cmpKey(x).key] = true
		}
	case sym.Logic:
		for _, a := range x.Args {
			c.nanKeys(a, into)
		}
	case sym.Ite:
		c.nanKeys(x.Cond, into)
		c.nanKeys(x.A, into)
		c.nanKeys(x.B, into)
	}
}

// thresholdWiring: a level the decision compares an indicator value with (BuyAt, SellAt, …) is a
// configuration value of the strategy. Every constructor of the package stores it as it was
// given: the field is initialised with a parameter, a named constant or a literal, never with an
// expression that changes it (a clamp such as math.Min(sellAt, 100) replaces "never sell" by
// "sell at 100").
func (c *Ctx) thresholdWiring(r *shape.Result, fi *load.FuncInfo, term sym.Expr) {
	run := c.Run
	if r.Recv == nil {
		return
	}
	vars := map[string]bool{}
	sym.Vars(term, vars)
	fields := map[string]bool{}
	for v := range vars {
		if strings.HasPrefix(v, "cfg:") && !strings.Contains(v, ".") && !strings.Contains(v, "(") {
			fields[v[4:]] = true
		}
	}
	if len(fields) == 0 {
		return
	}
	recvNamed, _ := r.Recv.Type.(*types.Named)
	if p, ok := r.Recv.Type.(*types.Pointer); ok {
		recvNamed, _ = p.Elem().(*types.Named)
	}
	if recvNamed == nil {
		return
	}
	info := fi.Pkg.TypesInfo
	var plain func(e ast.Expr, fd *ast.FuncDecl) bool
	plain = func(e ast.Expr, fd *ast.FuncDecl) bool {
		e = ast.Unparen(e)
		if id, ok := e.(*ast.Ident); ok {
			// a local that is defined once from a plain value
			if d, has := singleDefs(info, fd.Body)[info.ObjectOf(id)]; has && d != e {
				return plain(d, fd)
			}
		}
		if tv, ok := info.Types[e]; ok && tv.Value != nil {
			return true // constant or literal
		}
		if id, ok := e.(*ast.Ident); ok {
			obj := info.ObjectOf(id)
			for _, f := range fd.Type.Params.List {
				for _, nm := range f.Names {
					if info.ObjectOf(nm) == obj {
						return true
					}
				}
			}
		}
		// conversion of a plain value: float64(p)
		if call, ok := e.(*ast.CallExpr); ok && len(call.Args) == 1 {
			if tv, ok := info.Types[call.Fun]; ok && tv.IsType() {
				return true
			}
		}
		return false
	}
	for _, f := range fi.Pkg.Syntax {
		if strings.HasSuffix(c.P.Fset.Position(f.Pos()).Filename, "_test.go") {
			continue
		}
		for _, d := range f.Decls {
			fd, ok := d.(*ast.FuncDecl)
			if !ok || fd.Body == nil || fd.Recv != nil {
				continue
			}
			ast.Inspect(fd.Body, func(n ast.Node) bool {
				switch x := n.(type) {
				case *ast.CompositeLit:
					t := info.TypeOf(x)
					if t == nil {
						return true
					}
					if nt, ok := t.(*types.Named); !ok || nt.Obj() != recvNamed.Obj() {
						return true
					}
					for _, el := range x.Elts {
						kv, ok := el.(*ast.KeyValueExpr)
						if !ok {
							continue
						}
						key, ok := kv.Key.(*ast.Ident)
						if !ok || !fields[key.Name] {
							continue
						}
						run.Count("threshold_initialisers", 1)
						good := plain(kv.Value, fd)
						run.Oblige(good)
						if !good {
							c.violate("threshold-wiring", load.RelPkg(fi.Pkg.PkgPath)+"."+fd.Name.Name, key.Name+" = "+short(exprString(kv.Value), 60), kv.Pos(),
								"the level "+key.Name+", which the decision of "+recvNamed.Obj().Name()+" compares the indicator with, is initialised with "+exprString(kv.Value)+" instead of the value given: the strategy then applies another rule than the one it was configured with")
						}
					}
				case *ast.AssignStmt:
					for i, l := range x.Lhs {
						sel, ok := l.(*ast.SelectorExpr)
						if !ok || !fields[sel.Sel.Name] || i >= len(x.Rhs) {
							continue
						}
						tx := info.TypeOf(sel.X)
						if tx == nil {
							continue
						}
						if p, ok := tx.(*types.Pointer); ok {
							tx = p.Elem()
						}
						if nt, ok := tx.(*types.Named); !ok || nt.Obj() != recvNamed.Obj() {
							continue
						}
						run.Count("threshold_initialisers", 1)
						good := plain(x.Rhs[i], fd)
						run.Oblige(good)
						if !good {
							c.violate("threshold-wiring", load.RelPkg(fi.Pkg.PkgPath)+"."+fd.Name.Name, sel.Sel.Name+" = "+short(exprString(x.Rhs[i]), 60), x.Pos(),
								"the level "+sel.Sel.Name+" of "+recvNamed.Obj().Name()+" is set to "+exprString(x.Rhs[i])+" instead of the value given")
						}
					}
				}
				return true
			})
		}
	}
}
