package rules

import (
	"strings"

	"verif/checker/internal/shape"
	"verif/checker/internal/sym"
)

// Undefined indicator values (C06).
//
// An indicator whose formula divides by a quantity that can be zero yields NaN there (MFI with no
// money flow over the window is 0/0). Every ordered comparison with NaN is false, so the
// documented rule "Sell at or above s, Buy at or below b" gives Hold; a decision written as a
// cascade whose last band is the fall-through gives Buy. The decision comparison therefore has,
// besides the strict sign vectors, the vectors in which every comparison that involves a
// possibly undefined value is unordered.

var nanTypeMemo = map[string]int{} // 0 unknown, 1 in progress, 2 no, 3 yes

// mayBeNaNType: the documented composition of the indicator type divides by a non-constant
// quantity, or applies an indicator that does.
func (c *Ctx) mayBeNaNType(tn string) bool {
	switch nanTypeMemo[tn] {
	case 1, 2:
		return false
	case 3:
		return true
	}
	nanTypeMemo[tn] = 1
	res := false
	i := strings.Index(tn, ".")
	if i > 0 {
		if fi := c.P.Method(tn[:i], tn[i+1:], "Compute"); fi != nil {
			for _, r := range c.Results(fi, Opts{Mode: shape.ModeContracts}) {
				tm := c.termsOf(r)
				for _, o := range retStreams(r) {
					func() {
						defer func() { _ = recover() }()
						if c.mayBeNaN(tm.Of(o)) {
							res = true
						}
					}()
				}
				break
			}
		}
	}
	if res {
		nanTypeMemo[tn] = 3
	} else {
		nanTypeMemo[tn] = 2
	}
	return res
}

func (c *Ctx) mayBeNaN(e sym.Expr) bool {
	switch x := e.(type) {
	case sym.Bin:
		if x.Op == "/" {
			if r := sym.Canon0(x.R); r == nil {
				// a configuration constant (cfg:Period, …) is not zero for admissible configurations
				vars := map[string]bool{}
				sym.Vars(x.R, vars)
				onlyCfg := true
				for v := range vars {
					if !strings.HasPrefix(v, "cfg:") {
						onlyCfg = false
					}
				}
				if !onlyCfg || hasCall(x.R) {
					return true
				}
			}
		}
		return c.mayBeNaN(x.L) || c.mayBeNaN(x.R)
	case sym.Neg:
		return c.mayBeNaN(x.X)
	case sym.Ite:
		return c.mayBeNaN(x.A) || c.mayBeNaN(x.B)
	case sym.Call:
		if tn := indTypeOf(x.Fn); tn != "" && c.mayBeNaNType(tn) {
			return true
		}
		for _, a := range x.Args {
			if c.mayBeNaN(a) {
				return true
			}
		}
	}
	return false
}

func hasCall(e sym.Expr) bool {
	found := false
	walkCalls(e, func(sym.Call) { found = true })
	return found
}

// nanKeys: the comparison keys of e one of whose operands may be undefined.
func (c *Ctx) nanKeys(e sym.Expr, into map[string]bool) {
	switch x := e.(type) {
	case sym.Cmp:
		if c.mayBeNaN(x.L) || c.mayBeNaN(x.R) {
			into[cmpKey(x).key] = true
		}
	case sym.Logic:
		for _, a := range x.Args {
			c.nanKeys(a, into)
		}
	case sym.Ite:
		c.nanKeys(x.Cond, into)
		c.nanKeys(x.A, into)
		c.nanKeys(x.B, into)
	}
}
