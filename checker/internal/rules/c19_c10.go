package rules

import (
	"fmt"
	"go/ast"
	"go/constant"
	"go/parser"
	"go/token"
	"go/types"
	"golang.org/x/tools/go/packages"
	"sort"
	"strconv"
	"strings"
	"verif/checker/internal/sym"

	"verif/checker/internal/dtab"
	"verif/checker/internal/load"
)

// isBodyClose: n is res.Body.Close() or a helper closing res.Body.
func isBodyClose(info *types.Info, n ast.Node) bool {
	call, ok := n.(*ast.CallExpr)
	if !ok {
		return false
	}
	if sel, ok := call.Fun.(*ast.SelectorExpr); ok && sel.Sel.Name == "Close" {
		if inner, ok := sel.X.(*ast.SelectorExpr); ok && inner.Sel.Name == "Body" {
			return true
		}
	}
	name := calleeName(info, call)
	if strings.HasSuffix(name, "helper.CloseAndLogError") || strings.HasSuffix(name, "helper.CloseAndLogErrorWithLogger") {
		if len(call.Args) > 0 {
			if sel, ok := call.Args[0].(*ast.SelectorExpr); ok && sel.Sel.Name == "Body" {
				return true
			}
		}
	}
	// an unexported helper of the package that does nothing but close the closer it is handed
	// (straight-line: its statements are calls, one of which closes that parameter)
	if fn := callee(info, call); fn != nil && !fn.Exported() && declResolver != nil {
		if d := declResolver(fn.Origin()); d != nil && d.Decl.Body != nil && d.Pkg.TypesInfo == info {
			i := 0
			for _, f := range d.Decl.Type.Params.List {
				for _, nm := range f.Names {
					if i < len(call.Args) {
						if sel, ok := ast.Unparen(call.Args[i]).(*ast.SelectorExpr); ok && sel.Sel.Name == "Body" {
							if closesParam(info, d.Decl, info.ObjectOf(nm)) {
								return true
							}
						}
					}
					i++
				}
			}
		}
	}
	return false
}

// closesParam: fd is straight-line and one of its statements closes the parameter p, directly or
// through the helper package's close-and-log functions.
func closesParam(info *types.Info, fd *ast.FuncDecl, p types.Object) bool {
	closes := false
	for _, st := range fd.Body.List {
		es, ok := st.(*ast.ExprStmt)
		if !ok {
			return false
		}
		call, ok := es.X.(*ast.CallExpr)
		if !ok {
			return false
		}
		if sel, ok := call.Fun.(*ast.SelectorExpr); ok && sel.Sel.Name == "Close" {
			if id, ok := ast.Unparen(sel.X).(*ast.Ident); ok && info.ObjectOf(id) == p {
				closes = true
			}
		}
		name := calleeName(info, call)
		if (strings.HasSuffix(name, "helper.CloseAndLogError") || strings.HasSuffix(name, "helper.CloseAndLogErrorWithLogger")) && len(call.Args) > 0 {
			if id, ok := ast.Unparen(call.Args[0]).(*ast.Ident); ok && info.ObjectOf(id) == p {
				closes = true
			}
		}
	}
	return closes
}

// goInfo resolves an identifier to its object in whichever package it belongs to (set by NewCtx).
var goInfo func(id *ast.Ident) types.Object

// goLitReturning finds the go-literal in fd that sends on / closes the channel the function returns.
func goLitsOf(fd *ast.FuncDecl) []*ast.FuncLit {
	var out []*ast.FuncLit
	ast.Inspect(fd.Body, func(n ast.Node) bool {
		if g, ok := n.(*ast.GoStmt); ok {
			if fl, ok := g.Call.Fun.(*ast.FuncLit); ok {
				out = append(out, fl)
			} else if declResolver != nil && goInfo != nil {
				// go x.worker(args): the body of a declared function or method of the module
				var fn *types.Func
				switch f := g.Call.Fun.(type) {
				case *ast.Ident:
					fn, _ = goInfo(f).(*types.Func)
				case *ast.SelectorExpr:
					fn, _ = goInfo(f.Sel).(*types.Func)
				}
				if fn != nil {
					if dfi := declResolver(fn.Origin()); dfi != nil && dfi.Decl.Body != nil {
						out = append(out, &ast.FuncLit{Type: dfi.Decl.Type, Body: dfi.Decl.Body})
					}
				}
			}
		}
		return true
	})
	return out
}

func isCloseOfChan(n ast.Node) bool {
	call, ok := n.(*ast.CallExpr)
	if !ok || len(call.Args) != 1 {
		return false
	}
	id, ok := call.Fun.(*ast.Ident)
	return ok && id.Name == "close"
}

// CheckC19: malformed external data never panics, hangs or leaks (structural part).
func CheckC19(c *Ctx) {
	run := c.Run
	run.Technique = "typed-AST + go/cfg path lints on the three reader goroutines and the HTTP client code: bounds guard before indexing a decoded record, close-first defer, error branches leave the loop, must-pass-through of Body.Close on every path after a successful request, status check before decoding, file closed after the reader finished"
	run.Explanation = "The behaviour of encoding/csv, encoding/json and net/http on arbitrary bytes is NOT decided. Decided are the structural conditions on this repository's own reader code: (0) the reader goroutines and the package functions they call contain no panic source of their own - no type assertion without the ok result, no explicit panic (detector exercised on a built-in example on every run); (a) every index into a decoded CSV record is dominated by a comparison against len(record) that leaves the row loop (a header-less file whose first row is shorter than the struct must not panic in a library goroutine); (b) every reader goroutine defers the close of its channel before anything can return; (c) every error branch inside a reader loop leaves the loop, so only the well-formed prefix is delivered; (d) ReadFromFile closes the file only after the reader goroutine finished; (e) in the Tiingo client a non-200 status returns an error before any decoding and, on every control-flow path after a successful request, the response body is closed (go/cfg may-analysis over each function and each goroutine body); (f) JSONToChan verifies the opening delimiter. Further: the status condition is decided on eleven representative statuses (200 passes, everything outside 2xx is an error); no JSON document is decoded into a pointer to a pointer; the bounds guard is decided on small index and length values; the opening-delimiter test leaves exactly when the token differs; an error variable is never used (returned, wrapped, logged) in the branch where it is known to be nil; the helpers the readers rely on for closing close what they are given and do nothing else. The CSV reader stays strict: no assignment gives FieldsPerRecord or LazyQuotes of an encoding/csv.Reader a non-zero value, so a row with a different field count or bad quoting ends the stream."
	run.Trusted = []string{"go/types", "go/cfg control-flow graphs", "encoding/csv FieldsPerRecord check (relied upon only for rows after the first)"}
	hp := c.P.Pkg("helper")
	ap := c.P.Pkg("asset")
	if hp == nil || ap == nil {
		run.Break("package helper or asset missing")
		return
	}
	hinfo, ainfo := hp.TypesInfo, ap.TypesInfo
	// (a) bounds guard
	if rd := c.fn("helper", "Csv", "ReadFromReader"); rd != nil {
		n := 0
		var stack []ast.Node
		for _, body := range c.familyBodies(rd) {
			stack = nil
			ast.Inspect(body, func(nd ast.Node) bool {
				if nd == nil {
					stack = stack[:len(stack)-1]
					return true
				}
				stack = append(stack, nd)
				ix, ok := nd.(*ast.IndexExpr)
				if !ok {
					return true
				}
				t := hinfo.TypeOf(ix.X)
				if t == nil || t.String() != "[]string" {
					return true
				}
				n++
				recName := exprString(ix.X)
				idx := exprString(ast.Unparen(resolveLocals(hinfo, body, ix.Index)))
				guarded := false
				// look for a preceding sibling `if idx >= len(rec) {... exit}` in any enclosing block
				for i := len(stack) - 1; i >= 0 && !guarded; i-- {
					blk, ok := stack[i].(*ast.BlockStmt)
					if !ok {
						continue
					}
					for _, s := range blk.List {
						if s.End() > ix.Pos() {
							break
						}
						is, ok := s.(*ast.IfStmt)
						if !ok {
							continue
						}
						cond := strings.NewReplacer("(", "", ")", "").Replace(exprString(resolveLocals(hinfo, body, is.Cond)))
						if strings.Contains(cond, "len"+recName) && strings.Contains(cond, strings.NewReplacer("(", "", ")", "").Replace(idx)) {
							if _, ok := endsWithExit(is.Body); ok {
								guarded = true
								// the guard leaves for every index that is not below the length (decided on small values)
								rc := resolveLocals(hinfo, body, is.Cond)
								for I := int64(0); I <= 2 && guarded; I++ {
									for L := int64(0); L <= 2; L++ {
										if v, dec := idxLenCond(hinfo, rc, idx, recName, I, L); dec && I >= L && !v {
											guarded = false
										}
									}
								}
							}
						}
					}
				}
				run.Oblige(guarded)
				if !guarded {
					c.violate("reader/bounds", "helper.(*Csv).ReadFromReader", recName+"["+idx+"]", ix.Pos(),
						"a decoded CSV record is indexed without a bounds check: a header-less input whose first row has fewer fields than the struct panics in the reader goroutine")
				}
				// a column that the header row does not have carries the index -1: some preceding
				// statement leaves (skips the column) when the index is -1
				if strings.HasSuffix(idx, "ColumnIndex") {
					lower := false
					for i := len(stack) - 1; i >= 0 && !lower; i-- {
						// the index sits in the branch that is not taken for -1
						if eif, isIf := stack[i].(*ast.IfStmt); isIf {
							inThen := ix.Pos() >= eif.Body.Pos() && ix.End() <= eif.Body.End()
							rc := resolveLocals(hinfo, body, eif.Cond)
							if v, dec := idxLenCond(hinfo, rc, idx, recName, -1, 3); dec && v != inThen {
								lower = true
							}
						}
						blk, ok := stack[i].(*ast.BlockStmt)
						if !ok {
							continue
						}
						for _, s := range blk.List {
							if s.End() > ix.Pos() {
								break
							}
							is, ok := s.(*ast.IfStmt)
							if !ok {
								continue
							}
							if _, exits := endsWithExit(is.Body); !exits {
								continue
							}
							rc := resolveLocals(hinfo, body, is.Cond)
							if v, dec := idxLenCond(hinfo, rc, idx, recName, -1, 3); dec && v {
								lower = true
							}
						}
					}
					run.Oblige(lower)
					if !lower {
						c.violate("reader/bounds", "helper.(*Csv).ReadFromReader", recName+"["+idx+"] at -1", ix.Pos(),
							"a column missing from the header row has the index -1 and nothing skips it before the record is indexed: a file without one of the struct's columns panics in the reader goroutine")
					}
				}
				return true
			})
		}
		run.Count("record_index_sites", n)
		run.Floor("record_index_sites", 1)
	}
	c.constructorDiscipline("reader/construction", "asset", "helper", "backtest")
	c.closeHelpers()
	c.csvStrictness()
	c.decodeTargets()
	c.errorOrientation("reader/error-orientation", "asset", "helper")
	c.errorTestedFirst("reader/error-tested", 55, "asset", "helper")
	c.errorsLookedAt("reader/error-dropped", map[string]string{}, "asset", "helper")
	c.errorFallThrough("reader/error-fallthrough", "asset", "helper")
	c.jsonArrayOpen("reader/json-array", 2, "asset", "helper")
	c.rowsClosed("reader/rows-close", 2, "asset")
	run.Floor("error_tests", 30)
	if ok := panicSourcesSelfTest(); !ok {
		run.Break("the panic-source detector no longer finds its built-in example")
	} else {
		c.ok()
	}
	// (b),(c) reader goroutines
	readers := []struct{ rel, typ, name string }{
		{"helper", "Csv", "ReadFromReader"},
		{"helper", "", "JSONToChanWithLogger"},
		{"asset", "TiingoRepository", "GetSince"},
		{"asset", "SQLRepository", "GetSince"},
	}
	for _, r := range readers {
		fi := c.fn(r.rel, r.typ, r.name)
		if fi == nil {
			continue
		}
		info := fi.Pkg.TypesInfo
		lits := goLitsOf(fi.Decl)
		site := load.FuncName(fi.Fn)
		if len(lits) == 0 {
			c.violate("reader/goroutine", site, "no goroutine", fi.Decl.Pos(), "the reader no longer runs in a goroutine the rule can inspect (undecided, fails closed)")
			continue
		}
		run.Count("reader_goroutines", 1)
		fl := lits[0]
		// no panic source of its own on the path of external data: a panic in the reader goroutine
		// cannot be recovered by the caller and ends the process
		seenFn := map[*types.Func]bool{}
		var scanPanics func(body ast.Node, where string, depth int)
		scanPanics = func(body ast.Node, where string, depth int) {
			for _, ps := range panicSources(body) {
				c.violate("reader/panic-source", site, ps.what, ps.pos, "in "+where+": "+ps.why+"; malformed input reaches this code on a goroutine of the library, where a panic ends the whole process")
			}
			if depth >= 2 {
				return
			}
			ast.Inspect(body, func(n ast.Node) bool {
				if call, ok := n.(*ast.CallExpr); ok {
					if fn := callee(info, call); fn != nil && !seenFn[fn.Origin()] {
						if d := c.P.Decls[fn.Origin()]; d != nil && d.Decl.Body != nil && d.Pkg == fi.Pkg {
							seenFn[fn.Origin()] = true
							scanPanics(d.Decl.Body, load.FuncName(d.Fn), depth+1)
						}
					}
				}
				return true
			})
		}
		scanPanics(fl.Body, "the reader goroutine", 0)
		c.ok()
		// close deferred before any return
		bad := exitsWithout(fl.Body, nil, func(n ast.Node) bool { return isCloseOfChan(n) }, nil)
		run.Oblige(len(bad) == 0)
		for _, p := range bad {
			c.violate("reader/close", site, "exit without close", p, "the reader goroutine can exit here without closing its channel: the consumer blocks for ever")
		}
		// error branches inside loops leave the loop
		ast.Inspect(fl.Body, func(n ast.Node) bool {
			loop, ok := n.(*ast.ForStmt)
			if !ok {
				return true
			}
			if r.typ == "SQLRepository" {
				return true // rows of a database are not "arbitrary bytes": the statement does not cover their scan errors
			}
			for _, s := range loop.Body.List {
				c.errBranchesExit(info, s, site)
			}
			return true
		})
		// every record that was read is delivered: the row loop of the reader (with the helpers it
		// calls) sends on the reader's channel in its body - a loop that decodes and never sends
		// yields an empty stream for any input
		sendsInLoop := false
		bodies := []ast.Node{fl.Body}
		ast.Inspect(fl.Body, func(n ast.Node) bool {
			if call, ok := n.(*ast.CallExpr); ok {
				if fn := callee(info, call); fn != nil && !fn.Exported() {
					if d := c.P.Decls[fn.Origin()]; d != nil && d.Decl.Body != nil && d.Pkg == fi.Pkg {
						bodies = append(bodies, d.Decl.Body)
					}
				}
			}
			return true
		})
		for _, b := range bodies {
			ast.Inspect(b, func(n ast.Node) bool {
				var lb *ast.BlockStmt
				switch x := n.(type) {
				case *ast.ForStmt:
					lb = x.Body
				case *ast.RangeStmt:
					lb = x.Body
				}
				if lb != nil {
					ast.Inspect(lb, func(m ast.Node) bool {
						if _, isSend := m.(*ast.SendStmt); isSend {
							sendsInLoop = true
						}
						return !sendsInLoop
					})
				}
				return true
			})
		}
		run.Oblige(sendsInLoop)
		if !sendsInLoop {
			c.violate("reader/deliver", site, "no send in the row loop", fl.Pos(), "the reader's loop no longer sends what it read on its channel: every input yields an empty stream")
		}
	}
	run.Floor("reader_goroutines", 4)
	// (d) ReadFromFile
	if rf := c.fn("helper", "Csv", "ReadFromFile"); rf != nil {
		usesWaitable := false
		waitBeforeClose := false
		ast.Inspect(rf.Decl.Body, func(n ast.Node) bool {
			if call, ok := n.(*ast.CallExpr); ok && strings.HasSuffix(calleeName(hinfo, call), "helper.Waitable") {
				usesWaitable = true
			}
			return true
		})
		for _, fl := range goLitsOf(rf.Decl) {
			sawWait := false
			for _, s := range fl.Body.List {
				ast.Inspect(s, func(n ast.Node) bool {
					if call, ok := n.(*ast.CallExpr); ok {
						if sel, ok := call.Fun.(*ast.SelectorExpr); ok {
							if sel.Sel.Name == "Wait" {
								sawWait = true
							}
							if sel.Sel.Name == "Close" && sawWait {
								waitBeforeClose = true
							}
						}
					}
					return true
				})
			}
		}
		g := usesWaitable && waitBeforeClose
		run.Oblige(g)
		if !g {
			c.violate("reader/file-close", "helper.(*Csv).ReadFromFile", "wait-then-close", rf.Decl.Pos(), "the file is no longer closed strictly after the reader goroutine finished (Waitable + wg.Wait() before file.Close())")
		}
	}
	// (e) Tiingo
	acquirers := c.responseAcquirers(ap)
	for fn, fd := range acquirers {
		c.httpDisciplineIn(ainfo, fd, load.FuncName(fn), acquirers, true)
	}
	for _, m := range []string{"GetSince", "LastDate"} {
		fi := c.fn("asset", "TiingoRepository", m)
		if fi == nil {
			continue
		}
		site := load.FuncName(fi.Fn)
		c.httpDisciplineIn(ainfo, fi.Decl, site, acquirers, false)
	}
	// (f) JSON opening delimiter
	if dec := c.fn("helper", "", "JSONToChanWithLogger"); dec != nil {
		ok := false
		ast.Inspect(dec.Decl.Body, func(n ast.Node) bool {
			is, isIf := n.(*ast.IfStmt)
			if !isIf {
				return true
			}
			// the test may live in an unexported helper handed the delimiter: `if !isDelim(.., json.Delim('['), ..) { return }`
			// where the helper answers false exactly when the token differs from that parameter
			if u, isNot := ast.Unparen(is.Cond).(*ast.UnaryExpr); isNot && u.Op == token.NOT {
				if call, isCall := ast.Unparen(u.X).(*ast.CallExpr); isCall {
					if fn := callee(hinfo, call); fn != nil && !fn.Exported() {
						if d := c.P.Decls[fn.Origin()]; d != nil && d.Decl.Body != nil {
							for j, a := range call.Args {
								isOpen := strings.Contains(exprString(a), "json.Delim('[')")
								if tv, has := hinfo.Types[a]; has && tv.Value != nil && tv.Value.Kind() == constant.Int {
									if v, exact := constant.Int64Val(tv.Value); exact && v == '[' {
										isOpen = true // the constant '[' converted to the delimiter type by the parameter
									}
								}
								if !isOpen {
									continue
								}
								pi := 0
								var pobj types.Object
								for _, f := range d.Decl.Type.Params.List {
									for _, nm := range f.Names {
										if pi == j {
											pobj = hinfo.ObjectOf(nm)
										}
										pi++
									}
								}
								ast.Inspect(d.Decl.Body, func(m ast.Node) bool {
									is2, isIf2 := m.(*ast.IfStmt)
									if !isIf2 {
										return true
									}
									be2, isBin2 := ast.Unparen(is2.Cond).(*ast.BinaryExpr)
									if !isBin2 || be2.Op != token.NEQ || pobj == nil || !(usesObj(hinfo, be2.X, pobj) || usesObj(hinfo, be2.Y, pobj)) {
										return true
									}
									if n2 := len(is2.Body.List); n2 > 0 {
										if r, isRet := is2.Body.List[n2-1].(*ast.ReturnStmt); isRet && len(r.Results) == 1 && exprString(r.Results[0]) == "false" {
											if k, e := endsWithExit(is.Body); e && k == "return" {
												ok = true
											}
										}
									}
									return true
								})
							}
						}
					}
				}
			}
			if be, isBin := ast.Unparen(is.Cond).(*ast.BinaryExpr); isBin && (strings.Contains(exprString(be.X), "json.Delim('[')") || strings.Contains(exprString(be.Y), "json.Delim('[')")) {
				// the reader leaves exactly when the first token is NOT the opening bracket
				switch be.Op {
				case token.NEQ:
					if k, e := endsWithExit(is.Body); e && k == "return" {
						ok = true
					}
				case token.EQL:
					if eb, isBlock := is.Else.(*ast.BlockStmt); isBlock {
						if k, e := endsWithExit(eb); e && k == "return" {
							ok = true
						}
					}
				}
			}
			return true
		})
		run.Oblige(ok)
		if !ok {
			c.violate("reader/json-open", "helper.JSONToChanWithLogger", "opening delimiter", dec.Decl.Pos(), "the JSON reader no longer rejects a top-level value that is not an array")
		}
	}
}

// errBranchesExit: `if err != nil {...}` inside a reader loop must end with break or return.
func (c *Ctx) errBranchesExit(info *types.Info, s ast.Stmt, site string) {
	is, ok := s.(*ast.IfStmt)
	if !ok {
		return
	}
	cond := exprString(is.Cond)
	if strings.Contains(cond, "err != nil") {
		k, e := endsWithExit(is.Body)
		good := e && (k == "break" || k == "return")
		c.Run.Oblige(good)
		c.Run.Count("reader_error_branches", 1)
		if !good {
			c.violate("reader/error-exit", site, "error branch continues", is.Pos(), "after a decoding error the reader goes on: records after the malformed one (or a zero record) are delivered")
		}
	}
	if is.Else != nil {
		if e, ok := is.Else.(*ast.IfStmt); ok {
			c.errBranchesExit(info, e, site)
		}
	}
}

// httpDiscipline: status check before decoding; body closed on every path after a successful Do.
// responseAcquirers: unexported functions of the package that issue the request themselves and
// hand the response to their caller (func … (*http.Response, error) containing client.Do).
func (c *Ctx) responseAcquirers(pk *packages.Package) map[*types.Func]*ast.FuncDecl {
	out := map[*types.Func]*ast.FuncDecl{}
	info := pk.TypesInfo
	for _, f := range pk.Syntax {
		if strings.HasSuffix(c.P.Fset.Position(f.Pos()).Filename, "_test.go") {
			continue
		}
		for _, d := range f.Decls {
			fd, ok := d.(*ast.FuncDecl)
			if !ok || fd.Body == nil || fd.Name.IsExported() {
				continue
			}
			fn, _ := info.ObjectOf(fd.Name).(*types.Func)
			if fn == nil {
				continue
			}
			sig := fn.Type().(*types.Signature)
			if sig.Results().Len() != 2 || sig.Results().At(0).Type().String() != "*net/http.Response" {
				continue
			}
			has := false
			ast.Inspect(fd.Body, func(n ast.Node) bool {
				if call, ok := n.(*ast.CallExpr); ok && calleeName(info, call) == "net/http.(Client).Do" {
					has = true
				}
				return true
			})
			if has {
				out[fn] = fd
			}
		}
	}
	return out
}

func (c *Ctx) httpDisciplineIn(info *types.Info, fd *ast.FuncDecl, site string, acquirers map[*types.Func]*ast.FuncDecl, isAcquirer bool) {
	run := c.Run
	viaAcquirer := false
	isDo := func(n ast.Node) bool {
		call, ok := n.(*ast.CallExpr)
		if !ok {
			return false
		}
		if calleeName(info, call) == "net/http.(Client).Do" {
			return true
		}
		if fn := callee(info, call); fn != nil && acquirers[fn.Origin()] != nil && acquirers[fn.Origin()] != fd {
			viaAcquirer = true
			return true
		}
		return false
	}
	hasDo := false
	ast.Inspect(fd.Body, func(n ast.Node) bool {
		if n != nil && isDo(n) {
			hasDo = true
		}
		return true
	})
	if !hasDo {
		c.violate("http/request", site, "no client.Do", fd.Pos(), "the HTTP request is no longer issued through http.Client.Do (undecided, fails closed)")
		return
	}
	run.Count("http_functions", 1)
	// status check returning a non-nil error
	status := false
	ast.Inspect(fd.Body, func(n ast.Node) bool {
		is, ok := n.(*ast.IfStmt)
		if !ok || !strings.Contains(exprString(is.Cond), "StatusCode") {
			return true
		}
		if len(is.Body.List) > 0 {
			if r, ok := is.Body.List[len(is.Body.List)-1].(*ast.ReturnStmt); ok && len(r.Results) > 0 {
				last := r.Results[len(r.Results)-1]
				if id, ok := last.(*ast.Ident); !ok || id.Name != "nil" {
					status = true
					// which statuses take the error branch: 200 must not, every status outside 2xx must
					m := dtab.FromStmts(info, []ast.Stmt{&ast.ReturnStmt{Return: is.Cond.Pos(), Results: []ast.Expr{is.Cond}}}, nil)
					var reads []string
					for _, rd := range m.Reads {
						if strings.HasSuffix(rd, "StatusCode") {
							reads = append(reads, rd)
						}
					}
					if len(m.Unsupported) == 0 && len(m.Paths) == 1 && len(m.Paths[0].Ret) == 1 && len(reads) == 1 {
						for _, k := range []int64{100, 199, 200, 300, 301, 400, 401, 404, 429, 500, 503} {
							v, decided := dtab.EvalBool(m.Paths[0].Ret[0], map[string]sym.Expr{reads[0]: sym.N(k)}, numOracle)
							good := decided && v == (k != 200)
							run.Oblige(good)
							if !good {
								what := "is treated as a success"
								if k == 200 {
									what = "is treated as a failure"
								}
								if !decided {
									what = "is undecided (fails closed)"
								}
								c.violate("http/status", site, fmt.Sprintf("status %d", k), is.Pos(), fmt.Sprintf("HTTP status %d %s by `%s`: a non-success status must surface as an error before the body is decoded, not as an empty success", k, what, exprString(is.Cond)))
								break
							}
						}
					} else {
						run.Oblige(false)
						c.violate("http/status", site, "status condition", is.Pos(), "the status check `"+exprString(is.Cond)+"` is not a comparison of the response's StatusCode alone (undecided, fails closed)")
					}
				}
			}
		}
		return true
	})
	if viaAcquirer {
		status = true // checked in the function that issues the request, which is held to this discipline itself
	}
	run.Oblige(status)
	if !status {
		c.violate("http/status", site, "no status check", fd.Pos(), "a non-success HTTP status no longer surfaces as an error before the body is decoded")
	}
	// the error return right after Do is exempt (no response to close)
	var doErrIf *ast.IfStmt
	for i, s := range fd.Body.List {
		found := false
		ast.Inspect(s, func(n ast.Node) bool {
			if n != nil && isDo(n) {
				found = true
			}
			return true
		})
		if found && i+1 < len(fd.Body.List) {
			if is, ok := fd.Body.List[i+1].(*ast.IfStmt); ok && strings.Contains(exprString(is.Cond), "err != nil") {
				doErrIf = is
			}
		}
	}
	exempt := func(r *ast.ReturnStmt) bool {
		if doErrIf != nil && r.Pos() >= doErrIf.Pos() && r.End() <= doErrIf.End() {
			return true
		}
		// a function that hands the response on: the caller owns the body from here
		if isAcquirer && len(r.Results) == 2 && !isNilIdent(ast.Unparen(r.Results[0])) {
			return true
		}
		return false
	}
	lits := goLitsOf(fd)
	// a goroutine that closes the body on all its paths discharges the obligation for the path that starts it
	litCloses := map[*ast.FuncLit]bool{}
	for _, fl := range lits {
		bad := exitsWithout(fl.Body, nil, func(n ast.Node) bool { return isBodyClose(info, n) }, nil)
		litCloses[fl] = len(bad) == 0
		run.Oblige(len(bad) == 0)
		for _, p := range bad {
			c.violate("http/body-close", site, "goroutine exit without Body.Close", p, "the decoding goroutine can exit here without closing the response body: the connection is leaked on a malformed or truncated body")
		}
	}
	event := func(n ast.Node) bool {
		if isBodyClose(info, n) {
			return true
		}
		if g, ok := n.(*ast.GoStmt); ok {
			if fl, ok := g.Call.Fun.(*ast.FuncLit); ok && litCloses[fl] {
				return true
			}
		}
		return false
	}
	bad := exitsWithout(fd.Body, isDo, event, exempt)
	run.Oblige(len(bad) == 0)
	for _, p := range bad {
		c.violate("http/body-close", site, "return without Body.Close", p, "the function returns here after a successful request without closing the response body")
	}
}

// ---------------------------------------------------------------------------
// C10 – repositories behave as a map (structural part).

func CheckC10(c *Ctx) {
	run := c.Run
	run.Technique = "typed-AST lints on every implementation of asset.Repository: synchronous consumption and error propagation in Append, finite decision table of the GetSince date filter over the orderings {<,=,>}, zero-time returns carry an error, missing assets are errors"
	run.Explanation = "Observational equivalence of the three repositories with a map under arbitrary histories depends on the file system, the SQL driver and the codecs and is NOT decided. Decided are structural necessary conditions: (a) every Append consumes its snapshots in the caller's goroutine (no go statement touches the parameter) and returns — not merely logs — the error of each write call, which is necessary for 'an Append that has returned is visible to every later read'; (b) the GetSince filter closures, evaluated on the three orderings of (snapshot date, bound), keep exactly {=, >}, identically in the sibling implementations; (c) LastDate never returns the zero time together with a nil error; (d) Get of an unknown asset returns a non-nil error. Also decided, on where values come from: the stream Get returns is helper.SliceToChan of the stored map element itself (in-memory) resp. the CSV reader with a header over the file named after the asset name as it is (file system); LastDate returns the Date of the one element of helper.Last(Get(name), 1); in the SQL repository each method runs the statement prepared from the dialect text of its own name with its parameters in their order, and GetSince scans exactly the columns Append writes."
	run.Trusted = []string{"go/types", "time.Time.Equal/After/Before semantics", "finite ordering domain"}
	impls := c.implementers("asset", "Repository")
	run.Count("repository_implementations", len(impls))
	run.Floor("repository_implementations", 4)
	ap := c.P.Pkg("asset")
	if ap == nil {
		run.Break("package asset missing")
		return
	}
	for _, n := range impls {
		name := n.Obj().Name()
		if strings.HasPrefix(name, "Mock") || strings.HasPrefix(name, "mock") {
			continue
		}
		if app := c.methodDecl(n, "Append"); app != nil {
			c.appendSync(app)
		}
		if gs := c.methodDecl(n, "GetSince"); gs != nil {
			before := run.Counts["getsince_filters"]
			c.getSinceFilter(gs)
			// the repositories that keep snapshots in the order they were appended (which need not
			// be the order of their dates) select by looking at every stored snapshot's own date
			if appendOrderStores[name] {
				good := run.Counts["getsince_filters"] > before
				run.Oblige(good)
				if !good {
					c.violate("repository/getsince", load.FuncName(gs.Fn), "no filter", gs.Decl.Pos(), "GetSince of "+name+" no longer passes every stored snapshot through a date predicate (helper.Filter): snapshots are stored in append order, so any positional shortcut (binary search, stop at the first match) returns the wrong set when dates are not ascending")
				}
			}
		}
		if ld := c.methodDecl(n, "LastDate"); ld != nil {
			c.zeroTimeHasError(ld)
		}
	}
	c.freshElements("asset")
	c.repositoryValues()
	c.assetNameCodec()
	c.factoryPurity("asset", "NewRepository", "repository/factory")
	// an Append that has returned stays visible: the in-memory repository updates its map under the
	// mutex, each read-modify-write within one critical section
	c.lockConsistency("asset", "InMemoryRepository", []string{"storage"}, "repository")
	c.lockPairing("repository/lock", "asset")
	run.Floor("lock_sites", 3)
	if get := c.fn("asset", "InMemoryRepository", "Get"); get != nil {
		// map lookup failure returns a non-nil error
		good := false
		ginfo := get.Pkg.TypesInfo
		found := mapFoundVars(c, ginfo, get.Decl.Body, 1)
		ast.Inspect(get.Decl.Body, func(nd ast.Node) bool {
			is, ok := nd.(*ast.IfStmt)
			if !ok {
				return true
			}
			u, isNot := ast.Unparen(is.Cond).(*ast.UnaryExpr)
			if !isNot || u.Op != token.NOT {
				return true
			}
			id, isID := ast.Unparen(u.X).(*ast.Ident)
			if !isID || !found[ginfo.ObjectOf(id)] {
				return true
			}
			if r, ok := is.Body.List[len(is.Body.List)-1].(*ast.ReturnStmt); ok && len(r.Results) == 2 {
				if id, ok := r.Results[1].(*ast.Ident); !ok || id.Name != "nil" {
					good = true
				}
			}
			return true
		})
		run.Oblige(good)
		if !good {
			c.violate("repository/missing-asset", "asset.(*InMemoryRepository).Get", "unknown asset", get.Decl.Pos(), "reading an unknown asset no longer yields an error")
		}
	}
	if app := c.fn("asset", "InMemoryRepository", "Append"); app != nil {
		c.appendExtends(app)
	}
	run.Floor("append_methods", 3)
	run.Floor("getsince_filters", 2)
	run.Assume("the SQL dialect's GetSince statement selects date >= bound in ascending date order (text supplied by the dialect, not analysed)")
}

func (c *Ctx) appendSync(fi *load.FuncInfo) {
	run := c.Run
	site := load.FuncName(fi.Fn)
	info := fi.Pkg.TypesInfo
	sig := fi.Fn.Type().(*types.Signature)
	if sig.Params().Len() < 2 {
		return
	}
	run.Count("append_methods", 1)
	snaps := sig.Params().At(1)
	if snaps.Name() == "_" || snaps.Name() == "" {
		// unsupported repository (Tiingo): must return a non-nil error
		good := false
		ast.Inspect(fi.Decl.Body, func(n ast.Node) bool {
			if r, ok := n.(*ast.ReturnStmt); ok && len(r.Results) == 1 {
				if id, ok := r.Results[0].(*ast.Ident); !ok || id.Name != "nil" {
					good = true
				}
			}
			return true
		})
		run.Oblige(good)
		if !good {
			c.violate("repository/append-sync", site, "ignored input", fi.Decl.Pos(), "Append ignores its snapshots and reports success")
		}
		return
	}
	// no go statement may touch the parameter
	async := false
	var apos token.Pos
	ast.Inspect(fi.Decl.Body, func(n ast.Node) bool {
		if g, ok := n.(*ast.GoStmt); ok && usesObj(info, g, snaps) {
			async = true
			apos = g.Pos()
		}
		return true
	})
	run.Oblige(!async)
	if async {
		c.violate("repository/append-sync", site, "asynchronous", apos, "Append hands its snapshots to a goroutine and returns: the rows are not visible to a read that follows the call, and write errors are lost")
	}
	// consumed: ranged over or passed on
	consumed := false
	ast.Inspect(fi.Decl.Body, func(n ast.Node) bool {
		switch x := n.(type) {
		case *ast.RangeStmt:
			if usesObj(info, x.X, snaps) {
				consumed = true
			}
		case *ast.CallExpr:
			for _, a := range x.Args {
				if usesObj(info, a, snaps) {
					consumed = true
				}
			}
		}
		return true
	})
	run.Oblige(consumed)
	if !consumed {
		c.violate("repository/append-sync", site, "unconsumed", fi.Decl.Pos(), "Append never consumes its snapshots")
	}
	// errors of calls are returned
	ast.Inspect(fi.Decl.Body, func(n ast.Node) bool {
		if _, ok := n.(*ast.FuncLit); ok {
			return true
		}
		is, ok := n.(*ast.IfStmt)
		if !ok || !strings.Contains(exprString(is.Cond), "err != nil") {
			return true
		}
		returns := false
		ast.Inspect(is.Body, func(m ast.Node) bool {
			if r, ok := m.(*ast.ReturnStmt); ok && len(r.Results) == 1 {
				if id, ok := r.Results[0].(*ast.Ident); !ok || id.Name != "nil" {
					returns = true
				}
			}
			return true
		})
		run.Oblige(returns)
		if !returns {
			c.violate("repository/append-error", site, "error only logged", is.Pos(), "a write error inside Append is logged but not returned: the caller believes the snapshots were stored")
		}
		return true
	})
}

// appendOrderStores: the bundled repositories that hand back what was appended, in append order.
var appendOrderStores = map[string]bool{"InMemoryRepository": true, "FileSystemRepository": true}

// getSinceFilter evaluates the filter closure on the orderings of (snapshot date, bound).
func (c *Ctx) getSinceFilter(fi *load.FuncInfo) {
	run := c.Run
	site := load.FuncName(fi.Fn)
	info := fi.Pkg.TypesInfo
	sig := fi.Fn.Type().(*types.Signature)
	if sig.Params().Len() < 2 {
		return
	}
	bound := sig.Params().At(1)
	ast.Inspect(fi.Decl.Body, func(n ast.Node) bool {
		call, ok := n.(*ast.CallExpr)
		if !ok || !strings.HasSuffix(calleeName(info, call), "helper.Filter") || len(call.Args) != 2 {
			return true
		}
		fl, ok := call.Args[1].(*ast.FuncLit)
		if !ok {
			// the predicate may be made by an unexported function handed the bound: isOnOrAfter(date),
			// whose body is `return func(s *Snapshot) bool {...}` over its own parameter
			if mk, isCall := ast.Unparen(call.Args[1]).(*ast.CallExpr); isCall && len(mk.Args) == 1 {
				if aid, isID := ast.Unparen(mk.Args[0]).(*ast.Ident); isID && info.ObjectOf(aid) == bound {
					if fn := callee(info, mk); fn != nil && !fn.Exported() {
						if d := c.P.Decls[fn.Origin()]; d != nil && d.Decl.Body != nil && len(d.Decl.Body.List) == 1 && d.Pkg.TypesInfo == info {
							if r, isRet := d.Decl.Body.List[0].(*ast.ReturnStmt); isRet && len(r.Results) == 1 {
								if lit, isLit := r.Results[0].(*ast.FuncLit); isLit {
									if pb := paramAt(info, d.Decl, 0); pb != nil {
										if pv, isVar := pb.(*types.Var); isVar {
											fl, ok, bound = lit, true, pv
										}
									}
								}
							}
						}
					}
				}
			}
		}
		if !ok {
			// the predicate may be a local bound once to a function literal: sinceDate := func(...) bool {...}
			if id, isID := call.Args[1].(*ast.Ident); isID {
				obj := info.ObjectOf(id)
				defs := 0
				ast.Inspect(fi.Decl.Body, func(m ast.Node) bool {
					as, isAs := m.(*ast.AssignStmt)
					if !isAs || len(as.Lhs) != len(as.Rhs) {
						return true
					}
					for i, l := range as.Lhs {
						if lid, isL := l.(*ast.Ident); isL && info.ObjectOf(lid) == obj {
							defs++
							if lit, isLit := as.Rhs[i].(*ast.FuncLit); isLit {
								fl = lit
							}
						}
					}
					return true
				})
				ok = fl != nil && defs == 1
			}
		}
		if ok {
			// a filter that remembers anything judges rows by their position, not by their own date
			if m := dtab.FromFuncLit(info, fl); len(m.State) > 0 {
				run.Count("getsince_filters", 1)
				c.violate("repository/getsince", site, "stateful filter", call.Pos(), fmt.Sprintf("the GetSince filter remembers %v between rows: a row is then kept or dropped because of the rows before it, not because of its own date (rows need not be stored in date order)", m.State))
				return true
			}
		}
		if !ok {
			c.violate("repository/getsince", site, "filter shape", call.Pos(), "the GetSince filter is not a function literal (undecided, fails closed)")
			return true
		}
		ret := fl.Body
		run.Count("getsince_filters", 1)
		want := map[int]bool{-1: false, 0: true, 1: true}
		names := map[int]string{-1: "before", 0: "on", 1: "after"}
		for _, ord := range []int{-1, 0, 1} {
			v, ok := boolBodyEval(info, fl.Body.List, bound, ord)
			if !ok {
				c.violate("repository/getsince", site, "undecided", ret.Pos(), "the filter uses something other than Equal/After/Before of the snapshot date against the bound (undecided, fails closed)")
				break
			}
			run.Oblige(v == want[ord])
			if v != want[ord] {
				c.violate("repository/getsince", site, "snapshot dated "+names[ord]+" the bound", ret.Pos(),
					"GetSince "+map[bool]string{true: "keeps", false: "drops"}[v]+" a snapshot dated "+names[ord]+" the bound; it must return exactly those dated on or after it")
			}
		}
		return true
	})
}

// timeOrdEval evaluates e for ord = order(snapshot date, bound).
func timeOrdEval(info *types.Info, e ast.Expr, bound types.Object, ord int) (bool, bool) {
	switch x := e.(type) {
	case *ast.ParenExpr:
		return timeOrdEval(info, x.X, bound, ord)
	case *ast.UnaryExpr:
		if x.Op == token.NOT {
			v, ok := timeOrdEval(info, x.X, bound, ord)
			return !v, ok
		}
	case *ast.BinaryExpr:
		if x.Op == token.LAND || x.Op == token.LOR {
			l, ok1 := timeOrdEval(info, x.X, bound, ord)
			r, ok2 := timeOrdEval(info, x.Y, bound, ord)
			if !ok1 || !ok2 {
				return false, false
			}
			if x.Op == token.LAND {
				return l && r, true
			}
			return l || r, true
		}
	case *ast.CallExpr:
		sel, ok := x.Fun.(*ast.SelectorExpr)
		if !ok || len(x.Args) != 1 {
			return false, false
		}
		fn, _ := info.Uses[sel.Sel].(*types.Func)
		if fn == nil || fn.Pkg() == nil || fn.Pkg().Path() != "time" {
			return false, false
		}
		recvIsBound := usesObj(info, sel.X, bound)
		argIsBound := usesObj(info, x.Args[0], bound)
		if recvIsBound == argIsBound {
			return false, false
		}
		o := ord
		if recvIsBound { // bound.After(date) etc.
			o = -ord
		}
		switch fn.Name() {
		case "Equal":
			return o == 0, true
		case "After":
			return o > 0, true
		case "Before":
			return o < 0, true
		}
	}
	return false, false
}

// zeroTimeHasError: a return of the never-assigned zero time must carry a non-nil error.
func (c *Ctx) zeroTimeHasError(fi *load.FuncInfo) {
	run := c.Run
	site := load.FuncName(fi.Fn)
	info := fi.Pkg.TypesInfo
	// variables declared with `var x time.Time`
	zero := map[types.Object]bool{}
	ast.Inspect(fi.Decl.Body, func(n ast.Node) bool {
		ds, ok := n.(*ast.DeclStmt)
		if !ok {
			return true
		}
		gd, ok := ds.Decl.(*ast.GenDecl)
		if !ok {
			return true
		}
		for _, sp := range gd.Specs {
			if vs, ok := sp.(*ast.ValueSpec); ok && len(vs.Values) == 0 {
				for _, nm := range vs.Names {
					if obj := info.Defs[nm]; obj != nil && obj.Type().String() == "time.Time" {
						zero[obj] = true
					}
				}
			}
		}
		return true
	})
	// assignments (other than through a pointer passed to Scan) clear the zero status
	ast.Inspect(fi.Decl.Body, func(n ast.Node) bool {
		if as, ok := n.(*ast.AssignStmt); ok {
			for _, l := range as.Lhs {
				if id, ok := l.(*ast.Ident); ok {
					if obj := info.Uses[id]; obj != nil {
						delete(zero, obj)
					}
				}
			}
		}
		return true
	})
	ast.Inspect(fi.Decl.Body, func(n ast.Node) bool {
		r, ok := n.(*ast.ReturnStmt)
		if !ok || len(r.Results) != 2 {
			return true
		}
		id, ok := r.Results[0].(*ast.Ident)
		if !ok {
			return true
		}
		obj := info.Uses[id]
		if obj == nil || !zero[obj] {
			return true
		}
		run.Count("zero_time_returns", 1)
		e, isId := r.Results[1].(*ast.Ident)
		good := !(isId && e.Name == "nil")
		// `return date, nil` after a successful Scan(&date) is fine: the variable was written through its address
		if !good {
			written := false
			ast.Inspect(fi.Decl.Body, func(m ast.Node) bool {
				if u, ok := m.(*ast.UnaryExpr); ok && u.Op == token.AND && usesObj(info, u.X, obj) && u.Pos() < r.Pos() {
					written = true
				}
				return true
			})
			good = written
		}
		run.Oblige(good)
		if !good {
			c.violate("repository/lastdate", site, "zero time with nil error", r.Pos(), "LastDate returns the zero time without an error: an asset without snapshots looks like one whose last date is year 1")
		}
		return true
	})
}

// appendExtends: every value stored into the repository's map by Append is the previous
// entry extended (append(old, ...)), never a replacement.
func (c *Ctx) appendExtends(fi *load.FuncInfo) {
	run := c.Run
	info := fi.Pkg.TypesInfo
	site := load.FuncName(fi.Fn)
	defs := singleDefs(info, fi.Decl.Body)
	isEntry := func(e ast.Expr) (string, bool) {
		ix, ok := e.(*ast.IndexExpr)
		if !ok {
			return "", false
		}
		t := info.TypeOf(ix.X)
		if t == nil {
			return "", false
		}
		if _, isMap := t.Underlying().(*types.Map); !isMap {
			return "", false
		}
		if _, isField := ix.X.(*ast.SelectorExpr); !isField {
			return "", false
		}
		return exprString(ix), true
	}
	n := 0
	ast.Inspect(fi.Decl.Body, func(nd ast.Node) bool {
		as, ok := nd.(*ast.AssignStmt)
		if !ok {
			return true
		}
		for i, l := range as.Lhs {
			entry, ok := isEntry(l)
			if !ok || i >= len(as.Rhs) {
				continue
			}
			n++
			good := false
			var check func(e ast.Expr, depth int) bool
			check = func(e ast.Expr, depth int) bool {
				if depth > 4 {
					return false
				}
				switch x := e.(type) {
				case *ast.CallExpr:
					if id, ok := x.Fun.(*ast.Ident); ok && id.Name == "append" && len(x.Args) >= 1 {
						if en, ok := isEntry(x.Args[0]); ok && en == entry {
							return true
						}
						return check(x.Args[0], depth+1)
					}
				case *ast.Ident:
					obj := info.Uses[x]
					if obj == nil {
						return false
					}
					// a local initialised from the entry and afterwards only appended to
					okAll, sawInit := true, false
					ast.Inspect(fi.Decl.Body, func(m ast.Node) bool {
						a2, ok := m.(*ast.AssignStmt)
						if !ok {
							return true
						}
						for j, l2 := range a2.Lhs {
							id2, ok := l2.(*ast.Ident)
							if !ok || j >= len(a2.Rhs) {
								continue
							}
							o2 := info.Defs[id2]
							if o2 == nil {
								o2 = info.Uses[id2]
							}
							if o2 != obj {
								continue
							}
							if en, ok := isEntry(a2.Rhs[j]); ok && en == entry {
								sawInit = true
								continue
							}
							if call, ok := a2.Rhs[j].(*ast.CallExpr); ok {
								if f, ok := call.Fun.(*ast.Ident); ok && f.Name == "append" && len(call.Args) >= 1 {
									if a0, ok := call.Args[0].(*ast.Ident); ok && info.Uses[a0] == obj {
										continue
									}
								}
							}
							okAll = false
						}
						return true
					})
					return okAll && sawInit
				}
				return false
			}
			good = check(as.Rhs[i], 0)
			run.Oblige(good)
			if !good {
				c.violate("repository/append-extends", site, "replaces "+entry, as.Pos(),
					"Append stores a value that is not the previous entry extended with the new snapshots ("+exprString(as.Rhs[i])+"): earlier snapshots of the asset can be lost")
			}
		}
		return true
	})
	_ = defs
	run.Count("storage_writes", n)
	run.Floor("storage_writes", 1)
}

// mapFoundVars: the boolean variables in body that say whether a map lookup found its key:
// `v, ok := m[k]`, or the second result of an unexported method of the same package that returns
// such a pair (depth levels of indirection).
func mapFoundVars(c *Ctx, info *types.Info, body *ast.BlockStmt, depth int) map[types.Object]bool {
	out := map[types.Object]bool{}
	ast.Inspect(body, func(n ast.Node) bool {
		as, ok := n.(*ast.AssignStmt)
		if !ok || len(as.Lhs) != 2 || len(as.Rhs) != 1 {
			return true
		}
		okID, isID := as.Lhs[1].(*ast.Ident)
		if !isID {
			return true
		}
		switch r := as.Rhs[0].(type) {
		case *ast.IndexExpr:
			if t := info.TypeOf(r.X); t != nil {
				if _, isMap := t.Underlying().(*types.Map); isMap {
					out[info.ObjectOf(okID)] = true
				}
			}
		case *ast.CallExpr:
			if depth <= 0 {
				return true
			}
			fn := callee(info, r)
			if fn == nil || fn.Exported() {
				return true
			}
			dfi := c.P.Decls[fn.Origin()]
			if dfi == nil || dfi.Decl.Body == nil {
				return true
			}
			inner := mapFoundVars(c, dfi.Pkg.TypesInfo, dfi.Decl.Body, depth-1)
			returnsFound := false
			ast.Inspect(dfi.Decl.Body, func(m ast.Node) bool {
				if ret, isRet := m.(*ast.ReturnStmt); isRet && len(ret.Results) == 2 {
					if rid, isR := ret.Results[1].(*ast.Ident); isR && inner[dfi.Pkg.TypesInfo.ObjectOf(rid)] {
						returnsFound = true
					}
				}
				return true
			})
			if returnsFound {
				out[info.ObjectOf(okID)] = true
			}
		}
		return true
	})
	return out
}

// boolBodyEval evaluates a predicate body made of `if c { return b }` statements and a final
// return for one ordering of the snapshot date against the bound.
func boolBodyEval(info *types.Info, stmts []ast.Stmt, bound types.Object, ord int) (bool, bool) {
	for _, s := range stmts {
		switch x := s.(type) {
		case *ast.ReturnStmt:
			if len(x.Results) != 1 {
				return false, false
			}
			return boolExprEval(info, x.Results[0], bound, ord)
		case *ast.IfStmt:
			if x.Init != nil {
				return false, false
			}
			c, ok := boolExprEval(info, x.Cond, bound, ord)
			if !ok {
				return false, false
			}
			if c {
				if v, ok := boolBodyEval(info, x.Body.List, bound, ord); ok {
					return v, true
				}
				return false, false
			}
			switch e := x.Else.(type) {
			case *ast.BlockStmt:
				if v, ok := boolBodyEval(info, e.List, bound, ord); ok {
					return v, true
				}
				return false, false
			case *ast.IfStmt:
				if v, ok := boolBodyEval(info, []ast.Stmt{e}, bound, ord); ok {
					return v, true
				}
			}
		default:
			return false, false
		}
	}
	return false, false
}

func boolExprEval(info *types.Info, e ast.Expr, bound types.Object, ord int) (bool, bool) {
	if id, ok := ast.Unparen(e).(*ast.Ident); ok {
		switch id.Name {
		case "true":
			return true, true
		case "false":
			return false, true
		}
	}
	return timeOrdEval(info, e, bound, ord)
}

// freshElements: a loop that fills an object and sends a reference to it must allocate the object
// inside the loop. An object allocated before the loop, written inside it (fields assigned, its
// address or the address of its fields passed to a call such as rows.Scan or Decode) and sent
// inside it is one object delivered many times: once the stream has been collected every element
// shows the last row.
func (c *Ctx) freshElements(rel string) {
	run := c.Run
	pk := c.P.Pkg(rel)
	if pk == nil {
		return
	}
	info := pk.TypesInfo
	nSends := 0
	refLike := func(t types.Type) bool {
		switch t.Underlying().(type) {
		case *types.Pointer, *types.Map, *types.Slice:
			return true
		}
		return false
	}
	for _, f := range pk.Syntax {
		if strings.HasSuffix(c.P.Fset.Position(f.Pos()).Filename, "_test.go") {
			continue
		}
		for _, d := range f.Decls {
			fd, ok := d.(*ast.FuncDecl)
			if !ok || fd.Body == nil {
				continue
			}
			var loops []ast.Node
			var walk func(n ast.Node)
			walk = func(n ast.Node) {
				ast.Inspect(n, func(m ast.Node) bool {
					switch x := m.(type) {
					case *ast.ForStmt, *ast.RangeStmt:
						if m == n {
							return true
						}
						loops = append(loops, m)
						walk(m)
						loops = loops[:len(loops)-1]
						return false
					case *ast.FuncLit:
						if m == n {
							return true
						}
						saved := loops
						loops = nil
						walk(x)
						loops = saved
						return false
					case *ast.SendStmt:
						if len(loops) == 0 {
							return true
						}
						if call, isCall := ast.Unparen(x.Value).(*ast.CallExpr); isCall {
							// the result of a call made in this iteration: a value of its own per
							// element (what the callee returns is the callee's business)
							if t := info.TypeOf(call); t != nil && refLike(t) {
								nSends++
								c.ok()
							}
							return true
						}
						id, isID := ast.Unparen(x.Value).(*ast.Ident)
						if !isID {
							return true
						}
						obj, _ := info.Uses[id].(*types.Var)
						if obj == nil || !refLike(obj.Type()) {
							return true
						}
						nSends++
						loop := loops[len(loops)-1]
						if obj.Pos() >= loop.Pos() && obj.Pos() < loop.End() {
							c.ok() // declared per iteration (or the loop's own range variable)
							return true
						}
						// declared outside: is it re-assigned in the loop, or only written through?
						reassigned, written := false, false
						why := ""
						ast.Inspect(loop, func(k ast.Node) bool {
							switch y := k.(type) {
							case *ast.AssignStmt:
								for _, l := range y.Lhs {
									if lid, ok := l.(*ast.Ident); ok && info.ObjectOf(lid) == obj {
										reassigned = true
									} else if rootedAt(info, l, obj) {
										written, why = true, exprString(l)+" = …"
									}
								}
							case *ast.UnaryExpr:
								if y.Op == token.AND && rootedAt(info, y.X, obj) {
									written, why = true, exprString(y)
								}
							case *ast.CallExpr:
								for _, a := range y.Args {
									if aid, ok := ast.Unparen(a).(*ast.Ident); ok && info.ObjectOf(aid) == obj {
										if fn := callee(info, y); fn == nil || fn.Name() != "append" {
											written, why = true, exprString(y)
										}
									}
								}
							}
							return true
						})
						good := reassigned || !written
						run.Oblige(good)
						if !good {
							c.violate("repository/fresh-element", rel+"."+fd.Name.Name, "sends "+id.Name, x.Pos(),
								"the object "+id.Name+" is allocated once before the loop, filled inside it ("+short(why, 60)+") and a reference to it is sent on every iteration: every element delivered is the same object, and after the stream was collected all of them show the last one")
						}
					}
					return true
				})
			}
			walk(fd.Body)
		}
	}
	run.Count("reference_sends_in_loops", nSends)
	run.Floor("reference_sends_in_loops", 1)
}

// rootedAt: e is obj.f, obj.f.g, obj[i], *obj … (a place inside the object obj refers to).
func rootedAt(info *types.Info, e ast.Expr, obj types.Object) bool {
	for {
		switch x := e.(type) {
		case *ast.ParenExpr:
			e = x.X
		case *ast.SelectorExpr:
			if id, ok := x.X.(*ast.Ident); ok && info.ObjectOf(id) == obj {
				return true
			}
			e = x.X
		case *ast.IndexExpr:
			if id, ok := x.X.(*ast.Ident); ok && info.ObjectOf(id) == obj {
				return true
			}
			e = x.X
		case *ast.StarExpr:
			if id, ok := x.X.(*ast.Ident); ok && info.ObjectOf(id) == obj {
				return true
			}
			e = x.X
		default:
			return false
		}
	}
}

// assetNameCodec: the file-system repository stores asset A in the file "A"+EXT (the name builder
// behind Get/Append) and Assets() must invert exactly that: every listed name is a file name with
// the suffix EXT removed by an exact inverse (strings.TrimSuffix / CutSuffix / a slice by the
// suffix length) under a test that the name ends in EXT. A cutset function (TrimRight) or another
// extension lists names that Get and Append do not map back to the same file.
func (c *Ctx) assetNameCodec() {
	run := c.Run
	assets := c.fn("asset", "FileSystemRepository", "Assets")
	get := c.fn("asset", "FileSystemRepository", "Get")
	if assets == nil || get == nil {
		run.Break("anchor missing: asset.(*FileSystemRepository).Assets/Get")
		return
	}
	info := assets.Pkg.TypesInfo
	site := "asset.(*FileSystemRepository).Assets"
	// EXT from the builder reached from Get: a string constant "%s<EXT>" passed to Sprintf, or name + EXT
	ext := ""
	rawName := "" // "" = the name goes into the file name as it is; otherwise what goes in instead
	isParam := func(fi *load.FuncInfo, e ast.Expr) bool {
		id, ok := ast.Unparen(e).(*ast.Ident)
		if !ok {
			return false
		}
		return paramIndex(info, fi.Decl, info.ObjectOf(id)) >= 0
	}
	var scan func(fi *load.FuncInfo, depth int)
	scan = func(fi *load.FuncInfo, depth int) {
		ast.Inspect(fi.Decl.Body, func(n ast.Node) bool {
			switch x := n.(type) {
			case *ast.CallExpr:
				nm := calleeName(info, x)
				if nm == "fmt.Sprintf" && len(x.Args) == 2 {
					if tv, ok := info.Types[x.Args[0]]; ok && tv.Value != nil {
						if f := constant.StringVal(tv.Value); strings.HasPrefix(f, "%s") && !strings.Contains(f[2:], "%") {
							ext = f[2:]
							if o, _ := c.origin(info, fi.Decl, x.Args[1], 0); !isParam(fi, o) {
								rawName = exprString(o)
							}
						}
					}
				}
				if fn := callee(info, x); fn != nil && depth < 2 {
					if d := c.P.Decls[fn.Origin()]; d != nil && d.Decl.Body != nil && d.Pkg == fi.Pkg && d != fi {
						scan(d, depth+1)
					}
				}
			case *ast.BinaryExpr:
				if x.Op == token.ADD {
					if tv, ok := info.Types[x.Y]; ok && tv.Value != nil && tv.Value.Kind() == constant.String {
						if s := constant.StringVal(tv.Value); strings.HasPrefix(s, ".") {
							ext = s
							if o, _ := c.origin(info, fi.Decl, x.X, 0); !isParam(fi, o) {
								rawName = exprString(o)
							}
						}
					}
				}
			}
			return true
		})
	}
	scan(get, 0)
	if ext == "" {
		c.violate("repository/asset-names", site, "extension", get.Decl.Pos(), "the file name of an asset is no longer its name followed by a constant extension (undecided, fails closed)")
		return
	}
	run.Oblige(rawName == "")
	if rawName != "" {
		c.violate("repository/asset-names", "asset.(*FileSystemRepository).Get", "name transformed", get.Decl.Pos(), "the file of an asset is named after "+rawName+", not after the asset name as it is: two different names can share one file, and Assets() lists names that were never appended")
	}
	// string value of an expression in Assets: constant or single-definition local
	defs := singleDefs(info, assets.Decl.Body)
	var strOf func(e ast.Expr) (string, bool)
	strOf = func(e ast.Expr) (string, bool) {
		if tv, ok := info.Types[e]; ok && tv.Value != nil && tv.Value.Kind() == constant.String {
			return constant.StringVal(tv.Value), true
		}
		if id, ok := ast.Unparen(e).(*ast.Ident); ok {
			if d, ok := defs[info.Uses[id]]; ok {
				return strOf(d)
			}
		}
		return "", false
	}
	nNames := 0
	parents := buildParents(assets.Decl)
	ast.Inspect(assets.Decl.Body, func(n ast.Node) bool {
		call, ok := n.(*ast.CallExpr)
		if !ok {
			return true
		}
		id, isID := call.Fun.(*ast.Ident)
		if !isID || id.Name != "append" || len(call.Args) < 2 {
			return true
		}
		if t, ok := info.TypeOf(call.Args[0]).Underlying().(*types.Slice); !ok || !types.Identical(t.Elem(), types.Typ[types.String]) {
			return true
		}
		for _, a := range call.Args[1:] {
			nNames++
			v := a
			if vid, ok := ast.Unparen(a).(*ast.Ident); ok {
				if d, ok := defs[info.Uses[vid]]; ok {
					v = d
				}
			}
			good, why := false, "the listed name is "+exprString(v)
			switch x := ast.Unparen(v).(type) {
			case *ast.CallExpr:
				switch calleeName(info, x) {
				case "strings.TrimSuffix":
					if s, ok := strOf(x.Args[1]); ok && s == ext {
						good = true
					} else {
						why = "the suffix removed (" + exprString(x.Args[1]) + ") is not the extension " + ext + " the files are written with"
					}
				case "strings.TrimRight", "strings.TrimLeft", "strings.Trim":
					why = calleeName(info, x) + " removes every trailing character that occurs in its second argument (a cutset), not the suffix " + ext + ": an asset whose name ends in one of those characters is listed under a truncated name"
				}
			case *ast.SliceExpr:
				// name[:len(name)-len(suffix)]
				if x.Low == nil && x.High != nil {
					if be, ok := x.High.(*ast.BinaryExpr); ok && be.Op == token.SUB {
						if lc, ok := be.Y.(*ast.CallExpr); ok && len(lc.Args) == 1 {
							if s, ok := strOf(lc.Args[0]); ok && s == ext {
								good = true
							}
						}
						if tv, ok := info.Types[be.Y]; ok && tv.Value != nil {
							if k, ok := constant.Int64Val(tv.Value); ok && int(k) == len(ext) {
								good = true
							}
						}
					}
				}
			case *ast.Ident:
				// before, found := strings.CutSuffix(name, suffix)
				ast.Inspect(assets.Decl.Body, func(m ast.Node) bool {
					as, ok := m.(*ast.AssignStmt)
					if !ok || len(as.Lhs) != 2 || len(as.Rhs) != 1 {
						return true
					}
					l0, ok := as.Lhs[0].(*ast.Ident)
					if !ok || info.ObjectOf(l0) != info.ObjectOf(x) {
						return true
					}
					if cc, ok := as.Rhs[0].(*ast.CallExpr); ok && calleeName(info, cc) == "strings.CutSuffix" {
						if s, ok := strOf(cc.Args[1]); ok && s == ext {
							good = true
						}
					}
					return true
				})
			}
			if good {
				// only files that carry the extension are assets
				guarded := false
				for p := parents[ast.Node(call)]; p != nil; p = parents[p] {
					is, ok := p.(*ast.IfStmt)
					if !ok {
						continue
					}
					ast.Inspect(is.Cond, func(m ast.Node) bool {
						switch y := m.(type) {
						case *ast.CallExpr:
							if calleeName(info, y) == "strings.HasSuffix" && len(y.Args) == 2 {
								if s, ok := strOf(y.Args[1]); ok && s == ext {
									guarded = true
								}
							}
						case *ast.BinaryExpr:
							if y.Op == token.EQL {
								for _, pair := range [][2]ast.Expr{{y.X, y.Y}, {y.Y, y.X}} {
									if cc, ok := pair[0].(*ast.CallExpr); ok && calleeName(info, cc) == "path/filepath.Ext" {
										if s, ok := strOf(pair[1]); ok && s == ext {
											guarded = true
										}
									}
								}
							}
						case *ast.Ident:
							if b, ok := info.TypeOf(y).(*types.Basic); ok && b.Kind() == types.Bool {
								// the found result of strings.CutSuffix
								ast.Inspect(assets.Decl.Body, func(k ast.Node) bool {
									if as, ok := k.(*ast.AssignStmt); ok && len(as.Lhs) == 2 && len(as.Rhs) == 1 {
										if l1, ok := as.Lhs[1].(*ast.Ident); ok && info.ObjectOf(l1) == info.ObjectOf(y) {
											if cc, ok := as.Rhs[0].(*ast.CallExpr); ok && calleeName(info, cc) == "strings.CutSuffix" {
												guarded = true
											}
										}
									}
									return true
								})
							}
						}
						return true
					})
				}
				if !guarded {
					good, why = false, "the name is listed without a test that the file name ends in "+ext+": every other file in the directory becomes an asset"
				}
			}
			run.Oblige(good)
			if !good {
				c.violate("repository/asset-names", site, short(exprString(v), 60), a.Pos(), "Assets() must list exactly the names whose files Get and Append use (name + \""+ext+"\"): "+why)
			}
		}
		return true
	})
	run.Count("listed_asset_names", nNames)
	run.Floor("listed_asset_names", 1)
}

type panicSource struct {
	pos       token.Pos
	what, why string
}

// panicSources: unchecked type assertions (outside type switches and the two-value form) and
// explicit panic calls in a body.
func panicSources(body ast.Node) []panicSource {
	var out []panicSource
	checked := map[*ast.TypeAssertExpr]bool{}
	// (*csv.Reader).FieldPos panics on an index for which no position was recorded; after a Read
	// that failed there may be none at all (a quoting error in the first field of a row). In the
	// branch that handles a non-nil error it is a panic on malformed input.
	var stack []ast.Node
	ast.Inspect(body, func(n ast.Node) bool {
		if n == nil {
			stack = stack[:len(stack)-1]
			return true
		}
		stack = append(stack, n)
		call, ok := n.(*ast.CallExpr)
		if !ok {
			return true
		}
		sel, ok := call.Fun.(*ast.SelectorExpr)
		if !ok || sel.Sel.Name != "FieldPos" || len(call.Args) != 1 {
			return true
		}
		for i := len(stack) - 2; i >= 0; i-- {
			is, isIf := stack[i].(*ast.IfStmt)
			if !isIf || call.Pos() < is.Body.Pos() || call.End() > is.Body.End() {
				continue
			}
			// the error tested is the one Read() returned: the statement in front of the `if`
			afterRead := false
			if i > 0 {
				if blk, isBlk := stack[i-1].(*ast.BlockStmt); isBlk {
					for k, st := range blk.List {
						if st != ast.Stmt(is) {
							continue
						}
						// the nearest assignment from a call in front of the `if` (other tests of
						// the same error, like `if err == io.EOF`, may stand in between)
						for j := k - 1; j >= 0; j-- {
							as, isAs := blk.List[j].(*ast.AssignStmt)
							if !isAs || len(as.Rhs) != 1 {
								continue
							}
							rc, isCall := ast.Unparen(as.Rhs[0]).(*ast.CallExpr)
							if !isCall {
								continue
							}
							if rs, isSel := rc.Fun.(*ast.SelectorExpr); isSel && rs.Sel.Name == "Read" {
								if e, isID := as.Lhs[len(as.Lhs)-1].(*ast.Ident); isID {
									if be, isBin := ast.Unparen(is.Cond).(*ast.BinaryExpr); isBin {
										for _, side := range []ast.Expr{be.X, be.Y} {
											if id, isI := ast.Unparen(side).(*ast.Ident); isI && id.Name == e.Name {
												afterRead = true
											}
										}
									}
								}
							}
							break
						}
					}
				}
			}
			if be, isBin := ast.Unparen(is.Cond).(*ast.BinaryExpr); afterRead && isBin && be.Op == token.NEQ && (isNilIdent(ast.Unparen(be.Y)) || isNilIdent(ast.Unparen(be.X))) {
				out = append(out, panicSource{call.Pos(), "FieldPos after a failed read", "FieldPos(" + exprString(call.Args[0]) + ") in the branch that handles a read error panics when the failed row recorded no position for that field (a quoting error in its first field)"})
				break
			}
		}
		return true
	})
	ast.Inspect(body, func(n ast.Node) bool {
		switch x := n.(type) {
		case *ast.AssignStmt:
			if len(x.Lhs) == 2 && len(x.Rhs) == 1 {
				if ta, ok := ast.Unparen(x.Rhs[0]).(*ast.TypeAssertExpr); ok {
					checked[ta] = true
				}
			}
		case *ast.ValueSpec:
			if len(x.Names) == 2 && len(x.Values) == 1 {
				if ta, ok := ast.Unparen(x.Values[0]).(*ast.TypeAssertExpr); ok {
					checked[ta] = true
				}
			}
		case *ast.TypeAssertExpr:
			if x.Type == nil || checked[x] {
				return true // x.(type) of a type switch, or v, ok := x.(T)
			}
			out = append(out, panicSource{x.Pos(), "assertion " + exprString(x), "the type assertion " + exprString(x) + " has no ok result and panics when the value has another dynamic type"})
		case *ast.CallExpr:
			if id, ok := x.Fun.(*ast.Ident); ok && id.Name == "panic" && id.Obj == nil {
				out = append(out, panicSource{x.Pos(), "panic call", "an explicit panic"})
			}
		}
		return true
	})
	return out
}

// panicSourcesSelfTest: the detector must find the two forms in a built-in example and accept the
// checked forms (the rule's expected count on the library is zero).
func panicSourcesSelfTest() bool {
	src := `package p
func f(t interface{}) {
	a := t.(int)
	b, ok := t.(string)
	switch t.(type) {
	case int:
	}
	panic("x")
	_, _, _ = a, b, ok
}
func g(r interface{ FieldPos(int) (int, int); Read() ([]string, error) }, other error) {
	_, err := r.Read()
	if err != nil {
		r.FieldPos(0)
	}
	if other != nil {
		r.FieldPos(1)
	}
	r.FieldPos(2)
}`
	f, err := parser.ParseFile(token.NewFileSet(), "x.go", src, parser.SkipObjectResolution)
	if err != nil {
		return false
	}
	ps := panicSources(f)
	return len(ps) == 3 && strings.HasPrefix(ps[0].what, "FieldPos") && strings.HasPrefix(ps[1].what, "assertion") && ps[2].what == "panic call"
}

// factoryPurity: asset.NewRepository and backtest.NewReport build a new object from the
// configuration they are given on every call: each return of a non-nil object is the result of
// calling the builder looked up for the name with the config parameter (through locals). A value
// taken from anywhere else (a package-level cache keyed by less than name and config) hands two
// differently configured callers the same object.
func (c *Ctx) factoryPurity(rel, fn, rule string) {
	run := c.Run
	fi := c.fn(rel, "", fn)
	if fi == nil {
		run.Break("anchor missing: " + rel + "." + fn)
		return
	}
	info := fi.Pkg.TypesInfo
	sig := fi.Fn.Type().(*types.Signature)
	if sig.Params().Len() < 2 {
		c.violate(rule, rel+"."+fn, "signature", fi.Decl.Pos(), "the factory no longer takes a name and a configuration (undecided, fails closed)")
		return
	}
	cfg := sig.Params().At(sig.Params().Len() - 1)
	defs := singleDefs(info, fi.Decl.Body)
	n := 0
	ast.Inspect(fi.Decl.Body, func(nd ast.Node) bool {
		if _, isLit := nd.(*ast.FuncLit); isLit {
			return false
		}
		r, ok := nd.(*ast.ReturnStmt)
		if !ok || len(r.Results) == 0 {
			return true
		}
		first := ast.Unparen(r.Results[0])
		if isNilIdent(first) {
			return true
		}
		n++
		e := first
		for i := 0; i < 6; i++ {
			id, isID := e.(*ast.Ident)
			if !isID {
				break
			}
			d, has := defs[info.ObjectOf(id)]
			if !has {
				// the first result of a call assigned together with its error: x, err := builder(config)
				obj := info.ObjectOf(id)
				var only ast.Expr
				count := 0
				ast.Inspect(fi.Decl.Body, func(m ast.Node) bool {
					as, ok := m.(*ast.AssignStmt)
					if !ok {
						return true
					}
					for li, l := range as.Lhs {
						if lid, ok := l.(*ast.Ident); ok && info.ObjectOf(lid) == obj {
							count++
							if li == 0 && len(as.Rhs) == 1 && len(as.Lhs) > 1 {
								only = as.Rhs[0]
							}
						}
					}
					return true
				})
				if count == 1 && only != nil {
					e = ast.Unparen(only)
					continue
				}
				break
			}
			e = ast.Unparen(d)
		}
		good := false
		if call, ok := e.(*ast.CallExpr); ok {
			// builder(config): the callee is a local function value, an argument is the config parameter
			if _, isLocalFn := ast.Unparen(call.Fun).(*ast.Ident); isLocalFn && callee(info, call) == nil {
				for _, a := range call.Args {
					if id, ok := ast.Unparen(a).(*ast.Ident); ok && info.ObjectOf(id) == types.Object(cfg) {
						good = true
					}
				}
			}
		}
		run.Oblige(good)
		if !good {
			c.violate(rule, rel+"."+fn, "return "+short(exprString(first), 50), r.Pos(), "this path returns "+short(exprString(e), 80)+", not what the builder registered for the name makes of the configuration given: two callers with different configurations can get the same object")
		}
		return true
	})
	run.Count("factory_returns_"+fn, n)
	if n == 0 {
		c.violate(rule, rel+"."+fn, "no return", fi.Decl.Pos(), "the factory returns no object (undecided, fails closed)")
	}
}

// constructorDiscipline: a struct type that has a constructor which gives some of its pointer,
// interface, function, map or channel fields a non-nil value is only built through it, or by a
// literal that sets those fields too. A literal elsewhere that leaves one of them out yields an
// object whose methods dereference nil on the first path that uses the field (the Tiingo reader
// logs decoding errors through its Logger: a nil Logger turns a malformed body into a panic).
func (c *Ctx) constructorDiscipline(rule string, rels ...string) {
	run := c.Run
	nilable := func(t types.Type) bool {
		switch t.Underlying().(type) {
		case *types.Pointer, *types.Interface, *types.Signature, *types.Map, *types.Chan:
			return true
		}
		return false
	}
	type litSite struct {
		lit  *ast.CompositeLit
		fn   *ast.FuncDecl
		pk   *packages.Package
		sets map[string]bool
	}
	byType := map[*types.TypeName][]litSite{}
	assigned := map[*ast.FuncDecl]map[*types.TypeName]map[string]bool{} // x.F = … in the same function
	for _, rel := range rels {
		pk := c.P.Pkg(rel)
		if pk == nil {
			continue
		}
		info := pk.TypesInfo
		for _, f := range pk.Syntax {
			if strings.HasSuffix(c.P.Fset.Position(f.Pos()).Filename, "_test.go") {
				continue
			}
			for _, d := range f.Decls {
				fd, ok := d.(*ast.FuncDecl)
				if !ok || fd.Body == nil {
					continue
				}
				ast.Inspect(fd.Body, func(n ast.Node) bool {
					switch x := n.(type) {
					case *ast.CompositeLit:
						t := info.TypeOf(x)
						if t == nil {
							return true
						}
						nt, ok := t.(*types.Named)
						if !ok {
							return true
						}
						if _, isStruct := nt.Underlying().(*types.Struct); !isStruct || nt.Obj().Pkg() == nil || !strings.HasPrefix(nt.Obj().Pkg().Path(), load.ModulePath) {
							return true
						}
						sets := map[string]bool{}
						positional := false
						for _, el := range x.Elts {
							if kv, ok := el.(*ast.KeyValueExpr); ok {
								if k, ok := kv.Key.(*ast.Ident); ok && !isNilIdent(kv.Value) {
									sets[k.Name] = true
								}
							} else {
								positional = true
							}
						}
						if positional {
							st := nt.Underlying().(*types.Struct)
							for i := 0; i < st.NumFields() && i < len(x.Elts); i++ {
								if !isNilIdent(x.Elts[i]) {
									sets[st.Field(i).Name()] = true
								}
							}
						}
						byType[nt.Origin().Obj()] = append(byType[nt.Origin().Obj()], litSite{x, fd, pk, sets})
					case *ast.AssignStmt:
						for i, l := range x.Lhs {
							sel, ok := l.(*ast.SelectorExpr)
							if !ok || i >= len(x.Rhs) || isNilIdent(x.Rhs[i]) {
								continue
							}
							tx := info.TypeOf(sel.X)
							if tx == nil {
								continue
							}
							if p, ok := tx.(*types.Pointer); ok {
								tx = p.Elem()
							}
							if nt, ok := tx.(*types.Named); ok {
								if assigned[fd] == nil {
									assigned[fd] = map[*types.TypeName]map[string]bool{}
								}
								if assigned[fd][nt.Origin().Obj()] == nil {
									assigned[fd][nt.Origin().Obj()] = map[string]bool{}
								}
								assigned[fd][nt.Origin().Obj()][sel.Sel.Name] = true
							}
						}
					}
					return true
				})
			}
		}
	}
	nTypes := 0
	for tn, sites := range byType {
		st, _ := tn.Type().Underlying().(*types.Struct)
		if st == nil {
			continue
		}
		// constructors: functions named New<T>… in the type's package
		var required map[string]bool
		for _, s := range sites {
			if s.fn.Recv != nil || !strings.HasPrefix(s.fn.Name.Name, "New"+tn.Name()) {
				continue
			}
			sets := map[string]bool{}
			for k := range s.sets {
				sets[k] = true
			}
			for k := range assigned[s.fn][tn] {
				sets[k] = true
			}
			req := map[string]bool{}
			for i := 0; i < st.NumFields(); i++ {
				if f := st.Field(i); nilable(f.Type()) && sets[f.Name()] {
					req[f.Name()] = true
				}
			}
			if required == nil {
				required = req
			} else {
				for k := range required {
					if !req[k] {
						delete(required, k) // not every constructor sets it
					}
				}
			}
		}
		if len(required) == 0 {
			continue
		}
		nTypes++
		for _, s := range sites {
			if s.fn.Recv == nil && strings.HasPrefix(s.fn.Name.Name, "New"+tn.Name()) {
				continue
			}
			var missing []string
			for k := range required {
				if !s.sets[k] && !assigned[s.fn][tn][k] {
					missing = append(missing, k)
				}
			}
			sort.Strings(missing)
			run.Oblige(len(missing) == 0)
			if len(missing) > 0 {
				c.violate(rule, load.RelPkg(s.pk.PkgPath)+"."+s.fn.Name.Name, tn.Name()+" without "+strings.Join(missing, ","), s.lit.Pos(),
					"a "+tn.Name()+" is built here without "+strings.Join(missing, ", ")+", which every constructor of the type sets: its methods use the field without a nil test, so the object fails (a nil Logger panics in the reader goroutine on the first malformed response) where one from the constructor would not")
			}
		}
	}
	run.Count("constructed_types_with_defaults", nTypes)
	run.Floor("constructed_types_with_defaults", 3)
}

// closeHelpers: the helpers the readers rely on to release a body or a file really do close what
// they are given, on every path, and do nothing with it before that: a read on the way
// (draining "so that the connection can be reused") blocks for as long as the peer keeps the
// connection open, and then the stream is never closed and the error never returned.
func (c *Ctx) closeHelpers() {
	run := c.Run
	n := 0
	for _, name := range []string{"CloseAndLogError", "CloseAndLogErrorWithLogger"} {
		fi := c.P.Func("helper", name)
		if fi == nil {
			run.Break("anchor missing: helper." + name)
			continue
		}
		n++
		info := fi.Pkg.TypesInfo
		site := "helper." + name
		var closer types.Object
		if fi.Decl.Type.Params != nil && len(fi.Decl.Type.Params.List) > 0 && len(fi.Decl.Type.Params.List[0].Names) > 0 {
			closer = info.ObjectOf(fi.Decl.Type.Params.List[0].Names[0])
		}
		// aliases of the closer: r, ok := closer.(io.Reader)
		alias := map[types.Object]bool{closer: true}
		ast.Inspect(fi.Decl.Body, func(nd ast.Node) bool {
			as, ok := nd.(*ast.AssignStmt)
			if !ok || len(as.Rhs) != 1 {
				return true
			}
			if ta, ok := ast.Unparen(as.Rhs[0]).(*ast.TypeAssertExpr); ok {
				if id, ok := ast.Unparen(ta.X).(*ast.Ident); ok && alias[info.ObjectOf(id)] {
					if l, ok := as.Lhs[0].(*ast.Ident); ok {
						alias[info.ObjectOf(l)] = true
					}
				}
			}
			return true
		})
		closes, forwards := false, false
		bad := ""
		var badPos token.Pos
		ast.Inspect(fi.Decl.Body, func(nd ast.Node) bool {
			call, ok := nd.(*ast.CallExpr)
			if !ok {
				return true
			}
			if sel, ok := call.Fun.(*ast.SelectorExpr); ok {
				if id, ok := ast.Unparen(sel.X).(*ast.Ident); ok && alias[info.ObjectOf(id)] {
					if sel.Sel.Name == "Close" {
						closes = true
					} else {
						bad, badPos = exprString(call.Fun), call.Pos()
					}
					return true
				}
			}
			for i, a := range call.Args {
				if id, ok := ast.Unparen(a).(*ast.Ident); ok && alias[info.ObjectOf(id)] {
					if fn := callee(info, call); fn != nil && i == 0 && (fn.Name() == "CloseAndLogError" || fn.Name() == "CloseAndLogErrorWithLogger") {
						forwards = true
					} else {
						bad, badPos = exprString(call.Fun)+"(…"+id.Name+"…)", call.Pos()
					}
				}
			}
			return true
		})
		good := (closes || forwards) && bad == ""
		run.Oblige(good)
		if bad != "" {
			c.violate("reader/close-helper", site, "uses the closer: "+short(bad, 60), badPos, site+" does "+bad+" with what it is asked to close: reading a response body to its end blocks for as long as the peer keeps the connection open, so the reader's stream is never closed and a non-success status never returned")
		} else if !good {
			c.violate("reader/close-helper", site, "no Close", fi.Decl.Pos(), site+" no longer closes what it is given")
		}
	}
	run.Count("close_helpers", n)
}

// decodeTargets: what encoding/json decodes into is the address of a value, not of a pointer.
// For a target of type **T the JSON literal `null` (a well-formed document any peer may send)
// stores nil in the pointer, and the field access that follows the successful decode panics;
// into a *T target `null` is a no-op and the zero value is what the caller gets. Type parameters
// are the caller's choice and are not judged.
func (c *Ctx) decodeTargets() {
	run := c.Run
	n := 0
	for _, rel := range []string{"asset", "helper", "backtest"} {
		pk := c.P.Pkg(rel)
		if pk == nil {
			continue
		}
		info := pk.TypesInfo
		for _, f := range pk.Syntax {
			if strings.HasSuffix(c.P.Fset.Position(f.Pos()).Filename, "_test.go") {
				continue
			}
			ast.Inspect(f, func(nd ast.Node) bool {
				call, ok := nd.(*ast.CallExpr)
				if !ok {
					return true
				}
				var target ast.Expr
				switch calleeName(info, call) {
				case "encoding/json.Unmarshal":
					if len(call.Args) == 2 {
						target = call.Args[1]
					}
				case "encoding/json.(Decoder).Decode", "encoding/json.(*Decoder).Decode":
					if len(call.Args) == 1 {
						target = call.Args[0]
					}
				}
				if target == nil {
					return true
				}
				n++
				t := info.TypeOf(target)
				good := true
				if p, isP := t.(*types.Pointer); isP {
					if _, inner := p.Elem().Underlying().(*types.Pointer); inner {
						good = false
					}
				}
				run.Oblige(good)
				if !good {
					c.violate("reader/decode-target", rel, exprString(target), target.Pos(), "JSON is decoded into "+exprString(target)+" of type "+t.String()+": the document `null` sets the inner pointer to nil without an error, and the code that uses the decoded value dereferences it (a panic on malformed-but-valid input)")
				}
				return true
			})
		}
	}
	run.Count("json_decode_targets", n)
	run.Floor("json_decode_targets", 3)
}

// idxLenCond evaluates a condition over the index expression (by its text) and len(rec) for the
// values I and L; decided=false when it contains anything else.
func idxLenCond(info *types.Info, cond ast.Expr, idxText, rec string, I, L int64) (bool, bool) {
	strip := strings.NewReplacer("(", "", ")", "")
	var val func(e ast.Expr) (int64, bool)
	val = func(e ast.Expr) (int64, bool) {
		e = ast.Unparen(e)
		if k, isC := constInt(info, e); isC {
			return k, true
		}
		// literals of a copied expression (no type information recorded for the copy)
		if bl, isLit := e.(*ast.BasicLit); isLit && bl.Kind == token.INT {
			if v, err := strconv.ParseInt(bl.Value, 0, 64); err == nil {
				return v, true
			}
		}
		if u, isU := e.(*ast.UnaryExpr); isU && u.Op == token.SUB {
			if v, ok := val(u.X); ok {
				return -v, true
			}
		}
		if strip.Replace(exprString(e)) == strip.Replace(idxText) {
			return I, true
		}
		if call, ok := e.(*ast.CallExpr); ok && len(call.Args) == 1 {
			if id, ok := call.Fun.(*ast.Ident); ok && id.Name == "len" && exprString(call.Args[0]) == rec {
				return L, true
			}
		}
		if be, ok := e.(*ast.BinaryExpr); ok && (be.Op == token.ADD || be.Op == token.SUB) {
			l, ok1 := val(be.X)
			r, ok2 := val(be.Y)
			if ok1 && ok2 {
				if be.Op == token.ADD {
					return l + r, true
				}
				return l - r, true
			}
		}
		return 0, false
	}
	cond = ast.Unparen(cond)
	switch x := cond.(type) {
	case *ast.UnaryExpr:
		if x.Op == token.NOT {
			v, d := idxLenCond(info, x.X, idxText, rec, I, L)
			return !v, d
		}
	case *ast.BinaryExpr:
		if x.Op == token.LAND || x.Op == token.LOR {
			l, d1 := idxLenCond(info, x.X, idxText, rec, I, L)
			r, d2 := idxLenCond(info, x.Y, idxText, rec, I, L)
			if !d1 || !d2 {
				return false, false
			}
			if x.Op == token.LAND {
				return l && r, true
			}
			return l || r, true
		}
		l, ok1 := val(x.X)
		r, ok2 := val(x.Y)
		if !ok1 || !ok2 {
			return false, false
		}
		switch x.Op {
		case token.EQL:
			return l == r, true
		case token.NEQ:
			return l != r, true
		case token.LSS:
			return l < r, true
		case token.LEQ:
			return l <= r, true
		case token.GTR:
			return l > r, true
		case token.GEQ:
			return l >= r, true
		}
	}
	return false, false
}

func paramAt(info *types.Info, fd *ast.FuncDecl, i int) types.Object {
	k := 0
	for _, f := range fd.Type.Params.List {
		for _, nm := range f.Names {
			if k == i {
				return info.ObjectOf(nm)
			}
			k++
		}
	}
	return nil
}
