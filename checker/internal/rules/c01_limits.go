package rules

import (
	"fmt"
	"math"
	"sort"

	"verif/checker/internal/report"
	"verif/checker/internal/shape"
	"verif/checker/internal/sym"
)

// Limit-point agreement. Two formulas that are equal as rational functions can still differ in
// IEEE arithmetic where a denominator is zero: 100 - 100/(1 + RS) is 100 when RS is infinite (no
// losses in the window), 100*RS/(1 + RS) is Inf/Inf = NaN. After the computed term was proved
// equal to the documented one, both TREES (as written in the code and in the documentation, not
// their normal forms) are evaluated in float64 at points where one denominator atom is zero and
// all other atoms have generic positive values. Where the documented formula has a value (finite
// or infinite) the computed one must have the same; where the documented formula is itself
// undefined (NaN) nothing is required (the statement's exemption).

func limitAtoms(e sym.Expr, into map[string]bool) {
	switch x := e.(type) {
	case sym.Var:
		into[x.Name] = true
	case sym.Bin:
		limitAtoms(x.L, into)
		limitAtoms(x.R, into)
	case sym.Neg:
		limitAtoms(x.X, into)
	case sym.Call:
		switch x.Fn {
		case "max", "min", "abs", "sqrt", "pow", "trunc":
			for _, a := range x.Args {
				limitAtoms(a, into)
			}
		default:
			into[sym.CanonString(x)] = true
		}
	case sym.Ite:
		limitAtoms(x.Cond, into)
		limitAtoms(x.A, into)
		limitAtoms(x.B, into)
	case sym.Cmp:
		limitAtoms(x.L, into)
		limitAtoms(x.R, into)
	case sym.Logic:
		for _, a := range x.Args {
			limitAtoms(a, into)
		}
	}
}

func denominatorAtoms(e sym.Expr, into map[string]bool) {
	switch x := e.(type) {
	case sym.Bin:
		if x.Op == "/" {
			limitAtoms(x.R, into)
		}
		denominatorAtoms(x.L, into)
		denominatorAtoms(x.R, into)
	case sym.Neg:
		denominatorAtoms(x.X, into)
	case sym.Call:
		switch x.Fn {
		case "max", "min", "abs", "sqrt", "pow", "trunc":
			for _, a := range x.Args {
				denominatorAtoms(a, into)
			}
		}
	case sym.Ite:
		denominatorAtoms(x.A, into)
		denominatorAtoms(x.B, into)
	}
}

func evalFloat(e sym.Expr, env map[string]float64) (float64, bool) {
	switch x := e.(type) {
	case sym.Num:
		f, _ := x.V.Float64()
		return f, true
	case sym.Var:
		v, ok := env[x.Name]
		return v, ok
	case sym.Neg:
		v, ok := evalFloat(x.X, env)
		return -v, ok
	case sym.Bin:
		l, ok1 := evalFloat(x.L, env)
		r, ok2 := evalFloat(x.R, env)
		if !ok1 || !ok2 {
			return 0, false
		}
		switch x.Op {
		case "+":
			return l + r, true
		case "-":
			return l - r, true
		case "*":
			return l * r, true
		case "/":
			return l / r, true
		}
	case sym.Call:
		var as []float64
		switch x.Fn {
		case "max", "min", "abs", "sqrt", "pow", "trunc":
			for _, a := range x.Args {
				v, ok := evalFloat(a, env)
				if !ok {
					return 0, false
				}
				as = append(as, v)
			}
		default:
			v, ok := env[sym.CanonString(x)]
			return v, ok
		}
		switch {
		case x.Fn == "max" && len(as) >= 1:
			m := as[0]
			for _, v := range as[1:] {
				m = math.Max(m, v)
			}
			return m, true
		case x.Fn == "min" && len(as) >= 1:
			m := as[0]
			for _, v := range as[1:] {
				m = math.Min(m, v)
			}
			return m, true
		case x.Fn == "abs" && len(as) == 1:
			return math.Abs(as[0]), true
		case x.Fn == "sqrt" && len(as) == 1:
			return math.Sqrt(as[0]), true
		case x.Fn == "pow" && len(as) == 2:
			return math.Pow(as[0], as[1]), true
		case x.Fn == "trunc" && len(as) == 1:
			return math.Trunc(as[0]), true
		}
	case sym.Ite:
		cv, ok := evalFloatCond(x.Cond, env)
		if !ok {
			return 0, false
		}
		if cv {
			return evalFloat(x.A, env)
		}
		return evalFloat(x.B, env)
	}
	return 0, false
}

func evalFloatCond(e sym.Expr, env map[string]float64) (bool, bool) {
	switch x := e.(type) {
	case sym.Cmp:
		l, ok1 := evalFloat(x.L, env)
		r, ok2 := evalFloat(x.R, env)
		if !ok1 || !ok2 {
			return false, false
		}
		switch x.Op {
		case "<":
			return l < r, true
		case "<=":
			return l <= r, true
		case ">":
			return l > r, true
		case ">=":
			return l >= r, true
		case "==":
			return l == r, true
		case "!=":
			return l != r, true
		}
	case sym.Logic:
		switch x.Op {
		case "!":
			v, ok := evalFloatCond(x.Args[0], env)
			return !v, ok
		case "&&", "||":
			res := x.Op == "&&"
			for _, a := range x.Args {
				v, ok := evalFloatCond(a, env)
				if !ok {
					return false, false
				}
				if x.Op == "&&" {
					res = res && v
				} else {
					res = res || v
				}
			}
			return res, true
		}
	case sym.Var:
		if x.Name == "#true" {
			return true, true
		}
		if x.Name == "#false" {
			return false, true
		}
	}
	return false, false
}

// limitAgreement returns "" when got and want agree at every probed limit point; evaluated is the
// number of points at which both were evaluated.
func limitAgreement(got, want sym.Expr) (why string, evaluated int) {
	atoms, dens := map[string]bool{}, map[string]bool{}
	limitAtoms(got, atoms)
	limitAtoms(want, atoms)
	denominatorAtoms(got, dens)
	denominatorAtoms(want, dens)
	var names, ds []string
	for a := range atoms {
		names = append(names, a)
	}
	for d := range dens {
		ds = append(ds, d)
	}
	sort.Strings(names)
	sort.Strings(ds)
	if len(ds) > 12 {
		ds = ds[:12]
	}
	for _, zero := range ds {
		for _, z := range []float64{0, math.Copysign(0, -1)} {
			env := map[string]float64{}
			for i, a := range names {
				env[a] = 1.5 + 0.37*float64(i)
			}
			env[zero] = z
			w, okW := evalFloat(want, env)
			g, okG := evalFloat(got, env)
			if !okW || !okG {
				continue
			}
			evaluated++
			if math.IsNaN(w) {
				continue // the documented formula is undefined here
			}
			same := g == w || (math.Abs(g-w) <= 1e-9*math.Max(1, math.Abs(w)))
			if !same {
				return fmt.Sprintf("with %s = %v (all other quantities positive) the documented formula evaluates to %v, the computed expression to %v", short(zero, 80), z, w, g), evaluated
			}
		}
	}
	return "", evaluated
}

// rangeLimits (C15): a bound proved over the reals does not cover a NaN that appears where a
// denominator vanishes; for the indicators with a range claim the computed expression must
// have the documented formula's value at the probed limit points (see limitAgreement).
func (c *Ctx) rangeLimits() {
	run := c.Run
	claimed := map[string]bool{}
	for _, rc := range RangeClaims {
		claimed[rc.Type] = true
	}
	specs := map[string]formulaSpec{}
	for _, s := range FormulaSpecs {
		specs[s.Type] = s
	}
	n := 0
	for _, fi := range IndicatorComputes(c.P) {
		rs := c.Results(fi, Opts{Mode: shape.ModeContracts})
		if len(rs) == 0 || rs[0].Recv == nil {
			continue
		}
		r := rs[0]
		tn := r.Recv.TypeName()
		sp, has := specs[tn]
		if !has || !claimed[tn] {
			continue
		}
		outs := retStreams(r)
		if len(outs) != len(sp.Outs) {
			continue
		}
		var streams []string
		for _, ps := range r.ParamStreams {
			streams = append(streams, ps.Param)
		}
		env := &specEnv{r: r, params: specParams(fi, streams)}
		tm := shape.NewTerms(c.P, r)
		for i, o := range outs {
			want, err := env.parse(env.expand(sp.Outs[i], sp.Let))
			if err != nil {
				continue
			}
			got := tm.Of(o)
			if !sym.Equal(got, want) {
				got, want = anonymise(got), anonymise(want)
				if !sym.Equal(got, want) {
					continue // a different formula: C01's subject
				}
			}
			why, pts := limitAgreement(got, want)
			n += pts
			run.Oblige(why == "")
			if why != "" {
				site := fmt.Sprintf("%s/out%d", r.RootName, i)
				run.Violate(report.Finding{Rule: "range/limit", Site: site, Detail: short(why, 140), Pos: c.P.Pos(fi.Decl.Pos()),
					Message: "the bound is proved over the reals, but where a denominator vanishes the computed expression leaves the documented formula: " + why + " (a NaN is in no range)"})
			}
		}
	}
	run.Count("range_limit_points", n)
	run.Floor("range_limit_points", 10)
}
