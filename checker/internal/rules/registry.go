package rules

type Check struct {
	Fn      func(c *Ctx)
	NeedSSA bool
}

var Checks = map[string]Check{
	"C01": {Fn: CheckC01},
	"C02": {Fn: CheckC02},
	"C03": {Fn: CheckC03},
	"C04": {Fn: CheckC04},
	"C05": {Fn: CheckC05},
	"C06": {Fn: CheckC06},
	"C07": {Fn: CheckC07},
	"C08": {Fn: CheckC08},
	"C09": {Fn: CheckC09},
	"C10": {Fn: CheckC10},
	"C11": {Fn: CheckC11},
	"C12": {Fn: CheckC12},
	"C13": {Fn: CheckC13},
	"C14": {Fn: CheckC14},
	"C15": {Fn: CheckC15},
	"C16": {Fn: CheckC16},
	"C17": {Fn: CheckC17},
	"C18": {Fn: CheckC18},
	"C19": {Fn: CheckC19},
}
