package rules

type Check struct {
	Fn      func(c *Ctx)
	NeedSSA bool
}

var Checks = map[string]Check{
	"C01": {Fn: CheckC01},
	"C02": {Fn: CheckC02},
	"C03": {Fn: CheckC03},
	"C04": {Fn: CheckC04},
	"C05": {Fn: CheckC05},
	"C14": {Fn: CheckC14},
	"C16": {Fn: CheckC16},
}
