package rules

type Check struct {
	Fn      func(c *Ctx)
	NeedSSA bool
}

var Checks = map[string]Check{
	"C02": {Fn: CheckC02},
	"C16": {Fn: CheckC16},
}
