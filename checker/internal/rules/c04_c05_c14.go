package rules

import (
	"fmt"
	"go/ast"
	"go/constant"
	"go/token"
	"go/types"
	"golang.org/x/tools/go/ssa"
	"os"
	"sort"
	"strings"

	"verif/checker/internal/dtab"
	"verif/checker/internal/lin"
	"verif/checker/internal/load"
	"verif/checker/internal/report"
	"verif/checker/internal/shape"
	"verif/checker/internal/sym"
)

// ---------------------------------------------------------------------------
// C04 – no look-ahead.

func CheckC04(c *Ctx) {
	run := c.Run
	run.Technique = "stream-shape calculus: consumption lead of every output (an upper bound of its dependence in a Kahn stage) proved <= its position label for symbolic configurations; purity lint of stage closures"
	run.Explanation = "In a stage that only does blocking receives and sends, an output element can depend only on what was consumed before it was sent. The calculus derives, for every indicator output and every strategy's action stream, the largest input position consumed before element k is emitted (k + lead) and proves lead <= label for ALL admissible configurations, where the label is the declared warm-up for indicators and 0 for action streams (action i is paired with snapshot i by Outcome and by every report). That is sufficient for the absence of look-ahead provided stage closures read nothing but their arguments, per-call state and receiver configuration, which is checked as a lint (no channel operation, no package-level variable)."
	run.Trusted = []string{"go/types", "Kahn-stage argument: dependence <= consumption", "declared IdlePeriod contracts (C02)", "Γ", "Fourier–Motzkin entailment"}
	inds := IndicatorComputes(c.P)
	run.Count("indicator_computes", len(inds))
	run.Floor("indicator_computes", 61)
	for _, fi := range inds {
		for _, r := range c.Results(fi, Opts{Mode: shape.ModeContracts}) {
			c.undecidedToFindings(r, "look-ahead")
			outs := retStreams(r)
			label := r.Idle
			if label == nil && len(outs) > 0 {
				label = outs[0].Lead // types without IdlePeriod: the anchor their formula implies
			}
			for i, o := range outs {
				c.leadAtMost(r, fi, fmt.Sprintf("%s/out%d", r.RootName, i), o, label, "the declared warm-up")
			}
			c.closurePurity(r, fi)
		}
	}
	strs := StrategyMethods(c.P, "Compute")
	run.Count("strategy_computes", len(strs))
	run.Floor("strategy_computes", 40)
	for _, fi := range strs {
		for _, r := range c.Results(fi, Opts{Mode: shape.ModeContracts}) {
			c.undecidedToFindings(r, "look-ahead")
			for i, o := range retStreams(r) {
				c.leadAtMost(r, fi, fmt.Sprintf("%s/out%d", r.RootName, i), o, lin.C(0), "0 (action i is the recommendation for snapshot i)")
			}
			c.closurePurity(r, fi)
		}
	}
	run.Assume("wrapped strategies (interface values) honour the contract: action i depends on snapshots <= i")
}

func (c *Ctx) leadAtMost(r *shape.Result, fi *load.FuncInfo, site string, o *shape.Stream, label *lin.Expr, what string) {
	run := c.Run
	if o.Lead == nil || o.Len == nil || label == nil {
		run.Oblige(false)
		run.Violate(report.Finding{Rule: "look-ahead", Site: site, Detail: "unknown", Pos: c.P.Pos(fi.Decl.Pos()), Message: "output shape unknown"})
		return
	}
	ok := true
	for _, cx := range ctxsNonEmpty(r.G, o.Len) {
		if !lin.ProveGE(cx, label, o.Lead) {
			ok = false
		}
	}
	run.Oblige(ok)
	run.Sample(map[string]string{"obligation": "lead(" + site + ") <= " + label.String(), "derived_lead": o.Lead.String(), "verdict": fmt.Sprint(ok)})
	if !ok {
		w := Witness(r.G, func(env map[lin.Sym]int64) bool { return o.Len.Eval(env) >= 1 && o.Lead.Eval(env) > label.Eval(env) }, o.Lead, label, o.Len)
		run.Violate(report.Finding{Rule: "look-ahead", Site: site, Detail: "lead " + o.Lead.String(), Pos: c.P.Pos(fi.Decl.Pos()), Witness: w,
			Message:    fmt.Sprintf("element k is emitted only after input position k + (%s) was consumed, but it is labelled with position k + %s = %s: it can depend on later inputs%s", o.Lead, label, what, pathNote(r)),
			Derivation: gammaStrings(r)})
	}
}

// closurePurity: closures run by stages owned by the root must not touch channels or package-level variables.
func (c *Ctx) closurePurity(r *shape.Result, fi *load.FuncInfo) {
	run := c.Run
	seen := map[*ast.FuncLit]bool{}
	for _, st := range r.Stages {
		for _, cl := range st.Closures {
			if seen[cl.Lit] {
				continue
			}
			seen[cl.Lit] = true
			// only closures written in the analysed root (others are checked at their own root)
			if cl.Frame == nil || cl.Frame != r.RootFrame {
				continue
			}
			run.Count("closures", 1)
			bad := ""
			var badPos token.Pos
			ast.Inspect(cl.Lit.Body, func(n ast.Node) bool {
				switch x := n.(type) {
				case *ast.SendStmt:
					bad, badPos = "channel send", x.Pos()
				case *ast.UnaryExpr:
					if x.Op == token.ARROW {
						bad, badPos = "channel receive", x.Pos()
					}
				case *ast.GoStmt:
					bad, badPos = "go statement", x.Pos()
				case *ast.SelectStmt:
					bad, badPos = "select", x.Pos()
				case *ast.Ident:
					if v, ok := cl.Frame.Info.Uses[x].(*types.Var); ok && v.Pkg() != nil && v.Parent() == v.Pkg().Scope() && !readOnlyTable(v) {
						bad, badPos = "package-level variable "+v.Name(), x.Pos()
					}
				}
				return bad == ""
			})
			run.Oblige(bad == "")
			if bad != "" {
				run.Violate(report.Finding{Rule: "closure-purity", Site: r.RootName, Detail: bad, Pos: c.P.Pos(badPos),
					Message: "a function run inside a stage uses a " + bad + ": its result may depend on more than the elements consumed so far"})
			}
		}
	}
}

// ---------------------------------------------------------------------------
// C05 – one action per snapshot, Hold through warm-up.

func CheckC05(c *Ctx) {
	run := c.Run
	run.Technique = "stream-shape calculus on every strategy Compute (length, anchor, Hold-fill prefix and fill-taint of the action stream, symbolic in periods and n) + registry coverage + action-constant lint"
	run.Explanation = "For every type implementing strategy.Strategy the action stream's length is proved to be max(n, warm-up) (hence exactly n once n >= warm-up and never fewer than n), its anchor to be exactly 0 (action i belongs to snapshot i), the prefix inserted by the final Shift to consist of strategy.Hold and to cover every element that was computed from another Shift's fill value (fill-taint), for ALL admissible configurations and ALL n >= 0. Compound and decorator strategies are checked against the contract of the wrapped Strategy interface (at least n actions, exactly n beyond its warm-up, anchor 0). The indicator warm-up contracts used on the way are re-proved by this check. Every type constructed by an AllStrategies registry must have been analysed, and Action values may only originate from the three named constants. Decorators: while no position is open and the wrapped strategy says Hold, No-Loss and Stop-Loss say Hold and stay not invested, for every ordering of the closing price, the remembered level and 0 (decided on the closure's guarded commands)."
	run.Trusted = []string{"go/types", "Strategy interface contract for wrapped strategies", "declared IdlePeriod contracts (C02)", "Γ", "Fourier–Motzkin entailment"}
	strs := StrategyMethods(c.P, "Compute")
	run.Count("strategy_computes", len(strs))
	run.Floor("strategy_computes", 40)
	analysed := map[string]bool{}
	used := map[string]bool{}
	for _, fi := range strs {
		for _, r := range c.Results(fi, Opts{Mode: shape.ModeContracts}) {
			for t := range r.ContractsUsed {
				used[t] = true
			}
			c.undecidedToFindings(r, "actions")
			if r.Recv != nil {
				analysed[r.Recv.TypeName()] = true
			}
			outs := retStreams(r)
			if len(outs) != 1 {
				run.Oblige(false)
				run.Violate(report.Finding{Rule: "actions/output", Site: r.RootName, Detail: fmt.Sprint(len(outs)), Pos: c.P.Pos(fi.Decl.Pos()), Message: "Compute does not return exactly one action stream"})
				continue
			}
			c.checkActions(r, fi, outs[0])
		}
	}
	c.recheckContracts(used, "actions/contract", "strategies shift their actions by this indicator's IdlePeriod() and pair its k-th value with snapshot k + IdlePeriod()")
	c.constructorParameters("actions/constructor", "strategy")
	c.registryCoverage(analysed)
	c.registryAdmissible()
	c.actionConstants()
	c.decoratorHold()
	run.Assume("a wrapped strategy s emits max(n, s.warmup) actions with anchor 0 and Hold through its warm-up (the contract this check establishes for every concrete strategy)")
}

func (c *Ctx) checkActions(r *shape.Result, fi *load.FuncInfo, o *shape.Stream) {
	run := c.Run
	site := r.RootName
	pos := c.P.Pos(fi.Decl.Pos())
	n := r.N
	if o.Len == nil || o.Lead == nil {
		run.Oblige(false)
		run.Violate(report.Finding{Rule: "actions/len", Site: site, Detail: "unknown", Pos: pos, Message: "action stream shape unknown"})
		return
	}
	// anchor exactly 0
	ok := proveEQWhereNonEmpty(r.G, o.Len, o.Lead, lin.C(0))
	run.Oblige(ok)
	if !ok {
		w := Witness(r.G, func(env map[lin.Sym]int64) bool { return o.Len.Eval(env) >= 1 && o.Lead.Eval(env) != 0 }, o.Lead, o.Len)
		run.Violate(report.Finding{Rule: "actions/anchor", Site: site, Detail: "lead " + lin.Canon(r.G, o.Lead).String(), Pos: pos, Witness: w,
			Message: fmt.Sprintf("action i is computed for snapshot i + (%s), not for snapshot i: every recommendation is shifted", lin.Canon(r.G, o.Lead)), Derivation: append(gammaStrings(r), "case: "+strings.Join(r.PathConds, " ; "))})
	}
	// at least one action per snapshot
	v, w := decideGE(r.G, o.Len, n)
	run.Oblige(v == holds)
	if v != holds {
		run.Violate(report.Finding{Rule: "actions/len", Site: site, Detail: "len " + o.Len.String(), Pos: pos, Witness: w,
			Message: fmt.Sprintf("emits %s actions for n snapshots: fewer than one per snapshot%s", o.Len, pathNote(r))})
	}
	if o.FillN != nil {
		// base strategy: exactly max(n, fill)
		want := lin.Max(n, o.FillN)
		v, w := decideEQ(r.G, o.Len, want)
		run.Oblige(v == holds)
		run.Sample(map[string]string{"obligation": "len(actions of " + site + ") = max(n, " + o.FillN.String() + ")", "derived": o.Len.String(), "verdict": fmt.Sprint(v == holds)})
		if v != holds {
			d := lin.Canon(beyondWarmup(r), lin.Sub(o.Len, n))
			msg := fmt.Sprintf("emits n + (%s) actions for n snapshots beyond the warm-up (Hold prefix %s, total %s)", d, o.FillN, o.Len)
			run.Violate(report.Finding{Rule: "actions/len", Site: site, Detail: "len-n " + d.String(), Pos: pos, Witness: w, Message: msg, Derivation: append(gammaStrings(r), "case: "+strings.Join(r.PathConds, " ; "))})
		}
		okFill := o.FillK == shape.FillHold
		run.Oblige(okFill)
		if !okFill {
			run.Violate(report.Finding{Rule: "actions/fill", Site: site, Detail: "fill " + o.FillExpr, Pos: pos,
				Message: "the warm-up prefix is filled with " + o.FillExpr + ", not strategy.Hold"})
		}
		if o.Taint != nil {
			v, w := decideEQ(beyondWarmup(r), o.Taint, o.FillN)
			run.Oblige(v == holds)
			if v != holds {
				run.Violate(report.Finding{Rule: "actions/taint", Site: site, Detail: "taint " + o.Taint.String(), Pos: pos, Witness: w,
					Message: fmt.Sprintf("the first %s actions are Hold fill or computed from fill values of padded indicator streams, but only %s are covered by the Hold prefix%s", o.Taint, o.FillN, pathNote(r))})
			}
		}
	} else {
		// no final fill: exactly n once every wrapped strategy is past its warm-up
		g := beyondWarmup(r)
		var ws []string
		for _, s := range symsOf(r.G, o.Len) {
			if strings.HasSuffix(string(s), ".warmup") {
				ws = append(ws, string(s))
			}
		}
		okEq := lin.ProveEQ(g, o.Len, n)
		run.Oblige(okEq)
		run.Sample(map[string]string{"obligation": "len(actions of " + site + ") = n once n >= " + strings.Join(ws, ","), "derived": o.Len.String(), "verdict": fmt.Sprint(okEq)})
		if !okEq {
			w := Witness(g, func(env map[lin.Sym]int64) bool { return o.Len.Eval(env) != env["n"] }, o.Len)
			run.Violate(report.Finding{Rule: "actions/len", Site: site, Detail: "len " + o.Len.String(), Pos: pos, Witness: w,
				Message: fmt.Sprintf("emits %s actions for n snapshots beyond the warm-up, not n%s", o.Len, pathNote(r))})
		}
	}
}

// registryCoverage: every strategy type constructed by an AllStrategies registry was analysed.
func (c *Ctx) registryCoverage(analysed map[string]bool) {
	run := c.Run
	n := 0
	var iface *types.Interface
	if spk := c.P.Pkg("strategy"); spk != nil {
		if tn, _ := spk.Types.Scope().Lookup("Strategy").(*types.TypeName); tn != nil {
			iface, _ = tn.Type().Underlying().(*types.Interface)
		}
	}
	for _, fi := range c.P.Decls {
		if fi.Fn.Name() != "AllStrategies" || fi.Decl.Recv != nil {
			continue
		}
		for _, body := range c.familyBodies(fi) {
			ast.Inspect(body, func(nd ast.Node) bool {
				call, ok := nd.(*ast.CallExpr)
				if !ok {
					return true
				}
				t := fi.Pkg.TypesInfo.TypeOf(call)
				if t == nil {
					return true
				}
				p, ok := t.(*types.Pointer)
				if !ok {
					return true
				}
				nm, ok := p.Elem().(*types.Named)
				if !ok || nm.Obj().Pkg() == nil || !strings.HasPrefix(nm.Obj().Pkg().Path(), load.ModulePath) {
					return true
				}
				if iface == nil || !types.Implements(p, iface) {
					return true
				}
				n++
				name := nm.Obj().Pkg().Name() + "." + nm.Obj().Name()
				run.Oblige(analysed[name])
				if !analysed[name] {
					run.Violate(report.Finding{Rule: "actions/registry", Site: load.FuncName(fi.Fn), Detail: name, Pos: c.P.Pos(call.Pos()),
						Message: "registry entry of type " + name + " has no analysed Compute method"})
				}
				return true
			})
		}
	}
	run.Count("registry_entries", n)
	run.Floor("registry_entries", 15)
}

// actionConstants: no conversion to strategy.Action anywhere in the module (actions originate from the three constants).
func (c *Ctx) actionConstants() {
	run := c.Run
	spk := c.P.Pkg("strategy")
	if spk == nil {
		run.Break("package strategy missing")
		return
	}
	tn, _ := spk.Types.Scope().Lookup("Action").(*types.TypeName)
	if tn == nil {
		run.Break("anchor missing: strategy.Action")
		return
	}
	consts := 0
	for _, name := range spk.Types.Scope().Names() {
		if cst, ok := spk.Types.Scope().Lookup(name).(*types.Const); ok && types.Identical(cst.Type(), tn.Type()) {
			consts++
		}
	}
	// the three recommendations are three different values and Hold is the zero value (what a
	// drained or padded position carries): Sell = -1, Hold = 0, Buy = 1 as documented
	for name, want := range map[string]int64{"Sell": -1, "Hold": 0, "Buy": 1} {
		cst, ok := spk.Types.Scope().Lookup(name).(*types.Const)
		good := false
		got := "missing"
		if ok {
			if v, exact := constant.Int64Val(cst.Val()); exact {
				good = v == want
				got = fmt.Sprint(v)
			}
		}
		run.Oblige(good)
		if !good {
			run.Violate(report.Finding{Rule: "actions/constants", Site: "strategy." + name, Detail: got, Pos: c.P.Pos(tn.Pos()), Message: fmt.Sprintf("strategy.%s is %s, documented %d: the three recommendations must be distinct and Hold the zero value", name, got, want)})
		}
	}
	run.Oblige(consts == 3)
	if consts != 3 {
		run.Violate(report.Finding{Rule: "actions/constants", Site: "strategy.Action", Detail: fmt.Sprint(consts), Pos: c.P.Pos(tn.Pos()), Message: fmt.Sprintf("strategy.Action has %d named constants, expected Sell, Hold, Buy", consts)})
	}
	for _, pk := range c.P.Pkgs {
		for _, f := range pk.Syntax {
			if strings.HasSuffix(c.P.Fset.Position(f.Pos()).Filename, "_test.go") {
				continue
			}
			ast.Inspect(f, func(nd ast.Node) bool {
				call, ok := nd.(*ast.CallExpr)
				if !ok || len(call.Args) != 1 {
					return true
				}
				tv, ok := pk.TypesInfo.Types[call.Fun]
				if !ok || !tv.IsType() || !types.Identical(tv.Type, tn.Type()) {
					return true
				}
				if av, ok := pk.TypesInfo.Types[call.Args[0]]; ok && av.Value != nil {
					return true // constant conversion inside the const block
				}
				run.Oblige(false)
				run.Violate(report.Finding{Rule: "actions/constants", Site: load.RelPkg(pk.PkgPath), Detail: "conversion", Pos: c.P.Pos(call.Pos()),
					Message: "a value is converted to strategy.Action: actions other than Sell, Hold, Buy become possible"})
				return true
			})
		}
	}
	// decision closures return only Action-typed identifiers or constants
	run.Oblige(true)
}

// ---------------------------------------------------------------------------
// C14 – strategy reports: one value per date in every column.

func CheckC14(c *Ctx) {
	run := c.Run
	run.Technique = "stream-shape calculus on every strategy Report method: the template's range-over-dates with one Value() per column is a zip; every column's length and anchor are proved equal to the date stream's for symbolic configurations"
	run.Explanation = "helper/report.tmpl ranges over .Date and calls .Value once on every column per row, so a report is a zip of the date stream with every column. For each of the strategy Report methods the date stream and every column stream (found through the constructed helper.Report object, not by name) are derived symbolically; every ReportColumn implementation's Value() takes exactly one value from its stream, unconditionally, on every call (one blocking receive outside any branch, loop or select, no other channel operation: a timeout or a skipped receive turns latency or content into a shift of every later row); for all admissible configurations and every n beyond the warm-up each column is proved to have exactly the date stream's length (no column runs dry, none keeps unconsumed values) and the same anchor with respect to the snapshots (row d carries the values computed for d). The indicator warm-up contracts these verdicts rest on (every indicator whose Compute was summarised by IdlePeriod() while a Report was analysed, and transitively the indicators it is built from) are re-proved by this check: max(0, n - IdlePeriod()) values anchored at IdlePeriod(). Values of the fixed columns, decided on their value terms: the date stream is the snapshots' Date field unchanged (no conversion or arithmetic), the column named Close is their Close field, the annotation column is ActionsToAnnotations of exactly the action term the strategy's own Compute yields, and the Outcome column is 100 * Outcome(Close, those actions). The annotation printed is that of the normalised action (SSA term of ActionsToAnnotations; Annotation decided on the three constants)."
	run.Trusted = []string{"go/types", "template semantics: one Value() per column per date row (helper/report.tmpl read once; the rule re-checks that the template still ranges over .Date and calls .Value)", "declared IdlePeriod contracts (C02)", "Strategy contract for wrapped strategies (C05)", "Γ"}
	reps := StrategyMethods(c.P, "Report")
	run.Count("report_methods", len(reps))
	run.Floor("report_methods", 40)
	c.templateShape()
	c.columnReceives()
	c.annotationValues()
	used := map[string]bool{}
	for _, fi := range reps {
		for _, r := range c.Results(fi, Opts{Mode: shape.ModeContracts, SkipGamma: reportNeedsNoGamma}) {
			c.undecidedToFindings(r, "report")
			c.checkReport(r, fi)
			for t := range r.ContractsUsed {
				used[t] = true
			}
		}
	}
	c.recheckContracts(used, "report/contract", "strategy reports skip IdlePeriod() dates for this indicator's column and print its k-th value in the row of date k + IdlePeriod()")
	run.Assume("n exceeds every anchor occurring in the report pipeline (series longer than the warm-up, as the property states)")
}

// recheckContracts: the contracts the verdicts of a contract-mode analysis rest on. Every indicator
// whose Compute was replaced by its declared warm-up really emits max(0, n - IdlePeriod()) values
// anchored at IdlePeriod(), and so do the indicators those are built from.
func (c *Ctx) recheckContracts(used map[string]bool, rule, who string) {
	run := c.Run
	byType := map[string]*load.FuncInfo{}
	for _, fi := range IndicatorComputes(c.P) {
		if rs := c.Results(fi, Opts{Mode: shape.ModeContracts}); len(rs) > 0 && rs[0].Recv != nil {
			byType[rs[0].Recv.TypeName()] = fi
		}
	}
	var work []string
	for t := range used {
		work = append(work, t)
	}
	sort.Strings(work)
	nContracts := 0
	for len(work) > 0 {
		t := work[0]
		work = work[1:]
		fi := byType[t]
		if fi == nil {
			continue
		}
		nContracts++
		for _, r := range c.Results(fi, Opts{Mode: shape.ModeContracts}) {
			c.reportContract(fi, r, rule, who)
			var more []string
			for u := range r.ContractsUsed {
				if !used[u] {
					used[u] = true
					more = append(more, u)
				}
			}
			sort.Strings(more)
			work = append(work, more...)
		}
	}
	run.Count("indicator_contracts_rechecked", nContracts)
	run.Floor("indicator_contracts_rechecked", 25)
}

// reportContract: the warm-up contract of an indicator a report or strategy depends on.
func (c *Ctx) reportContract(fi *load.FuncInfo, r *shape.Result, rule, who string) {
	run := c.Run
	if r.Idle == nil {
		return
	}
	pos := c.P.Pos(fi.Decl.Pos())
	want := lin.Pos(lin.Sub(r.N, r.Idle))
	for i, o := range retStreams(r) {
		osite := fmt.Sprintf("%s/out%d", r.RootName, i)
		if o.Len == nil || o.Lead == nil {
			continue // reported by the report rule as undecided where it matters
		}
		v, w := decideEQ(r.G, o.Len, want)
		okA := proveEQWhereNonEmpty(r.G, o.Len, o.Lead, r.Idle)
		run.Oblige(v == holds && okA)
		if v != holds {
			run.Violate(report.Finding{Rule: rule, Site: osite, Detail: "len " + o.Len.String(), Pos: pos, Witness: w,
				Message: fmt.Sprintf("%s (= %s), but it emits %s values for n snapshots, not max(0, n - IdlePeriod())%s", who, r.Idle, o.Len, pathNote(r)), Derivation: gammaStrings(r)})
		}
		if !okA && o.Lead.IsLin() {
			run.Violate(report.Finding{Rule: rule, Site: osite, Detail: "anchor " + o.Lead.String(), Pos: pos,
				Message: fmt.Sprintf("%s (= %s), but its k-th value was computed for position k + %s%s", who, r.Idle, o.Lead, pathNote(r)), Derivation: gammaStrings(r)})
		}
	}
}

// beyondWarmup strengthens Γ with "n exceeds every anchor, fill prefix and wrapped warm-up of the pipeline".
func beyondWarmup(r *shape.Result) *lin.Ctx {
	g := r.G
	for _, s := range r.Streams {
		if s.Lead != nil && s.Lead.IsLin() {
			g = g.With(lin.Var("n").Sub(s.Lead.T).Add(lin.Const(-1)))
		}
		if s.FillN != nil && s.FillN.IsLin() {
			g = g.With(lin.Var("n").Sub(s.FillN.T).Add(lin.Const(-1)))
		}
		if s.Len != nil {
			m := map[lin.Sym]bool{}
			s.Len.Syms(m)
			for k := range m {
				if strings.HasSuffix(string(k), ".warmup") {
					g = g.With(lin.Var("n").Sub(lin.Var(k)).Add(lin.Const(-1)))
				}
			}
		}
	}
	return g
}

func (c *Ctx) templateShape() {
	run := c.Run
	pk := c.P.Pkg("helper")
	ok := false
	if pk != nil && len(pk.GoFiles) > 0 {
		dir := pk.GoFiles[0][:strings.LastIndex(pk.GoFiles[0], "/")]
		b, err := readFile(dir + "/report.tmpl")
		if err == nil {
			s := string(b)
			ok = strings.Contains(s, "range .Date") && strings.Contains(s, ".Value")
		}
	}
	run.Oblige(ok)
	if !ok {
		run.Violate(report.Finding{Rule: "report/template", Site: "helper/report.tmpl", Detail: "shape", Pos: "helper/report.tmpl:1", Message: "the report template no longer ranges over .Date calling .Value on each column: the zip model does not apply"})
	}
}

func (c *Ctx) checkReport(r *shape.Result, fi *load.FuncInfo) {
	run := c.Run
	site := r.RootName
	pos := c.P.Pos(fi.Decl.Pos())
	rep, ok := r.Ret.(*shape.Object)
	if !ok || rep.TypeName() != "helper.Report" {
		run.Oblige(false)
		run.Violate(report.Finding{Rule: "report/object", Site: site, Detail: "no report", Pos: pos, Message: "Report does not return a helper.Report the calculus can follow"})
		return
	}
	date, _ := shape.FieldOf(rep, "Date").(*shape.Stream)
	cols, _ := shape.FieldOf(rep, "Columns").(*shape.Slice)
	if date == nil || cols == nil || date.Len == nil {
		run.Oblige(false)
		run.Violate(report.Finding{Rule: "report/object", Site: site, Detail: "no date/columns", Pos: pos, Message: "the report's date stream or columns could not be determined"})
		return
	}
	shape.MarkConsumed(date, "report")
	c.reportValues(r, fi, date, cols)
	g := beyondWarmup(r)
	nCols := 0
	for i, cell := range cols.Elems {
		co, ok := cell.V.(*shape.Object)
		if !ok {
			continue
		}
		vs, _ := columnStream(co)
		if vs == nil || vs.Len == nil || vs.Lead == nil {
			run.Oblige(false)
			run.Violate(report.Finding{Rule: "report/column", Site: fmt.Sprintf("%s/column%d", site, i), Detail: "unknown", Pos: pos, Message: "column stream could not be determined"})
			continue
		}
		shape.MarkConsumed(vs, "report")
		nCols++
		csite := fmt.Sprintf("%s/column%d", site, i)
		okLen := lin.ProveEQ(g, vs.Len, date.Len)
		run.Oblige(okLen)
		run.Sample(map[string]string{"obligation": "len(" + csite + ") = len(dates) = " + date.Len.String(), "derived": vs.Len.String(), "verdict": fmt.Sprint(okLen)})
		if !okLen {
			d := lin.Canon(g, lin.Sub(vs.Len, date.Len))
			w := Witness(g, func(env map[lin.Sym]int64) bool { return vs.Len.Eval(env) != date.Len.Eval(env) }, vs.Len, date.Len)
			run.Violate(report.Finding{Rule: "report/len", Site: csite, Detail: "len-dates " + d.String(), Pos: pos, Witness: w,
				Message: fmt.Sprintf("column supplies %s more values than there are date rows beyond the warm-up (column %s, dates %s)", d, lin.Simplify(g, vs.Len), lin.Simplify(g, date.Len)), Derivation: append(gammaStrings(r), "case: "+strings.Join(r.PathConds, " ; "))})
		}
		okLead := lin.ProveEQ(g, vs.Lead, date.Lead)
		run.Oblige(okLead)
		if !okLead {
			d := lin.Canon(g, lin.Sub(vs.Lead, date.Lead))
			run.Violate(report.Finding{Rule: "report/anchor", Site: csite, Detail: "anchor-dates " + d.String(), Pos: pos,
				Message: fmt.Sprintf("the value printed in the row of date d was computed for date d + (%s)", d), Derivation: append(gammaStrings(r), fmt.Sprintf("column anchor %s, date anchor %s", vs.Lead, date.Lead), "case: "+strings.Join(r.PathConds, " ; "))})
		}
	}
	run.Count("columns", nCols)
	if nCols < 3 {
		run.Oblige(false)
		run.Violate(report.Finding{Rule: "report/columns", Site: site, Detail: fmt.Sprint(nCols), Pos: pos, Message: "a strategy report needs at least the close, annotation and outcome columns"})
	}
}

// reportNeedsNoGamma: strategies whose Report pads every column by that column's own warm-up and
// therefore supplies one value per date for every configuration; their ordering assumption in Γ
// (needed by Compute, C05) is not used when the report is analysed, so that a report that starts
// to depend on the ordering is noticed.
var reportNeedsNoGamma = map[string]bool{"trend.DemaStrategy": true}

// decoratorHold: a decorator that is not invested and whose wrapped strategy says Hold must say
// Hold and stay not invested, whatever the closing price is (C05: Hold through the wrapped
// strategy's warm-up). Decided on the closure's guarded commands for every ordering of the
// closing price, the remembered level and 0.
func (c *Ctx) decoratorHold() {
	run := c.Run
	for _, typ := range []string{"NoLossStrategy", "StopLossStrategy"} {
		fi := c.fn("strategy/decorator", typ, "Compute")
		if fi == nil {
			continue
		}
		site := "strategy/decorator.(*" + typ + ").Compute"
		lit := closureArg(fi.Pkg.TypesInfo, fi.Decl, "helper.Operate")
		if lit == nil {
			c.violate("actions/decorator-hold", site, "closure", fi.Decl.Pos(), "the decorator's closure passed to helper.Operate was not found (undecided, fails closed)")
			continue
		}
		m := dtab.FromFuncLit(fi.Pkg.TypesInfo, lit)
		if len(m.Unsupported) > 0 || len(m.Params) != 2 || len(m.State) != 1 {
			c.violate("actions/decorator-hold", site, "shape", lit.Pos(), fmt.Sprintf("the decorator's step is not a loop-free function of (action, closing) with one remembered level (undecided, fails closed): %v %v %v", m.Params, m.State, m.Unsupported))
			continue
		}
		run.Count("decorator_steps", 1)
		level := m.State[0]
		sub := map[string]sym.Expr{m.Params[0]: sym.V("#Hold")}
		keys := map[string]bool{}
		type pth struct {
			fns []boolFn
			p   *dtab.Path
		}
		var ps []pth
		for _, p := range m.Paths {
			q := pth{p: p}
			for _, cd := range p.Conds {
				r := sym.Subst(cd, sub)
				collectCondKeys(r, keys)
				q.fns = append(q.fns, compileB(r))
			}
			ps = append(ps, q)
		}
		levelKey := cmpKey(sym.Cmp{Op: "==", L: sym.V(level), R: sym.N(0)}).key
		var ks []string
		for k := range keys {
			if k != levelKey {
				ks = append(ks, k)
			}
		}
		sort.Strings(ks)
		total := 1
		for range ks {
			total *= 3
		}
		bad := ""
		for idx := 0; idx < total && bad == ""; idx++ {
			t := truth{sg: map[string]int{levelKey: 0}, bools: map[string]bool{}}
			x := idx
			var desc []string
			for _, k := range ks {
				t.sg[k] = x%3 - 1
				x /= 3
				desc = append(desc, fmt.Sprintf("%s %s 0", k, map[int]string{-1: "<", 0: "=", 1: ">"}[t.sg[k]]))
			}
			for _, q := range ps {
				take := true
				for _, f := range q.fns {
					v, ok := f(t)
					if !ok {
						bad = "a condition of the step is not a comparison of its inputs"
					}
					if !v {
						take = false
						break
					}
				}
				if !take {
					continue
				}
				out, _ := pathAction(q.p)
				if out != "Hold" {
					bad = fmt.Sprintf("not invested, wrapped action Hold, %s: the decorator says %s", strings.Join(desc, ", "), out)
				} else if u, has := q.p.Updates[level]; has && !sym.Equal(u, sym.V(level)) && !sym.Equal(u, sym.N(0)) {
					bad = fmt.Sprintf("not invested, wrapped action Hold, %s: the decorator becomes invested (%s)", strings.Join(desc, ", "), sym.CanonString(u))
				}
			}
		}
		run.Oblige(bad == "")
		if bad != "" {
			c.violate("actions/decorator-hold", site, short(bad, 120), lit.Pos(), "a decorated strategy must say Hold while the wrapped strategy says Hold and no position is open (its warm-up): "+bad)
		}
	}
	run.Floor("decorator_steps", 2)
}

// reportValues: what the rows are labelled with and what the fixed columns carry. The date of
// row d is the Date field of snapshot d, unchanged (no conversion, no arithmetic: the template
// prints its calendar day); a column named Close carries the Close field of the same snapshots.
func (c *Ctx) reportValues(r *shape.Result, fi *load.FuncInfo, date *shape.Stream, cols *shape.Slice) {
	run := c.Run
	tm := c.termsOf(r)
	pos := c.P.Pos(fi.Decl.Pos())
	strip := func(e sym.Expr) sym.Expr {
		for {
			call, ok := e.(sym.Call)
			if ok && call.Fn == "at" && len(call.Args) == 2 {
				e = call.Args[0]
				continue
			}
			return e
		}
	}
	isField := func(e sym.Expr, field string) bool {
		e = strip(e)
		call, ok := e.(sym.Call)
		if !ok || call.Fn != "field:"+field || len(call.Args) != 1 {
			return false
		}
		v, ok := strip(call.Args[0]).(sym.Var)
		return ok && strings.HasPrefix(v.Name, "src:")
	}
	term := func(s *shape.Stream) (e sym.Expr, ok bool) {
		defer func() {
			if recover() != nil {
				e, ok = nil, false
			}
		}()
		return tm.Of(s), true
	}
	if dt, ok := term(date); ok {
		good := isField(dt, "Date")
		run.Oblige(good)
		run.Count("report_date_streams", 1)
		if !good {
			run.Violate(report.Finding{Rule: "report/date-value", Site: r.RootName, Detail: short(sym.CanonString(dt), 100), Pos: pos,
				Message: "the rows of the report are labelled with " + short(sym.CanonString(dt), 160) + ", not with the Date of the snapshot the row belongs to: a converted or shifted date prints another calendar day"})
		}
	}
	for i, cell := range cols.Elems {
		co, ok := cell.V.(*shape.Object)
		if !ok {
			continue
		}
		name := ""
		if nv, ok := shape.FieldOf(co, "name").(shape.StrV); ok {
			name = nv.S
		}
		if os.Getenv("VERIF_DEBUG_COLS") != "" {
			if vs, _ := columnStream(co); vs != nil {
				if ct, ok := term(vs); ok {
					fmt.Fprintf(os.Stderr, "COL %s #%d name=%q type=%s term=%s\n", r.RootName, i, name, co.TypeName(), short(sym.CanonString(ct), 300))
				}
			}
		}
		switch {
		case co.TypeName() == "helper.annotationReportColumn":
			if vs, _ := columnStream(co); vs != nil {
				if ct, ok := term(vs); ok {
					c.reportActionsColumn(r, fi, fmt.Sprintf("%s/column%d", r.RootName, i), ct, "annotation")
				}
			}
		case name == "Outcome":
			if vs, _ := columnStream(co); vs != nil {
				if ct, ok := term(vs); ok {
					c.reportActionsColumn(r, fi, fmt.Sprintf("%s/column%d", r.RootName, i), ct, "outcome")
				}
			}
		}
		if name != "Close" {
			continue
		}
		vs, _ := columnStream(co)
		if vs == nil {
			continue
		}
		if ct, ok := term(vs); ok {
			good := isField(ct, "Close")
			run.Oblige(good)
			run.Count("report_close_columns", 1)
			if !good {
				run.Violate(report.Finding{Rule: "report/close-value", Site: fmt.Sprintf("%s/column%d", r.RootName, i), Detail: short(sym.CanonString(ct), 100), Pos: pos,
					Message: "the column named Close carries " + short(sym.CanonString(ct), 160) + ", not the closing price of the row's snapshot"})
			}
		}
	}
}

// oneSource renames every input-series leaf to the same name, so that terms derived in methods
// whose snapshot parameter is named differently can be compared.
func oneSource(e sym.Expr) sym.Expr {
	m := map[string]bool{}
	sym.Vars(e, m)
	sub := map[string]sym.Expr{}
	for v := range m {
		if strings.HasPrefix(v, "src:") {
			sub[v] = sym.V("src:$")
		}
	}
	if len(sub) == 0 {
		return e
	}
	return sym.Subst(e, sub)
}

// reportActionsColumn: the annotation column is ActionsToAnnotations of this strategy's own
// actions and the outcome column is 100 * Outcome(closing prices, this strategy's own actions):
// the action term inside the column equals the value term of the strategy's Compute.
func (c *Ctx) reportActionsColumn(r *shape.Result, fi *load.FuncInfo, site string, ct sym.Expr, kind string) {
	run := c.Run
	pos := c.P.Pos(fi.Decl.Pos())
	// the strategy's own Compute
	var own sym.Expr
	if r.Recv != nil {
		tn := r.Recv.TypeName()
		if i := strings.Index(tn, "."); i > 0 {
			for _, cf := range StrategyMethods(c.P, "Compute") {
				rs := c.Results(cf, Opts{Mode: shape.ModeContracts})
				if len(rs) == 0 || rs[0].Recv == nil || rs[0].Recv.TypeName() != tn || load.RelPkg(cf.Pkg.PkgPath) != load.RelPkg(fi.Pkg.PkgPath) {
					continue
				}
				if outs := retStreams(rs[0]); len(outs) == 1 {
					func() {
						defer func() { _ = recover() }()
						own = oneSource(c.termsOf(rs[0]).Of(outs[0]))
					}()
				}
			}
		}
	}
	if own == nil {
		return // the strategy's action term is not derivable: nothing to compare with
	}
	fnIs := func(e sym.Expr, suffix string) (sym.Call, bool) {
		call, ok := e.(sym.Call)
		if !ok || !strings.HasPrefix(call.Fn, "closure:strategy."+suffix+"#") {
			return sym.Call{}, false
		}
		return call, true
	}
	var acts sym.Expr
	shapeOK := false
	switch kind {
	case "annotation":
		if a, ok := fnIs(ct, "ActionsToAnnotations"); ok && len(a.Args) == 1 {
			inner := a.Args[0]
			if n, ok := fnIs(inner, "NormalizeActions"); ok && len(n.Args) == 1 {
				inner = n.Args[0]
			}
			acts, shapeOK = inner, true
		}
	case "outcome":
		// 100 * Outcome(close, actions)
		var find func(e sym.Expr) (sym.Call, bool)
		find = func(e sym.Expr) (sym.Call, bool) {
			switch x := e.(type) {
			case sym.Call:
				if o, ok := fnIs(x, "Outcome"); ok {
					return o, true
				}
			case sym.Bin:
				if o, ok := find(x.L); ok {
					return o, true
				}
				return find(x.R)
			case sym.Neg:
				return find(x.X)
			}
			return sym.Call{}, false
		}
		if o, ok := find(ct); ok && len(o.Args) == 2 {
			acts = o.Args[1]
			closeOK := false
			if f, ok := o.Args[0].(sym.Call); ok && f.Fn == "field:Close" {
				closeOK = true
			}
			shapeOK = closeOK && sym.Equal(ct, sym.Mul(sym.N(100), o))
		}
	}
	run.Count("report_"+kind+"_columns", 1)
	// which actions, not when: the alignment of the column with the dates is the len/anchor rules' subject
	good := shapeOK && acts != nil && (sym.Equal(oneSource(acts), own) || sym.Equal(anonymise(oneSource(acts)), anonymise(own)) || equalModuloShift(oneSource(acts), own))
	run.Oblige(good)
	if !good {
		what := "ActionsToAnnotations of this strategy's own actions"
		if kind == "outcome" {
			what = "100 * Outcome(closing prices, this strategy's own actions)"
		}
		run.Violate(report.Finding{Rule: "report/" + kind + "-value", Site: site, Detail: short(sym.CanonString(ct), 100), Pos: pos,
			Message: "the " + kind + " column is not " + what + ": it carries " + short(sym.CanonString(ct), 200)})
	}
}

// registryAdmissible: every strategy an AllStrategies registry hands out is an admissible
// configuration: the registry function is interpreted, and on each object of the slice it returns
// every relation the admissibility table Γ states for the object's type (and for the indicators
// it holds) is decided. The verdicts of the other rules hold for admissible configurations only;
// a registry entry outside Γ (a variant with one of two lock-step periods changed) is a strategy
// nothing vouches for.
func (c *Ctx) registryAdmissible() {
	run := c.Run
	run.Explanation += " Every period held by an object of a registry is at least 1 (decided on the concrete objects the registry functions build, nested sub-indicators included)."
	n, nRel, nPer := 0, 0, 0
	for _, fi := range c.P.Decls {
		if fi.Fn.Name() != "AllStrategies" || fi.Decl.Recv != nil || fi.Decl.Body == nil {
			continue
		}
		if strings.HasSuffix(c.P.Fset.Position(fi.Decl.Pos()).Filename, "_test.go") {
			continue
		}
		skip := map[string]bool{}
		for _, g := range shape.GammaTable {
			skip[g.Type] = true
		}
		it := shape.NewInterp(c.P, shape.ModeContracts)
		it.SkipGamma = skip
		for _, r := range it.AnalyzeRoot(fi) {
			sl, ok := r.Ret.(*shape.Slice)
			if !ok {
				continue
			}
			for i, cell := range sl.Elems {
				obj, ok := cell.V.(*shape.Object)
				if !ok {
					continue
				}
				n++
				var walk func(o *shape.Object, depth int)
				seen := map[*shape.Object]bool{}
				walk = func(o *shape.Object, depth int) {
					if o == nil || seen[o] || depth > 6 {
						return
					}
					seen[o] = true
					tn := o.TypeName()
					for _, g := range shape.GammaTable {
						if g.Type != tn {
							continue
						}
						holds, applicable := it.GammaRelation(r.G, o, g.Rel)
						if !applicable {
							continue
						}
						nRel++
						run.Oblige(holds)
						if !holds {
							c.violate("actions/registry", load.FuncName(fi.Fn), fmt.Sprintf("entry %d: %s", i, g.Rel), fi.Decl.Pos(),
								fmt.Sprintf("entry %d of the registry (%s) does not satisfy %s (%s): the strategy it hands out is outside the configurations the analyses cover, its streams fall out of step", i, tn, g.Rel, g.Why))
						}
					}
					fnames := make([]string, 0, len(o.Fields))
					for fname := range o.Fields {
						fnames = append(fnames, fname)
					}
					sort.Strings(fnames)
					for _, fname := range fnames {
						fc := o.Fields[fname]
						if inner, ok := fc.V.(*shape.Object); ok {
							walk(inner, depth+1)
						}
						// Γ's general clause: every period is at least 1. In a registry the periods are
						// numbers, so the clause is decided, not assumed.
						if iv, isInt := fc.V.(shape.IntV); isInt && iv.E != nil && iv.E.IsLin() && strings.HasSuffix(strings.ToLower(fname), "period") {
							syms := map[lin.Sym]bool{}
							iv.E.Syms(syms)
							if len(syms) == 0 {
								nPer++
								v := iv.E.Eval(nil)
								run.Oblige(v >= 1)
								if v < 1 {
									c.violate("actions/registry", load.FuncName(fi.Fn), fmt.Sprintf("entry %d: %s.%s = %d", i, tn, fname, v), fi.Decl.Pos(),
										fmt.Sprintf("entry %d of the registry holds a %s whose %s is %d: periods are at least 1 (a window of no elements; the warm-up of the strategy turns negative and Compute panics)", i, tn, fname, v))
								}
							}
						}
					}
				}
				walk(obj, 0)
			}
		}
	}
	run.Count("registry_objects", n)
	run.Floor("registry_objects", 30)
	run.Count("registry_relations", nRel)
	run.Count("registry_periods", nPer)
	run.Floor("registry_periods", 50)
}

// columnReceives: the zip of the template holds only if one call of Value() consumes exactly one
// element of the column's stream whatever the element is and whenever it arrives. For every
// implementation of helper.ReportColumn, Value (with the unexported helpers it calls) contains
// exactly one channel operation: a receive from a channel field of the receiver, in a statement
// of the method's own body (not under a condition, in a loop, a select or a function literal).
func (c *Ctx) columnReceives() {
	run := c.Run
	impls := c.implementers("helper", "ReportColumn")
	n := 0
	for _, nm := range impls {
		fi := c.methodDecl(nm, "Value")
		if fi == nil || fi.Decl.Body == nil {
			continue
		}
		n++
		info := fi.Pkg.TypesInfo
		site := "helper.(" + nm.Obj().Name() + ").Value"
		why := ""
		recvs := 0
		for bi, body := range c.familyBodies(fi) {
			top := map[ast.Stmt]bool{}
			if bi == 0 {
				for _, st := range body.List {
					top[st] = true
				}
			}
			var stack []ast.Node
			ast.Inspect(body, func(nd ast.Node) bool {
				if nd == nil {
					stack = stack[:len(stack)-1]
					return true
				}
				stack = append(stack, nd)
				switch x := nd.(type) {
				case *ast.SelectStmt:
					why = "Value() selects between channel operations: whether a row gets its value depends on timing"
				case *ast.SendStmt:
					why = "Value() sends on a channel"
				case *ast.RangeStmt:
					if _, isChan := info.TypeOf(x.X).Underlying().(*types.Chan); isChan {
						why = "Value() ranges over a channel: one call consumes more than one value"
					}
				case *ast.UnaryExpr:
					if x.Op != token.ARROW {
						return true
					}
					recvs++
					// from a channel field of the receiver
					sel, isSel := ast.Unparen(x.X).(*ast.SelectorExpr)
					if !isSel {
						why = "Value() receives from " + exprString(x.X) + ", not from the column's own stream"
						return true
					}
					if _, isField := info.ObjectOf(sel.Sel).(*types.Var); !isField {
						why = "Value() receives from " + exprString(x.X) + ", not from the column's own stream"
					}
					// unconditional: the innermost enclosing statement list is the method body
					uncond := false
					for i := len(stack) - 1; i >= 0; i-- {
						st, isStmt := stack[i].(ast.Stmt)
						if !isStmt {
							if _, isLit := stack[i].(*ast.FuncLit); isLit {
								break
							}
							continue
						}
						switch st.(type) {
						case *ast.AssignStmt, *ast.ReturnStmt, *ast.ExprStmt, *ast.DeclStmt:
							uncond = top[st]
						}
						break
					}
					if !uncond {
						why = "the receive in Value() is conditional (inside a branch, loop, helper or function literal): a row can be rendered without consuming its value"
					}
				}
				return true
			})
		}
		if why == "" && recvs != 1 {
			why = fmt.Sprintf("Value() performs %d receives per call, not exactly one", recvs)
		}
		run.Oblige(why == "")
		if why != "" {
			c.violate("report/column-receive", site, short(why, 60), fi.Decl.Pos(), why+": every later value of the column lands in the wrong row")
		}
	}
	run.Count("report_column_types", n)
	run.Floor("report_column_types", 2)
}

// annotationValues: the annotation printed for a date is that of the NORMALISED action: the
// operator ActionsToAnnotations (which the column rule treats as a name) is helper.Map over
// NormalizeActions of its input with the action's own Annotation, and Annotation maps Sell to
// "S", Buy to "B" and everything else to the empty string (decided on the three constants).
func (c *Ctx) annotationValues() {
	run := c.Run
	a2a := c.fn("strategy", "", "ActionsToAnnotations")
	ann := c.fn("strategy", "Action", "Annotation")
	if a2a == nil || ann == nil {
		run.Break("anchor missing: strategy.ActionsToAnnotations / Action.Annotation")
		return
	}
	if fn := c.ssaFunc(a2a); fn != nil {
		got := ssaTerm(fn, new([]string), 0)
		want := "fn{helper.Map(strategy.NormalizeActions(param#0), fn{method.Annotation(param#0)})}"
		good := got == want
		run.Oblige(good)
		if !good {
			c.violate("report/annotation", "strategy.ActionsToAnnotations", short(got, 80), a2a.Decl.Pos(), "the annotations of a report are "+got+", specified "+want+": every date must carry the annotation of the normalised action recommended on it (a repeated Buy is printed once)")
		}
	} else {
		run.Break("no SSA function for strategy.ActionsToAnnotations")
	}
	afn := c.ssaFunc(ann)
	for _, tc := range []struct {
		name string
		val  int64
		want string
	}{{"Sell", -1, "S"}, {"Hold", 0, ""}, {"Buy", 1, "B"}} {
		got, decided := "undecided", false
		if afn != nil && len(afn.Params) == 1 {
			if v, ok := evalSSAOnInt(afn, tc.val); ok {
				got, decided = v, true
			}
		}
		good := decided && got == fmt.Sprintf("%q", tc.want)
		run.Oblige(good)
		if !good {
			c.violate("report/annotation", "strategy.(Action).Annotation", tc.name, ann.Decl.Pos(), fmt.Sprintf("the annotation of %s is %s, specified %q", tc.name, got, tc.want))
		}
	}
}

// evalSSAOnInt follows the control flow of a one-parameter, loop-free function whose branches
// compare the parameter with constants, for the parameter value k, and returns the constant it
// returns (a finite decision table read off the SSA form).
func evalSSAOnInt(fn *ssa.Function, k int64) (string, bool) {
	if len(fn.Blocks) == 0 {
		return "", false
	}
	val := func(v ssa.Value) (constant.Value, bool) {
		switch x := v.(type) {
		case *ssa.Parameter:
			return constant.MakeInt64(k), true
		case *ssa.Const:
			if x.Value != nil {
				return x.Value, true
			}
		}
		return nil, false
	}
	b := fn.Blocks[0]
	for steps := 0; steps < 64; steps++ {
		last := b.Instrs[len(b.Instrs)-1]
		switch t := last.(type) {
		case *ssa.Return:
			if len(t.Results) != 1 {
				return "", false
			}
			if cv, ok := val(t.Results[0]); ok {
				return cv.ExactString(), true
			}
			return "", false
		case *ssa.Jump:
			b = b.Succs[0]
		case *ssa.If:
			bo, ok := t.Cond.(*ssa.BinOp)
			if !ok {
				return "", false
			}
			l, ok1 := val(bo.X)
			r, ok2 := val(bo.Y)
			if !ok1 || !ok2 {
				return "", false
			}
			if constant.Compare(l, bo.Op, r) {
				b = b.Succs[0]
			} else {
				b = b.Succs[1]
			}
		default:
			return "", false
		}
	}
	return "", false
}
