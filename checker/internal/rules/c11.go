package rules

import (
	"fmt"
	"go/ast"
	"go/constant"
	"go/token"
	"go/types"
	"golang.org/x/tools/go/ssa"
	"os"
	"reflect"
	"regexp"
	"sort"
	"strconv"
	"strings"
	"time"
	"verif/checker/internal/dtab"
	"verif/checker/internal/sym"

	"verif/checker/internal/load"
)

// switchKinds collects the reflect.Kind constants named in the case clauses of the
// switch on `kind` in a function, together with the clause bodies.
func switchKinds(info *types.Info, fd *ast.FuncDecl) map[string]*ast.CaseClause {
	out := map[string]*ast.CaseClause{}
	ast.Inspect(fd.Body, func(n ast.Node) bool {
		sw, ok := n.(*ast.SwitchStmt)
		if !ok {
			return true
		}
		for _, s := range sw.Body.List {
			cc, ok := s.(*ast.CaseClause)
			if !ok {
				continue
			}
			for _, e := range cc.List {
				if sel, ok := e.(*ast.SelectorExpr); ok {
					if c, ok := info.Uses[sel.Sel].(*types.Const); ok && c.Pkg() != nil && c.Pkg().Path() == "reflect" {
						out[sel.Sel.Name] = cc
					}
				}
			}
		}
		return false
	})
	return out
}

// CheckC11: agreement rules between the writer and the reader side of the codecs.
func CheckC11(c *Ctx) {
	run := c.Run
	run.Technique = "typed-AST agreement lints between sibling encoder/decoder functions: handled reflect kinds, bit-size table, float/time format arguments, constant-folded os.OpenFile flag sets, header-map indexing, JSON delimiters"
	run.Explanation = "Round-trip equality for all values depends on strconv, encoding/csv, encoding/json and time and is NOT decided. Decided are the structural agreements (and, for every struct with codec tags, that no two fields share a json or header name: encoding/json drops both such fields silently) without which some value cannot round-trip: getReflectValue and setReflectValue handle the same reflect kinds; every sized numeric kind has a bit size in kindToBits, and the formatter and the parser use the same entry; floats are written with FormatFloat(v, fmt, -1, bits) (shortest representation that parses back exactly); time values are formatted and parsed with the same layout value; WriteToFile opens with O_CREATE|O_WRONLY|O_TRUNC (a shorter rewrite must not keep the old tail) and AppendToFile with O_APPEND|O_WRONLY; AppendOrWriteToCsvFile appends only to an existing non-empty file; the reader indexes each record through the header map; ChanToJSON emits and JSONToChan expects '[' ',' ']'. Column order: header i and cell i of every written row are taken from the same column descriptor at the loop's own position. Also: integers and booleans are written and parsed with the same strconv family, base 10 and the field's own 64-bit value (SSA terms of the calls); the parsed value is stored exactly on the paths where the parse succeeded; every layout constant of the codec (default format, format tags) carries each field it mentions completely (07:14 vs 19:14, 1923 vs 2023 evaluated with time.Format). A string cell is stored as read: every reflect SetString behind setReflectValue receives the cell parameter itself (SSA). Open flags are evaluated through one unexported open helper with the call site's constants; AppendToFile, which writes no header row, must not carry O_CREATE."
	run.Trusted = []string{"go/types constant folding", "strconv/encoding/time semantics of the named functions"}
	hp := c.P.Pkg("helper")
	if hp == nil {
		run.Break("package helper missing")
		return
	}
	info := hp.TypesInfo
	c.structTagNames()
	c.csvOptions()
	c.stringCellsVerbatim()
	get := c.fn("helper", "", "getReflectValue")
	set := c.fn("helper", "", "setReflectValue")
	if get == nil || set == nil {
		return
	}
	gk := switchKinds(info, get.Decl)
	sk := switchKinds(info, set.Decl)
	run.Count("kinds_written", len(gk))
	run.Count("kinds_read", len(sk))
	run.Floor("kinds_written", 14)
	var all []string
	seen := map[string]bool{}
	for k := range gk {
		if !seen[k] {
			seen[k] = true
			all = append(all, k)
		}
	}
	for k := range sk {
		if !seen[k] {
			seen[k] = true
			all = append(all, k)
		}
	}
	sort.Strings(all)
	for _, k := range all {
		_, w := gk[k]
		_, r := sk[k]
		if w && r {
			c.ok()
			continue
		}
		side := "written but cannot be read back"
		p := get.Decl.Pos()
		if r && !w {
			side = "read but never written"
			p = set.Decl.Pos()
		}
		c.violate("codec-agreement/kinds", "helper.getReflectValue/setReflectValue", "reflect."+k, p, "reflect."+k+" is "+side+": the reader and the writer disagree on the supported field types")
	}
	// kindToBits entries
	bitsOf := map[string]int64{}
	var bitsPos token.Pos
	for _, f := range hp.Syntax {
		ast.Inspect(f, func(n ast.Node) bool {
			vs, ok := n.(*ast.ValueSpec)
			if !ok || len(vs.Names) != 1 || len(vs.Values) != 1 || !isKindBitsTable(info, vs.Names[0]) {
				return true
			}
			bitsPos = vs.Pos()
			if cl, ok := vs.Values[0].(*ast.CompositeLit); ok {
				for _, el := range cl.Elts {
					kv, ok := el.(*ast.KeyValueExpr)
					if !ok {
						continue
					}
					if sel, ok := kv.Key.(*ast.SelectorExpr); ok {
						if v, ok := constInt(info, kv.Value); ok {
							bitsOf[sel.Sel.Name] = v
						}
					}
				}
			}
			return false
		})
	}
	if !bitsPos.IsValid() {
		run.Break("anchor missing: helper.kindToBits")
		return
	}
	wantBits := map[string]int64{"Int8": 8, "Int16": 16, "Int32": 32, "Int64": 64, "Uint8": 8, "Uint16": 16, "Uint32": 32, "Uint64": 64, "Float32": 32, "Float64": 64}
	for _, k := range all {
		sized := strings.HasPrefix(k, "Int") || strings.HasPrefix(k, "Uint") || strings.HasPrefix(k, "Float")
		if !sized {
			continue
		}
		b, ok := bitsOf[k]
		good := ok
		if w, fixed := wantBits[k]; fixed && ok && b != w {
			good = false
		}
		run.Oblige(good)
		if !good {
			msg := "reflect." + k + " has no entry in kindToBits: it is parsed with bit size 0 (the platform size), so out-of-range text is accepted and silently truncated instead of being rejected"
			if ok {
				msg = fmt.Sprintf("kindToBits[reflect.%s] = %d", k, b)
			}
			c.violate("codec-agreement/bits", "helper.kindToBits", "reflect."+k, bitsPos, msg)
		}
	}
	// every numeric case passes kindToBits[kind] to its helper (reader) / FormatFloat (writer)
	usesBitsTable := func(n ast.Node) bool {
		found := false
		ast.Inspect(n, func(m ast.Node) bool {
			if ix, ok := m.(*ast.IndexExpr); ok {
				if id, ok := ix.X.(*ast.Ident); ok && isKindBitsTable(info, id) {
					found = true
				}
			}
			return !found
		})
		return found
	}
	for _, k := range []string{"Int", "Uint", "Float64"} {
		if cc, ok := sk[k]; ok {
			good := usesBitsTable(cc)
			if !good {
				// the bit size handed on through a local
				ast.Inspect(cc, func(n ast.Node) bool {
					if call, ok := n.(*ast.CallExpr); ok {
						for _, a := range call.Args {
							if usesBitsTable(resolveLocals(info, set.Decl.Body, a)) {
								good = true
							}
						}
					}
					return !good
				})
			}
			run.Oblige(good)
			if !good {
				c.violate("codec-agreement/bits", "helper.setReflectValue", "case "+k, cc.Pos(), "the parser for reflect."+k+" does not take its bit size from kindToBits[kind]")
			}
		}
	}
	// float formatting: FormatFloat(v, fmt, -1, kindToBits[kind])
	if cc, ok := gk["Float64"]; ok {
		good := false
		ast.Inspect(cc, func(n ast.Node) bool {
			call, ok := n.(*ast.CallExpr)
			if !ok || calleeName(info, call) != "strconv.FormatFloat" || len(call.Args) != 4 {
				return true
			}
			prec, okp := constInt(info, call.Args[2])
			good = okp && prec == -1 && usesBitsTable(resolveLocals(info, get.Decl.Body, call.Args[3]))
			return false
		})
		if !good {
			// the formatting may have moved into a helper: decided on the SSA term of what
			// getReflectValue returns (helpers expanded): FormatFloat(value.Float(), verb, -1, table[value.Kind()])
			if fn := c.ssaFunc(get); fn != nil {
				term := ssaTerm(fn, new([]string), 0)
				good = floatFormatTerm.MatchString(term)
			}
		}
		run.Oblige(good)
		if !good {
			c.violate("codec-agreement/float", "helper.getReflectValue", "FormatFloat", cc.Pos(), "floats are not written with FormatFloat(v, fmt, -1, kindToBits[kind]): the shortest representation that parses back to the same bits is required for a loss-free round trip")
		}
	}
	// time: same layout value on both sides
	layoutArgOK := func(fd *ast.FuncDecl, fn string, argIdx int, param string) bool {
		good := false
		ast.Inspect(fd.Body, func(n ast.Node) bool {
			call, ok := n.(*ast.CallExpr)
			if !ok {
				return true
			}
			name := calleeName(info, call)
			if name == fn && len(call.Args) > argIdx {
				if id, ok := call.Args[argIdx].(*ast.Ident); ok && id.Name == param {
					good = true
				}
			}
			return true
		})
		return good
	}
	tset := c.anchorVia("helper", "", "setReflectValueFromTime", set, func(fi *load.FuncInfo) bool {
		// the helper of setReflectValue that parses a time
		parses := false
		ast.Inspect(fi.Decl.Body, func(n ast.Node) bool {
			if call, ok := n.(*ast.CallExpr); ok && calleeName(fi.Pkg.TypesInfo, call) == "time.Parse" {
				parses = true
			}
			return true
		})
		return parses
	})
	if tset != nil {
		g1 := layoutArgOK(get.Decl, "time.(Time).Format", 0, "format")
		if !g1 {
			if fn := c.ssaFunc(get); fn != nil {
				// Format's layout is the second parameter of getReflectValue, whichever helper calls it
				g1 = timeFormatTerm.MatchString(ssaTerm(fn, new([]string), 0)) ||
					ssaParamReaches(fn, 1, func(name string) bool { return name == "method.Format" }, 1, 0)
			}
		}
		g2 := layoutArgOK(tset.Decl, "time.Parse", 0, "format")
		g3 := layoutArgOK(set.Decl, "github.com/cinar/indicator/v2/helper."+tset.Fn.Name(), 2, "format")
		if !(g2 && g3) {
			// the layout parameter of setReflectValue reaches time.Parse as its layout, through whatever helpers
			if fn := c.ssaFunc(set); fn != nil && ssaParamReaches(fn, 2, func(name string) bool { return name == "time.Parse" }, 0, 0) {
				g2, g3 = true, true
			}
		}
		run.Oblige(g1 && g2 && g3)
		if !(g1 && g2 && g3) {
			c.violate("codec-agreement/time", "helper.getReflectValue/setReflectValueFromTime", "layout", get.Decl.Pos(), "time values are not formatted and parsed with the same `format` value")
		}
	}
	// csv.go call sites pass column.Format on both sides
	rd := c.fn("helper", "Csv", "ReadFromReader")
	wr := c.csvRowWriter()
	if rd != nil && wr != nil {
		passesColumnFormat := func(fi *load.FuncInfo, fn string, idx int) bool {
			good := false
			for _, body := range c.familyBodies(fi) {
				ast.Inspect(body, func(n ast.Node) bool {
					call, ok := n.(*ast.CallExpr)
					if !ok || !strings.HasSuffix(calleeName(info, call), "helper."+fn) || len(call.Args) <= idx {
						return true
					}
					if sel, ok := ast.Unparen(resolveLocals(info, body, call.Args[idx])).(*ast.SelectorExpr); ok && sel.Sel.Name == "Format" {
						good = true
					}
					return true
				})
			}
			return good
		}
		g := passesColumnFormat(rd, "setReflectValue", 2) && passesColumnFormat(wr, "getReflectValue", 1)
		run.Oblige(g)
		if !g {
			c.violate("codec-agreement/time", "helper.(*Csv).ReadFromReader/writeToWriter", "column.Format", rd.Decl.Pos(), "reader and writer do not both use the column's Format tag")
		}
		// the reader indexes the record through the column index set from the header map
		idxOK := false
		for _, body := range c.familyBodies(rd) {
			ast.Inspect(body, func(n ast.Node) bool {
				if ix, ok := n.(*ast.IndexExpr); ok {
					// a []string (the decoded record, whatever it is called) indexed by a column's ColumnIndex
					if t := info.TypeOf(ix.X); t != nil {
						if sl, ok := t.Underlying().(*types.Slice); ok && types.Identical(sl.Elem(), types.Typ[types.String]) {
							if sel, ok := ast.Unparen(resolveLocals(info, body, ix.Index)).(*ast.SelectorExpr); ok && sel.Sel.Name == "ColumnIndex" {
								idxOK = true
							}
						}
					}
				}
				return true
			})
		}
		upd := c.anchorVia("helper", "Csv", "updateColumnIndexes", rd, func(fi *load.FuncInfo) bool {
			// the method of the reader that assigns ColumnIndex
			assigns := false
			ast.Inspect(fi.Decl.Body, func(n ast.Node) bool {
				if as, ok := n.(*ast.AssignStmt); ok {
					for _, l := range as.Lhs {
						if sel, ok := l.(*ast.SelectorExpr); ok && sel.Sel.Name == "ColumnIndex" {
							assigns = true
						}
					}
				}
				return true
			})
			return assigns
		})
		mapOK := false
		if upd != nil {
			ast.Inspect(upd.Decl.Body, func(n ast.Node) bool {
				as, ok := n.(*ast.AssignStmt)
				if !ok {
					return true
				}
				for _, l := range as.Lhs {
					if sel, ok := l.(*ast.SelectorExpr); ok && sel.Sel.Name == "ColumnIndex" {
						mapOK = true
					}
				}
				return true
			})
			hm := false
			ast.Inspect(upd.Decl.Body, func(n ast.Node) bool {
				if ix, ok := n.(*ast.IndexExpr); ok {
					// a map[string]int (header name -> position, whatever it is called) looked up by a column's Header
					if t := info.TypeOf(ix.X); t != nil {
						if mp, ok := t.Underlying().(*types.Map); ok && types.Identical(mp.Key(), types.Typ[types.String]) {
							if sel, ok := ix.Index.(*ast.SelectorExpr); ok && sel.Sel.Name == "Header" {
								hm = true
							}
						}
					}
				}
				return true
			})
			mapOK = mapOK && hm
		}
		run.Oblige(idxOK && mapOK)
		if !(idxOK && mapOK) {
			c.violate("codec-agreement/header", "helper.(*Csv).ReadFromReader", "header map", rd.Decl.Pos(), "the reader no longer maps columns by header name (record[column.ColumnIndex] with ColumnIndex taken from the header row)")
		}
	}
	// open flags
	c.openFlags(info, "WriteToFile", []string{"O_CREATE", "O_WRONLY", "O_TRUNC"}, []string{"O_APPEND"},
		"writing a file must replace whatever it contained: without O_TRUNC a shorter rewrite keeps the old tail")
	c.openFlags(info, "AppendToFile", []string{"O_APPEND", "O_WRONLY"}, []string{"O_TRUNC"},
		"appending must keep the existing rows")
	// an append that writes no header row must not create the file: a file it created would start
	// with a data row, which a reader with a header row takes for the header (the row is lost)
	if af := c.fn("helper", "Csv", "AppendToFile"); af != nil {
		headerless := false
		ast.Inspect(af.Decl.Body, func(n ast.Node) bool {
			call, ok := n.(*ast.CallExpr)
			if !ok || len(call.Args) != 3 {
				return true
			}
			if f := callee(info, call); f != nil && f.Name() == "writeToWriter" {
				if tv, ok := info.Types[call.Args[1]]; ok && tv.Value != nil && tv.Value.ExactString() == "false" {
					headerless = true
				}
			}
			return true
		})
		if headerless {
			c.openFlags(info, "AppendToFile", nil, []string{"O_CREATE"},
				"AppendToFile writes no header row, so a file it creates itself starts with a data row: read back with a header row, the first appended row is lost")
		}
	}
	// AppendOrWriteToCsvFile: append only when the file exists and is non-empty
	if aw := c.fn("helper", "", "AppendOrWriteToCsvFile"); aw != nil {
		var appendUnderSize, writeLast bool
		ast.Inspect(aw.Decl.Body, func(n ast.Node) bool {
			is, ok := n.(*ast.IfStmt)
			if !ok {
				return true
			}
			var walk func(s ast.Stmt)
			walk = func(s ast.Stmt) {
				switch x := s.(type) {
				case *ast.IfStmt:
					if strings.Contains(exprString(x.Cond), "Size() > 0") {
						ast.Inspect(x.Body, func(m ast.Node) bool {
							if call, ok := m.(*ast.CallExpr); ok && strings.HasSuffix(calleeName(info, call), ".AppendToFile") {
								appendUnderSize = true
							}
							return true
						})
					}
					if x.Else != nil {
						walk(x.Else)
					}
				}
			}
			walk(is)
			return true
		})
		if n := len(aw.Decl.Body.List); n > 0 {
			if r, ok := aw.Decl.Body.List[n-1].(*ast.ReturnStmt); ok && len(r.Results) == 1 {
				if call, ok := r.Results[0].(*ast.CallExpr); ok && strings.HasSuffix(calleeName(info, call), ".WriteToFile") {
					writeLast = true
				}
			}
		}
		// no other AppendToFile call
		nApp := 0
		ast.Inspect(aw.Decl.Body, func(m ast.Node) bool {
			if call, ok := m.(*ast.CallExpr); ok && strings.HasSuffix(calleeName(info, call), ".AppendToFile") {
				nApp++
			}
			return true
		})
		g := appendUnderSize && writeLast && nApp == 1
		run.Oblige(g)
		if !g {
			c.violate("codec-agreement/append-or-write", "helper.AppendOrWriteToCsvFile", "choice", aw.Decl.Pos(), "the choice between appending (existing, non-empty file) and writing header+rows (missing or empty file) has changed")
		}
	}
	// the layouts dates are written and read with carry every field they carry completely
	c.timeLayouts()
	c.jsonSeparators()
	c.columnTable()
	c.headerKeys()
	// a field without a format tag is written and parsed with the documented default layout
	c.defaultsUsed("codec-agreement/default-layout", "helper")
	c.Run.Floor("default_constants", 2)
	// whole numbers and booleans: written in the base and with the function the reader parses
	c.integerCodec(get, set)
	c.parseThenSet(set)
	// JSON delimiters
	c.jsonDelims(info)
	// the written header and the written cells use the same positions
	c.columnOrder(info)
}

// columnOrder: the writer emits header i and cell i of every row from the same column
// descriptor: in both loops over c.columns the slice element assigned is indexed by the loop's
// own position. A cell placed by any other index (e.g. the column's position in a file read
// earlier) no longer sits under its header.
func (c *Ctx) columnOrder(info *types.Info) {
	run := c.Run
	rowWriter := c.csvRowWriter()
	var headerWriter *load.FuncInfo
	if rowWriter != nil {
		headerWriter = c.anchorVia("helper", "Csv", "writeHeaderToCsvWriter", rowWriter, func(fi *load.FuncInfo) bool {
			sig := fi.Fn.Type().(*types.Signature)
			return sig.Params().Len() == 1 && strings.HasSuffix(sig.Params().At(0).Type().String(), "csv.Writer")
		})
	}
	for _, fi := range []*load.FuncInfo{rowWriter, headerWriter} {
		if fi == nil {
			continue
		}
		mname := fi.Fn.Name()
		found, bad := 0, ""
		for _, body := range c.familyBodies(fi) {
			ast.Inspect(body, func(n ast.Node) bool {
				rs, ok := n.(*ast.RangeStmt)
				if !ok {
					return true
				}
				// the loop over the column descriptors (a slice of structs that carry a Header)
				if !isColumnSlice(info.TypeOf(rs.X)) {
					return true
				}
				var keyObj, valObj types.Object
				if k, ok := rs.Key.(*ast.Ident); ok {
					keyObj = info.Defs[k]
				}
				if v, ok := rs.Value.(*ast.Ident); ok {
					valObj = info.Defs[v]
				}
				// the column of this iteration: the loop's value, or a local set from columns[key]
				colObjs := map[types.Object]bool{}
				if valObj != nil {
					colObjs[valObj] = true
				}
				for _, st := range rs.Body.List {
					if as, ok := st.(*ast.AssignStmt); ok && len(as.Lhs) == 1 && len(as.Rhs) == 1 {
						rhs := ast.Unparen(as.Rhs[0])
						if u, isU := rhs.(*ast.UnaryExpr); isU && u.Op == token.AND {
							rhs = ast.Unparen(u.X)
						}
						if ix, isIx := rhs.(*ast.IndexExpr); isIx && types.ExprString(ix.X) == types.ExprString(rs.X) {
							if kid, isID := ix.Index.(*ast.Ident); isID && keyObj != nil && info.Uses[kid] == keyObj {
								if lid, isID := as.Lhs[0].(*ast.Ident); isID {
									colObjs[info.ObjectOf(lid)] = true
								}
							}
						}
					}
				}
				usesColumn := func(e ast.Expr) bool {
					uses := false
					ast.Inspect(e, func(q ast.Node) bool {
						if qi, ok := q.(*ast.Ident); ok && colObjs[info.Uses[qi]] {
							uses = true
						}
						return true
					})
					return uses
				}
				// the append form: `xs = append(xs, <value of this column>)` as a statement of the loop body
				// itself, in a body without continue/break, onto a slice that was created empty: element i
				// is the value of column i
				for _, st := range rs.Body.List {
					as, ok := st.(*ast.AssignStmt)
					if !ok || len(as.Lhs) != 1 || len(as.Rhs) != 1 {
						continue
					}
					call, isCall := as.Rhs[0].(*ast.CallExpr)
					lid, isID := as.Lhs[0].(*ast.Ident)
					if !isCall || !isID || len(call.Args) != 2 {
						continue
					}
					if fid, ok := call.Fun.(*ast.Ident); !ok || fid.Name != "append" || types.ExprString(call.Args[0]) != lid.Name {
						continue
					}
					if t, ok := info.TypeOf(lid).Underlying().(*types.Slice); !ok || !types.Identical(t.Elem(), types.Typ[types.String]) {
						continue
					}
					found++
					if !startsEmpty(info, body, info.ObjectOf(lid), rs.Pos()) {
						bad = lid.Name + " is appended to but was not created empty just before the loop"
					} else if containsBranch(rs.Body) {
						bad = "the loop that appends the columns can skip or stop: positions no longer correspond"
					} else if !usesColumn(call.Args[1]) && bad == "" {
						bad = "the value written does not come from the loop's column"
					}
				}
				ast.Inspect(rs.Body, func(m ast.Node) bool {
					as, ok := m.(*ast.AssignStmt)
					if !ok || len(as.Lhs) != 1 {
						return true
					}
					ix, ok := as.Lhs[0].(*ast.IndexExpr)
					if !ok {
						return true
					}
					if t, ok := info.TypeOf(ix.X).Underlying().(*types.Slice); !ok || !types.Identical(t.Elem(), types.Typ[types.String]) {
						return true
					}
					found++
					id, isID := ix.Index.(*ast.Ident)
					if !isID || keyObj == nil || info.Uses[id] != keyObj {
						bad = fmt.Sprintf("%s[%s] is not indexed by the position of the column in the loop", types.ExprString(ix.X), types.ExprString(ix.Index))
					}
					// the value must come from this loop's column
					usesCol := usesColumn(as.Rhs[0])
					if !usesCol {
						// a local computed from the column earlier in the body is accepted
						if rid, ok := as.Rhs[0].(*ast.Ident); ok {
							if ro := info.Uses[rid]; ro != nil && ro.Pos() > rs.Body.Pos() && ro.Pos() < as.Pos() {
								usesCol = true
							}
						}
					}
					if !usesCol && bad == "" {
						bad = "the value written does not come from the loop's column"
					}
					return true
				})
				return true
			})
		}
		run.Count("csv_write_positions", found)
		ok := found >= 1 && bad == ""
		run.Oblige(ok)
		if !ok {
			if bad == "" {
				bad = "no positional write of the columns was found (undecided, fails closed)"
			}
			c.violate("codec-agreement/column-order", "helper.(*Csv)."+mname, short(bad, 100), fi.Decl.Pos(), "header and cells must be written from the same column descriptor at the same position: "+bad)
		}
	}
	run.Floor("csv_write_positions", 2)
}

func (c *Ctx) openFlags(info *types.Info, method string, need, forbid []string, why string) {
	run := c.Run
	fi := c.fn("helper", "Csv", method)
	if fi == nil {
		return
	}
	vals := map[string]int64{}
	osPkg := (*types.Package)(nil)
	for _, imp := range c.P.Pkg("helper").Types.Imports() {
		if imp.Path() == "os" {
			osPkg = imp
		}
	}
	if osPkg == nil {
		run.Break("helper no longer imports os")
		return
	}
	for _, n := range append(append([]string{}, need...), forbid...) {
		if cst, ok := osPkg.Scope().Lookup(n).(*types.Const); ok {
			if v, ok := constIntVal(cst); ok {
				vals[n] = v
			}
		}
	}
	found := false
	// the flags of an os.OpenFile call: a constant expression, or - inside an unexported helper
	// of the package that the method calls - constants or-ed with parameters whose values are the
	// constants of the method's call site.
	var env map[types.Object]int64
	var flagsOf func(e ast.Expr) (int64, bool)
	flagsOf = func(e ast.Expr) (int64, bool) {
		if v, ok := constInt(info, e); ok {
			return v, true
		}
		switch x := ast.Unparen(e).(type) {
		case *ast.Ident:
			v, ok := env[info.ObjectOf(x)]
			return v, ok
		case *ast.BinaryExpr:
			if x.Op == token.OR {
				a, oka := flagsOf(x.X)
				b, okb := flagsOf(x.Y)
				return a | b, oka && okb
			}
		}
		return 0, false
	}
	body := fi.Decl.Body
	direct := false
	ast.Inspect(body, func(n ast.Node) bool {
		if call, ok := n.(*ast.CallExpr); ok && calleeName(info, call) == "os.OpenFile" {
			direct = true
		}
		return !direct
	})
	if !direct {
		ast.Inspect(fi.Decl.Body, func(n ast.Node) bool {
			call, ok := n.(*ast.CallExpr)
			if !ok || env != nil {
				return env == nil
			}
			f := callee(info, call)
			if f == nil || ast.IsExported(f.Name()) {
				return true
			}
			h := c.P.Info(f)
			if h == nil || h.Pkg != fi.Pkg || h.Decl.Body == nil {
				return true
			}
			opens := false
			ast.Inspect(h.Decl.Body, func(m ast.Node) bool {
				if hc, ok := m.(*ast.CallExpr); ok && calleeName(info, hc) == "os.OpenFile" {
					opens = true
				}
				return !opens
			})
			if !opens {
				return true
			}
			e := map[types.Object]int64{}
			i := 0
			for _, fld := range h.Decl.Type.Params.List {
				for _, nm := range fld.Names {
					if i < len(call.Args) {
						if v, ok := constInt(info, call.Args[i]); ok {
							e[info.ObjectOf(nm)] = v
						}
					}
					i++
				}
			}
			// a parameter the helper assigns is not the call site's constant any more
			ast.Inspect(h.Decl.Body, func(m ast.Node) bool {
				if as, ok := m.(*ast.AssignStmt); ok {
					for _, l := range as.Lhs {
						if id, ok := l.(*ast.Ident); ok {
							delete(e, info.ObjectOf(id))
						}
					}
				}
				return true
			})
			env = e
			body = h.Decl.Body
			return false
		})
	}
	ast.Inspect(body, func(n ast.Node) bool {
		call, ok := n.(*ast.CallExpr)
		if !ok || calleeName(info, call) != "os.OpenFile" || len(call.Args) != 3 {
			return true
		}
		found = true
		flags, ok := flagsOf(call.Args[1])
		if !ok {
			c.violate("codec-agreement/open-flags", "helper.(*Csv)."+method, "non-constant flags", call.Pos(), "os.OpenFile flags are not a constant expression (undecided, fails closed)")
			return false
		}
		for _, n := range need {
			good := flags&vals[n] == vals[n] && (vals[n] != 0 || n == "O_RDONLY")
			run.Oblige(good)
			if !good {
				c.violate("codec-agreement/open-flags", "helper.(*Csv)."+method, "missing "+n, call.Pos(), method+" opens the file without os."+n+": "+why)
			}
		}
		for _, n := range forbid {
			good := flags&vals[n] == 0
			run.Oblige(good)
			if !good {
				c.violate("codec-agreement/open-flags", "helper.(*Csv)."+method, "has "+n, call.Pos(), method+" opens the file with os."+n+": "+why)
			}
		}
		return false
	})
	if !found {
		// os.Create is equivalent to O_RDWR|O_CREATE|O_TRUNC
		usesCreate := false
		ast.Inspect(fi.Decl.Body, func(n ast.Node) bool {
			if call, ok := n.(*ast.CallExpr); ok && calleeName(info, call) == "os.Create" {
				usesCreate = true
			}
			return true
		})
		if usesCreate && method == "WriteToFile" {
			c.ok()
			return
		}
		c.violate("codec-agreement/open-flags", "helper.(*Csv)."+method, "no OpenFile", fi.Decl.Pos(), method+" no longer opens its file with os.OpenFile (undecided, fails closed)")
	}
}

func constIntVal(cst *types.Const) (int64, bool) {
	v := cst.Val()
	if v == nil {
		return 0, false
	}
	s := v.ExactString()
	var n int64
	_, err := fmt.Sscan(s, &n)
	return n, err == nil
}

func (c *Ctx) jsonDelims(info *types.Info) {
	run := c.Run
	enc := c.fn("helper", "", "ChanToJSON")
	dec := c.fn("helper", "", "JSONToChanWithLogger")
	if enc == nil || dec == nil {
		return
	}
	// the one-character literals of a function and its unexported helpers ('[' or "[")
	chars := func(fi *load.FuncInfo) map[string]bool {
		m := map[string]bool{}
		for _, body := range c.familyBodies(fi) {
			ast.Inspect(body, func(n ast.Node) bool {
				bl, ok := n.(*ast.BasicLit)
				if !ok {
					return true
				}
				switch bl.Kind {
				case token.CHAR:
					m[bl.Value] = true
				case token.STRING:
					if v, err := strconv.Unquote(bl.Value); err == nil && len(v) == 1 {
						m["'"+v+"'"] = true
					}
				}
				return true
			})
		}
		return m
	}
	e, d := chars(enc), chars(dec)
	g := e["'['"] && e["','"] && e["']'"] && d["'['"] && d["']'"]
	run.Oblige(g)
	if !g {
		c.violate("codec-agreement/json", "helper.ChanToJSON/JSONToChanWithLogger", "delimiters", enc.Decl.Pos(), "the JSON array delimiters written ('[' ',' ']') and expected ('[' ']') no longer agree")
	}
	// every element is decoded into a fresh value: encoding/json does not reset its target, so a
	// reused variable keeps the fields an element omits and merges maps of earlier elements
	freshOK, decodes := true, 0
	dinfo := dec.Pkg.TypesInfo
	var loops []ast.Node
	ast.Inspect(dec.Decl.Body, func(n ast.Node) bool {
		switch x := n.(type) {
		case *ast.ForStmt, *ast.RangeStmt:
			loops = append(loops, x)
		}
		return true
	})
	ast.Inspect(dec.Decl.Body, func(n ast.Node) bool {
		call, ok := n.(*ast.CallExpr)
		if !ok || len(call.Args) != 1 {
			return true
		}
		sel, ok := call.Fun.(*ast.SelectorExpr)
		if !ok || sel.Sel.Name != "Decode" {
			return true
		}
		u, ok := call.Args[0].(*ast.UnaryExpr)
		if !ok || u.Op != token.AND {
			return true
		}
		id, ok := u.X.(*ast.Ident)
		if !ok {
			return true
		}
		obj := dinfo.ObjectOf(id)
		// only decodes inside a loop matter (one per element)
		for _, l := range loops {
			if call.Pos() > l.Pos() && call.End() < l.End() {
				decodes++
				var body *ast.BlockStmt
				switch x := l.(type) {
				case *ast.ForStmt:
					body = x.Body
				case *ast.RangeStmt:
					body = x.Body
				}
				if obj == nil || obj.Pos() < body.Pos() || obj.Pos() > body.End() {
					freshOK = false
				}
			}
		}
		return true
	})
	run.Count("json_element_decodes", decodes)
	run.Oblige(freshOK && decodes > 0)
	if !freshOK || decodes == 0 {
		c.violate("codec-agreement/json", "helper.JSONToChanWithLogger", "decode target", dec.Decl.Pos(), "every array element must be decoded into a value declared inside the loop: a reused target keeps the fields an element omits and shares maps and pointers between elements")
	}
	// the separator: decided by jsonSeparators
}

// isKindBitsTable: the package-level table from reflect.Kind to a bit size (pinned name kindToBits).
func isKindBitsTable(info *types.Info, id *ast.Ident) bool {
	obj := info.ObjectOf(id)
	v, ok := obj.(*types.Var)
	if !ok || v.Parent() != v.Pkg().Scope() {
		return false
	}
	m, ok := v.Type().Underlying().(*types.Map)
	if !ok {
		return false
	}
	b, ok := m.Elem().Underlying().(*types.Basic)
	return ok && b.Info()&types.IsInteger != 0 && m.Key().String() == "reflect.Kind"
}

// csvRowWriter: the unexported method behind WriteToFile/AppendToFile that writes the rows
// (pinned name writeToWriter): the one taking an io.Writer.
func (c *Ctx) csvRowWriter() *load.FuncInfo {
	if fi := c.P.Method("helper", "Csv", "writeToWriter"); fi != nil {
		return fi
	}
	entry := c.P.Method("helper", "Csv", "WriteToFile")
	return c.anchorVia("helper", "Csv", "writeToWriter", entry, func(fi *load.FuncInfo) bool {
		sig := fi.Fn.Type().(*types.Signature)
		for i := 0; i < sig.Params().Len(); i++ {
			if sig.Params().At(i).Type().String() == "io.Writer" {
				return true
			}
		}
		return false
	})
}

// isColumnSlice: a slice of column descriptors (structs with a Header field).
func isColumnSlice(t types.Type) bool {
	if t == nil {
		return false
	}
	sl, ok := t.Underlying().(*types.Slice)
	if !ok {
		return false
	}
	st, ok := sl.Elem().Underlying().(*types.Struct)
	if !ok {
		return false
	}
	for i := 0; i < st.NumFields(); i++ {
		if st.Field(i).Name() == "Header" {
			return true
		}
	}
	return false
}

// structTagNames: in every struct of the module that carries codec tags, the names the codecs
// use for its fields are pairwise different. encoding/json silently drops BOTH fields when two
// fields of the same depth have the same name (and matches keys case-insensitively when
// decoding); the CSV codec maps columns by the `header` name, so two fields with one header
// read the same column and write a duplicate one.
func (c *Ctx) structTagNames() {
	run := c.Run
	nStructs := 0
	for _, pk := range c.P.Pkgs {
		for _, f := range pk.Syntax {
			if strings.HasSuffix(c.P.Fset.Position(f.Pos()).Filename, "_test.go") {
				continue
			}
			ast.Inspect(f, func(n ast.Node) bool {
				ts, ok := n.(*ast.TypeSpec)
				if !ok {
					return true
				}
				st, ok := ts.Type.(*ast.StructType)
				if !ok || st.Fields == nil {
					return true
				}
				for _, key := range []string{"json", "header"} {
					seen := map[string]string{}
					tagged := false
					for _, fld := range st.Fields.List {
						if fld.Tag != nil {
							if tv, err := strconv.Unquote(fld.Tag.Value); err == nil {
								if _, ok := reflect.StructTag(tv).Lookup(key); ok {
									tagged = true
								}
							}
						}
					}
					if !tagged {
						continue
					}
					nStructs++
					for _, fld := range st.Fields.List {
						for _, nm := range fld.Names {
							if !nm.IsExported() {
								continue
							}
							name := nm.Name
							if fld.Tag != nil {
								if tv, err := strconv.Unquote(fld.Tag.Value); err == nil {
									if v, ok := reflect.StructTag(tv).Lookup(key); ok {
										v = strings.Split(v, ",")[0]
										if v == "-" && key == "json" {
											continue
										}
										if v != "" {
											name = v
										}
									}
								}
							}
							k := name
							if key == "json" {
								k = strings.ToLower(name) // decoding matches case-insensitively
							}
							if other, dup := seen[k]; dup {
								run.Oblige(false)
								c.violate("codec-agreement/tag-names", load.RelPkg(pk.PkgPath)+"."+ts.Name.Name, key+":"+name, fld.Pos(),
									"fields "+other+" and "+nm.Name+" both use the "+key+" name \""+name+"\": encoding/json drops both fields without an error, the CSV codec reads both from one column; the value does not survive a round trip")
							} else {
								seen[k] = nm.Name
								run.Oblige(true)
							}
						}
					}
				}
				return true
			})
		}
	}
	run.Count("tagged_structs", nStructs)
	run.Floor("tagged_structs", 2)
}

// csvOptions: the codec reads with encoding/csv's defaults what it wrote with encoding/csv's
// defaults. An option set on one side only changes the language one side accepts: a Comment
// character makes the reader drop lines the writer emits unquoted, LazyQuotes and
// TrimLeadingSpace change field contents, a Comma must be the same on both sides.
func (c *Ctx) csvOptions() {
	run := c.Run
	hp := c.P.Pkg("helper")
	info := hp.TypesInfo
	commaR, commaW := "", ""
	n := 0
	for _, f := range hp.Syntax {
		if strings.HasSuffix(c.P.Fset.Position(f.Pos()).Filename, "_test.go") {
			continue
		}
		ast.Inspect(f, func(nd ast.Node) bool {
			as, ok := nd.(*ast.AssignStmt)
			if !ok {
				return true
			}
			for i, l := range as.Lhs {
				sel, ok := l.(*ast.SelectorExpr)
				if !ok {
					continue
				}
				t := info.TypeOf(sel.X)
				if t == nil {
					continue
				}
				ts := t.String()
				if ts != "*encoding/csv.Reader" && ts != "*encoding/csv.Writer" && ts != "encoding/csv.Reader" && ts != "encoding/csv.Writer" {
					continue
				}
				n++
				side := "reader"
				if strings.HasSuffix(ts, "Writer") {
					side = "writer"
				}
				val := ""
				if i < len(as.Rhs) {
					val = exprString(as.Rhs[i])
				}
				switch sel.Sel.Name {
				case "Comma":
					if side == "reader" {
						commaR = val
					} else {
						commaW = val
					}
					run.Oblige(true)
				case "ReuseRecord", "FieldsPerRecord", "UseCRLF":
					run.Oblige(true) // do not change which rows and cells are read back
				default:
					if i < len(as.Rhs) && as.Tok == token.ASSIGN {
						if tv, ok := info.Types[as.Rhs[i]]; ok && tv.Value != nil && (tv.Value.ExactString() == "false" || tv.Value.ExactString() == "0") {
							run.Oblige(true) // the option's zero value, spelled out
							continue
						}
					}
					run.Oblige(false)
					c.violate("codec-agreement/csv-options", "helper", side+"."+sel.Sel.Name, as.Pos(),
						"the CSV "+side+" sets "+sel.Sel.Name+" = "+val+": the other side of the codec does not know about it, so some rows or cells it writes are read back differently (a Comment character drops every line that starts with it; the writer does not quote such a cell)")
				}
			}
			return true
		})
	}
	good := commaR == commaW
	run.Oblige(good)
	if !good {
		c.violate("codec-agreement/csv-options", "helper", "Comma", hp.Syntax[0].Pos(), "reader and writer use different separators ("+commaR+" / "+commaW+")")
	}
	run.Count("csv_option_assignments", n)
}

// startsEmpty: the only assignment to obj before pos in body creates an empty slice
// (make(T, 0[, n]), nil, T{} or a bare var declaration).
func startsEmpty(info *types.Info, body *ast.BlockStmt, obj types.Object, pos token.Pos) bool {
	n, empty := 0, false
	ast.Inspect(body, func(m ast.Node) bool {
		if m == nil || m.Pos() >= pos {
			return m == nil || m.Pos() < pos
		}
		switch x := m.(type) {
		case *ast.ValueSpec:
			for i, nm := range x.Names {
				if info.ObjectOf(nm) != obj {
					continue
				}
				n++
				empty = len(x.Values) == 0 || emptySliceExpr(info, x.Values[i])
			}
		case *ast.AssignStmt:
			for i, l := range x.Lhs {
				if id, ok := l.(*ast.Ident); ok && info.ObjectOf(id) == obj {
					n++
					empty = len(x.Lhs) == len(x.Rhs) && emptySliceExpr(info, x.Rhs[i])
				}
			}
		}
		return true
	})
	return n == 1 && empty
}

// containsBranch: a continue, break or goto outside function literals.
func containsBranch(n ast.Node) bool {
	found := false
	ast.Inspect(n, func(m ast.Node) bool {
		switch m.(type) {
		case *ast.FuncLit:
			return false
		case *ast.BranchStmt:
			found = true
		}
		return !found
	})
	return found
}

// integerCodec: the writer formats a whole number with strconv.FormatInt/FormatUint of the
// field's own 64-bit value in base 10 and a boolean with FormatBool, and the reader parses with
// ParseInt/ParseUint in base 10 and ParseBool (terms over the SSA form of getReflectValue,
// setReflectValue and the helpers they call). Any other strconv formatting call in the writer
// (Itoa of a narrowed value, another base) does not round-trip the extremes.
func (c *Ctx) integerCodec(get, set *load.FuncInfo) {
	run := c.Run
	if get == nil || set == nil {
		return
	}
	w := c.callTerms(get, "strconv")
	r := c.callTerms(set, "strconv")
	has := func(list []string, pred func(string) bool) bool {
		for _, t := range list {
			if pred(t) {
				return true
			}
		}
		return false
	}
	type ob struct {
		what string
		ok   bool
	}
	obs := []ob{
		{"the writer formats integers with strconv.FormatInt(value.Int(), 10)", has(w, func(t string) bool { return t == "strconv.FormatInt(method.Int(param#0), 10)" })},
		{"the writer formats unsigned integers with strconv.FormatUint(value.Uint(), 10)", has(w, func(t string) bool { return t == "strconv.FormatUint(method.Uint(param#0), 10)" })},
		{"the writer formats booleans with strconv.FormatBool(value.Bool())", has(w, func(t string) bool { return t == "strconv.FormatBool(method.Bool(param#0))" })},
		{"the reader parses integers with strconv.ParseInt(text, 10, bits)", has(r, func(t string) bool {
			return strings.HasPrefix(t, "strconv.ParseInt(param#") && strings.Contains(t, ", 10, ")
		})},
		{"the reader parses unsigned integers with strconv.ParseUint(text, 10, bits)", has(r, func(t string) bool {
			return strings.HasPrefix(t, "strconv.ParseUint(param#") && strings.Contains(t, ", 10, ")
		})},
		{"the reader parses booleans with strconv.ParseBool(text)", has(r, func(t string) bool { return strings.HasPrefix(t, "strconv.ParseBool(param#") })},
	}
	for _, o := range obs {
		run.Oblige(o.ok)
		if !o.ok {
			c.violate("codec-agreement/integer", "helper.getReflectValue/setReflectValue", short(o.what, 60), get.Decl.Pos(), "no longer true: "+o.what+" (writer calls: "+strings.Join(w, "; ")+"; reader calls: "+strings.Join(r, "; ")+"): extreme or large values do not read back as written")
		}
	}
	// nothing else formats numbers in the writer
	for _, t := range w {
		known := strings.HasPrefix(t, "strconv.FormatInt(method.Int(param#0), 10)") || strings.HasPrefix(t, "strconv.FormatUint(method.Uint(param#0), 10)") ||
			strings.HasPrefix(t, "strconv.FormatBool(") || strings.HasPrefix(t, "strconv.FormatFloat(")
		run.Oblige(known)
		if !known {
			c.violate("codec-agreement/integer", "helper.getReflectValue", short(t, 60), get.Decl.Pos(), "the writer formats a value with "+t+": not the 64-bit base-10 form the reader parses")
		}
	}
	run.Count("strconv_calls", len(w)+len(r))
	run.Floor("strconv_calls", 8)
}

// timeLayouts: a date is written with time.Format(layout) and read back with time.Parse(layout):
// the round trip is lossless only if the layout carries each field it mentions completely. The
// layouts of the codec - the default date-time format and every `format:"…"` struct tag of the
// module - are constants; each is evaluated with the standard library's own Format on pairs of
// instants: if the layout distinguishes two instants one hour apart (it carries the hour) it
// must distinguish 07:14 from 19:14 (a 12-hour verb without AM/PM does not); if it distinguishes
// two years it must distinguish 1923 from 2023 (a two-digit year does not); likewise minutes,
// seconds, months and days by their neighbours. This is constant evaluation of a layout string,
// not an execution of the library.
func (c *Ctx) timeLayouts() {
	run := c.Run
	type layout struct {
		text, where string
		pos         token.Pos
	}
	var layouts []layout
	if hp := c.P.Pkg("helper"); hp != nil {
		for _, name := range hp.Types.Scope().Names() {
			cst, ok := hp.Types.Scope().Lookup(name).(*types.Const)
			if !ok || cst.Val().Kind() != constant.String {
				continue
			}
			v := constant.StringVal(cst.Val())
			if strings.Contains(name, "Format") && strings.Contains(v, "2006") {
				layouts = append(layouts, layout{v, "helper." + name, cst.Pos()})
			}
		}
	}
	for _, pk := range c.P.Pkgs {
		for _, f := range pk.Syntax {
			if strings.HasSuffix(c.P.Fset.Position(f.Pos()).Filename, "_test.go") {
				continue
			}
			ast.Inspect(f, func(n ast.Node) bool {
				fld, ok := n.(*ast.Field)
				if !ok || fld.Tag == nil {
					return true
				}
				tv, err := strconv.Unquote(fld.Tag.Value)
				if err != nil {
					return true
				}
				if v, has := reflect.StructTag(tv).Lookup("format"); has {
					name := "field"
					if len(fld.Names) > 0 {
						name = fld.Names[0].Name
					}
					layouts = append(layouts, layout{v, load.RelPkg(pk.PkgPath) + " tag of " + name, fld.Pos()})
				}
				return true
			})
		}
	}
	base := time.Date(2023, time.November, 28, 7, 14, 9, 0, time.UTC)
	type probe struct {
		what     string
		near     time.Time // differs from base in the field, by one unit
		far      time.Time // differs from base in the part of the field a lossy verb drops
		farWhat  string
		lossyFmt string
	}
	probes := []probe{
		{"hour", base.Add(time.Hour), base.Add(12 * time.Hour), "07:14 and 19:14", "a 12-hour clock without AM/PM"},
		{"year", base.AddDate(1, 0, 0), base.AddDate(-100, 0, 0), "1923 and 2023", "a two-digit year"},
	}
	for _, l := range layouts {
		run.Count("time_layouts", 1)
		why := ""
		for _, p := range probes {
			carries := base.Format(l.text) != p.near.Format(l.text)
			if carries && base.Format(l.text) == p.far.Format(l.text) {
				why = fmt.Sprintf("the layout %q carries the %s but writes %s alike (%s): the value read back is not the value written", l.text, p.what, p.farWhat, p.lossyFmt)
			}
		}
		// what is written parses back with the same layout
		if why == "" {
			if t2, err := time.Parse(l.text, base.Format(l.text)); err != nil {
				why = fmt.Sprintf("a date written with the layout %q does not parse back with it: %v", l.text, err)
			} else if t2.Format(l.text) != base.Format(l.text) {
				why = fmt.Sprintf("a date written with the layout %q reads back as a different date", l.text)
			}
		}
		run.Oblige(why == "")
		if why != "" {
			c.violate("codec-agreement/time", l.where, "layout "+l.text, l.pos, why)
		}
	}
	run.Floor("time_layouts", 2)
}

var floatFormatTerm = regexp.MustCompile(`strconv\.FormatFloat\(method\.Float\(param#0\), \d+, -1, lookup\(load\(global:\w+\), method\.Kind\(param#0\)\)\)`)
var timeFormatTerm = regexp.MustCompile(`method\.Format\(assert:time\.Time\(method\.Interface\(param#0\)\), param#1\)`)

// parseThenSet: in the functions behind setReflectValue that parse a number or a boolean, the
// parsed value is stored into the field exactly on the paths on which the parse succeeded (SSA
// path summaries: a path that calls reflect's Set… carries `err == nil`, a path that does not
// carries its negation).
func (c *Ctx) parseThenSet(set *load.FuncInfo) {
	run := c.Run
	n := 0
	for _, f := range c.family(set) {
		fn := c.ssaFunc(f)
		if fn == nil {
			continue
		}
		parses := false
		for _, t := range c.callTerms(f, "strconv") {
			if strings.HasPrefix(t, "strconv.Parse") {
				parses = true
			}
		}
		// only the functions that call the parser themselves
		own := false
		for _, b := range fn.Blocks {
			for _, in := range b.Instrs {
				if call, ok := in.(*ssa.Call); ok {
					if sc := call.Call.StaticCallee(); sc != nil && sc.Pkg != nil && sc.Pkg.Pkg.Name() == "strconv" && strings.HasPrefix(sc.Name(), "Parse") {
						own = true
					}
				}
			}
		}
		if !parses || !own {
			continue
		}
		n++
		site := "helper." + f.Fn.Name()
		paths, ok := ssaPaths(fn)
		why := ""
		if !ok {
			why = "the function has a loop (undecided, fails closed)"
		}
		sets := 0
		for _, p := range paths {
			hasSet := strings.Contains(p, "call method.Set")
			okErr := strings.Contains(p, "; (nil == ") || strings.HasPrefix(p, "(nil == ") || strings.Contains(p, " == nil)")
			neg := strings.Contains(p, "!(nil == ") || strings.Contains(p, "!(") && strings.Contains(p, "== nil)")
			success := okErr && !neg
			if hasSet {
				sets++
				if !success {
					why = "the parsed value is stored on a path where the parse failed: " + short(p, 160)
				}
			} else if success {
				why = "on a path where the parse succeeded the value is not stored: " + short(p, 160)
			}
		}
		if why == "" && sets == 0 {
			why = "the parsed value is never stored into the field"
		}
		run.Oblige(why == "")
		if why != "" {
			c.violate("codec-agreement/parse-set", site, short(why, 60), f.Decl.Pos(), why)
		}
	}
	run.Count("parse_set_functions", n)
	run.Floor("parse_set_functions", 4)
}

// jsonSeparators: the JSON writer puts one separator BETWEEN the elements. The loop of
// helper.ChanToJSON is read as a guarded command over its one boolean state variable and decided
// on both values of it: in the state the variable has before the loop no separator is written and
// the variable flips; in the other state a separator is written before the element and the
// variable stays. (With the flip missing no separator is ever written: "[12]" for 1, 2.)
func (c *Ctx) jsonSeparators() {
	run := c.Run
	run.Explanation += " The JSON writer's loop is simulated for three iterations from its initial flag or counter: no separator before the first element, exactly one, written first, before each later one."
	fi := c.fn("helper", "", "ChanToJSON")
	if fi == nil {
		return
	}
	info := fi.Pkg.TypesInfo
	site := "helper.ChanToJSON"
	fail := func(detail, msg string, pos token.Pos) {
		run.Oblige(false)
		c.violate("codec-agreement/json-separator", site, detail, pos, msg)
	}
	var loop *ast.RangeStmt
	for _, s := range fi.Decl.Body.List {
		if r, ok := s.(*ast.RangeStmt); ok {
			loop = r
		}
	}
	if loop == nil {
		fail("shape", "the writer no longer has one loop over the channel at the top level of its body (undecided, fails closed)", fi.Decl.Pos())
		return
	}
	var inputs []types.Object
	if id, ok := loop.Key.(*ast.Ident); ok && id.Name != "_" {
		inputs = append(inputs, info.ObjectOf(id))
	}
	m := dtab.FromStmts(info, loop.Body.List, inputs)
	if os.Getenv("VERIF_DEBUG_DTAB") != "" {
		fmt.Fprintf(os.Stderr, "ChanToJSON state=%v reads=%v unsupported=%v\n", m.State, m.Reads, m.Unsupported)
		for _, p := range m.Paths {
			fmt.Fprintf(os.Stderr, "  conds=%v updates=%v effects=%v exit=%s\n", p.Conds, p.Updates, p.Effects, p.Exit)
		}
	}
	if len(m.Unsupported) > 0 {
		fail("shape", "the loop of the writer is not a guarded command ("+m.Unsupported[0]+"; undecided, fails closed)", loop.Pos())
		return
	}
	// the state of the loop: the boolean or integer variables initialised with a constant before
	// it and assigned in it (a "first" flag, a counter)
	env := map[string]sym.Expr{}
	var stateNames []string
	for _, st := range fi.Decl.Body.List {
		as, ok := st.(*ast.AssignStmt)
		if !ok || as.Tok != token.DEFINE || len(as.Lhs) != 1 || len(as.Rhs) != 1 || as.Pos() > loop.Pos() {
			continue
		}
		id, _ := as.Lhs[0].(*ast.Ident)
		if id == nil {
			continue
		}
		isState := false
		for _, sv := range m.State {
			if sv == id.Name {
				isState = true
			}
		}
		tv, has := info.Types[as.Rhs[0]]
		if !isState || !has || tv.Value == nil {
			continue
		}
		switch tv.Value.Kind() {
		case constant.Bool:
			if constant.BoolVal(tv.Value) {
				env[id.Name] = sym.V("#true")
			} else {
				env[id.Name] = sym.V("#false")
			}
			stateNames = append(stateNames, id.Name)
		case constant.Int:
			if v, exact := constant.Int64Val(tv.Value); exact {
				env[id.Name] = sym.N(v)
				stateNames = append(stateNames, id.Name)
			}
		}
	}
	if len(stateNames) == 0 {
		// a separator string that starts empty (`sep := ""; …; sep = ","`) is a third way of
		// telling the first element; strings are outside the guarded-command evaluator, so that
		// form is not decided (no claim) rather than reported
		for _, st := range fi.Decl.Body.List {
			as, ok := st.(*ast.AssignStmt)
			if !ok || as.Tok != token.DEFINE || len(as.Lhs) != 1 || len(as.Rhs) != 1 || as.Pos() > loop.Pos() {
				continue
			}
			if tv, has := info.Types[as.Rhs[0]]; has && tv.Value != nil && tv.Value.Kind() == constant.String {
				if id, isID := as.Lhs[0].(*ast.Ident); isID {
					assignedInLoop := false
					ast.Inspect(loop.Body, func(m ast.Node) bool {
						if a2, isAs := m.(*ast.AssignStmt); isAs {
							for _, l := range a2.Lhs {
								if lid, isL := l.(*ast.Ident); isL && info.ObjectOf(lid) == info.ObjectOf(id) {
									assignedInLoop = true
								}
							}
						}
						return true
					})
					if assignedInLoop {
						run.Count("json_separator_undecided_string_state", 1)
						return
					}
				}
			}
		}
		fail("state", "nothing in the loop of the writer tells the first element from the others (no flag or counter initialised before the loop and changed in it): either every element or none is preceded by a separator", loop.Pos())
		return
	}
	// the separator: the Write calls of the loop whose argument is the one-byte literal ','
	sepText := map[string]bool{}
	ast.Inspect(loop.Body, func(n ast.Node) bool {
		call, ok := n.(*ast.CallExpr)
		if !ok || len(call.Args) != 1 {
			return true
		}
		if cl, isCL := ast.Unparen(call.Args[0]).(*ast.CompositeLit); isCL && len(cl.Elts) == 1 {
			if tv, has := info.Types[cl.Elts[0]]; has && tv.Value != nil {
				if v, exact := constant.Int64Val(constant.ToInt(tv.Value)); exact && v == ',' {
					sepText[exprString(call)] = true
				}
			}
		}
		return true
	})
	mentionsState := func(e sym.Expr) bool {
		vs := map[string]bool{}
		sym.Vars(e, vs)
		for _, nme := range stateNames {
			if vs[nme] {
				return true
			}
		}
		return false
	}
	type step struct {
		seps, others int
		sepFirst     bool
	}
	// three iterations from the initial state
	var steps []step
	why := ""
	for k := 0; k < 3 && why == ""; k++ {
		var falls []*dtab.Path
		for _, p := range m.Paths {
			if p.Exit != "fall" && p.Exit != "continue" {
				continue
			}
			take := true
			for _, cnd := range p.Conds {
				if !mentionsState(cnd) {
					continue // success of a write: the iteration that goes on is the one analysed
				}
				val, ok := dtab.EvalBool(cnd, env, numOracle)
				if !ok {
					why = "a condition of the loop on its state is undecided (fails closed): " + short(sym.String(cnd), 40)
				} else if !val {
					take = false
				}
			}
			if take {
				falls = append(falls, p)
			}
		}
		if why != "" {
			break
		}
		if len(falls) != 1 {
			why = fmt.Sprintf("%d ways through iteration %d that go on (undecided, fails closed)", len(falls), k+1)
			break
		}
		p := falls[0]
		st := step{}
		// a call with two results is recorded once per result: consecutive repeats are one call
		var effects []string
		for i, e := range p.Effects {
			if i == 0 || p.Effects[i-1] != e {
				effects = append(effects, e)
			}
		}
		for i, e := range effects {
			if sepText[e] {
				st.seps++
				if i == 0 {
					st.sepFirst = true
				}
			} else {
				st.others++
			}
		}
		steps = append(steps, st)
		next := map[string]sym.Expr{}
		for _, nme := range stateNames {
			next[nme] = env[nme]
			u, has := p.Updates[nme]
			if !has {
				continue
			}
			switch sym.String(u) {
			case "#true", "#false":
				next[nme] = u
			default:
				v, ok := evalRat(u, env)
				if !ok {
					why = "the new value of " + nme + " is undecided (fails closed): " + short(sym.String(u), 40)
				} else {
					next[nme] = sym.Num{V: v}
				}
			}
		}
		env = next
	}
	run.Count("json_separator_iterations", len(steps))
	switch {
	case why != "":
	case len(sepText) == 0:
		why = "no write of the separator ',' is left in the loop"
	case steps[0].seps != 0:
		why = "a separator is written before the first element"
	case steps[1].seps == 0 || steps[2].seps == 0:
		why = "no separator is written before the second or the third element"
	case steps[1].seps != 1 || steps[2].seps != 1:
		why = "more than one separator is written between two elements"
	case !steps[1].sepFirst || !steps[2].sepFirst || steps[1].others == 0:
		why = "the separator does not precede the element it separates"
	case steps[1].others != steps[0].others || steps[2].others != steps[0].others:
		why = "the first and the later iterations write different things besides the separator"
	}
	run.Oblige(why == "")
	if why != "" {
		c.violate("codec-agreement/json-separator", site, short(why, 60), loop.Pos(), "the JSON writer must put exactly one ',' between consecutive elements: "+why)
	}
}

// columnTable: the codec has one column descriptor per field of the row type. Where the table is
// created with a length (`make([]csvColumn, L)`) and filled by position, L is the bound of the
// loop that fills it, that loop runs over 0 <= i < NumField() in steps of one, and slot i gets
// the descriptor of field i. (A table of another length writes cells that belong to no field,
// or leaves fields out of the file.)
func (c *Ctx) columnTable() {
	run := c.Run
	run.Explanation += " The column table of the CSV codec has one descriptor per field of the row type, slot i for field i."
	fi := c.fn("helper", "", "NewCsv")
	if fi == nil {
		return
	}
	info := fi.Pkg.TypesInfo
	site := "helper.NewCsv"
	n := 0
	for _, member := range c.family(fi) {
		body := member.Decl.Body
		if body == nil {
			continue
		}
		resolve := func(e ast.Expr) ast.Expr {
			o, _ := c.origin(info, member.Decl, e, 0)
			return o
		}
		for i, st := range body.List {
			as, ok := st.(*ast.AssignStmt)
			if !ok || len(as.Lhs) != 1 || len(as.Rhs) != 1 || !isColumnSlice(info.TypeOf(as.Lhs[0])) {
				continue
			}
			mk, ok := ast.Unparen(as.Rhs[0]).(*ast.CallExpr)
			if !ok || len(mk.Args) < 2 {
				continue
			}
			if id, isID := mk.Fun.(*ast.Ident); !isID || id.Name != "make" {
				continue
			}
			if v, isC := constInt(info, mk.Args[1]); isC && v == 0 {
				continue // created empty and appended to: positions follow the loop
			}
			n++
			why := ""
			var loop *ast.ForStmt
			ranged := false
			for _, later := range body.List[i+1:] {
				if f, isFor := later.(*ast.ForStmt); isFor {
					loop = f
					break
				}
				// `for i := range table` / `for i := range NumField()`: every slot once, by its key
				if r, isR := later.(*ast.RangeStmt); isR && r.Value == nil {
					if exprString(r.X) == exprString(as.Lhs[0]) || isNumFieldCall(resolve(r.X)) {
						ranged = true
						break
					}
				}
			}
			if ranged {
				if !isNumFieldCall(resolve(mk.Args[1])) {
					run.Oblige(false)
					c.violate("codec-agreement/column-table", site, "slots", as.Pos(), "one column descriptor per field of the row type: the table is created with "+exprString(mk.Args[1])+" slots, not NumField()")
				} else {
					run.Oblige(true)
				}
				continue
			}
			isNumField := isNumFieldCall
			switch {
			case loop == nil || loop.Cond == nil || loop.Init == nil || loop.Post == nil:
				why = "no counted loop fills the table (undecided, fails closed)"
			case !isNumField(resolve(mk.Args[1])):
				why = "the table is created with " + exprString(mk.Args[1]) + " slots, not one per field (NumField())"
			default:
				be, isBin := ast.Unparen(loop.Cond).(*ast.BinaryExpr)
				init, isInit := loop.Init.(*ast.AssignStmt)
				post, isPost := loop.Post.(*ast.IncDecStmt)
				if !isBin || be.Op != token.LSS || !isInit || !isPost || post.Tok != token.INC || len(init.Lhs) != 1 || len(init.Rhs) != 1 {
					why = "the loop that fills the table is not `for i := 0; i < NumField(); i++` (undecided, fails closed)"
					break
				}
				iv, _ := init.Lhs[0].(*ast.Ident)
				start, isC := constInt(info, init.Rhs[0])
				switch {
				case iv == nil || !isC || start != 0:
					why = "the loop that fills the table does not start at field 0"
				case exprString(resolve(be.Y)) != exprString(resolve(mk.Args[1])) || exprString(be.X) != iv.Name || exprString(post.X) != iv.Name:
					why = "the loop that fills the table runs to " + exprString(be.Y) + ", the table has " + exprString(mk.Args[1]) + " slots"
				default:
					// slot i <- descriptor with FieldIndex i
					stores := 0
					ast.Inspect(loop.Body, func(m ast.Node) bool {
						a2, ok := m.(*ast.AssignStmt)
						if !ok || len(a2.Lhs) != 1 || len(a2.Rhs) != 1 {
							return true
						}
						ix, ok := a2.Lhs[0].(*ast.IndexExpr)
						if !ok || exprString(ix.X) != exprString(as.Lhs[0]) {
							return true
						}
						stores++
						if exprString(ix.Index) != iv.Name {
							why = "the descriptor is stored at " + exprString(ix.Index) + ", not at the field's own position"
						}
						if cl, isCL := ast.Unparen(a2.Rhs[0]).(*ast.CompositeLit); isCL {
							for _, el := range cl.Elts {
								if kv, isKV := el.(*ast.KeyValueExpr); isKV {
									if k, isID := kv.Key.(*ast.Ident); isID && k.Name == "FieldIndex" && exprString(kv.Value) != iv.Name {
										why = "the descriptor at position " + iv.Name + " describes field " + exprString(kv.Value)
									}
								}
							}
						}
						return true
					})
					if stores == 0 && why == "" {
						why = "the loop does not store a descriptor into the table"
					}
				}
			}
			run.Oblige(why == "")
			if why != "" {
				c.violate("codec-agreement/column-table", site, short(why, 60), as.Pos(), "one column descriptor per field of the row type, slot i for field i: "+why)
			}
		}
	}
	run.Count("csv_column_tables", n)
}

func isNumFieldCall(e ast.Expr) bool {
	call, ok := ast.Unparen(e).(*ast.CallExpr)
	if !ok || len(call.Args) != 0 {
		return false
	}
	sel, ok := call.Fun.(*ast.SelectorExpr)
	return ok && sel.Sel.Name == "NumField"
}

// headerKeys: the reader finds a column by looking its declared name up in a map built from the
// file's header row; the writer emits the declared name as it is. Both sides of the map must
// therefore use the same function of the name: the key stored for a file header and the key
// looked up for a column are both the raw string, or both go through the same call. (Trimming
// only the file's side loses every column whose declared name has blanks at its ends.)
func (c *Ctx) headerKeys() {
	run := c.Run
	run.Explanation += " The header map of the CSV reader is stored and looked up under the same function of the column name."
	// rooted at the exported reader: the map lives in an unexported helper of it today
	fi := c.fn("helper", "Csv", "ReadFromReader")
	if fi == nil {
		return
	}
	info := fi.Pkg.TypesInfo
	type use struct {
		wrapper string
		pos     token.Pos
		text    string
	}
	var stores, lookups []use
	for _, member := range c.family(fi) {
		if member.Decl.Body == nil {
			continue
		}
		lhs := map[ast.Expr]bool{}
		ast.Inspect(member.Decl.Body, func(nd ast.Node) bool {
			if as, ok := nd.(*ast.AssignStmt); ok {
				for _, l := range as.Lhs {
					lhs[ast.Unparen(l)] = true
				}
			}
			return true
		})
		ast.Inspect(member.Decl.Body, func(nd ast.Node) bool {
			ix, ok := nd.(*ast.IndexExpr)
			if !ok {
				return true
			}
			mt, isMap := info.TypeOf(ix.X).Underlying().(*types.Map)
			if !isMap || !types.Identical(mt.Key(), types.Typ[types.String]) {
				return true
			}
			if b, isB := mt.Elem().Underlying().(*types.Basic); !isB || b.Kind() != types.Int {
				return true
			}
			key, _ := c.origin(info, member.Decl, ix.Index, 0)
			w := ""
			if call, isCall := ast.Unparen(key).(*ast.CallExpr); isCall {
				w = calleeName(info, call)
				if w == "" {
					w = exprString(call.Fun)
				}
			}
			u := use{w, ix.Pos(), exprString(ix.Index)}
			if lhs[ix] {
				stores = append(stores, u)
			} else {
				lookups = append(lookups, u)
			}
			return true
		})
	}
	run.Count("header_map_uses", len(stores)+len(lookups))
	run.Floor("header_map_uses", 2)
	why := ""
	var at token.Pos
	for _, s := range stores {
		for _, l := range lookups {
			if s.wrapper != l.wrapper && why == "" {
				sw, lw := s.wrapper, l.wrapper
				if sw == "" {
					sw = "the raw string"
				}
				if lw == "" {
					lw = "the raw string"
				}
				why = fmt.Sprintf("the file's header is stored under %s (%s), the column's name is looked up as %s (%s)", sw, s.text, lw, l.text)
				at = s.pos
			}
		}
	}
	run.Oblige(why == "")
	if why != "" {
		c.violate("codec-agreement/header-keys", load.FuncName(fi.Fn), "key functions differ", at, "the header map must be stored and looked up under the same function of the name: "+why+": a column whose declared name the two sides render differently is written but never found again")
	}
}
