package rules

import (
	"fmt"
	"go/ast"
	"go/token"
	"go/types"
	"math/big"
	"regexp"
	"sort"
	"strings"
	"verif/checker/internal/shape"

	"verif/checker/internal/load"
)

// Default-constant wiring: the documented default configuration is spelled as named constants
// (DefaultMacdPeriod1, DefaultPpoShortPeriod, ...). Wherever such a constant is handed to a
// parameter or a field, the role words of the constant's name (Fast, Slow, Short, Signal, 1, 2,
// ...) must be those of the parameter/field it initialises; a copy-paste slip (the Slow parameter
// fed from the Medium constant) compiles, passes every test that uses explicit periods, and
// silently changes the default strategy.

var roleVocabulary = []string{"Fast", "Slow", "Medium", "Short", "Long", "Signal", "Conversion", "Base", "Leading", "Lagging",
	"First", "Second", "Third", "Er", "Buy", "Sell", "Jaw", "Teeth", "Lip", "Max", "Min", "Upper", "Lower", "Down", "Multiplier", "Percentage", "Smoothing"}

var camel = regexp.MustCompile(`[A-Z][a-z0-9]*|[a-z0-9]+`)

func roleWords(name string) map[string]bool {
	out := map[string]bool{}
	for _, tok := range camel.FindAllString(name, -1) {
		t := strings.ToUpper(tok[:1]) + strings.ToLower(tok[1:])
		// trailing digit: Period1 -> role "1"
		for len(t) > 0 && t[len(t)-1] >= '0' && t[len(t)-1] <= '9' {
			out[t[len(t)-1:]] = true
			t = t[:len(t)-1]
		}
		for _, v := range roleVocabulary {
			if t == v {
				out[v] = true
			}
		}
	}
	return out
}

func rolesString(m map[string]bool) string {
	var ks []string
	for k := range m {
		ks = append(ks, k)
	}
	sort.Strings(ks)
	return "{" + strings.Join(ks, ",") + "}"
}

// defaultsWiring checks the packages whose relative path has one of the given prefixes.
func (c *Ctx) defaultsWiring(rule string, prefixes ...string) {
	run := c.Run
	run.Floor("documented_default_values", 5)
	c.defaultsUsed(rule, prefixes...)
	for _, pk := range c.P.Pkgs {
		rel := load.RelPkg(pk.PkgPath)
		match := false
		for _, p := range prefixes {
			if rel == p || strings.HasPrefix(rel, p+"/") {
				match = true
			}
		}
		if !match {
			continue
		}
		info := pk.TypesInfo
		for _, f := range pk.Syntax {
			if strings.HasSuffix(c.P.Fset.Position(f.Pos()).Filename, "_test.go") {
				continue
			}
			c.documentedDefaults(rule, rel, info, f)
			check := func(constExpr ast.Expr, dest string, pos ast.Node) {
				id := constIdentOf(constExpr)
				if id == nil {
					return
				}
				cst, ok := info.Uses[id].(*types.Const)
				if !ok || !strings.HasPrefix(cst.Name(), "Default") {
					return
				}
				cr, dr := roleWords(strings.TrimPrefix(cst.Name(), "Default")), roleWords(dest)
				// role words that are part of the owning type's name (DefaultMinMax..., MovingMax) do not count
				run.Count("default_constant_uses", 1)
				ok = true
				if len(cr) == 0 || len(dr) == 0 {
					// a generic constant (one period for Max and Min) or a generic destination
					// (`period` of NewEmaWithPeriod) carries no role to disagree about
					run.Oblige(true)
					return
				}
				for r := range cr {
					if !dr[r] && !strings.Contains(cst.Name(), "And") && !typeWord(cst.Name(), r) {
						ok = false
					}
				}
				run.Oblige(ok)
				if !ok {
					c.violate(rule, rel+"."+cst.Name(), "-> "+dest, pos.Pos(), fmt.Sprintf("the default constant %s (roles %s) initialises `%s` (roles %s): the documented default configuration is wired to the wrong parameter", cst.Name(), rolesString(cr), dest, rolesString(dr)))
				}
			}
			ast.Inspect(f, func(n ast.Node) bool {
				switch x := n.(type) {
				case *ast.CallExpr:
					if tv, ok := info.Types[x.Fun]; ok && tv.IsType() {
						return true
					}
					sig, _ := info.TypeOf(x.Fun).(*types.Signature)
					if sig == nil {
						return true
					}
					for i, a := range x.Args {
						if i >= sig.Params().Len() {
							break
						}
						check(unwrapConv(info, a), sig.Params().At(i).Name(), a)
					}
					// an argument that carries the name of ANOTHER parameter of the callee is in the wrong
					// position (NewKamaWith(fastScPeriod, erPeriod, ..) for (erPeriod, fastScPeriod, ..))
					if fn := callee(info, x); fn != nil && fn.Pkg() != nil && strings.HasPrefix(fn.Pkg().Path(), load.ModulePath) {
						pidx := map[string]int{}
						for i := 0; i < sig.Params().Len(); i++ {
							if nm := sig.Params().At(i).Name(); nm != "" && nm != "_" {
								pidx[nm] = i
							}
						}
						for i, a := range x.Args {
							if i >= sig.Params().Len() || (sig.Variadic() && i >= sig.Params().Len()-1) {
								break
							}
							id, isID := unwrapConv(info, a).(*ast.Ident)
							if !isID {
								continue
							}
							j, named := pidx[id.Name]
							if !named {
								continue
							}
							run.Count("named_arguments", 1)
							good := j == i || !types.Identical(sig.Params().At(i).Type(), sig.Params().At(j).Type())
							run.Oblige(good)
							if !good {
								c.violate(rule, rel+"."+fn.Name(), "argument "+id.Name, a.Pos(), fmt.Sprintf("`%s` is passed as the parameter `%s` of %s, which has a parameter named `%s` of the same type at another position: the two configuration values are swapped", id.Name, sig.Params().At(i).Name(), fn.Name(), id.Name))
							}
						}
					}
				case *ast.CompositeLit:
					for _, el := range x.Elts {
						kv, ok := el.(*ast.KeyValueExpr)
						if !ok {
							continue
						}
						key, ok := kv.Key.(*ast.Ident)
						if !ok {
							continue
						}
						v := unwrapConv(info, kv.Value)
						check(v, key.Name, kv)
						// Field: NewSmaWithPeriod(DefaultXShortPeriod): the single argument initialises the field
						if call, ok := v.(*ast.CallExpr); ok && len(call.Args) == 1 {
							check(unwrapConv(info, call.Args[0]), key.Name, kv)
						}
					}
				}
				return true
			})
		}
	}
}

// typeWord: the role word r occurs in the constant's name only as part of the type it belongs to
// (DefaultMovingMaxPeriod: "Max" is the indicator's name, not a role of the parameter).
func typeWord(constName, r string) bool {
	for _, t := range []string{"MovingMax", "MovingMin", "MinMax", "StopLoss", "NoLoss", "SuperTrend", "UlcerIndex", "DownDays"} {
		if strings.Contains(constName, t) && strings.Contains(t, r) {
			return true
		}
	}
	return false
}

func constIdentOf(e ast.Expr) *ast.Ident {
	switch x := e.(type) {
	case *ast.Ident:
		return x
	case *ast.SelectorExpr:
		return x.Sel
	}
	return nil
}

func unwrapConv(info *types.Info, e ast.Expr) ast.Expr {
	for {
		switch x := e.(type) {
		case *ast.ParenExpr:
			e = x.X
			continue
		case *ast.CallExpr:
			if tv, ok := info.Types[x.Fun]; ok && tv.IsType() && len(x.Args) == 1 {
				e = x.Args[0]
				continue
			}
		}
		return e
	}
}

// constructorParameters: every named parameter of an exported constructor (New…) of the given
// packages reaches the object it builds: it is mentioned in the body. A With-constructor that
// ignores one of its arguments builds the default configuration for that part whatever the
// caller asked for.
func (c *Ctx) constructorParameters(rule string, prefixes ...string) {
	run := c.Run
	n := 0
	for _, pk := range c.P.Pkgs {
		rel := load.RelPkg(pk.PkgPath)
		match := false
		for _, p := range prefixes {
			if rel == p || strings.HasPrefix(rel, p+"/") {
				match = true
			}
		}
		if !match {
			continue
		}
		info := pk.TypesInfo
		for _, f := range pk.Syntax {
			if strings.HasSuffix(c.P.Fset.Position(f.Pos()).Filename, "_test.go") {
				continue
			}
			for _, d := range f.Decls {
				fd, ok := d.(*ast.FuncDecl)
				if !ok || fd.Body == nil || fd.Recv != nil || !strings.HasPrefix(fd.Name.Name, "New") || !fd.Name.IsExported() || fd.Type.Params == nil {
					continue
				}
				for _, fl := range fd.Type.Params.List {
					for _, nm := range fl.Names {
						if nm.Name == "_" {
							continue
						}
						obj := info.ObjectOf(nm)
						n++
						used := false
						ast.Inspect(fd.Body, func(m ast.Node) bool {
							if id, ok := m.(*ast.Ident); ok && info.Uses[id] == obj {
								used = true
							}
							return !used
						})
						run.Oblige(used)
						if !used {
							c.violate(rule, rel+"."+fd.Name.Name, "parameter "+nm.Name, nm.Pos(), fd.Name.Name+" does not use its parameter "+nm.Name+": the object it returns has the default there, whatever the caller passes")
						}
						// ... and reaches it as given: a numeric parameter is handed on, stored or
						// returned verbatim, not through arithmetic, a comparison, min/max or a
						// conversion (a constructor that "normalises" the periods it is given
						// builds another configuration than the one documented for its arguments).
						if b, isBasic := obj.Type().Underlying().(*types.Basic); !isBasic || b.Info()&types.IsNumeric == 0 {
							continue
						}
						if why, derived := derivedParameters[rel+"."+fd.Name.Name+"."+nm.Name]; derived {
							_ = why
							continue
						}
						var stack []ast.Node
						ast.Inspect(fd.Body, func(m ast.Node) bool {
							if m == nil {
								stack = stack[:len(stack)-1]
								return true
							}
							stack = append(stack, m)
							id, ok := m.(*ast.Ident)
							if !ok || info.Uses[id] != obj || len(stack) < 2 {
								return true
							}
							how := ""
							switch x := stack[len(stack)-2].(type) {
							case *ast.BinaryExpr:
								how = "the expression " + short(exprString(x), 40)
							case *ast.UnaryExpr:
								how = "the expression " + short(exprString(x), 40)
							case *ast.IncDecStmt:
								how = "an increment"
							case *ast.AssignStmt:
								for _, l := range x.Lhs {
									if l == ast.Expr(id) {
										how = "an assignment to the parameter"
									}
								}
							case *ast.CallExpr:
								if x.Fun != ast.Expr(id) {
									switch fo := info.Uses[calleeIdent(x.Fun)].(type) {
									case *types.Builtin:
										how = fo.Name() + "(…)"
									case *types.TypeName:
										how = "a conversion to " + fo.Name()
									}
								}
							}
							run.Oblige(how == "")
							if how != "" {
								c.violate(rule, rel+"."+fd.Name.Name, "parameter "+nm.Name+" altered", id.Pos(), fd.Name.Name+" passes its parameter "+nm.Name+" through "+how+": the object it builds is configured with another value than the one the caller gave and the documentation describes")
							}
							return true
						})
					}
				}
			}
		}
	}
	run.Count("constructor_parameters", n)
}

// derivedParameters: constructors whose documentation derives sub-periods from the parameter.
var derivedParameters = map[string]string{
	"trend.NewHmaWithPeriod.period": "HMA = WMA(2*WMA(period/2) - WMA(period), sqrt(period)): the halves and the root are the documented sub-periods (decided by formula/derived-period)",
}

func calleeIdent(e ast.Expr) *ast.Ident {
	switch x := ast.Unparen(e).(type) {
	case *ast.Ident:
		return x
	case *ast.SelectorExpr:
		return x.Sel
	case *ast.IndexExpr:
		return calleeIdent(x.X)
	}
	return nil
}

var statedDefault = regexp.MustCompile(`\bof (-?[0-9]+(?:\.[0-9]+)?)\s*(%?)\.?\s*$`)

// documentedDefaults: a default constant whose own comment states its value ("... is the default
// EMA period of 255.") has that value. The comment (repeated in the generated README) is the
// documented default configuration; the constant is what the default constructor uses.
func (c *Ctx) documentedDefaults(rule, rel string, info *types.Info, f *ast.File) {
	run := c.Run
	for _, d := range f.Decls {
		gd, ok := d.(*ast.GenDecl)
		if !ok || gd.Tok != token.CONST {
			continue
		}
		for _, sp := range gd.Specs {
			vs, ok := sp.(*ast.ValueSpec)
			if !ok || len(vs.Names) != 1 || !strings.HasPrefix(vs.Names[0].Name, "Default") {
				continue
			}
			doc := vs.Doc
			if doc == nil && len(gd.Specs) == 1 {
				doc = gd.Doc
			}
			if doc == nil {
				continue
			}
			text := strings.TrimSpace(doc.Text())
			m := statedDefault.FindStringSubmatch(text)
			if m == nil || !strings.HasPrefix(text, vs.Names[0].Name) {
				continue
			}
			cst, ok := info.Defs[vs.Names[0]].(*types.Const)
			if !ok {
				continue
			}
			want, okw := new(big.Rat).SetString(m[1])
			got, okg := new(big.Rat).SetString(cst.Val().ExactString())
			if !okw || !okg {
				continue
			}
			run.Count("documented_default_values", 1)
			good := want.Cmp(got) == 0
			if !good && m[2] == "%" {
				// "of 20%" for a fraction 0.2
				good = new(big.Rat).Mul(got, big.NewRat(100, 1)).Cmp(want) == 0
			}
			run.Oblige(good)
			if !good {
				c.violate(rule, rel+"."+cst.Name(), "documented "+m[1]+m[2], vs.Pos(), fmt.Sprintf("the constant %s is %s, its documentation says %s%s: the default constructor no longer builds the documented default configuration", cst.Name(), cst.Val().String(), m[1], m[2]))
			}
		}
	}
}

// defaultsUsed: every exported Default… constant of the packages is referred to by non-test code
// of the module. The constants are the documented default configuration; one that nothing uses
// any more means that the default constructor takes its value from somewhere else (a
// sub-indicator's own default, a literal).
func (c *Ctx) defaultsUsed(rule string, prefixes ...string) {
	run := c.Run
	used := map[types.Object]bool{}
	for _, pk := range c.P.Pkgs {
		for id, obj := range pk.TypesInfo.Uses {
			if _, isC := obj.(*types.Const); !isC || !strings.HasPrefix(obj.Name(), "Default") {
				continue
			}
			if strings.HasSuffix(c.P.Fset.Position(id.Pos()).Filename, "_test.go") {
				continue
			}
			used[obj] = true
		}
	}
	n := 0
	for _, pk := range c.P.Pkgs {
		rel := load.RelPkg(pk.PkgPath)
		match := false
		for _, p := range prefixes {
			if rel == p || strings.HasPrefix(rel, p+"/") {
				match = true
			}
		}
		if !match {
			continue
		}
		sc := pk.Types.Scope()
		for _, name := range sc.Names() {
			cst, ok := sc.Lookup(name).(*types.Const)
			if !ok || !strings.HasPrefix(name, "Default") || !cst.Exported() {
				continue
			}
			if strings.HasSuffix(c.P.Fset.Position(cst.Pos()).Filename, "_test.go") {
				continue
			}
			n++
			run.Oblige(used[cst])
			if !used[cst] {
				c.violate(rule, rel+"."+name, "unused default", cst.Pos(), "the documented default "+name+" is not used by any code of the module: the default constructor takes this part of the configuration from somewhere else")
			}
		}
	}
	run.Count("default_constants", n)
}

// documentedAverages: where a type holds its moving average behind the trend.Ma interface, the
// constructors that do not take the average as an argument choose it, and the documentation says
// which one ("By default, SMA is used as the MA"; TSI = EMA(13, EMA(25, PC)) / …; Envelope "using
// SMA" / "using EMA"). The formula check treats an Ma field as any average; this table (frozen
// from the doc comments, one line each) pins the choice. The objects are built by the shape
// interpreter from the constructors' source; SMMA for SMA type-checks, has the same warm-up and
// the same first value.
var documentedAverages = []struct{ rel, ctor, field, want, why string }{
	{"volatility", "NewAtr", "Ma", "trend.Sma", "Atr: \"By default, SMA is used as the MA\""},
	{"volatility", "NewAtrWithPeriod", "Ma", "trend.Sma", "Atr: \"By default, SMA is used as the MA\""},
	{"trend", "NewTsi", "FirstSmoothing", "trend.Ema", "TSI = (EMA(13, EMA(25, PC)) / EMA(13, EMA(25, |PC|))) * 100"},
	{"trend", "NewTsi", "SecondSmoothing", "trend.Ema", "TSI = (EMA(13, EMA(25, PC)) / EMA(13, EMA(25, |PC|))) * 100"},
	{"trend", "NewTsiWith", "FirstSmoothing", "trend.Ema", "TSI = (EMA(13, EMA(25, PC)) / EMA(13, EMA(25, |PC|))) * 100"},
	{"trend", "NewTsiWith", "SecondSmoothing", "trend.Ema", "TSI = (EMA(13, EMA(25, PC)) / EMA(13, EMA(25, |PC|))) * 100"},
	{"trend", "NewEnvelopeWithSma", "Ma", "trend.Sma", "\"initalizes a new Envelope instance using SMA\""},
	{"trend", "NewEnvelopeWithEma", "Ma", "trend.Ema", "\"initializes a new Envelope instance using EMA\""},
}

func (c *Ctx) documentedAveragesRule(rule string) {
	run := c.Run
	run.Explanation += " Where a type keeps its moving average behind the trend.Ma interface, the constructors that choose it choose the documented one (table of 8, objects built by the shape interpreter)."
	n := 0
	for _, e := range documentedAverages {
		fi := c.fn(e.rel, "", e.ctor)
		if fi == nil {
			continue
		}
		n++
		it := shape.NewInterp(c.P, shape.ModeContracts)
		got, decided := "", false
		for _, r := range it.AnalyzeRoot(fi) {
			obj, ok := r.Ret.(*shape.Object)
			if !ok || obj == nil {
				continue
			}
			if cell := obj.Fields[e.field]; cell != nil {
				if inner, isObj := cell.V.(*shape.Object); isObj && inner != nil {
					got, decided = inner.TypeName(), true
				}
			}
		}
		good := decided && got == e.want
		run.Oblige(good)
		if !good {
			what := "holds a " + got
			if !decided {
				what = "could not be determined (undecided, fails closed)"
			}
			c.violate(rule, e.rel+"."+e.ctor, "average "+e.field, fi.Decl.Pos(), fmt.Sprintf("the %s of the object %s builds %s; documented: %s (%s)", e.field, e.ctor, what, e.want, e.why))
		}
	}
	run.Count("documented_averages", n)
	run.Floor("documented_averages", 8)
}
