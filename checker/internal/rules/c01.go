package rules

import (
	"fmt"
	"strings"

	"verif/checker/internal/lin"
	"verif/checker/internal/load"
	"verif/checker/internal/report"
	"verif/checker/internal/shape"
)

// intrinsicOffsets is the table of joins whose operands are deliberately
// anchored at different positions because the documented formula refers to an
// earlier element (frozen, one reason per line). The value is the expected skew
// as an expression over the owner's configuration symbols.
var intrinsicOffsets = map[string]struct{ Skew, Why string }{
	"trend.(*MovingSum).Compute/helper.Operate#1":               {"Period", "sliding window: add the new element, remove the one that left the window (Period positions back)"},
	"trend.(*MovingMax).Compute/helper.Operate#1":               {"Period", "sliding window: insert the new element, remove the one Period positions back"},
	"trend.(*MovingMin).Compute/helper.Operate#1":               {"Period", "sliding window: insert the new element, remove the one Period positions back"},
	"helper.Change/Subtract#1":                                  {"before", "c[i] - c[i-before]"},
	"helper.ChangeRatio/Divide#1":                               {"before", "(c[i] - c[i-before]) / c[i-before]"},
	"volatility.(*Atr).Compute/helper.Operate3#1":               {"1", "true range uses the previous close"},
	"strategy/trend.(*ApoStrategy).Compute/helper.Operate#1":    {"1", "zero-line cross-over: previous vs current APO"},
	"strategy/trend.(*QstickStrategy).Compute/helper.Operate#1": {"1", "zero-line cross-over: previous vs current Qstick"},
}

// joinSkew examines one join; it returns ok, the skew text and whether it matched the intrinsic table.
func (c *Ctx) checkJoin(prop string, r *shape.Result, st *shape.Stage) {
	run := c.Run
	var ins []*shape.StageIn
	for _, in := range st.Ins {
		if in.InLoop && in.LeadAt != nil {
			ins = append(ins, in)
		}
	}
	if len(ins) < 2 {
		return
	}
	run.Count("joins", 1)
	site := c.joinSite(prop, r, st)
	nonEmpty := lin.C(1)
	if len(st.Outs) > 0 && st.Outs[0].Len != nil {
		nonEmpty = st.Outs[0].Len
	}
	ctxs := ctxsNonEmpty(r.G, nonEmpty)
	// the largest pairwise skew, as an expression
	aligned := true
	var skewText string
	var worst *lin.Expr
	for i := 0; i < len(ins); i++ {
		for j := i + 1; j < len(ins); j++ {
			eq := true
			for _, cx := range ctxs {
				if !lin.ProveEQ(cx, ins[i].LeadAt, ins[j].LeadAt) {
					eq = false
				}
			}
			if !eq {
				aligned = false
				d := lin.Sub(ins[i].LeadAt, ins[j].LeadAt)
				var sd *lin.Expr
				for _, cx := range ctxs {
					s := lin.Simplify(cx, d)
					if sd == nil {
						sd = s
					} else if sd.String() != s.String() {
						sd = d
						break
					}
				}
				if sd == nil {
					sd = d
				}
				// orient positively when decidable
				if lin.ProveGE0(r.G, lin.Neg(sd)) {
					sd = lin.Simplify(r.G, lin.Neg(sd))
				}
				if worst == nil || lin.ProveGE(r.G, sd, worst) {
					worst = sd
				}
			}
		}
	}
	if worst != nil {
		skewText = worst.String()
	}
	key := r.RootName + "/" + st.Construct
	intr, isIntr := intrinsicOffsets[key]
	switch {
	case aligned && !isIntr:
		run.Oblige(true)
		run.Sample(map[string]string{"obligation": "operands of " + site + " are anchored at the same input position", "anchors": leadList(ins), "verdict": "aligned"})
	case aligned && isIntr:
		run.Oblige(false)
		run.Violate(report.Finding{Rule: "join-alignment", Site: site, Detail: "skew 0", Pos: c.P.Pos(st.Pos),
			Message: fmt.Sprintf("the formula prescribes an offset of %s between the operands (%s) but they are anchored at the same position", intr.Skew, intr.Why)})
	case !aligned && isIntr:
		want, err := ParseSpec(intr.Skew, func(n string) *lin.Expr { return lin.V(lin.Sym(n)) })
		ok := err == nil && worst != nil
		if ok {
			for _, cx := range ctxs {
				if !lin.ProveEQ(cx, worst, want) {
					ok = false
				}
			}
		}
		run.Oblige(ok)
		run.Count("intrinsic_joins", 1)
		if !ok {
			run.Violate(report.Finding{Rule: "join-alignment", Site: site, Detail: "skew " + skewText, Pos: c.P.Pos(st.Pos),
				Message: fmt.Sprintf("operands are offset by %s, the documented formula prescribes %s (%s); anchors: %s", skewText, intr.Skew, intr.Why, leadList(ins))})
		}
	case prop == "C01" && func() bool { ok, _ := c.prescribedJoin(r, st); return ok }():
		_, sub := c.prescribedJoin(r, st)
		run.Oblige(true)
		run.Count("formula_prescribed_joins", 1)
		run.Sample(map[string]string{"obligation": "the offset between the operands of " + site + " is the one the documented formula prescribes", "anchors": leadList(ins), "matching sub-term": sub, "verdict": "prescribed"})
	default:
		run.Oblige(false)
		w := Witness(r.G, func(env map[lin.Sym]int64) bool {
			return nonEmpty.Eval(env) >= 1 && worst.Eval(env) != 0
		}, worst, nonEmpty)
		run.Violate(report.Finding{Rule: "join-alignment", Site: site, Detail: "skew " + skewText, Pos: c.P.Pos(st.Pos), Witness: w,
			Message:    fmt.Sprintf("the operands combined at %s refer to different input positions (anchors %s, skew %s): the formula is evaluated on values from different days%s", st.Construct, leadList(ins), skewText, pathNote(r)),
			Derivation: gammaStrings(r)})
	}
}

func leadList(ins []*shape.StageIn) string {
	var parts []string
	for _, in := range ins {
		parts = append(parts, in.S.Name+"@"+in.LeadAt.String())
	}
	return strings.Join(parts, ", ")
}

var helperComposites = []string{"Change", "ChangeRatio", "ChangePercent"}

// CheckC01: join alignment in every indicator.
func CheckC01(c *Ctx) {
	run := c.Run
	run.Technique = "value-term comparison: the calculus derives, for every output of all 61 indicator Compute methods, a term over the input series (delays, sub-indicator operators, arithmetic, inlined stateless closures, running folds); each term is compared as a rational-function normal form with the formula transcribed from the type's doc comment. Loop-free recurrences (EMA, RMA, SMMA, KAMA, moving sum, NVI, OBV) are compared as guarded commands on every ordering of their inputs. Plus the anchor (input position of element 0) of every operand of every join, symbolic in the periods"
	run.Explanation = "Decides the structural part of C01: (1) formula: the composition each indicator computes - which sub-indicators with which periods applied to which inputs, delayed by how many days, combined by which arithmetic and constants - equals the documented formula as an identity of rational functions over uninterpreted operators, for every configuration (periods are symbols); this holds for every input series because both sides are the same function of the series. (2) formula/recurrence: one step of each loop-free recurrence equals the documented update on every sign pattern of its comparisons (ties included). (3) join-alignment: at every element-wise join the operands refer to the same input position unless the documented formula prescribes an offset. NOT decided: the windows kept in the search tree and rings (MovingMax/MovingMin/MovingStd/Wma loop bodies, SuperTrend's selection rule, helper.Since), which are named operators here; warm-up lengths are C02's; floating-point rounding. Further: the sub-periods constructors derive from their parameter (HMA's round(p/2), p, round(sqrt p); TRIMA's two SMA periods for p = 1..12) are the documented ones; every Default constant whose comment states its value has that value and every Default constant is used; named arguments are not swapped; and, after the equality proof, the computed and the documented expression trees are evaluated in float64 at limit points (one denominator atom at +0/-0): where the documented formula has a value the computed one has it too (no NaN from Inf/Inf where the formula has a limit)."
	run.Trusted = []string{"go/types", "formula table rules.FormulaSpecs / recurrenceSpecs transcribed from the doc comments", "intrinsic-offset table (rules.intrinsicOffsets)", "admissibility table Γ", "declared IdlePeriod contracts of sub-indicators (each is C02's obligation)", "Fourier–Motzkin entailment", "normal forms of internal/sym (polynomial arithmetic over big rationals)"}
	roots := IndicatorComputes(c.P)
	run.Count("indicator_computes", len(roots))
	run.Floor("indicator_computes", 61)
	for _, fi := range roots {
		for _, r := range c.Results(fi, Opts{Mode: shape.ModeContracts}) {
			c.undecidedToFindings(r, "join-alignment")
			for _, st := range r.Stages {
				if st.Owner == r.RootFrame {
					c.checkJoin("C01", r, st)
				}
			}
			c.fillNeutrality(fi, r)
		}
	}
	run.Floor("filled_closure_inputs", 3)
	for _, h := range helperComposites {
		fi := c.P.Func("helper", h)
		if fi == nil {
			run.Break("anchor missing: helper." + h)
			continue
		}
		for _, r := range c.Results(fi, Opts{Mode: shape.ModeContracts, ParamDomain: map[string]int64{"before": 0}}) {
			c.undecidedToFindings(r, "join-alignment")
			for _, st := range r.Stages {
				if st.Owner == r.RootFrame {
					c.checkJoin("C01", r, st)
				}
			}
		}
	}
	run.Floor("joins", 95)
	run.Floor("intrinsic_joins", 6)
	c.checkFormulas()
	c.defaultsWiring("defaults-wiring", "trend", "momentum", "volatility", "volume")
	c.documentedAveragesRule("formula/default-average")
	c.constructorParameters("defaults-wiring", "trend", "momentum", "volatility", "volume")
	c.derivedPeriods()
	c.trimaPeriods()
	run.Floor("default_constant_uses", 60)
	for k, v := range intrinsicOffsets {
		run.Assume("intrinsic offset " + k + " = " + v.Skew + ": " + v.Why)
	}
	_ = load.ModulePath
}
