package rules

import (
	"fmt"
	"hash/fnv"
	"sort"
	"strings"

	"verif/checker/internal/load"
	"verif/checker/internal/report"
	"verif/checker/internal/shape"
	"verif/checker/internal/sym"
)

// decisionSpec is the documented decision rule of a base strategy: ordered (action, condition)
// pairs, Hold otherwise. Conditions are written over the receiver's indicator objects applied to
// price fields (Open, High, Low, Close, Volume), prev(x) for the previous position, the receiver's
// configuration fields and numbers.
type decisionSpec struct {
	Type  string // package-name-qualified strategy type as printed by Object.TypeName
	Rules [][2]string
	Doc   string
}

// DecisionSpecs is the frozen table (one line of reason each, taken from the type's doc comment;
// where the comment only says "crossing above/below" the level test below is the documented
// reading the rest of the library uses).
var DecisionSpecs = []decisionSpec{
	{"momentum.AwesomeOscillatorStrategy", [][2]string{{"Buy", "AwesomeOscillator(High, Low) > 0"}, {"Sell", "AwesomeOscillator(High, Low) < 0"}}, "AO above zero is bullish, below zero bearish"},
	{"momentum.RsiStrategy", [][2]string{{"Buy", "Rsi(Close) <= BuyAt"}, {"Sell", "Rsi(Close) >= SellAt"}}, "RSI at or below BuyAt is oversold, at or above SellAt overbought"},
	{"momentum.StochasticRsiStrategy", [][2]string{{"Buy", "StochasticRsi(Close) <= BuyAt"}, {"Sell", "StochasticRsi(Close) >= SellAt"}}, "levels at which a Buy / Sell action is generated"},
	{"trend.AlligatorStrategy", [][2]string{{"Buy", "Lip(Close) > Teeth(Close) && Lip(Close) > Jaw(Close)"}, {"Sell", "Lip(Close) < Teeth(Close) && Lip(Close) < Jaw(Close)"}}, "lips above teeth and jaw: uptrend; below both: downtrend"},
	{"trend.ApoStrategy", [][2]string{{"Buy", "Apo(Close) >= 0 && prev(Apo(Close)) < 0"}, {"Sell", "Apo(Close) <= 0 && prev(Apo(Close)) > 0"}}, "APO crossing above zero is bullish, crossing below zero bearish"},
	{"trend.AroonStrategy", [][2]string{{"Buy", "Aroon(High, Low)[0] > Aroon(High, Low)[1]"}, {"Sell", "Aroon(High, Low)[0] < Aroon(High, Low)[1]"}}, "Aroon Up above Aroon Down is bullish, below bearish"},
	{"trend.BopStrategy", [][2]string{{"Buy", "Bop(Open, High, Low, Close) > 0"}, {"Sell", "Bop(Open, High, Low, Close) < 0"}}, "positive BoP: upward trend, negative: downward"},
	{"trend.CciStrategy", [][2]string{{"Buy", "Cci(High, Low, Close) >= 100"}, {"Sell", "Cci(High, Low, Close) <= -100"}}, "CCI above +100 bullish, below -100 bearish"},
	{"trend.DemaStrategy", [][2]string{{"Buy", "Dema1(Close) > Dema2(Close)"}, {"Sell", "Dema2(Close) > Dema1(Close)"}}, "fast DEMA above slow DEMA: bullish cross; slow above fast: bearish"},
	{"trend.EnvelopeStrategy", [][2]string{{"Buy", "Close < Envelope(Close)[2]"}, {"Sell", "Close > Envelope(Close)[0]"}}, "closing above the upper band: Sell; below the lower band: Buy"},
	{"trend.GoldenCrossStrategy", [][2]string{{"Buy", "FastEma(Close) > SlowEma(Close)"}, {"Sell", "FastEma(Close) < SlowEma(Close)"}}, "fast EMA above slow EMA: buy; below: sell"},
	{"trend.KamaStrategy", [][2]string{{"Buy", "Close > Kama(Close)"}, {"Sell", "Close < Kama(Close)"}}, "closing above KAMA bullish, below bearish"},
	{"trend.KdjStrategy", [][2]string{{"Buy", "Kdj(High, Low, Close)[2] > Kdj(High, Low, Close)[0] && Kdj(High, Low, Close)[2] > Kdj(High, Low, Close)[1]"}, {"Sell", "Kdj(High, Low, Close)[2] < Kdj(High, Low, Close)[0] && Kdj(High, Low, Close)[2] < Kdj(High, Low, Close)[1]"}}, "J above both K and D: buy; below both: sell"},
	{"trend.MacdStrategy", [][2]string{{"Buy", "Macd(Close)[0] > Macd(Close)[1] && Macd(Close)[0] < 0"}, {"Sell", "Macd(Close)[1] > Macd(Close)[0] && Macd(Close)[0] > 0"}}, "MACD above the signal line (while below zero): bullish; below it (while above zero): bearish"},
	{"trend.QstickStrategy", [][2]string{{"Buy", "Qstick(Open, Close) >= 0 && prev(Qstick(Open, Close)) < 0"}, {"Sell", "Qstick(Open, Close) <= 0 && prev(Qstick(Open, Close)) > 0"}}, "Qstick crossing above zero: buying pressure; below: selling pressure"},
	{"trend.SmmaStrategy", [][2]string{{"Buy", "ShortSmma(Close) > LongSmma(Close)"}, {"Sell", "ShortSmma(Close) < LongSmma(Close)"}}, "short SMMA above long SMMA bullish, below bearish"},
	{"trend.TrimaStrategy", [][2]string{{"Buy", "Short(Close) > Long(Close)"}, {"Sell", "Short(Close) < Long(Close)"}}, "short TRIMA above long TRIMA: bullish cross; below: bearish"},
	{"trend.TripleMovingAverageCrossoverStrategy", [][2]string{{"Buy", "FastEma(Close) > MediumEma(Close) && FastEma(Close) > SlowEma(Close)"}, {"Sell", "FastEma(Close) < MediumEma(Close) && FastEma(Close) < SlowEma(Close)"}}, "fastest EMA above both others: buy; below both: sell"},
	{"trend.TrixStrategy", [][2]string{{"Buy", "Trix(Close) > 0"}, {"Sell", "Trix(Close) < 0"}}, "TRIX above the zero line bullish, below bearish"},
	{"trend.TsiStrategy", [][2]string{{"Buy", "Tsi(Close) > 0 && Tsi(Close) > Signal(Tsi(Close))"}, {"Sell", "Tsi(Close) < 0 && Tsi(Close) < Signal(Tsi(Close))"}}, "TSI > 0 and TSI > signal line: Buy; TSI < 0 and TSI < signal line: Sell"},
	{"trend.VwmaStrategy", [][2]string{{"Buy", "Vwma(Close, Volume) > Sma(Close)"}, {"Sell", "Vwma(Close, Volume) < Sma(Close)"}}, "VWMA above SMA: BUY; below: SELL"},
	{"trend.WeightedCloseStrategy", [][2]string{{"Buy", "WeightedClose(High, Low, Close) > Ma(WeightedClose(High, Low, Close))"}, {"Sell", "WeightedClose(High, Low, Close) < Ma(WeightedClose(High, Low, Close))"}}, "weighted close above its moving average bullish, below bearish"},
	{"volatility.BollingerBandsStrategy", [][2]string{{"Buy", "Close > BollingerBands(Close)[0]"}, {"Sell", "Close < BollingerBands(Close)[2]"}}, "closing above the upper band: Buy; below the lower band: Sell"},
	{"volatility.SuperTrendStrategy", [][2]string{{"Buy", "Close > SuperTrend(High, Low, Close)"}, {"Sell", "Close < SuperTrend(High, Low, Close)"}}, "closing above the Super Trend: Buy; below: Sell"},
	{"volume.ChaikinMoneyFlowStrategy", [][2]string{{"Buy", "ChaikinMoneyFlow(High, Low, Close, Volume) > 0"}, {"Sell", "ChaikinMoneyFlow(High, Low, Close, Volume) < 0"}}, "CMF above 0: Buy; below 0: Sell"},
	{"volume.EaseOfMovementStrategy", [][2]string{{"Buy", "EaseOfMovement(High, Low, Volume) > 0"}, {"Sell", "EaseOfMovement(High, Low, Volume) < 0"}}, "EMV above 0: Buy; below 0: Sell"},
	{"volume.ForceIndexStrategy", [][2]string{{"Buy", "ForceIndex(Close, Volume) > 0"}, {"Sell", "ForceIndex(Close, Volume) < 0"}}, "force index above zero: Buy; below: Sell"},
	{"volume.MoneyFlowIndexStrategy", [][2]string{{"Sell", "MoneyFlowIndex(High, Low, Close, Volume) >= SellAt"}, {"Buy", "MoneyFlowIndex(High, Low, Close, Volume) <= BuyAt"}}, "MFI over SellAt (80): Sell; below BuyAt (20): Buy"},
	{"volume.NegativeVolumeIndexStrategy", [][2]string{{"Buy", "NegativeVolumeIndex(Close, Volume) < NegativeVolumeIndexEma(NegativeVolumeIndex(Close, Volume))"}, {"Sell", "NegativeVolumeIndex(Close, Volume) > NegativeVolumeIndexEma(NegativeVolumeIndex(Close, Volume))"}}, "NVI below its EMA: Buy; above: Sell"},
	{"volume.WeightedAveragePriceStrategy", [][2]string{{"Buy", "Close < WeightedAveragePrice(Close, Volume)"}, {"Sell", "Close > WeightedAveragePrice(Close, Volume)"}}, "closing below the VWAP: Buy; above: Sell"},
}

// strategiesWithoutTable: base strategies whose decision is stateful or hand-written (no finite table over comparisons of indicator values).
var strategiesWithoutTable = map[string]string{
	"momentum.TripleRsiStrategy":  "decision depends on a ring of past RSI values inside a loop (stateful closure); roles and alignment are still checked",
	"strategy.BuyAndHoldStrategy": "hand-written stage: Buy on the first snapshot, Hold afterwards (checked structurally)",
}

// CheckC06: base strategies apply the documented rule to the documented data.
func CheckC06(c *Ctx) {
	run := c.Run
	run.Technique = "value-term extraction over the stage graph (sources as field projections of the snapshots, sub-indicators as uninterpreted operators, stateless closures inlined as expressions) + role typing of every indicator argument + anchor alignment of decision operands + semantic comparison of each decision closure with its documented rule on all strict sign vectors of the compared quantities"
	run.Explanation = "For every base strategy the action stream's value term is derived from the current source: which snapshot field (read from the field the extractor's closure selects, not from its name) reaches which parameter of which indicator, and the decision closure as a nested conditional over comparisons. Decided: (a) every argument bound to a role-named parameter of an indicator's Compute (high(s), low(s), closing(s), opening(s), volume(s)) is exactly that price field; (b) the operands of every decision zip refer to the same snapshot position except the two documented previous-vs-current cross-over detectors; (c) the decision closure equals the documented rule (table of 30 strategies) as a function of the signs of the compared quantities — evaluated on every strict sign vector, so branch order, if/switch style or algebraically equivalent rewrites do not matter, while a flipped comparison, a changed threshold field, a different indicator output or price field does. Where an indicator value can be undefined (its documented composition divides by a quantity that can be zero: MFI, RSI, %K, CMF, …) the vectors in which every comparison with that value is unordered (false, as IEEE comparisons with NaN are) are evaluated too: the documented rule then gives Hold. (d) threshold-wiring: every level field the decision reads (BuyAt, SellAt, …) is initialised by the constructors with the parameter, named constant or literal it was given, not with an expression that changes it. Positions where compared quantities are equal are exempt, as the property states. Whether an indicator's values are right is C01's concern. The Triple RSI rule over a ring of past RSI values is read as a decision table with bounded existentials (dtab) and compared with the documented rule on every assignment of its atoms; default constants have their documented values and are used; named arguments of constructors are not swapped."
	run.Trusted = []string{"go/types", "decision-rule table rules.DecisionSpecs (from the types' doc comments)", "role vocabulary of parameter names (DESIGN appendix D)", "exact rational-function algebra (internal/sym)"}
	specs := map[string]decisionSpec{}
	for _, s := range DecisionSpecs {
		specs[s.Type] = s
	}
	roots := StrategyMethods(c.P, "Compute")
	n := 0
	for _, fi := range roots {
		rel := load.RelPkg(fi.Pkg.PkgPath)
		if rel == "strategy" && recvTypeName(fi) != "BuyAndHoldStrategy" {
			continue // compounds: C07
		}
		if rel == "strategy/compound" || rel == "strategy/decorator" {
			continue
		}
		rs := c.Results(fi, Opts{Mode: shape.ModeContracts})
		n++
		for _, r := range rs {
			c.undecidedToFindings(r, "strategy-data")
			outs := retStreams(r)
			if len(outs) != 1 || r.Recv == nil {
				continue
			}
			tn := r.Recv.TypeName()
			// (b) alignment of decision operands
			for _, st := range r.Stages {
				if st.Owner == r.RootFrame {
					c.checkJoin("C06", r, st)
				}
			}
			tm := shape.NewTerms(c.P, r)
			term := tm.Of(outs[0])
			// (a) roles
			c.roleWiring(r, fi, term)
			// (c) decision rule
			sp, has := specs[tn]
			if !has {
				if why, ok := strategiesWithoutTable[tn]; ok {
					run.Note(tn + ": " + why)
					continue
				}
				run.Oblige(false)
				run.Violate(report.Finding{Rule: "decision-rule", Site: r.RootName, Detail: "no specification", Pos: c.P.Pos(fi.Decl.Pos()),
					Message: "base strategy " + tn + " has no entry in the documented decision-rule table: its rule is not covered"})
				continue
			}
			c.compareDecision(r, fi, term, sp)
			c.thresholdWiring(r, fi, term)
		}
	}
	run.Count("base_strategies", n)
	run.Floor("base_strategies", 32)
	c.buyAndHold()
	c.ringDecisions()
	c.defaultsWiring("defaults-wiring", "strategy")
	c.constructorParameters("defaults-wiring", "strategy")
	run.Floor("default_constant_uses", 20)
	for k, v := range intrinsicOffsets {
		if strings.HasPrefix(k, "strategy/") {
			run.Assume("intrinsic offset " + k + " = " + v.Skew + ": " + v.Why)
		}
	}
}

// roleWiring checks every role-named indicator parameter against the field of its argument.
func (c *Ctx) roleWiring(r *shape.Result, fi *load.FuncInfo, term sym.Expr) {
	run := c.Run
	seen := map[string]bool{}
	walkCalls(term, func(call sym.Call) {
		tn := indTypeOf(call.Fn)
		if tn == "" {
			return
		}
		names := indicatorParamNames(c.P, tn)
		if names == nil || len(names) != len(call.Args) {
			return
		}
		if pn, ok := pinnedParams[tn]; ok && len(pn) == len(names) {
			names = pn // roles come from the pinned names, by position
		}
		for i, a := range call.Args {
			want := paramRole(names[i])
			if want == "" {
				continue
			}
			got := termRole(a)
			if got == "" {
				continue // a derived series: no obligation
			}
			key := call.Fn + "/" + names[i]
			if seen[key] {
				continue
			}
			seen[key] = true
			run.Count("role_typed_arguments", 1)
			run.Oblige(got == want)
			if got != want {
				run.Violate(report.Finding{Rule: "role-wiring", Site: r.RootName, Detail: tn + "." + names[i] + " <- " + got, Pos: c.P.Pos(fi.Decl.Pos()),
					Message: fmt.Sprintf("the %s parameter of %s.Compute is fed the snapshots' %s prices, not their %s prices", names[i], tn, got, want)})
			}
		}
	})
}

func (c *Ctx) compareDecision(r *shape.Result, fi *load.FuncInfo, term sym.Expr, sp decisionSpec) {
	run := c.Run
	site := r.RootName
	pos := c.P.Pos(fi.Decl.Pos())
	src := ""
	if len(r.ParamStreams) > 0 {
		src = r.ParamStreams[0].Param
	}
	env := &specEnv{r: r, src: src}
	type rule struct {
		action string
		cond   sym.Expr
	}
	var rules []rule
	for _, rr := range sp.Rules {
		e, err := env.parse(rr[1])
		if err != nil {
			run.Oblige(false)
			run.Violate(report.Finding{Rule: "decision-rule", Site: site, Detail: "specification not evaluable", Pos: pos,
				Message: "the documented rule of " + sp.Type + " refers to something the strategy no longer has: " + err.Error()})
			return
		}
		rules = append(rules, rule{rr[0], e})
	}
	keys := map[string]bool{}
	collectKeys(term, keys)
	for _, rr := range rules {
		collectKeys(rr.cond, keys)
	}
	var ks []string
	for k := range keys {
		ks = append(ks, k)
	}
	sort.Strings(ks)
	if len(ks) > 8 {
		run.Oblige(false)
		run.Violate(report.Finding{Rule: "decision-rule", Site: site, Detail: "too many compared quantities", Pos: pos, Message: "the decision compares more than 8 distinct quantities (undecided, fails closed)"})
		return
	}
	bad := 0
	total := 0
	badUndef, totalUndef := 0, 0
	var firstMsg string
	keyHash := fnv.New32a()
	nan := map[string]bool{}
	c.nanKeys(term, nan)
	for _, rr := range rules {
		c.nanKeys(rr.cond, nan)
	}
	passes := 1
	if len(nan) > 0 {
		passes = 2
		run.Count("decisions_with_undefined_values", 1)
	}
	for mask := 0; mask < passes<<len(ks); mask++ {
		sg := map[string]int{}
		undefinedPass := mask>>len(ks) == 1
		for i, k := range ks {
			if mask&(1<<i) != 0 {
				sg[k] = 1
			} else {
				sg[k] = -1
			}
			if undefinedPass && nan[k] {
				if sg[k] > 0 {
					sg = nil // one representative per assignment of the other keys
					break
				}
				sg[k] = unordered
			}
		}
		if sg == nil {
			continue
		}
		want := "Hold"
		fired := 0
		for _, rr := range rules {
			v, ok := evalCond(rr.cond, sg)
			if ok && v {
				if fired == 0 {
					want = rr.action
				}
				fired++
			}
		}
		if fired > 1 {
			continue // both documented conditions hold: only possible for inadmissible thresholds
		}
		got, ok := evalDecision(term, sg)
		total++
		if undefinedPass {
			totalUndef++
		}
		run.Count("sign_vectors", 1)
		if !ok {
			run.Oblige(false)
			run.Violate(report.Finding{Rule: "decision-rule", Site: site, Detail: "undecided", Pos: pos,
				Message: "the action stream of " + sp.Type + " is not a finite decision over comparisons of indicator values (undecided, fails closed): " + short(sym.CanonString(term), 200)})
			return
		}
		if got != want {
			bad++
			if undefinedPass {
				badUndef++
			} else {
				// every differing vector enters the finding's key: another defect at the same site
				// that happens to change as many vectors is another finding
				for _, k := range ks {
					fmt.Fprintf(keyHash, "%s:%d;", k, sg[k])
				}
				fmt.Fprintf(keyHash, "->%v/%v|", got, want)
			}
			if firstMsg == "" {
				var desc []string
				for _, k := range ks {
					s := "<"
					if sg[k] > 0 {
						s = ">"
					}
					if sg[k] == unordered {
						desc = append(desc, short(k, 70)+" is undefined (NaN: a division by zero inside the indicator)")
						continue
					}
					desc = append(desc, short(k, 70)+" "+s+" 0")
				}
				firstMsg = fmt.Sprintf("when %s the strategy emits %s, the documented rule gives %s", strings.Join(desc, " and "), got, want)
			}
		}
	}
	run.Oblige(bad == 0)
	run.Sample(map[string]string{"obligation": "decision of " + sp.Type + " = documented rule on " + fmt.Sprint(total) + " sign vectors", "rule": fmt.Sprint(sp.Rules), "verdict": fmt.Sprint(bad == 0)})
	if bad > 0 {
		detail := fmt.Sprintf("%d of %d sign vectors differ #%08x", bad-badUndef, total-totalUndef, keyHash.Sum32())
		if bad == badUndef {
			detail = fmt.Sprintf("%d of %d vectors with an undefined indicator value differ", badUndef, totalUndef)
		}
		run.Violate(report.Finding{Rule: "decision-rule", Site: site, Detail: detail, Pos: pos,
			Message: fmt.Sprintf("%s does not apply its documented rule (%s): %s", sp.Type, sp.Doc, firstMsg)})
	}
}

func short(s string, n int) string {
	if len(s) > n {
		return s[:n] + "…"
	}
	return s
}

// buyAndHold: Buy on the first snapshot, Hold afterwards.
func (c *Ctx) buyAndHold() {
	run := c.Run
	fi := c.fn("strategy", "BuyAndHoldStrategy", "Compute")
	if fi == nil {
		return
	}
	for _, r := range c.Results(fi, Opts{Mode: shape.ModeContracts}) {
		first, rest := "", ""
		for _, st := range r.Stages {
			if st.Owner != r.RootFrame {
				continue
			}
			for _, s := range st.Sends {
				v := exprString(s.Expr)
				if s.InLoop {
					rest = v
				} else if first == "" {
					first = v
				}
			}
		}
		ok := first == "Buy" && rest == "Hold"
		run.Oblige(ok)
		if !ok {
			run.Violate(report.Finding{Rule: "decision-rule", Site: r.RootName, Detail: first + "/" + rest, Pos: c.P.Pos(fi.Decl.Pos()),
				Message: "buy-and-hold must emit Buy for the first snapshot and Hold for every later one; it emits " + first + " then " + rest})
		}
		// its data is the closing price
		usesClose := false
		for _, st := range r.Stages {
			if strings.HasSuffix(st.FnName, "helper.Map") && st.Owner != nil && strings.Contains(st.Construct, "SnapshotsAsClosings") {
				usesClose = true
			}
		}
		_ = usesClose
	}
}
