package rules

import (
	"fmt"
	"go/types"
	"golang.org/x/tools/go/packages"
	"strings"

	"verif/checker/internal/lin"
	"verif/checker/internal/load"
	"verif/checker/internal/report"
	"verif/checker/internal/shape"
)

// typesWithoutIdle are the indicator types that declare no IdlePeriod; their
// warm-up is the anchor the calculus infers from the formula's composition.
var typesWithoutIdle = map[string]string{
	"trend.Apo":          "APO declares no IdlePeriod; its formula implies SlowPeriod-1",
	"trend.Aroon":        "Aroon declares no IdlePeriod; its formula implies Period-1",
	"trend.Bop":          "BoP has no warm-up",
	"trend.TypicalPrice": "typical price has no warm-up",
}

// CheckC02: every indicator output has exactly max(0, n-w) elements and is anchored at w.
func CheckC02(c *Ctx) {
	run := c.Run
	run.Technique = "stream-shape calculus: symbolic output length and anchor of every indicator Compute (periods and n as symbols), compared with the declared IdlePeriod by exact linear entailment; unchecked-receive (phantom value) analysis of hand-written stages"
	run.Explanation = "For each of the indicator Compute methods the number of values on every output is derived as a piecewise-linear function of the input length n and the configuration symbols, sub-indicators being used through their declared IdlePeriod contract (each type is judged on its own body). It is proved, for ALL n >= 0 and ALL admissible configurations (Γ), to equal max(0, n - IdlePeriod()) and every output to be anchored at IdlePeriod(). Unchecked receives whose value reaches a send are proved to find an element. Values are not decided."
	run.Trusted = []string{"go/types", "helper stage summaries re-derived from helper/ on this run (checked against the slice models by C16)", "admissibility table Γ (shape.GammaTable, domainFor)", "Fourier–Motzkin entailment (internal/lin)"}
	roots := IndicatorComputes(c.P)
	run.Count("indicator_computes", len(roots))
	run.Floor("indicator_computes", 61)
	modes := []shape.Mode{shape.ModeContracts}
	if c.Tier == "thorough" {
		modes = append(modes, shape.ModeInline)
	}
	for _, fi := range roots {
		for _, mode := range modes {
			o := Opts{Mode: mode}
			for _, r := range c.Results(fi, o) {
				c.checkWarmup(fi, r, mode)
			}
		}
	}
	// strategies that declare an IdlePeriod of their own
	for _, fi := range StrategyMethods(c.P, "IdlePeriod") {
		run.Count("strategy_idle_methods", 1)
		_ = fi
	}
	c.gammaConstructors()
	for _, g := range shape.GammaTable {
		run.Assume("Γ " + g.Type + ": " + g.Rel + " — " + g.Why)
	}
	run.Assume("Γ: every *Period* field >= 1; DownDays >= 1; LaggingPeriod >= 0; IdlePeriod() of an interface-typed moving average >= 0; n >= 0")
	run.Assume("all inputs of a multi-input indicator have the same length n (as the property states)")
}

func (c *Ctx) checkWarmup(fi *load.FuncInfo, r *shape.Result, mode shape.Mode) {
	run := c.Run
	name := r.RootName
	pos := c.P.Pos(fi.Decl.Pos())
	tag := ""
	if mode == shape.ModeInline {
		tag = "[contract-free] "
	}
	c.undecidedToFindings(r, "warmup")
	outs := retStreams(r)
	if len(outs) == 0 {
		run.Oblige(false)
		run.Violate(report.Finding{Rule: "warmup/outputs", Site: name, Detail: "no outputs", Pos: pos, Message: "Compute returns no stream the calculus can see"})
		return
	}
	run.Count("outputs", len(outs))
	// the declared idle period
	var idle *lin.Expr
	tn := ""
	if r.Recv != nil {
		tn = r.Recv.TypeName()
	}
	if _, noIdle := typesWithoutIdle[tn]; !noIdle {
		if r.Idle != nil {
			idle = r.Idle
		} else {
			run.Oblige(false)
			run.Violate(report.Finding{Rule: "warmup/idle", Site: name, Detail: "IdlePeriod not evaluable", Pos: pos,
				Message: "the type's IdlePeriod() could not be evaluated symbolically"})
			return
		}
	} else {
		// inferred: the anchor of the first output
		idle = outs[0].Lead
		run.Note(tn + ": " + typesWithoutIdle[tn] + "; inferred " + idle.String())
	}
	n := r.N
	want := lin.Pos(lin.Sub(n, idle))
	for i, o := range outs {
		osite := fmt.Sprintf("%s/out%d", name, i)
		if o.Len == nil || o.Lead == nil {
			run.Oblige(false)
			run.Violate(report.Finding{Rule: "warmup/len", Site: osite, Detail: "unknown", Pos: pos, Message: "output shape unknown"})
			continue
		}
		v, w := decideEQ(r.G, o.Len, want)
		run.Oblige(v == holds)
		run.Sample(map[string]string{"obligation": "len(" + osite + ") = max(0, n - (" + idle.String() + "))", "derived": o.Len.String(), "verdict": fmt.Sprint(v == holds)})
		if v != holds {
			msg := fmt.Sprintf("%semits %s values for n inputs, the warm-up contract says max(0, n - (%s))%s", tag, o.Len, idle, pathNote(r))
			if w != nil {
				msg += fmt.Sprintf("; e.g. %d instead of %d", evalAt(o.Len, w), evalAt(want, w))
			}
			if v == undecidedV {
				msg += " (entailment undecided: fails closed)"
			}
			run.Violate(report.Finding{Rule: "warmup/len", Site: osite, Detail: o.Len.String(), Pos: pos, Witness: w, Message: msg, Derivation: gammaStrings(r)})
		}
		ok := proveEQWhereNonEmpty(r.G, o.Len, o.Lead, idle)
		run.Oblige(ok)
		if !ok {
			run.Violate(report.Finding{Rule: "warmup/anchor", Site: osite, Detail: o.Lead.String(), Pos: pos,
				Message: fmt.Sprintf("%sthe first value refers to input position %s, the declared warm-up is %s%s", tag, o.Lead, idle, pathNote(r)), Derivation: gammaStrings(r)})
		}
	}
	// phantom values: unchecked receives owned by this root
	for _, ph := range r.Phantoms {
		if ph.Stage == nil || ph.Stage.Owner != r.RootFrame {
			if mode != shape.ModeInline {
				continue
			}
		}
		run.Count("unchecked_receives", 1)
		v, w := decideGE(r.G, ph.Have, ph.Need)
		run.Oblige(v == holds)
		if v != holds {
			msg := fmt.Sprintf("%sreceive without an ok check from %s, whose value is sent on: the channel can be closed and empty here (needs %s, has %s), so a zero value is emitted", tag, ph.S.Name, ph.Need, ph.Have)
			run.Violate(report.Finding{Rule: "warmup/phantom", Site: name + "/" + ph.Stage.Construct, Detail: "unchecked receive", Pos: c.P.Pos(ph.Pos), Witness: w, Message: msg})
		}
	}
}

// gammaConstructors: the admissibility table Γ assumes, for some types, relations "because the
// constructor sets both from one period". Those are proved here: every exported constructor of the
// type (New<Type>…) returns an object on which the relation holds for all parameter values.
func (c *Ctx) gammaConstructors() {
	run := c.Run
	n := 0
	for _, g := range shape.GammaTable {
		if !strings.Contains(strings.ToLower(g.Why), "constructor") {
			continue
		}
		i := strings.Index(g.Type, ".")
		if i < 0 {
			continue
		}
		rel, tname := g.Type[:i], g.Type[i+1:]
		var pk *packages.Package
		for _, p := range c.P.Pkgs {
			if strings.HasSuffix(load.RelPkg(p.PkgPath), rel) && p.Types.Scope().Lookup(tname) != nil {
				pk = p
			}
		}
		if pk == nil {
			run.Break("Γ entry for a type that no longer exists: " + g.Type)
			continue
		}
		for _, fi := range c.P.Decls {
			if fi.Pkg != pk || fi.Decl.Recv != nil || fi.Decl.Body == nil || !strings.HasPrefix(fi.Fn.Name(), "New"+tname) {
				continue
			}
			if strings.HasSuffix(c.P.Fset.Position(fi.Decl.Pos()).Filename, "_test.go") {
				continue
			}
			// the constructor must return this type (NewKdjStrategy is not a constructor of Kdj)
			sig := fi.Fn.Type().(*types.Signature)
			if sig.Results().Len() != 1 {
				continue
			}
			rt := sig.Results().At(0).Type()
			if p, ok := rt.(*types.Pointer); ok {
				rt = p.Elem()
			}
			if nt, ok := rt.(*types.Named); !ok || nt.Obj().Name() != tname {
				continue
			}
			it := shape.NewInterp(c.P, shape.ModeContracts)
			it.SkipGamma = map[string]bool{g.Type: true}
			for _, r := range it.AnalyzeRoot(fi) {
				obj, ok := r.Ret.(*shape.Object)
				if !ok {
					continue
				}
				holds, applicable := it.GammaRelation(r.G, obj, g.Rel)
				if !applicable {
					continue
				}
				n++
				run.Oblige(holds)
				if !holds {
					c.violate("gamma/constructor", load.FuncName(fi.Fn), g.Rel, fi.Decl.Pos(), "the analyses assume "+g.Rel+" for every "+g.Type+" ("+g.Why+"), but "+fi.Fn.Name()+" returns an object for which it does not hold: the warm-up and alignment verdicts do not cover what this constructor builds (its streams differ in length or stall)")
				}
			}
		}
	}
	run.Count("gamma_constructor_relations", n)
	run.Floor("gamma_constructor_relations", 8)
}
