package rules

import (
	"fmt"
	"go/ast"
	"go/token"
	"go/types"
	"strings"

	"verif/checker/internal/lin"
	"verif/checker/internal/load"
	"verif/checker/internal/report"
	"verif/checker/internal/shape"
)

var pipelinePkgs = []string{"helper", "trend", "momentum", "volatility", "volume", "strategy", "strategy/trend", "strategy/momentum", "strategy/volatility", "strategy/volume", "strategy/compound", "strategy/decorator"}

func isPipelinePkg(rel string) bool {
	for _, p := range pipelinePkgs {
		if rel == p {
			return true
		}
	}
	return false
}

// pipelineRootsC03 lists the functions whose pipelines C03 covers.
func pipelineRootsC03(p *load.Program) []*load.FuncInfo {
	var out []*load.FuncInfo
	for _, fi := range shape.PipelineRoots(p) {
		rel := load.RelPkg(fi.Pkg.PkgPath)
		switch {
		case rel == "asset":
			if strings.HasPrefix(fi.Fn.Name(), "SnapshotsAs") {
				out = append(out, fi)
			}
		case rel == "helper":
			if fi.Decl.Recv != nil {
				continue // Csv codec methods (C11/C19)
			}
			if _, skip := helpersNotModelled[fi.Fn.Name()]; skip {
				continue
			}
			out = append(out, fi)
		case isPipelinePkg(rel):
			out = append(out, fi)
		}
	}
	return out
}

// CheckC03: structural conditions for deadlock freedom, no leaks and determinacy.
func CheckC03(c *Ctx) {
	run := c.Run
	run.Technique = "Kahn-network structure analysis on the stage graph derived by the shape calculus: determinacy lint (R1), channel linearity (R2), close-on-all-exits (R3), drain-on-exit (R4), symbolic buffer >= anchor skew at every fork/join (R5), length surplus at joins (R6)"
	run.Explanation = "C03 quantifies over all schedules and is not decidable as a whole; it is decided through six structural rules that together are the Kahn-network argument the property anchors: (R1) no select, len(ch), cap(ch) outside make, timers or channel operations in stage closures anywhere in the pipeline packages, so every stage is a sequential process doing blocking receives and sends (determinate); (R2) every channel created in a pipeline is consumed by exactly one stage (or returned / handed to the report), Duplicate outputs included, with the EMA seed borrow recognised; (R3) every stage closes every channel it writes on every exit; (R4) a stage with several inputs drains all of them whichever input closes first; (R5) at every join of branches of one fork, the channel capacities plus the stages on the early branch (an upper bound of what it can hold) cover the anchor skew to the late branch plus the one element the early branch must take when the fork serves it before the branch the join reads first, symbolically in the periods — exported Compute methods are also checked with all their inputs coming from one unbuffered fork that serves them in parameter order; (R6) no join operand can be longer than another by more than that skew. Fairness, livelock, shortfalls smaller than the slack and runtime goroutines are not decided."
	run.Trusted = []string{"go/types", "Kahn determinacy argument for sequential blocking stages", "stage summaries re-derived on this run", "Γ", "Fourier–Motzkin entailment"}
	c.ruleR1()
	roots := pipelineRootsC03(c.P)
	run.Count("pipeline_roots", len(roots))
	run.Floor("pipeline_roots", 190)
	for _, fi := range roots {
		dom := map[string]int64{}
		for _, m := range HelperModels {
			if load.RelPkg(fi.Pkg.PkgPath) == "helper" && m.Fn == fi.Fn.Name() {
				dom = m.Domain
			}
		}
		for _, r := range c.Results(fi, Opts{Mode: shape.ModeContracts, ParamDomain: dom}) {
			c.undecidedToFindings(r, "pipeline")
			if rep, ok := r.Ret.(*shape.Object); ok && rep.TypeName() == "helper.Report" {
				markReportConsumed(rep)
			}
			c.ruleR2(r, fi)
			c.ruleR3R4(r, fi)
			c.ruleR5R6(r, fi)
		}
	}
	run.Floor("go_statements", 35)
	run.Floor("streams", 1500)
	run.Floor("joins_checked", 150)
	run.Assume("input channels are unbuffered (the worst case the property quantifies over); each output is drained by an independent reader")
	run.Assume("a user-supplied Strategy or moving average honours the interface contract and drains its input")
}

func markReportConsumed(rep *shape.Object) {
	if d, ok := shape.FieldOf(rep, "Date").(*shape.Stream); ok {
		shape.MarkConsumed(d, "report")
	}
	if cols, ok := shape.FieldOf(rep, "Columns").(*shape.Slice); ok {
		for _, cell := range cols.Elems {
			if co, ok := cell.V.(*shape.Object); ok {
				if vs, ok := columnStream(co); ok {
					shape.MarkConsumed(vs, "report")
				}
			}
		}
	}
}

// ruleR1: determinacy lint over the pipeline packages.
func (c *Ctx) ruleR1() {
	run := c.Run
	for _, pk := range c.P.Pkgs {
		rel := load.RelPkg(pk.PkgPath)
		if !isPipelinePkg(rel) {
			continue
		}
		for _, f := range pk.Syntax {
			fname := c.P.Fset.Position(f.Pos()).Filename
			if strings.HasSuffix(fname, "_test.go") {
				continue
			}
			var stack []ast.Node
			ast.Inspect(f, func(n ast.Node) bool {
				if n == nil {
					stack = stack[:len(stack)-1]
					return true
				}
				stack = append(stack, n)
				switch x := n.(type) {
				case *ast.GoStmt:
					run.Count("go_statements", 1)
				case *ast.SelectStmt:
					run.Oblige(false)
					run.Violate(report.Finding{Rule: "R1-determinacy", Site: rel, Detail: "select", Pos: c.P.Pos(x.Pos()),
						Message: "select statement in a pipeline package: the stage's behaviour depends on the schedule"})
				case *ast.CallExpr:
					id, ok := x.Fun.(*ast.Ident)
					if ok && (id.Name == "len" || id.Name == "cap") && len(x.Args) == 1 {
						if _, isB := pk.TypesInfo.Uses[id].(*types.Builtin); isB {
							if t := pk.TypesInfo.TypeOf(x.Args[0]); t != nil {
								if _, isCh := t.Underlying().(*types.Chan); isCh {
									okUse := false
									if id.Name == "cap" {
										// allowed only inside the size argument of make
										for i := len(stack) - 2; i >= 0; i-- {
											if mc, ok := stack[i].(*ast.CallExpr); ok {
												if mid, ok := mc.Fun.(*ast.Ident); ok && mid.Name == "make" && makesChan(pk.TypesInfo, mc) {
													okUse = true
												}
												break
											}
											if _, ok := stack[i].(*ast.BinaryExpr); ok {
												continue
											}
											if _, ok := stack[i].(*ast.ParenExpr); ok {
												continue
											}
											// capacity := cap(c) + k, used only as the size of new channels
											if as, ok := stack[i].(*ast.AssignStmt); ok && len(as.Lhs) == 1 {
												if lid, ok := as.Lhs[0].(*ast.Ident); ok {
													if obj := pk.TypesInfo.ObjectOf(lid); obj != nil && onlyMakeSizes(pk.TypesInfo, f, obj) {
														okUse = true
													}
												}
											}
											break
										}
									}
									run.Oblige(okUse)
									run.Count("len_cap_uses", 1)
									if !okUse {
										run.Violate(report.Finding{Rule: "R1-determinacy", Site: rel, Detail: id.Name + "(chan)", Pos: c.P.Pos(x.Pos()),
											Message: id.Name + "() of a channel observes the schedule; only cap(c) as the size of a new channel is allowed"})
									}
								}
							}
						}
					}
					// timers
					if sel, ok := x.Fun.(*ast.SelectorExpr); ok {
						if fn, ok := pk.TypesInfo.Uses[sel.Sel].(*types.Func); ok && fn.Pkg() != nil && fn.Pkg().Path() == "time" {
							switch fn.Name() {
							case "After", "Tick", "NewTimer", "NewTicker", "Sleep", "AfterFunc":
								run.Oblige(false)
								run.Violate(report.Finding{Rule: "R1-determinacy", Site: rel, Detail: "time." + fn.Name(), Pos: c.P.Pos(x.Pos()),
									Message: "timer in a pipeline package: behaviour depends on pacing"})
							}
						}
					}
				}
				return true
			})
		}
	}
	run.Oblige(true)
}

// onlyMakeSizes: every use of the variable is (part of) the size argument of a make call.
func onlyMakeSizes(info *types.Info, f *ast.File, obj types.Object) bool {
	ok, uses := true, 0
	var stack []ast.Node
	ast.Inspect(f, func(n ast.Node) bool {
		if n == nil {
			stack = stack[:len(stack)-1]
			return true
		}
		stack = append(stack, n)
		id, isID := n.(*ast.Ident)
		if !isID || info.Uses[id] != obj {
			return true
		}
		uses++
		good := false
		for i := len(stack) - 2; i >= 0; i-- {
			switch p := stack[i].(type) {
			case *ast.BinaryExpr, *ast.ParenExpr:
				continue
			case *ast.CallExpr:
				if mid, isM := p.Fun.(*ast.Ident); isM && mid.Name == "make" && len(p.Args) >= 2 && makesChan(info, p) {
					good = true
				}
			}
			break
		}
		if !good {
			ok = false
		}
		return true
	})
	return ok && uses > 0
}

// ownedBy: the frame (or its owner chain) is the analysed root.
func rootOwned(r *shape.Result, s *shape.Stream) bool {
	if s.Producer != nil {
		return s.Producer.Owner == r.RootFrame
	}
	return s.Param != ""
}

// ruleR2: every channel is consumed exactly once.
func (c *Ctx) ruleR2(r *shape.Result, fi *load.FuncInfo) {
	run := c.Run
	for _, s := range r.Streams {
		if !rootOwned(r, s) && !s.Pending {
			continue
		}
		if s.OutParam {
			continue // consumed by the caller
		}
		run.Count("streams", 1)
		site := r.RootName + "/" + streamSite(s)
		pos := c.P.Pos(s.Pos)
		if s.Pending {
			run.Oblige(false)
			run.Violate(report.Finding{Rule: "R2-linearity", Site: site, Detail: "never produced", Pos: pos,
				Message: "a channel is created but no stage ever sends on or closes it: its reader blocks for ever"})
			continue
		}
		uses := len(s.Readers)
		if s.Returned {
			uses++
		}
		switch {
		case uses == 1:
			run.Oblige(true)
		case uses == 0:
			run.Oblige(false)
			what := "the stage writing it blocks for ever on its first send (goroutine leak)"
			if s.Param != "" {
				what = "the caller's producer blocks for ever"
			}
			run.Violate(report.Finding{Rule: "R2-linearity", Site: site, Detail: "unconsumed", Pos: pos,
				Message: "channel " + s.Name + " is never consumed: " + what + pathNote(r)})
		default:
			// borrow idiom: a bounded, non-draining reader spawned inside the other reader's goroutine
			ok := false
			if uses == 2 && !s.Returned {
				a, b := s.Readers[0], s.Readers[1]
				if a.Stage != nil && b.Stage != nil {
					if a.Bounded && !a.Drained && a.Stage.Parent == b.Stage {
						ok = true
					}
					if b.Bounded && !b.Drained && b.Stage.Parent == a.Stage {
						ok = true
					}
				}
			}
			run.Oblige(ok)
			if ok {
				run.Count("borrows", 1)
			} else {
				run.Violate(report.Finding{Rule: "R2-linearity", Site: site, Detail: fmt.Sprintf("%d consumers", uses), Pos: pos,
					Message: fmt.Sprintf("channel %s has %d consumers: its elements are split between them by the scheduler%s", s.Name, uses, pathNote(r))})
			}
		}
	}
}

func streamSite(s *shape.Stream) string {
	if s.Param != "" {
		return "param:" + s.Param
	}
	if s.Producer != nil {
		idx := ""
		if s.ForkID > 0 {
			idx = fmt.Sprintf("[%d]", s.ForkIdx)
		}
		return s.Producer.Construct + idx
	}
	return s.Name
}

// ruleR3R4: close on all exits; drain all inputs on every exit.
func (c *Ctx) ruleR3R4(r *shape.Result, fi *load.FuncInfo) {
	run := c.Run
	for _, st := range r.Stages {
		if st.Owner != r.RootFrame {
			continue
		}
		site := r.RootName + "/" + st.Construct
		for _, o := range st.Outs {
			run.Oblige(o.Closed)
			if !o.Closed {
				run.Violate(report.Finding{Rule: "R3-close", Site: site, Detail: "not closed", Pos: c.P.Pos(st.Pos),
					Message: "stage does not close its output " + o.Name + " on every exit: downstream never terminates"})
			}
		}
		multi := 0
		for _, in := range st.Ins {
			if in.InLoop {
				multi++
				if in.S.Homog || in.Homog {
					multi++
				}
			}
		}
		if multi < 2 || st.Kind == "iface" || st.Kind == "sync" {
			continue
		}
		run.Count("multi_input_stages", 1)
		for _, in := range st.Ins {
			if !in.InLoop {
				continue
			}
			run.Oblige(in.Drained)
			if !in.Drained {
				run.Violate(report.Finding{Rule: "R4-drain", Site: site, Detail: "input " + in.S.Name + " not drained", Pos: c.P.Pos(st.Pos),
					Message: fmt.Sprintf("when another input closes first, %s is not drained (%s of %s elements taken): the stages feeding it block for ever (goroutine leak)%s", in.S.Name, in.Consumed, in.S.Len, pathNote(r))})
			}
		}
	}
}

// ruleR5R6: buffer >= skew at fork/join, surplus <= skew.
func (c *Ctx) ruleR5R6(r *shape.Result, fi *load.FuncInfo) {
	run := c.Run
	// virtual fork of the parameters: an exported builder may be fed from one unbuffered Duplicate
	const virtual = -1
	exported := ast.IsExported(fi.Fn.Name())
	if exported && len(r.ParamStreams) > 1 {
		for pi, p := range r.ParamStreams {
			if _, ok := p.Paths[virtual]; !ok {
				p.Paths[virtual] = &shape.PathInfo{Cap: lin.C(0), Stages: 0, Lead0: lin.C(0), Idx: pi}
			}
		}
		// propagate along the already-built graph in creation order
		for _, st := range r.Stages {
			for _, o := range st.Outs {
				for _, in := range st.Ins {
					if p, ok := in.S.Paths[virtual]; ok {
						np := &shape.PathInfo{Cap: lin.Add(p.Cap, o.Cap), Stages: p.Stages + 1, Lead0: p.Lead0, Idx: p.Idx}
						if old, ok := o.Paths[virtual]; ok {
							if lin.ProveGE(r.G, lin.AddC(old.Cap, int64(old.Stages)), lin.AddC(np.Cap, int64(np.Stages))) {
								continue
							}
						}
						o.Paths[virtual] = np
					}
				}
			}
		}
	}
	for _, st := range r.Stages {
		if st.Owner != r.RootFrame {
			continue
		}
		var ins []*shape.StageIn
		for _, in := range st.Ins {
			if in.InLoop && in.LeadAt != nil {
				ins = append(ins, in)
			}
		}
		if len(ins) < 2 {
			continue
		}
		run.Count("joins_checked", 1)
		site := r.RootName + "/" + st.Construct
		nonEmpty := lin.C(1)
		if len(st.Outs) > 0 && st.Outs[0].Len != nil {
			nonEmpty = st.Outs[0].Len
		}
		ctxs := ctxsNonEmpty(r.G, nonEmpty)
		for _, e := range ins {
			for _, l := range ins {
				if e == l {
					continue
				}
				// common forks
				for fid, pe := range e.S.Paths {
					if _, ok := l.S.Paths[fid]; !ok {
						continue
					}
					if fid == virtual && !(e.S.Param != "" || l.S.Param != "" || true) {
						continue
					}
					orderNote := ""
					need := lin.Sub(l.LeadAt, e.LeadAt) // elements E must hold before L delivers
					avail := lin.AddC(pe.Cap, int64(pe.Stages))
					if e.Order < l.Order {
						avail = lin.AddC(avail, 1) // the join holds E's element while waiting for L
					}
					if pl := l.S.Paths[fid]; pl != nil && pe.Idx < pl.Idx {
						// the fork serves E's branch first but the join asks for L's first: E's branch has
						// to take that element before the fork can turn to L's
						need = lin.AddC(need, 1)
						orderNote = " (one of them because the fork hands every element to this branch before it turns to the other)"
					}
					ok := true
					for _, cx := range ctxs {
						if !lin.ProveGE(cx, avail, need) {
							ok = false
						}
					}
					run.Oblige(ok)
					if !ok {
						which := "of one fork"
						rule := "R5-buffer"
						det := "skew " + lin.Canon(r.G, need).String() + " slack " + lin.Canon(r.G, avail).String()
						if fid == virtual {
							which = "of the caller (inputs fed from one unbuffered Duplicate)"
							rule = "R5-buffer-inputs"
						}
						w := Witness(r.G, func(env map[lin.Sym]int64) bool {
							return nonEmpty.Eval(env) >= 1 && avail.Eval(env) < need.Eval(env)
						}, avail, need, nonEmpty)
						run.Violate(report.Finding{Rule: rule, Site: site, Detail: det, Pos: c.P.Pos(st.Pos), Witness: w,
							Message: fmt.Sprintf("branches %s join where the early branch (%s) has to hold %s elements%s but can hold at most %s: the fork blocks on it while the join waits for the other branch (%s) — deadlock%s",
								which, e.S.Name, lin.Canon(r.G, need), orderNote, lin.Canon(r.G, avail), l.S.Name, pathNote(r)), Derivation: gammaStrings(r)})
					}
				}
				// R6: surplus of L over E at most the skew E->L... checked for every n
				if e.S.Len != nil && l.S.Len != nil && st.DrainBeforeClose {
					_ = token.NoPos
				}
			}
		}
	}
}

// makesChan: the make call creates a channel (the capacity of an input may size a new channel,
// nothing else: a slice sized by cap(c) makes the result depend on the caller's buffering).
func makesChan(info *types.Info, call *ast.CallExpr) bool {
	if len(call.Args) == 0 {
		return false
	}
	t := info.TypeOf(call.Args[0])
	if t == nil {
		return false
	}
	_, ok := t.Underlying().(*types.Chan)
	return ok
}
