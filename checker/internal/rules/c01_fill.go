package rules

import (
	"fmt"
	"regexp"
	"strings"

	"verif/checker/internal/dtab"
	"verif/checker/internal/lin"
	"verif/checker/internal/load"
	"verif/checker/internal/shape"
	"verif/checker/internal/sym"
)

// fillNeutrality: a stream that starts with fill values (helper.Shift's padding) feeds a closure
// parameter. The fill elements are not data, so the closure may use that parameter only in a way
// the fill value cannot influence: as a polynomial term with a zero fill, or in an operation that is not
// executed for the first <fill length> elements (a counter gate). Anything else treats padding as
// data: e.g. removing the fill value 0 from the window's search tree drops a real 0 of the input.
func (c *Ctx) fillNeutrality(fi *load.FuncInfo, r *shape.Result) {
	run := c.Run
	tm := shape.NewTerms(c.P, r)
	for _, st := range r.Stages {
		if st.Owner != r.RootFrame {
			continue // stages of sub-indicators are decided at their own Compute
		}
		cl, ins := tm.ClosureApplication(st)
		if cl == nil {
			continue
		}
		m := tm.Machine(cl)
		for i, s := range ins {
			if s == nil || s.FillN == nil || i >= len(m.Params) {
				continue
			}
			if z, ok := linConst(s.FillN); ok && z == 0 {
				continue
			}
			run.Count("filled_closure_inputs", 1)
			site := fmt.Sprintf("%s/%s(%s)", r.RootName, tm.ClosureName(cl), m.Params[i])
			why := c.fillUse(tm, cl, m, m.Params[i], s)
			run.Oblige(why == "")
			run.Sample(map[string]string{"obligation": "padding of " + s.Name + " (" + s.FillN.String() + " elements) cannot influence " + site, "verdict": fmt.Sprint(why == "")})
			if why != "" {
				c.violate("fill-neutrality", site, short(why, 100), cl.Lit.Pos(), "the first "+s.FillN.String()+" elements of this input are padding, not data, but "+why)
			}
		}
	}
}

func linConst(e *lin.Expr) (int64, bool) {
	if e != nil && e.IsLin() && e.T.IsConst() {
		return e.T.C, true
	}
	return 0, false
}

func mentionsWord(text, name string) bool {
	re := regexp.MustCompile(`(^|[^A-Za-z0-9_.])` + regexp.QuoteMeta(name) + `($|[^A-Za-z0-9_])`)
	return re.MatchString(text)
}

// fillUse returns "" when the padding cannot influence the closure, else what is wrong.
func (c *Ctx) fillUse(tm *shape.Terms, cl *shape.Closure, m *dtab.Machine, param string, s *shape.Stream) string {
	if len(m.Unsupported) > 0 {
		return "the closure is not in loop-free form, the use of `" + param + "` is undecided: " + strings.Join(m.Unsupported, "; ")
	}
	vars := func(e sym.Expr) bool {
		vs := map[string]bool{}
		sym.Vars(e, vs)
		return vs[param]
	}
	for _, p := range m.Paths {
		for _, cd := range p.Conds {
			if vars(cd) {
				return "a branch of the closure compares `" + param + "` (" + sym.String(cd) + "): a padding value takes part in a decision"
			}
		}
	}
	// value-sensitive operations on the parameter need a counter gate covering the padding
	gated := func(p *dtab.Path) (string, bool) {
		for _, cd := range p.Conds {
			g, k, ok := counterGate(cd)
			if !ok {
				continue
			}
			// g starts at 0, is incremented exactly on the paths where g < k, untouched elsewhere
			init, okI := tm.ReadSym(cl, m.ReadExprs[g])
			if !okI || !sym.Equal(init, sym.N(0)) {
				return "the counter `" + g + "` guarding it does not provably start at 0", false
			}
			for _, q := range m.Paths {
				below := false
				for _, qc := range q.Conds {
					if g2, k2, neg, ok := counterBelow(qc); ok && g2 == g && sym.Equal(k2, k) {
						below = !neg
					}
				}
				u, has := q.Updates[g]
				switch {
				case below && (!has || !sym.Equal(u, sym.Add(sym.V(g), sym.N(1)))):
					return "the counter `" + g + "` is not incremented on every call below its bound", false
				case !below && has && !sym.Equal(u, sym.V(g)):
					return "the counter `" + g + "` changes after reaching its bound", false
				}
			}
			// the bound must cover the padding
			kv := k
			vs := map[string]bool{}
			sym.Vars(k, vs)
			sub := map[string]sym.Expr{}
			for v := range vs {
				if ex, ok := m.ReadExprs[v]; ok {
					if val, ok := tm.ReadSym(cl, ex); ok {
						sub[v] = val
					}
				}
			}
			kv = sym.Subst(k, sub)
			if !sym.Equal(kv, shape.LinToSym(s.FillN)) {
				return "the counter bound " + sym.CanonString(kv) + " is not the padding length " + s.FillN.String(), false
			}
			return "", true
		}
		return "it is executed from the first element on", false
	}
	for _, p := range m.Paths {
		for _, ef := range p.Effects {
			if !mentionsWord(ef, param) {
				continue
			}
			if why, ok := gated(p); !ok {
				return "`" + ef + "` receives `" + param + "` as if it were data (" + why + "): an input value equal to the padding value is affected during warm-up"
			}
		}
	}
	// arithmetic uses: additive with a zero fill
	check := func(e sym.Expr, what string) string {
		if e == nil || !vars(e) {
			return ""
		}
		if s.FillK != shape.FillZero {
			return what + " depends on `" + param + "` and the padding value is not 0"
		}
		// with a zero padding value every polynomial occurrence vanishes; what must not happen is the
		// parameter inside a denominator or inside a function application (max(b, x), abs(b - x), ...)
		r := sym.Canon(e)
		for _, t := range r.Den.Terms() {
			for f := range t.Factors {
				if f == param || mentionsWord(f, param) {
					return what + " divides by an expression of `" + param + "` (" + sym.CanonString(e) + ")"
				}
			}
		}
		for _, t := range r.Num.Terms() {
			for f := range t.Factors {
				if f != param && mentionsWord(f, param) {
					return what + " applies " + short(f, 60) + " to `" + param + "`: the padding value 0 takes part like a data value"
				}
			}
		}
		return ""
	}
	for _, p := range m.Paths {
		for st, u := range p.Updates {
			if w := check(u, "the remembered value `"+st+"`"); w != "" {
				return w
			}
		}
		for _, rv := range p.Ret {
			if w := check(rv, "the result"); w != "" {
				return w
			}
		}
	}
	return ""
}

// counterGate: the condition says the counter reached its bound (g >= k, !(g < k)).
func counterGate(cd sym.Expr) (string, sym.Expr, bool) {
	g, k, neg, ok := counterBelow(cd)
	if ok && neg {
		return g, k, true
	}
	return "", nil, false
}

// counterBelow recognises `g < k` (neg=false) and its negations `!(g < k)`, `g >= k` (neg=true).
func counterBelow(cd sym.Expr) (g string, k sym.Expr, neg bool, ok bool) {
	switch x := cd.(type) {
	case sym.Logic:
		if x.Op == "!" && len(x.Args) == 1 {
			g, k, n, ok := counterBelow(x.Args[0])
			return g, k, !n, ok
		}
	case sym.Cmp:
		if v, isVar := x.L.(sym.Var); isVar {
			switch x.Op {
			case "<":
				return v.Name, x.R, false, true
			case ">=":
				return v.Name, x.R, true, true
			}
		}
		if v, isVar := x.R.(sym.Var); isVar {
			switch x.Op {
			case ">":
				return v.Name, x.L, false, true
			case "<=":
				return v.Name, x.L, true, true
			}
		}
	}
	return "", nil, false, false
}
