package rules

import (
	"fmt"
	"go/types"
	"strings"

	"golang.org/x/tools/go/ssa"

	"verif/checker/internal/load"
	"verif/checker/internal/modsum"
)

// statefulFuncFields (C09, instance-state/closure): state can live on an instance without any
// field being written by Compute - in the captured variables of a closure that a constructor put
// into a function-typed field. Every value stored into a function-typed field of a struct, in the
// indicator and strategy packages, is resolved on SSA (closures, functions, results of module
// functions down to their returned closures, phis); a closure whose body (or anything it calls,
// by the mod-summaries of Engine C) writes one of its captured variables is reported: the field
// then carries a running value from one Compute call into the next and between concurrent calls.
// A function value supplied by the caller (a parameter) is configuration and is accepted.
func (c *Ctx) statefulFuncFields() {
	run := c.Run
	ms := c.modsum()
	stores, decided := 0, 0
	var resolve func(v ssa.Value, depth int, seen map[ssa.Value]bool) (bad string)
	resolve = func(v ssa.Value, depth int, seen map[ssa.Value]bool) string {
		if v == nil || seen[v] || depth > 4 {
			return ""
		}
		seen[v] = true
		switch x := v.(type) {
		case *ssa.ChangeType:
			return resolve(x.X, depth, seen)
		case *ssa.MakeInterface:
			return resolve(x.X, depth, seen)
		case *ssa.Phi:
			for _, e := range x.Edges {
				if b := resolve(e, depth, seen); b != "" {
					return b
				}
			}
		case *ssa.MakeClosure:
			fn, ok := x.Fn.(*ssa.Function)
			if !ok {
				return ""
			}
			if s := ms.SummaryOf(fn); s != nil {
				for _, f := range s.Writes {
					if f.Root.Kind == modsum.FreeVar {
						p := ms.Pos(f.Pos)
						return fmt.Sprintf("the closure %s writes its captured variable %s (%s at %s:%d)", fn.Name(), f.Root.Name, f.What, strings.TrimPrefix(p.Filename, c.P.Repo+"/"), p.Line)
					}
				}
			}
		case *ssa.Call:
			cal := x.Common().StaticCallee()
			if cal == nil {
				return ""
			}
			if cal.Blocks == nil && cal.Origin() != nil {
				cal = cal.Origin()
			}
			pkg := cal.Pkg
			if pkg == nil && cal.Origin() != nil {
				pkg = cal.Origin().Pkg // an instantiation wrapper of a generic function
			}
			if pkg == nil || !strings.HasPrefix(pkg.Pkg.Path(), load.ModulePath) {
				return ""
			}
			for _, b := range cal.Blocks {
				for _, in := range b.Instrs {
					if r, ok := in.(*ssa.Return); ok {
						for _, res := range r.Results {
							if _, isSig := res.Type().Underlying().(*types.Signature); !isSig {
								continue
							}
							if bad := resolve(res, depth+1, seen); bad != "" {
								return bad + ", returned by " + cal.Name()
							}
						}
					}
				}
			}
		}
		return ""
	}
	for _, fn := range ms.Funcs {
		if fn.Pkg == nil {
			continue
		}
		rel := load.RelPkg(fn.Pkg.Pkg.Path())
		isInd := rel == "trend" || rel == "momentum" || rel == "volatility" || rel == "volume"
		if !isInd && !strings.HasPrefix(rel, "strategy") {
			continue
		}
		if strings.HasSuffix(ms.Pos(fn.Pos()).Filename, "_test.go") {
			continue
		}
		for _, b := range fn.Blocks {
			for _, in := range b.Instrs {
				st, ok := in.(*ssa.Store)
				if !ok {
					continue
				}
				fa, ok := st.Addr.(*ssa.FieldAddr)
				if !ok {
					continue
				}
				if _, isSig := st.Val.Type().Underlying().(*types.Signature); !isSig {
					continue
				}
				stores++
				bad := resolve(st.Val, 0, map[ssa.Value]bool{})
				decided++
				run.Oblige(bad == "")
				if bad != "" {
					fname := "?"
					if pt, isP := fa.X.Type().Underlying().(*types.Pointer); isP {
						if stt, isS := pt.Elem().Underlying().(*types.Struct); isS && fa.Field < stt.NumFields() {
							fname = stt.Field(fa.Field).Name()
						}
					}
					c.violate("instance-state/closure", rel+"."+fn.Name(), "field "+fname, st.Pos(),
						"the function-typed field "+fname+" receives a stateful closure: "+bad+". The instance then carries that value from one Compute call into the next (and between concurrent calls) although no field is written")
				}
			}
		}
	}
	run.Count("function_field_stores", stores)
	if stores == 0 {
		c.ok() // no function-typed field is assigned anywhere in the instance packages
	}
}
