package rules

import (
	"go/ast"
	"go/token"
	"go/types"
	"sort"
	"strings"
)

// Shared pieces of the tree link discipline (C17): type predicates, the verification of the
// (node, parent) search loops, and the enumeration of truth assignments. The discipline itself
// is decided by the path interpretation in c17_paths.go.

type linkAn struct {
	c    *Ctx
	info *types.Info
	fd   *ast.FuncDecl
}

func helperNamed(t types.Type) string {
	if p, ok := t.(*types.Pointer); ok {
		t = p.Elem()
	}
	n, ok := t.(*types.Named)
	if !ok || n.Obj().Pkg() == nil || !strings.HasSuffix(n.Obj().Pkg().Path(), "/helper") {
		return ""
	}
	return n.Obj().Name()
}

func isNodePtr(t types.Type) bool {
	_, ok := t.(*types.Pointer)
	return ok && helperNamed(t) == "BstNode"
}

// linkSel: X.f where X is a *BstNode or *Bst and the field is a *BstNode.
func (la *linkAn) linkSel(e ast.Expr) (*ast.SelectorExpr, bool) {
	sel, ok := e.(*ast.SelectorExpr)
	if !ok {
		return nil, false
	}
	tx, ts := la.info.TypeOf(sel.X), la.info.TypeOf(sel)
	if tx == nil || ts == nil {
		return nil, false
	}
	if n := helperNamed(tx); (n == "BstNode" || n == "Bst") && isNodePtr(ts) {
		if _, isField := la.info.ObjectOf(sel.Sel).(*types.Var); isField {
			return sel, true
		}
	}
	return nil, false
}

func eqKey(a, b string) string {
	if a > b {
		a, b = b, a
	}
	return a + "==" + b
}

func buildParents(root ast.Node) map[ast.Node]ast.Node {
	par := map[ast.Node]ast.Node{}
	var stack []ast.Node
	ast.Inspect(root, func(n ast.Node) bool {
		if n == nil {
			stack = stack[:len(stack)-1]
			return true
		}
		if len(stack) > 0 {
			par[n] = stack[len(stack)-1]
		}
		stack = append(stack, n)
		return true
	})
	return par
}

func (la *linkAn) assignsAny(s ast.Node, objs map[types.Object]bool, before token.Pos) bool {
	found := false
	ast.Inspect(s, func(n ast.Node) bool {
		if n == nil || n.Pos() >= before {
			return n == nil || n.Pos() < before
		}
		if as, ok := n.(*ast.AssignStmt); ok {
			for _, l := range as.Lhs {
				if id, ok := l.(*ast.Ident); ok && objs[la.info.ObjectOf(id)] {
					found = true
				}
			}
		}
		return true
	})
	return found
}

type finderInfo struct {
	fn        *types.Func
	startRoot bool            // starts at the receiver's root
	startArg  int             // else: index of the parameter it starts at
	links     map[string]bool // link fields it descends along
	exitNil   string          // the loop runs while node.<exitNil> != nil: the result has no such child
}

var finderMemo = map[*types.Func]*finderInfo{}
var finderDone = map[*types.Func]bool{}

// finderOf verifies the (node, parent) search loop shape of fn.
func (c *Ctx) finderOf(fn *types.Func) *finderInfo {
	fn = fn.Origin()
	if finderDone[fn] {
		return finderMemo[fn]
	}
	fi := c.finderOf1(fn)
	finderDone[fn], finderMemo[fn] = true, fi
	return fi
}

func (c *Ctx) finderOf1(fn *types.Func) *finderInfo {
	d := c.P.Decls[fn.Origin()]
	if d == nil || d.Decl.Body == nil {
		return nil
	}
	fd, info := d.Decl, d.Pkg.TypesInfo
	if fd.Type.Results == nil || fd.Type.Results.NumFields() != 2 {
		return nil
	}
	la := &linkAn{c: c, info: info, fd: fd}
	var loop *ast.ForStmt
	var ret *ast.ReturnStmt
	for _, s := range fd.Body.List {
		switch x := s.(type) {
		case *ast.ForStmt:
			if loop != nil {
				return nil
			}
			loop = x
		case *ast.ReturnStmt:
			ret = x
		}
	}
	if loop == nil || ret == nil || len(ret.Results) != 2 {
		return nil
	}
	nodeID, ok1 := ret.Results[0].(*ast.Ident)
	parID, ok2 := ret.Results[1].(*ast.Ident)
	if !ok1 || !ok2 {
		return nil
	}
	nodeObj, parObj := info.ObjectOf(nodeID), info.ObjectOf(parID)
	fi := &finderInfo{fn: fn, startArg: -1, links: map[string]bool{}}
	// definitions outside the loop: node := start, parent declared nil
	okShape := true
	for _, s := range fd.Body.List {
		if s == ast.Stmt(loop) {
			break
		}
		ast.Inspect(s, func(n ast.Node) bool {
			switch x := n.(type) {
			case *ast.AssignStmt:
				for i, l := range x.Lhs {
					id, ok := l.(*ast.Ident)
					if !ok {
						continue
					}
					switch info.ObjectOf(id) {
					case nodeObj:
						if len(x.Rhs) != len(x.Lhs) {
							okShape = false
							continue
						}
						if sel, isL := la.linkSel(x.Rhs[i]); isL && helperNamed(info.TypeOf(sel.X)) == "Bst" {
							fi.startRoot = true
						} else if sid, isID := x.Rhs[i].(*ast.Ident); isID {
							idx := 0
							found := false
							for _, f := range fd.Type.Params.List {
								for _, nm := range f.Names {
									if info.ObjectOf(nm) == info.ObjectOf(sid) {
										fi.startArg, found = idx, true
									}
									idx++
								}
							}
							if !found {
								okShape = false
							}
						} else {
							okShape = false
						}
					case parObj:
						if len(x.Rhs) != len(x.Lhs) || !isNilIdent(x.Rhs[i]) {
							okShape = false
						}
					}
				}
			case *ast.ValueSpec:
				for i, nm := range x.Names {
					if info.ObjectOf(nm) == parObj && i < len(x.Values) && !isNilIdent(x.Values[i]) {
						okShape = false
					}
				}
			}
			return true
		})
	}
	if !okShape || (!fi.startRoot && fi.startArg < 0) {
		return nil
	}
	// the loop runs while node.d != nil
	nilTestOn := func(e ast.Expr, obj types.Object) string {
		be, ok := e.(*ast.BinaryExpr)
		if !ok || be.Op != token.NEQ || !isNilIdent(be.Y) {
			return ""
		}
		if id, ok := be.X.(*ast.Ident); ok && obj != nil && info.ObjectOf(id) == obj {
			return "."
		}
		if sel, ok := la.linkSel(be.X); ok {
			if b, ok := sel.X.(*ast.Ident); ok && info.ObjectOf(b) == nodeObj {
				return sel.Sel.Name
			}
		}
		return ""
	}
	// second shape: for next := node.d; next != nil; next = node.d { parent, node = node, next }
	if init, ok := loop.Init.(*ast.AssignStmt); ok && loop.Post != nil && loop.Cond != nil && len(init.Lhs) == 1 && len(init.Rhs) == 1 && len(loop.Body.List) == 1 {
		nx, okN := init.Lhs[0].(*ast.Ident)
		isel, okI := la.linkSel(init.Rhs[0])
		post, okP := loop.Post.(*ast.AssignStmt)
		body, okB := loop.Body.List[0].(*ast.AssignStmt)
		if okN && okI && okP && okB && len(post.Lhs) == 1 && len(post.Rhs) == 1 && len(body.Lhs) == 2 && len(body.Rhs) == 2 {
			nxObj := info.ObjectOf(nx)
			psel, okPS := la.linkSel(post.Rhs[0])
			pl, okPL := post.Lhs[0].(*ast.Ident)
			onNode := func(sel *ast.SelectorExpr) bool {
				b, ok := sel.X.(*ast.Ident)
				return ok && info.ObjectOf(b) == nodeObj
			}
			l0, ok0 := body.Lhs[0].(*ast.Ident)
			l1, ok1 := body.Lhs[1].(*ast.Ident)
			r0, ok2 := body.Rhs[0].(*ast.Ident)
			r1, ok3 := body.Rhs[1].(*ast.Ident)
			if okPS && okPL && info.ObjectOf(pl) == nxObj && onNode(isel) && onNode(psel) && isel.Sel.Name == psel.Sel.Name &&
				nilTestOn(loop.Cond, nxObj) == "." && ok0 && ok1 && ok2 && ok3 &&
				info.ObjectOf(l0) == parObj && info.ObjectOf(l1) == nodeObj && info.ObjectOf(r0) == nodeObj && info.ObjectOf(r1) == nxObj {
				fi.links[isel.Sel.Name] = true
				fi.exitNil = isel.Sel.Name
				return fi
			}
		}
		return nil
	}
	if loop.Init != nil || loop.Post != nil {
		return nil
	}
	defer func() {
		if d := ""; loop.Cond != nil {
			d = nilTestOn(loop.Cond, nil)
			if d != "" && d != "." && len(fi.links) == 1 && fi.links[d] {
				fi.exitNil = d
			}
		}
	}()
	// loop body: [stmts not touching node/parent]; parent = node; advance
	idx := -1
	for i, s := range loop.Body.List {
		if as, ok := s.(*ast.AssignStmt); ok && len(as.Lhs) == 1 && len(as.Rhs) == 1 {
			l, lok := as.Lhs[0].(*ast.Ident)
			r, rok := as.Rhs[0].(*ast.Ident)
			if lok && rok && info.ObjectOf(l) == parObj && info.ObjectOf(r) == nodeObj {
				idx = i
				break
			}
		}
		if la.assignsAny(s, map[types.Object]bool{nodeObj: true, parObj: true}, token.Pos(1<<30)) {
			return nil
		}
	}
	if idx < 0 || idx != len(loop.Body.List)-2 {
		return nil
	}
	var advance func(s ast.Stmt) bool
	advance = func(s ast.Stmt) bool {
		switch x := s.(type) {
		case *ast.AssignStmt:
			if len(x.Lhs) != 1 || len(x.Rhs) != 1 {
				return false
			}
			l, lok := x.Lhs[0].(*ast.Ident)
			sel, isL := la.linkSel(x.Rhs[0])
			if !lok || !isL || info.ObjectOf(l) != nodeObj {
				return false
			}
			if b, ok := sel.X.(*ast.Ident); !ok || info.ObjectOf(b) != nodeObj {
				return false
			}
			fi.links[sel.Sel.Name] = true
			return true
		case *ast.BlockStmt:
			return len(x.List) == 1 && advance(x.List[0])
		case *ast.IfStmt:
			return x.Else != nil && advance(x.Body) && advance(x.Else)
		}
		return false
	}
	if !advance(loop.Body.List[idx+1]) {
		return nil
	}
	// the search goes on exactly while there is somewhere to go: `node != nil`, or `node.d != nil`
	// for the one link d it follows
	if loop.Cond != nil {
		cond := ast.Unparen(loop.Cond)
		// `node != nil && <anything about the node>`: the nil test is the first conjunct
		for {
			be, isBin := cond.(*ast.BinaryExpr)
			if !isBin || be.Op != token.LAND {
				break
			}
			cond = ast.Unparen(be.X)
		}
		d := nilTestOn(cond, nodeObj)
		if d == "" || (d != "." && !(len(fi.links) == 1 && fi.links[d])) {
			return nil
		}
	}
	return fi
}

func isNilIdent(e ast.Expr) bool {
	id, ok := e.(*ast.Ident)
	return ok && id.Name == "nil"
}

// worlds enumerates the truth assignments over atoms that satisfy the facts and calls f on each.
func enumWorlds(atoms []string, facts func(w map[string]bool) bool, f func(w map[string]bool)) {
	n := len(atoms)
	if n > 16 {
		n = 16
	}
	for m := 0; m < 1<<n; m++ {
		w := map[string]bool{}
		for i := 0; i < n; i++ {
			w[atoms[i]] = m&(1<<i) != 0
		}
		if facts(w) {
			f(w)
		}
	}
}

func worldText(w map[string]bool, keys []string) string {
	var parts []string
	for _, k := range keys {
		if w[k] {
			parts = append(parts, k)
		} else {
			parts = append(parts, "!("+k+")")
		}
	}
	return strings.Join(parts, ", ")
}

func sortedKeys(m map[string]bool) []string {
	var ks []string
	for k := range m {
		ks = append(ks, k)
	}
	sort.Strings(ks)
	return ks
}
