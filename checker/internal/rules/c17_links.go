package rules

import (
	"go/ast"
	"go/token"
	"go/types"
	"sort"
	"strings"
)

// Link-write discipline of the search tree (C17, the removal half of the multiset model).
//
// Every assignment in package helper that stores into a child link of a BstNode, into the root
// of a Bst or into the value of an existing node is classified and justified on a finite table
// of "worlds": truth assignments to the pointer comparisons the function itself makes.
//
//   attach   X.f = fresh      the link is nil in every world the path conditions allow
//   splice   X.f = N.g        in every allowed world the link overwritten pointed at N and the
//                             other child of N is nil: no node other than N leaves the tree
//   replace  N.value = M.value  M is the in-order neighbour of N (finder started at N.l that
//                             descends along the other link) and M itself is spliced out by a
//                             call with the parent the finder returned
//
// A function with the signature (recv *Bst) f(n, p *BstNode) that splices n is given the
// precondition "exactly one of recv.root, p.small, p.large points at n", and every call of it has
// to establish that from a verified finder (a loop that stores parent = node before every
// node = node.link step).

type linkAn struct {
	c       *Ctx
	info    *types.Info
	fd      *ast.FuncDecl
	parents map[ast.Node]ast.Node
}

func helperNamed(t types.Type) string {
	if p, ok := t.(*types.Pointer); ok {
		t = p.Elem()
	}
	n, ok := t.(*types.Named)
	if !ok || n.Obj().Pkg() == nil || !strings.HasSuffix(n.Obj().Pkg().Path(), "/helper") {
		return ""
	}
	return n.Obj().Name()
}

func isNodePtr(t types.Type) bool {
	_, ok := t.(*types.Pointer)
	return ok && helperNamed(t) == "BstNode"
}

// linkSel: X.f where X is a *BstNode or *Bst and the field is a *BstNode.
func (la *linkAn) linkSel(e ast.Expr) (*ast.SelectorExpr, bool) {
	sel, ok := e.(*ast.SelectorExpr)
	if !ok {
		return nil, false
	}
	tx, ts := la.info.TypeOf(sel.X), la.info.TypeOf(sel)
	if tx == nil || ts == nil {
		return nil, false
	}
	if n := helperNamed(tx); (n == "BstNode" || n == "Bst") && isNodePtr(ts) {
		if _, isField := la.info.ObjectOf(sel.Sel).(*types.Var); isField {
			return sel, true
		}
	}
	return nil, false
}

func (la *linkAn) valueSel(e ast.Expr) (*ast.SelectorExpr, bool) {
	sel, ok := e.(*ast.SelectorExpr)
	if !ok {
		return nil, false
	}
	tx := la.info.TypeOf(sel.X)
	if tx == nil || helperNamed(tx) != "BstNode" || sel.Sel.Name != bstF.value {
		return nil, false
	}
	return sel, true
}

func eqKey(a, b string) string {
	if a > b {
		a, b = b, a
	}
	return a + "==" + b
}

func buildParents(root ast.Node) map[ast.Node]ast.Node {
	par := map[ast.Node]ast.Node{}
	var stack []ast.Node
	ast.Inspect(root, func(n ast.Node) bool {
		if n == nil {
			stack = stack[:len(stack)-1]
			return true
		}
		if len(stack) > 0 {
			par[n] = stack[len(stack)-1]
		}
		stack = append(stack, n)
		return true
	})
	return par
}

type polCond struct {
	e   ast.Expr
	pos bool
}

// pathConds: the conditions of the ifs enclosing n, with polarity, up to the nearest loop.
// A condition is dropped when a statement between the start of its branch and n assigns an
// identifier the condition mentions.
func (la *linkAn) pathConds(n ast.Node) []polCond {
	var out []polCond
	child := n
	for p := la.parents[child]; p != nil; child, p = p, la.parents[p] {
		switch x := p.(type) {
		case *ast.ForStmt, *ast.RangeStmt, *ast.FuncLit:
			return out
		case *ast.IfStmt:
			if child == ast.Node(x.Body) {
				if la.stableUntil(x.Body, n, x.Cond) {
					out = append(out, polCond{x.Cond, true})
				}
			} else if child == x.Else {
				if blk, ok := x.Else.(*ast.BlockStmt); !ok || la.stableUntil(blk, n, x.Cond) {
					out = append(out, polCond{x.Cond, false})
				}
			}
		case *ast.BlockStmt:
			// earlier `if c { ...exit }` siblings
			for _, s := range x.List {
				if s.End() > child.Pos() {
					break
				}
				if is, ok := s.(*ast.IfStmt); ok && is.Else == nil {
					if _, exits := endsWithExit(is.Body); exits && la.stableBetween(x, s, n, is.Cond) {
						out = append(out, polCond{is.Cond, false})
					}
				}
			}
		}
	}
	return out
}

func (la *linkAn) mentioned(e ast.Expr) map[types.Object]bool {
	m := map[types.Object]bool{}
	ast.Inspect(e, func(n ast.Node) bool {
		if id, ok := n.(*ast.Ident); ok {
			if o := la.info.ObjectOf(id); o != nil {
				if _, isVar := o.(*types.Var); isVar {
					m[o] = true
				}
			}
		}
		return true
	})
	return m
}

func (la *linkAn) assignsAny(s ast.Node, objs map[types.Object]bool, before token.Pos) bool {
	found := false
	ast.Inspect(s, func(n ast.Node) bool {
		if n == nil || n.Pos() >= before {
			return n == nil || n.Pos() < before
		}
		if as, ok := n.(*ast.AssignStmt); ok {
			for _, l := range as.Lhs {
				if id, ok := l.(*ast.Ident); ok && objs[la.info.ObjectOf(id)] {
					found = true
				}
			}
		}
		return true
	})
	return found
}

func (la *linkAn) stableUntil(blk *ast.BlockStmt, n ast.Node, cond ast.Expr) bool {
	return !la.assignsAny(blk, la.mentioned(cond), n.Pos())
}

func (la *linkAn) stableBetween(blk *ast.BlockStmt, after ast.Stmt, n ast.Node, cond ast.Expr) bool {
	objs := la.mentioned(cond)
	for _, s := range blk.List {
		if s.Pos() <= after.Pos() {
			continue
		}
		if s.Pos() >= n.Pos() {
			break
		}
		if la.assignsAny(s, objs, n.Pos()) {
			return false
		}
	}
	return true
}

// collectAtoms gathers the comparison atoms of a boolean expression.
func (la *linkAn) collectAtoms(e ast.Expr, atoms map[string]bool) {
	switch x := e.(type) {
	case *ast.ParenExpr:
		la.collectAtoms(x.X, atoms)
	case *ast.UnaryExpr:
		if x.Op == token.NOT {
			la.collectAtoms(x.X, atoms)
			return
		}
		atoms[exprString(e)] = true
	case *ast.BinaryExpr:
		switch x.Op {
		case token.LAND, token.LOR:
			la.collectAtoms(x.X, atoms)
			la.collectAtoms(x.Y, atoms)
		case token.EQL, token.NEQ:
			atoms[eqKey(exprString(x.X), exprString(x.Y))] = true
		default:
			atoms[exprString(e)] = true
		}
	default:
		atoms[exprString(e)] = true
	}
}

func (la *linkAn) evalIn(e ast.Expr, w map[string]bool) bool {
	switch x := e.(type) {
	case *ast.ParenExpr:
		return la.evalIn(x.X, w)
	case *ast.UnaryExpr:
		if x.Op == token.NOT {
			return !la.evalIn(x.X, w)
		}
	case *ast.BinaryExpr:
		switch x.Op {
		case token.LAND:
			return la.evalIn(x.X, w) && la.evalIn(x.Y, w)
		case token.LOR:
			return la.evalIn(x.X, w) || la.evalIn(x.Y, w)
		case token.EQL:
			return w[eqKey(exprString(x.X), exprString(x.Y))]
		case token.NEQ:
			return !w[eqKey(exprString(x.X), exprString(x.Y))]
		}
	}
	return w[exprString(e)]
}

type cand struct {
	val   ast.Expr
	conds []polCond
}

// inlineReturns: the return values of an unexported single-result helper of the package, each
// with the conditions it is returned under, parameters replaced by the call's arguments.
func (la *linkAn) inlineReturns(call *ast.CallExpr) []cand {
	fn := callee(la.info, call)
	if fn == nil || fn.Exported() {
		return nil
	}
	d := la.c.P.Decls[fn.Origin()]
	if d == nil || d.Decl.Body == nil || d.Pkg.TypesInfo != la.info || d.Decl.Recv != nil {
		return nil
	}
	fd := d.Decl
	if fd.Type.Results == nil || fd.Type.Results.NumFields() != 1 {
		return nil
	}
	sub := map[types.Object]ast.Expr{}
	i := 0
	for _, f := range fd.Type.Params.List {
		for _, nm := range f.Names {
			if i >= len(call.Args) {
				return nil
			}
			if _, ok := call.Args[i].(*ast.Ident); !ok {
				return nil
			}
			sub[la.info.ObjectOf(nm)] = call.Args[i]
			i++
		}
	}
	// the body may only test and return
	pure := true
	ast.Inspect(fd.Body, func(n ast.Node) bool {
		switch n.(type) {
		case *ast.AssignStmt, *ast.CallExpr, *ast.ForStmt, *ast.RangeStmt, *ast.IncDecStmt, *ast.GoStmt, *ast.DeferStmt:
			pure = false
		}
		return pure
	})
	if !pure {
		return nil
	}
	inner := &linkAn{c: la.c, info: la.info, fd: fd, parents: buildParents(fd)}
	var out []cand
	ast.Inspect(fd.Body, func(n ast.Node) bool {
		r, ok := n.(*ast.ReturnStmt)
		if !ok || len(r.Results) != 1 {
			return true
		}
		cd := cand{val: la.subst(r.Results[0], sub)}
		for _, pc := range inner.pathConds(r) {
			cd.conds = append(cd.conds, polCond{la.subst(pc.e, sub), pc.pos})
		}
		out = append(out, cd)
		return true
	})
	return out
}

// subst copies an expression, replacing parameter identifiers; the copies get the types of the originals.
func (la *linkAn) subst(e ast.Expr, sub map[types.Object]ast.Expr) ast.Expr {
	switch x := e.(type) {
	case *ast.Ident:
		if r, ok := sub[la.info.ObjectOf(x)]; ok {
			return r
		}
		return x
	case *ast.ParenExpr:
		return la.subst(x.X, sub)
	case *ast.SelectorExpr:
		n := &ast.SelectorExpr{X: la.subst(x.X, sub), Sel: x.Sel}
		if tv, ok := la.info.Types[x]; ok {
			la.info.Types[n] = tv
		}
		return n
	case *ast.UnaryExpr:
		return &ast.UnaryExpr{Op: x.Op, X: la.subst(x.X, sub), OpPos: x.OpPos}
	case *ast.BinaryExpr:
		return &ast.BinaryExpr{X: la.subst(x.X, sub), Op: x.Op, Y: la.subst(x.Y, sub), OpPos: x.OpPos}
	}
	return e
}

type guardedDef struct {
	val   ast.Expr // nil for a declaration without a value
	conds []polCond
	pos   token.Pos
}

// defsOf: all definitions of a local variable in the function, with their path conditions.
func (la *linkAn) defsOf(obj types.Object) []guardedDef {
	var out []guardedDef
	ast.Inspect(la.fd.Body, func(n ast.Node) bool {
		switch x := n.(type) {
		case *ast.ValueSpec:
			for i, nm := range x.Names {
				if la.info.ObjectOf(nm) == obj {
					var v ast.Expr
					if i < len(x.Values) {
						v = x.Values[i]
					}
					out = append(out, guardedDef{v, la.pathConds(x), x.Pos()})
				}
			}
		case *ast.AssignStmt:
			for i, l := range x.Lhs {
				if id, ok := l.(*ast.Ident); ok && la.info.ObjectOf(id) == obj {
					var v ast.Expr
					if len(x.Rhs) == len(x.Lhs) {
						v = x.Rhs[i]
					} else if len(x.Rhs) == 1 {
						v = x.Rhs[0]
					}
					out = append(out, guardedDef{v, la.pathConds(x), x.Pos()})
				}
			}
		}
		return true
	})
	sort.Slice(out, func(i, j int) bool { return out[i].pos < out[j].pos })
	return out
}

// contract: the function splices its first node parameter out of the link its second node
// parameter (or the receiver's root) holds to it.
type spliceContract struct {
	n, p *types.Var
	recv *types.Var
	root string // receiver root selector text, e.g. "b.root"
}

func (la *linkAn) contractOf(fd *ast.FuncDecl) *spliceContract {
	if fd.Recv == nil || len(fd.Recv.List) != 1 || len(fd.Recv.List[0].Names) != 1 {
		return nil
	}
	rv, _ := la.info.ObjectOf(fd.Recv.List[0].Names[0]).(*types.Var)
	if rv == nil || helperNamed(rv.Type()) != "Bst" {
		return nil
	}
	var nodes []*types.Var
	for _, f := range fd.Type.Params.List {
		for _, nm := range f.Names {
			v, _ := la.info.ObjectOf(nm).(*types.Var)
			if v != nil && isNodePtr(v.Type()) {
				nodes = append(nodes, v)
			} else {
				return nil
			}
		}
	}
	if len(nodes) != 2 || (fd.Type.Results != nil && len(fd.Type.Results.List) > 0) {
		return nil
	}
	root := ""
	if st, ok := rv.Type().(*types.Pointer).Elem().Underlying().(*types.Struct); ok {
		for i := 0; i < st.NumFields(); i++ {
			if isNodePtr(st.Field(i).Type()) {
				root = rv.Name() + "." + st.Field(i).Name()
			}
		}
	}
	if root == "" {
		return nil
	}
	return &spliceContract{n: nodes[0], p: nodes[1], recv: rv, root: root}
}

type finderInfo struct {
	fn        *types.Func
	startRoot bool            // starts at the receiver's root
	startArg  int             // else: index of the parameter it starts at
	links     map[string]bool // link fields it descends along
}

// finderOf verifies the (node, parent) search loop shape of fn.
func (c *Ctx) finderOf(fn *types.Func) *finderInfo {
	d := c.P.Decls[fn.Origin()]
	if d == nil || d.Decl.Body == nil {
		return nil
	}
	fd, info := d.Decl, d.Pkg.TypesInfo
	if fd.Type.Results == nil || fd.Type.Results.NumFields() != 2 {
		return nil
	}
	la := &linkAn{c: c, info: info, fd: fd}
	var loop *ast.ForStmt
	var ret *ast.ReturnStmt
	for _, s := range fd.Body.List {
		switch x := s.(type) {
		case *ast.ForStmt:
			if loop != nil {
				return nil
			}
			loop = x
		case *ast.ReturnStmt:
			ret = x
		}
	}
	if loop == nil || ret == nil || len(ret.Results) != 2 {
		return nil
	}
	nodeID, ok1 := ret.Results[0].(*ast.Ident)
	parID, ok2 := ret.Results[1].(*ast.Ident)
	if !ok1 || !ok2 {
		return nil
	}
	nodeObj, parObj := info.ObjectOf(nodeID), info.ObjectOf(parID)
	fi := &finderInfo{fn: fn, startArg: -1, links: map[string]bool{}}
	// definitions outside the loop: node := start, parent declared nil
	okShape := true
	for _, s := range fd.Body.List {
		if s == ast.Stmt(loop) {
			break
		}
		ast.Inspect(s, func(n ast.Node) bool {
			switch x := n.(type) {
			case *ast.AssignStmt:
				for i, l := range x.Lhs {
					id, ok := l.(*ast.Ident)
					if !ok {
						continue
					}
					switch info.ObjectOf(id) {
					case nodeObj:
						if len(x.Rhs) != len(x.Lhs) {
							okShape = false
							continue
						}
						if sel, isL := la.linkSel(x.Rhs[i]); isL && helperNamed(info.TypeOf(sel.X)) == "Bst" {
							fi.startRoot = true
						} else if sid, isID := x.Rhs[i].(*ast.Ident); isID {
							idx := 0
							found := false
							for _, f := range fd.Type.Params.List {
								for _, nm := range f.Names {
									if info.ObjectOf(nm) == info.ObjectOf(sid) {
										fi.startArg, found = idx, true
									}
									idx++
								}
							}
							if !found {
								okShape = false
							}
						} else {
							okShape = false
						}
					case parObj:
						if len(x.Rhs) != len(x.Lhs) || !isNilIdent(x.Rhs[i]) {
							okShape = false
						}
					}
				}
			case *ast.ValueSpec:
				for i, nm := range x.Names {
					if info.ObjectOf(nm) == parObj && i < len(x.Values) && !isNilIdent(x.Values[i]) {
						okShape = false
					}
				}
			}
			return true
		})
	}
	if !okShape || (!fi.startRoot && fi.startArg < 0) {
		return nil
	}
	// loop body: [stmts not touching node/parent]; parent = node; advance
	idx := -1
	for i, s := range loop.Body.List {
		if as, ok := s.(*ast.AssignStmt); ok && len(as.Lhs) == 1 && len(as.Rhs) == 1 {
			l, lok := as.Lhs[0].(*ast.Ident)
			r, rok := as.Rhs[0].(*ast.Ident)
			if lok && rok && info.ObjectOf(l) == parObj && info.ObjectOf(r) == nodeObj {
				idx = i
				break
			}
		}
		if la.assignsAny(s, map[types.Object]bool{nodeObj: true, parObj: true}, token.Pos(1<<30)) {
			return nil
		}
	}
	if idx < 0 || idx != len(loop.Body.List)-2 {
		return nil
	}
	var advance func(s ast.Stmt) bool
	advance = func(s ast.Stmt) bool {
		switch x := s.(type) {
		case *ast.AssignStmt:
			if len(x.Lhs) != 1 || len(x.Rhs) != 1 {
				return false
			}
			l, lok := x.Lhs[0].(*ast.Ident)
			sel, isL := la.linkSel(x.Rhs[0])
			if !lok || !isL || info.ObjectOf(l) != nodeObj {
				return false
			}
			if b, ok := sel.X.(*ast.Ident); !ok || info.ObjectOf(b) != nodeObj {
				return false
			}
			fi.links[sel.Sel.Name] = true
			return true
		case *ast.BlockStmt:
			return len(x.List) == 1 && advance(x.List[0])
		case *ast.IfStmt:
			return x.Else != nil && advance(x.Body) && advance(x.Else)
		}
		return false
	}
	if !advance(loop.Body.List[idx+1]) {
		return nil
	}
	return fi
}

func isNilIdent(e ast.Expr) bool {
	id, ok := e.(*ast.Ident)
	return ok && id.Name == "nil"
}

// bstLinks runs the classification over package helper.
func (c *Ctx) bstLinks() {
	run := c.Run
	hp := c.P.Pkg("helper")
	info := hp.TypesInfo
	nWrites, nCalls := 0, 0
	var fds []*ast.FuncDecl
	for _, f := range hp.Syntax {
		if strings.HasSuffix(c.P.Fset.Position(f.Pos()).Filename, "_test.go") {
			continue
		}
		for _, d := range f.Decls {
			if fd, ok := d.(*ast.FuncDecl); ok && fd.Body != nil {
				fds = append(fds, fd)
			}
		}
	}
	contracts := map[*types.Func]*spliceContract{}
	for _, fd := range fds {
		la := &linkAn{c: c, info: info, fd: fd}
		if ct := la.contractOf(fd); ct != nil {
			if fn, ok := info.ObjectOf(fd.Name).(*types.Func); ok {
				contracts[fn] = ct
			}
		}
	}
	for _, fd := range fds {
		la := &linkAn{c: c, info: info, fd: fd, parents: buildParents(fd)}
		site := "helper." + fd.Name.Name
		fnObj, _ := info.ObjectOf(fd.Name).(*types.Func)
		ct := contracts[fnObj]
		usesContract := false
		ast.Inspect(fd.Body, func(n ast.Node) bool {
			switch x := n.(type) {
			case *ast.AssignStmt:
				if x.Tok != token.ASSIGN {
					return true
				}
				for i, l := range x.Lhs {
					if st, ok := l.(*ast.StarExpr); ok && helperNamed(info.TypeOf(st)) == "BstNode" {
						nWrites++
						c.violate("bst-links", site, "node copy", x.Pos(), "a whole tree node is overwritten ("+exprString(l)+"): the link discipline cannot be decided (fails closed)")
						continue
					}
					if len(x.Rhs) != len(x.Lhs) {
						continue
					}
					if sel, ok := la.linkSel(l); ok {
						nWrites++
						if la.checkLinkWrite(site, x, sel, x.Rhs[i], ct) {
							usesContract = true
						}
					} else if sel, ok := la.valueSel(l); ok {
						nWrites++
						la.checkValueWrite(site, x, sel, x.Rhs[i], contracts)
					}
				}
			case *ast.CallExpr:
				if fn := callee(info, x); fn != nil {
					if cc := contracts[fn.Origin()]; cc != nil {
						nCalls++
						la.checkSpliceCall(site, x, cc)
					}
				}
			}
			return true
		})
		_ = usesContract
	}
	run.Count("bst_link_writes", nWrites)
	run.Floor("bst_link_writes", 7)
	run.Count("bst_splice_calls", nCalls)
	run.Floor("bst_splice_calls", 2)
}

// worlds enumerates the truth assignments over atoms that satisfy the facts and calls f on each.
func enumWorlds(atoms []string, facts func(w map[string]bool) bool, f func(w map[string]bool)) {
	n := len(atoms)
	if n > 16 {
		n = 16
	}
	for m := 0; m < 1<<n; m++ {
		w := map[string]bool{}
		for i := 0; i < n; i++ {
			w[atoms[i]] = m&(1<<i) != 0
		}
		if facts(w) {
			f(w)
		}
	}
}

func worldText(w map[string]bool, keys []string) string {
	var parts []string
	for _, k := range keys {
		if w[k] {
			parts = append(parts, k)
		} else {
			parts = append(parts, "!("+k+")")
		}
	}
	return strings.Join(parts, ", ")
}

// aliasFacts: a local with the single definition V := X.f names the node X.f points at.
func (la *linkAn) aliasFacts(before token.Pos) map[string]bool {
	out := map[string]bool{}
	count := map[types.Object]int{}
	def := map[types.Object]ast.Expr{}
	ast.Inspect(la.fd.Body, func(n ast.Node) bool {
		if as, ok := n.(*ast.AssignStmt); ok {
			for i, l := range as.Lhs {
				if id, ok := l.(*ast.Ident); ok {
					o := la.info.ObjectOf(id)
					count[o]++
					if len(as.Rhs) == len(as.Lhs) && as.Pos() < before {
						def[o] = as.Rhs[i]
					}
				}
			}
		}
		return true
	})
	for o, e := range def {
		if count[o] != 1 {
			continue
		}
		if sel, ok := la.linkSel(e); ok {
			out[eqKey(o.Name(), exprString(sel))] = true
		}
	}
	return out
}

// earlierMutation: a link write or a call of a splicing function that can execute before n in
// this function invalidates the facts read from conditions.
func (la *linkAn) earlierMutation(n ast.Node, contracts func(*ast.CallExpr) bool) ast.Node {
	var hit ast.Node
	contains := func(outer, inner ast.Node) bool { return outer.Pos() <= inner.Pos() && inner.End() <= outer.End() }
	ast.Inspect(la.fd.Body, func(m ast.Node) bool {
		if m == nil || hit != nil || m == n || m.Pos() >= n.Pos() {
			return m != nil && hit == nil && m.Pos() < n.Pos()
		}
		mut := false
		switch x := m.(type) {
		case *ast.AssignStmt:
			for _, l := range x.Lhs {
				if _, ok := la.linkSel(l); ok {
					mut = true
				}
			}
		case *ast.CallExpr:
			mut = contracts(x)
		}
		if !mut {
			return true
		}
		// the innermost branch block holding m must also hold n, and must not end in an exit
		for p := la.parents[m]; p != nil; p = la.parents[p] {
			if blk, ok := p.(*ast.BlockStmt); ok {
				if _, isIf := la.parents[blk].(*ast.IfStmt); isIf || la.parents[blk] == ast.Node(la.fd) {
					if contains(blk, n) {
						hit = m
					}
					return true
				}
			}
		}
		return true
	})
	return hit
}

func (la *linkAn) checkLinkWrite(site string, as *ast.AssignStmt, lhs *ast.SelectorExpr, rhs ast.Expr, ct *spliceContract) bool {
	c := la.c
	lhsText := exprString(lhs)
	conds := la.pathConds(as)
	atoms := map[string]bool{}
	for _, pc := range conds {
		la.collectAtoms(pc.e, atoms)
	}
	alias := la.aliasFacts(as.Pos())
	for k := range alias {
		atoms[k] = true
	}
	// the value stored: follow local definitions
	var cands []cand
	if id, ok := rhs.(*ast.Ident); ok && !isNilIdent(rhs) {
		obj := la.info.ObjectOf(id)
		isParam := false
		if v, ok := obj.(*types.Var); ok {
			for _, f := range la.fd.Type.Params.List {
				for _, nm := range f.Names {
					if la.info.ObjectOf(nm) == v {
						isParam = true
					}
				}
			}
		}
		if isParam {
			cands = append(cands, cand{rhs, nil})
		} else {
			for _, d := range la.defsOf(obj) {
				if d.pos < as.Pos() {
					for _, pc := range d.conds {
						la.collectAtoms(pc.e, atoms)
					}
					cands = append(cands, cand{d.val, d.conds})
				}
			}
		}
	} else {
		cands = append(cands, cand{rhs, nil})
	}
	// a value computed by an unexported helper of the package: its returns, with their conditions
	var expanded []cand
	for _, cd := range cands {
		if call, ok := cd.val.(*ast.CallExpr); ok {
			if inl := la.inlineReturns(call); inl != nil {
				for _, r := range inl {
					for _, pc := range r.conds {
						la.collectAtoms(pc.e, atoms)
					}
					expanded = append(expanded, cand{r.val, append(append([]polCond{}, cd.conds...), r.conds...)})
				}
				continue
			}
		}
		expanded = append(expanded, cd)
	}
	cands = expanded
	// fresh node: attach
	fresh := false
	if len(cands) == 1 && cands[0].val != nil {
		if u, ok := cands[0].val.(*ast.UnaryExpr); ok && u.Op == token.AND {
			_, fresh = u.X.(*ast.CompositeLit)
		}
	}
	var preAtoms []string
	usesPre := false
	if ct != nil {
		preAtoms = []string{eqKey(ct.n.Name(), ct.root), eqKey(ct.p.Name()+"."+bstF.small, ct.n.Name()), eqKey(ct.p.Name()+"."+bstF.large, ct.n.Name())}
		for _, a := range preAtoms {
			atoms[a] = true
		}
	}
	facts := func(w map[string]bool) bool {
		for _, pc := range conds {
			if la.evalIn(pc.e, w) != pc.pos {
				return false
			}
		}
		for k := range alias {
			if !w[k] {
				return false
			}
		}
		if ct != nil {
			n := 0
			for _, a := range preAtoms {
				if w[a] {
					n++
				}
			}
			if n != 1 {
				return false
			}
		}
		return true
	}
	if fresh {
		need := eqKey(lhsText, "nil")
		atoms[need] = true
		keys := sortedKeys(atoms)
		bad := ""
		enumWorlds(keys, facts, func(w map[string]bool) {
			if !w[need] && bad == "" {
				bad = worldText(w, keys)
			}
		})
		c.Run.Oblige(bad == "")
		if bad != "" {
			c.violate("bst-links", site, "attach "+lhsText, as.Pos(), "a new node is stored into "+lhsText+" although the link is not known to be nil there (the subtree it held leaves the tree), e.g. when "+short(bad, 120))
		}
		return false
	}
	if m := la.earlierMutation(as, func(call *ast.CallExpr) bool {
		fn := callee(la.info, call)
		return fn != nil && la.c.finderOf(fn) == nil && la.writesLinks(fn)
	}); m != nil {
		c.violate("bst-links", site, "splice "+lhsText, as.Pos(), "the tree is changed earlier on the same path ("+c.P.Pos(m.Pos())+"), so the conditions tested before no longer describe it (undecided, fails closed)")
		return false
	}
	// splice: in every world the stored value is N.g, lhs pointed at N, N's other child is nil
	type need struct{ tgt, other, n, g string }
	needOf := func(v ast.Expr) (need, bool) {
		sel, ok := la.linkSel(v)
		if !ok {
			return need{}, false
		}
		nid, ok := sel.X.(*ast.Ident)
		if !ok || helperNamed(la.info.TypeOf(nid)) != "BstNode" {
			return need{}, false
		}
		g := sel.Sel.Name
		og := bstF.small
		if g == bstF.small {
			og = bstF.large
		}
		return need{eqKey(lhsText, nid.Name), eqKey(nid.Name+"."+og, "nil"), nid.Name, og}, true
	}
	for _, cd := range cands {
		if cd.val == nil || isNilIdent(cd.val) {
			continue
		}
		nd, ok := needOf(cd.val)
		if !ok {
			c.violate("bst-links", site, "splice "+lhsText, as.Pos(), "the value stored into "+lhsText+" ("+exprString(cd.val)+") is neither a new node nor a child of the node being unlinked (undecided, fails closed)")
			return false
		}
		atoms[nd.tgt], atoms[nd.other] = true, true
	}
	keys := sortedKeys(atoms)
	bad, why := "", ""
	enumWorlds(keys, facts, func(w map[string]bool) {
		if bad != "" {
			return
		}
		// the definition in force: the last one whose guards hold
		var cur *cand
		for i := range cands {
			holds := true
			for _, pc := range cands[i].conds {
				if la.evalIn(pc.e, w) != pc.pos {
					holds = false
				}
			}
			if holds {
				cur = &cands[i]
			}
		}
		if cur == nil || cur.val == nil || isNilIdent(cur.val) {
			bad, why = worldText(w, keys), "nil is stored, so whatever "+lhsText+" held leaves the tree"
			return
		}
		nd, _ := needOf(cur.val)
		if !w[nd.tgt] {
			bad, why = worldText(w, keys), lhsText+" is not known to point at "+nd.n+", the node whose child replaces it"
			return
		}
		if !w[nd.other] {
			bad, why = worldText(w, keys), nd.n+"."+nd.g+" is not known to be nil, so its subtree leaves the tree together with "+nd.n
		}
	})
	c.Run.Oblige(bad == "")
	if bad != "" {
		c.violate("bst-links", site, "splice "+lhsText, as.Pos(), "unlinking through "+lhsText+" = "+exprString(rhs)+" can lose nodes: "+why+" (e.g. when "+short(bad, 160)+")")
	}
	for _, a := range preAtoms {
		_ = a
		usesPre = true
	}
	return usesPre
}

func sortedKeys(m map[string]bool) []string {
	var ks []string
	for k := range m {
		ks = append(ks, k)
	}
	sort.Strings(ks)
	return ks
}

// writesLinks: fn (transitively, within the package) stores into a tree link.
func (la *linkAn) writesLinks(fn *types.Func) bool {
	seen := map[*types.Func]bool{}
	var rec func(fn *types.Func) bool
	rec = func(fn *types.Func) bool {
		fn = fn.Origin()
		if seen[fn] {
			return false
		}
		seen[fn] = true
		d := la.c.P.Decls[fn]
		if d == nil || d.Decl.Body == nil || d.Pkg.TypesInfo != la.info {
			return false
		}
		found := false
		ast.Inspect(d.Decl.Body, func(n ast.Node) bool {
			switch x := n.(type) {
			case *ast.AssignStmt:
				for _, l := range x.Lhs {
					if _, ok := la.linkSel(l); ok {
						found = true
					}
				}
			case *ast.CallExpr:
				if g := callee(la.info, x); g != nil && rec(g) {
					found = true
				}
			}
			return !found
		})
		return found
	}
	return rec(fn)
}

// finderResults: the idents m, p were defined together by `m, p := G(start)` with G a finder.
func (la *linkAn) finderResults(m, p *ast.Ident) (*finderInfo, *ast.CallExpr, *ast.AssignStmt) {
	var fi *finderInfo
	var call *ast.CallExpr
	var at *ast.AssignStmt
	mo, po := la.info.ObjectOf(m), la.info.ObjectOf(p)
	ast.Inspect(la.fd.Body, func(n ast.Node) bool {
		as, ok := n.(*ast.AssignStmt)
		if !ok || len(as.Lhs) != 2 || len(as.Rhs) != 1 {
			return true
		}
		l0, ok0 := as.Lhs[0].(*ast.Ident)
		l1, ok1 := as.Lhs[1].(*ast.Ident)
		if !ok0 || !ok1 || la.info.ObjectOf(l0) != mo || la.info.ObjectOf(l1) != po {
			return true
		}
		if cl, ok := as.Rhs[0].(*ast.CallExpr); ok {
			if fn := callee(la.info, cl); fn != nil {
				if f := la.c.finderOf(fn); f != nil {
					fi, call, at = f, cl, as
				}
			}
		}
		return true
	})
	return fi, call, at
}

// checkSpliceCall: the call R(m, p) establishes R's precondition.
func (la *linkAn) checkSpliceCall(site string, call *ast.CallExpr, cc *spliceContract) {
	c := la.c
	detail := "call " + exprString(call.Fun)
	if len(call.Args) != 2 {
		c.violate("bst-links", site, detail, call.Pos(), "unexpected argument list (undecided, fails closed)")
		return
	}
	m, ok0 := call.Args[0].(*ast.Ident)
	p, ok1 := call.Args[1].(*ast.Ident)
	if !ok0 || !ok1 {
		c.violate("bst-links", site, detail, call.Pos(), "the node and its parent are not plain variables (undecided, fails closed)")
		return
	}
	fi, fcall, at := la.finderResults(m, p)
	if fi == nil {
		c.violate("bst-links", site, detail, call.Pos(), "("+m.Name+", "+p.Name+") are not the (node, parent) results of one search loop that records parent = node before every step: the callee unlinks "+m.Name+" from "+p.Name+" or the root, and would change the wrong link")
		return
	}
	if fi.startRoot {
		c.ok()
		return
	}
	// started below a node: a nil parent means m is the start itself, whose holder must be substituted
	if fi.startArg >= len(fcall.Args) {
		c.violate("bst-links", site, detail, call.Pos(), "finder start argument missing (undecided)")
		return
	}
	start := fcall.Args[fi.startArg]
	sel, isLink := la.linkSel(start)
	if !isLink {
		if helperNamed(la.info.TypeOf(start)) == "BstNode" {
			// started at an arbitrary node variable: only the root has no holder
			if s2, ok := start.(*ast.SelectorExpr); !ok || helperNamed(la.info.TypeOf(s2.X)) != "Bst" {
				c.violate("bst-links", site, detail, call.Pos(), "the search starts at "+exprString(start)+", whose holder is unknown when the loop makes no step (undecided, fails closed)")
				return
			}
		}
		c.ok()
		return
	}
	holder, _ := sel.X.(*ast.Ident)
	fixed := false
	if holder != nil && helperNamed(la.info.TypeOf(holder)) == "Bst" {
		fixed = true // started at the root link
	}
	if holder != nil && !fixed {
		ast.Inspect(la.fd.Body, func(n ast.Node) bool {
			is, ok := n.(*ast.IfStmt)
			if !ok || is.Pos() < at.Pos() || is.Pos() > call.Pos() || is.Else != nil || len(is.Body.List) != 1 {
				return true
			}
			be, ok := is.Cond.(*ast.BinaryExpr)
			if !ok || be.Op != token.EQL || eqKey(exprString(be.X), exprString(be.Y)) != eqKey(p.Name, "nil") {
				return true
			}
			if as, ok := is.Body.List[0].(*ast.AssignStmt); ok && len(as.Lhs) == 1 && len(as.Rhs) == 1 {
				l, lok := as.Lhs[0].(*ast.Ident)
				r, rok := as.Rhs[0].(*ast.Ident)
				if lok && rok && la.info.ObjectOf(l) == la.info.ObjectOf(p) && la.info.ObjectOf(r) == la.info.ObjectOf(holder) {
					fixed = true
				}
			}
			return true
		})
	}
	c.Run.Oblige(fixed)
	if !fixed {
		c.violate("bst-links", site, detail, call.Pos(), "the search starts at "+exprString(start)+" and returns a nil parent when it makes no step; "+p.Name+" is not replaced by the holder of that link before the call, so the callee unlinks "+m.Name+" through the wrong node")
	}
}

// checkValueWrite: N.value = M.value moves the in-order neighbour up.
func (la *linkAn) checkValueWrite(site string, as *ast.AssignStmt, lhs *ast.SelectorExpr, rhs ast.Expr, contracts map[*types.Func]*spliceContract) {
	c := la.c
	detail := "replace " + exprString(lhs)
	nID, ok := lhs.X.(*ast.Ident)
	rsel, rok := la.valueSel(rhs)
	if !ok || !rok {
		c.violate("bst-links", site, detail, as.Pos(), "the value of a node in the tree is overwritten with "+exprString(rhs)+", which is not the value of another node (undecided, fails closed)")
		return
	}
	mID, ok := rsel.X.(*ast.Ident)
	if !ok {
		c.violate("bst-links", site, detail, as.Pos(), "source node is not a variable (undecided, fails closed)")
		return
	}
	// M, P := G(N.l)
	var fi *finderInfo
	var fcall *ast.CallExpr
	var pID *ast.Ident
	ast.Inspect(la.fd.Body, func(n ast.Node) bool {
		a, ok := n.(*ast.AssignStmt)
		if !ok || len(a.Lhs) != 2 || len(a.Rhs) != 1 {
			return true
		}
		l0, ok0 := a.Lhs[0].(*ast.Ident)
		l1, ok1 := a.Lhs[1].(*ast.Ident)
		if ok0 && ok1 && la.info.ObjectOf(l0) == la.info.ObjectOf(mID) {
			if f, cl, _ := la.finderResults(l0, l1); f != nil {
				fi, fcall, pID = f, cl, l1
			}
		}
		return true
	})
	if fi == nil || fi.startRoot || fi.startArg >= len(fcall.Args) {
		c.violate("bst-links", site, detail, as.Pos(), mID.Name+" is not the result of a verified neighbour search below "+nID.Name)
		return
	}
	start, isLink := la.linkSel(fcall.Args[fi.startArg])
	okStart := isLink
	if isLink {
		h, isID := start.X.(*ast.Ident)
		okStart = isID && la.info.ObjectOf(h) == la.info.ObjectOf(nID)
	}
	if !okStart {
		c.violate("bst-links", site, detail, as.Pos(), "the node whose value moves up is searched from "+exprString(fcall.Args[fi.startArg])+", not from a child of "+nID.Name)
		return
	}
	l := start.Sel.Name
	good := len(fi.links) == 1 && !fi.links[l]
	c.Run.Oblige(good)
	if !good {
		c.violate("bst-links", site, detail, as.Pos(), "the replacement is searched from "+exprString(start)+" along "+strings.Join(sortedKeys(fi.links), ",")+": the in-order neighbour is reached by descending along the OTHER link only, otherwise the ordering of the tree is broken")
	}
	// N.l is not nil here
	conds := la.pathConds(as)
	atoms := map[string]bool{}
	for _, pc := range conds {
		la.collectAtoms(pc.e, atoms)
	}
	need := eqKey(exprString(start), "nil")
	atoms[need] = true
	keys := sortedKeys(atoms)
	bad := ""
	enumWorlds(keys, func(w map[string]bool) bool {
		for _, pc := range conds {
			if la.evalIn(pc.e, w) != pc.pos {
				return false
			}
		}
		return true
	}, func(w map[string]bool) {
		if w[need] && bad == "" {
			bad = worldText(w, keys)
		}
	})
	c.Run.Oblige(bad == "")
	if bad != "" {
		c.violate("bst-links", site, detail+" start", as.Pos(), exprString(start)+" can be nil where the neighbour search starts (e.g. when "+short(bad, 120)+")")
	}
	// M is spliced out by a contract call with the finder's parent, in the same block
	removed := false
	if blk, ok := la.parents[as].(*ast.BlockStmt); ok {
		for _, s := range blk.List {
			ast.Inspect(s, func(n ast.Node) bool {
				call, ok := n.(*ast.CallExpr)
				if !ok || len(call.Args) != 2 {
					return true
				}
				fn := callee(la.info, call)
				if fn == nil || contracts[fn.Origin()] == nil {
					return true
				}
				a0, ok0 := call.Args[0].(*ast.Ident)
				a1, ok1 := call.Args[1].(*ast.Ident)
				if ok0 && ok1 && la.info.ObjectOf(a0) == la.info.ObjectOf(mID) && la.info.ObjectOf(a1) == la.info.ObjectOf(pID) {
					removed = true
				}
				return true
			})
		}
	}
	c.Run.Oblige(removed)
	if !removed {
		c.violate("bst-links", site, detail+" source", as.Pos(), "the value of "+mID.Name+" is copied into "+nID.Name+" but "+mID.Name+" is not unlinked (with the parent its search returned) on the same path: the value would be in the tree twice")
	}
}
