package rules

import (
	"fmt"
	"go/ast"
	"go/token"
	"go/types"
	"golang.org/x/tools/go/ssa"
	"math/big"
	"sort"
	"strings"

	"verif/checker/internal/lin"
	"verif/checker/internal/load"
	"verif/checker/internal/report"
	"verif/checker/internal/shape"
	"verif/checker/internal/sym"
)

// helperModel is one line of the slice-model table (DESIGN appendix B): what the
// slice counterpart of the helper yields, as counts.
type helperModel struct {
	Fn     string
	Domain map[string]int64 // lower bounds of integer parameters (the helper's documented domain)
	Outs   []outModel       // one per returned stream (a returned slice of streams counts once)
	Ins    map[string]inModel
	Close  string // "deferred-after-drain" (drains before its outputs close), "before-drain", "" (no drain involved)
	Why    string
}

type outModel struct {
	Len   string // spec expression; "<=X" means bounded by X (Filter)
	Lead  string // spec expression, compared where the output is non-empty ("" = not compared)
	Cap   string // spec expression ("" = not compared)
	FillN string // constant prefix length ("" = no fill)
}

type inModel struct {
	Drained  bool
	Consumed string // when not drained: exactly this many elements are taken
}

func one2one(fn, in string) helperModel {
	return helperModel{Fn: fn, Outs: []outModel{{Len: "n_" + in, Lead: "0"}}, Ins: map[string]inModel{in: {Drained: true}}, Why: "maps every element to exactly one element"}
}

func zip2(fn string) helperModel {
	return helperModel{Fn: fn, Outs: []outModel{{Len: "min(n_ac, n_bc)", Lead: "0"}}, Ins: map[string]inModel{"ac": {Drained: true}, "bc": {Drained: true}}, Close: "deferred-after-drain",
		Why: "zip: length of the shorter input, the longer one is still consumed to the end"}
}

// HelperModels is the frozen model table.
var HelperModels = []helperModel{
	one2one("Map", "c"), one2one("Apply", "c"), one2one("MapWithPrevious", "c"), one2one("Abs", "c"), one2one("Sign", "c"),
	one2one("KeepPositives", "c"), one2one("KeepNegatives", "c"), one2one("Pow", "c"), one2one("Sqrt", "c"), one2one("RoundDigits", "c"),
	one2one("IncrementBy", "c"), one2one("DecrementBy", "c"), one2one("MultiplyBy", "c"), one2one("DivideBy", "c"), one2one("Since", "c"),
	{Fn: "Waitable", Outs: []outModel{{Len: "n_c", Lead: "0", Cap: "cap_c"}}, Ins: map[string]inModel{"c": {Drained: true}}, Why: "copy"},
	{Fn: "Buffered", Domain: map[string]int64{"size": 0}, Outs: []outModel{{Len: "n_c", Lead: "0", Cap: "size"}}, Ins: map[string]inModel{"c": {Drained: true}}, Why: "copy through a channel of the requested capacity"},
	zip2("Operate"), zip2("Add"), zip2("Subtract"), zip2("Multiply"), zip2("Divide"),
	{Fn: "Operate3", Outs: []outModel{{Len: "min(n_ac, n_bc, n_cc)", Lead: "0"}}, Ins: map[string]inModel{"ac": {Drained: true}, "bc": {Drained: true}, "cc": {Drained: true}}, Close: "deferred-after-drain", Why: "zip of three"},
	{Fn: "Filter", Outs: []outModel{{Len: "<=n_c", Lead: "0"}}, Ins: map[string]inModel{"c": {Drained: true}}, Why: "keeps the elements satisfying the predicate, in order"},
	{Fn: "Skip", Domain: map[string]int64{"count": 0}, Outs: []outModel{{Len: "max(0, n_c - count)", Lead: "count", Cap: "cap_c"}}, Ins: map[string]inModel{"c": {Drained: true}}, Why: "drops the first count elements"},
	{Fn: "Head", Domain: map[string]int64{"count": 0}, Outs: []outModel{{Len: "min(n_c, count)", Lead: "0", Cap: "cap_c"}}, Ins: map[string]inModel{"c": {Drained: false, Consumed: "min(n_c, count)"}}, Why: "first count elements; deliberately leaves the rest unread (EMA seed idiom)"},
	{Fn: "First", Domain: map[string]int64{"count": 0}, Outs: []outModel{{Len: "min(n_c, count)", Lead: "0", Cap: "cap_c"}}, Ins: map[string]inModel{"c": {Drained: true}}, Close: "before-drain", Why: "first count elements, then drains"},
	{Fn: "Last", Domain: map[string]int64{"count": 1}, Outs: []outModel{{Len: "min(n_c, count)", Cap: "cap_c"}}, Ins: map[string]inModel{"c": {Drained: true}}, Why: "last count elements after the input closed"},
	{Fn: "Shift", Domain: map[string]int64{"count": 0}, Outs: []outModel{{Len: "n_c + count", Lead: "-count", Cap: "cap_c + count", FillN: "count"}}, Ins: map[string]inModel{"c": {Drained: true}}, Why: "count fill values, then the input"},
	{Fn: "Duplicate", Domain: map[string]int64{"count": 1}, Outs: []outModel{{Len: "n_input", Lead: "0", Cap: "cap_input"}}, Ins: map[string]inModel{"input": {Drained: true}}, Why: "every output carries every element"},
	{Fn: "Change", Domain: map[string]int64{"before": 0}, Outs: []outModel{{Len: "max(0, n_c - before)", Lead: "before"}}, Ins: map[string]inModel{"c": {Drained: true}}, Why: "c[i] - c[i-before]"},
	{Fn: "ChangeRatio", Domain: map[string]int64{"before": 0}, Outs: []outModel{{Len: "max(0, n_c - before)", Lead: "before"}}, Ins: map[string]inModel{"c": {Drained: true}}, Why: "(c[i] - c[i-before]) / c[i-before]"},
	{Fn: "ChangePercent", Domain: map[string]int64{"before": 0}, Outs: []outModel{{Len: "max(0, n_c - before)", Lead: "before"}}, Ins: map[string]inModel{"c": {Drained: true}}, Why: "ChangeRatio * 100"},
	{Fn: "Count", Outs: []outModel{{Len: "n_other", Lead: "0"}}, Ins: map[string]inModel{"other": {Drained: true}}, Why: "one counter value per element of other"},
	{Fn: "Echo", Domain: map[string]int64{"last": 1, "count": 0}, Outs: []outModel{{Len: "n_input + mul_count_last", Lead: "0"}}, Ins: map[string]inModel{"input": {Drained: true}}, Why: "input followed by count repetitions of its last `last` elements"},
	{Fn: "Pipe", Outs: nil, Ins: map[string]inModel{"f": {Drained: true}}, Why: "copies f to t and closes t"},
	{Fn: "Drain", Outs: nil, Ins: map[string]inModel{"c": {Drained: true}}, Why: "consumes everything"},
	{Fn: "ChanToSlice", Outs: nil, Ins: map[string]inModel{"c": {Drained: true}}, Why: "consumes everything"},
	{Fn: "SliceToChan", Outs: []outModel{{Len: "len_slice"}}, Ins: map[string]inModel{}, Why: "one element per slice element"},
	{Fn: "SyncPeriod", Domain: map[string]int64{"commonPeriod": 0, "period": 0}, Outs: []outModel{{Len: "max(0, n_c - max(0, commonPeriod - period))"}}, Ins: map[string]inModel{"c": {Drained: true}}, Why: "skips the period difference when positive"},
}

// helpersNotModelled lists the channel functions of helper/ outside C16's statement, with the reason.
var helpersNotModelled = map[string]string{
	"Seq":                       "trip count (to-from)/increment is not linear, so no count model; its values and loop bound are decided by seqValues (SSA)",
	"Field":                     "reflection-based field extraction with an error result; no count model, its values are decided by fieldValues (SSA)",
	"CheckEquals":               "test utility returning an error",
	"ChanToJSON":                "codec (C11)",
	"JSONToChan":                "codec (C11/C19)",
	"JSONToChanWithLogger":      "codec (C11/C19)",
	"ReadFromCsvFile":           "codec (C11/C19)",
	"AppendOrWriteToCsvFile":    "codec (C11)",
	"NewReport":                 "object constructor (C14)",
	"NewNumericReportColumn":    "object constructor (C14)",
	"NewAnnotationReportColumn": "object constructor (C14)",
}

func specSym(it func(string) *lin.Expr) func(string) *lin.Expr {
	return func(name string) *lin.Expr {
		switch {
		case strings.HasPrefix(name, "n_"):
			return it("n." + name[2:])
		case strings.HasPrefix(name, "cap_"):
			return it("cap." + name[4:])
		case name == "len_slice":
			return it("len(slice)")
		case name == "mul_count_last":
			return it("mul(count,last)")
		}
		return it(name)
	}
}

// ctxsNonEmpty enumerates the linear contexts in which e >= 1.
func ctxsNonEmpty(g *lin.Ctx, e *lin.Expr) []*lin.Ctx {
	var out []*lin.Ctx
	for _, l := range lin.Leaves(g, e) {
		nc := g.With(l.Conds...).With(l.Val.Add(lin.Const(-1)))
		if !lin.Infeasible(nc.Cs) {
			out = append(out, nc)
		}
	}
	return out
}

func proveEQWhereNonEmpty(g *lin.Ctx, nonEmpty, a, b *lin.Expr) bool {
	for _, c := range ctxsNonEmpty(g, nonEmpty) {
		if !lin.ProveEQ(c, a, b) {
			return false
		}
	}
	return true
}

// CheckC16 compares the summary Engine B derives from each helper's own source
// with the slice-model table.
func CheckC16(c *Ctx) {
	run := c.Run
	run.Technique = "token-count abstract interpretation of every stage body in helper/ (lengths, consumption, anchors, capacities as symbolic expressions), compared with a frozen slice-model table by exact linear entailment"
	run.Explanation = "For every stream helper the number of elements on each output, the number of elements taken from each input, whether each input is consumed to the end, the anchor of the first output element, the fill prefix, the output capacity and close-on-all-paths are derived from the helper's current source for symbolic input lengths and parameters, and proved equal to the slice model for ALL lengths and parameters in the helper's domain. Values: for the 27 arithmetic and copying helpers (Abs … Divide, Change/ChangeRatio/ChangePercent, Skip/Head/First/Buffered/Waitable/Shift/SyncPeriod/Duplicate, Since) the term every output element carries is derived (closures inlined, delays from the anchors) and compared with the model term as a rational function; the values of Map/Apply/Operate/Filter/MapWithPrevious are those of the caller's function, Last/Echo/Count/SliceToChan values are not decided. Count's counter is decided on the SSA form of its stage: the value sent is a loop-carried counter that starts at `from` itself and is advanced by adding 1. Seq and Field (no count model) are decided on the SSA form of their goroutine: Seq sends the loop-carried counter started at `from`, advanced by `increment`, while counter < `to` (the parameters themselves); Field sends Interface() of the field selected by the complete Index path of the StructField looked up by name, or by FieldByName(name). RoundDigit's result is the SSA term math.Round(n*10^d)/10^d (half away from zero)."
	run.Trusted = []string{"go/types", "helper.Ring fullness model (occupancy = min(puts,size) - gets)", "slice-model table HelperModels (DESIGN appendix B)", "Fourier–Motzkin entailment (internal/lin)"}
	// every channel function of helper/ must be modelled or explicitly exempt
	models := map[string]helperModel{}
	for _, m := range HelperModels {
		models[m.Fn] = m
	}
	var names []string
	for _, fi := range shape.PipelineRoots(c.P) {
		if load.RelPkg(fi.Pkg.PkgPath) != "helper" || fi.Decl.Recv != nil {
			continue
		}
		names = append(names, fi.Fn.Name())
	}
	sort.Strings(names)
	for _, n := range names {
		if _, ok := models[n]; ok {
			continue
		}
		if _, ok := helpersNotModelled[n]; ok {
			continue
		}
		run.Oblige(false)
		fi := c.P.Func("helper", n)
		run.Violate(report.Finding{Rule: "model-missing", Site: "helper." + n, Detail: "no model", Pos: c.P.Pos(fi.Decl.Pos()),
			Message: "channel helper without an entry in the slice-model table: its behaviour is not covered"})
	}
	for _, m := range HelperModels {
		fi := c.P.Func("helper", m.Fn)
		if fi == nil {
			run.Break("anchor missing: helper." + m.Fn)
			continue
		}
		run.Count("helpers", 1)
		rs := c.Results(fi, Opts{Mode: shape.ModeInline, DistinctLens: true, ParamDomain: m.Domain})
		for _, r := range rs {
			c.checkHelper(m, fi, r)
		}
	}
	run.Floor("helpers", 39)
	c.helperValues()
	for k, v := range helpersNotModelled {
		run.Note("not modelled: helper." + k + " — " + v)
	}
	run.Assume("parameter domains as documented: skip/take/shift counts and buffer sizes >= 0; last N, echo memory and number of duplicates >= 1")
}

func (c *Ctx) checkHelper(m helperModel, fi *load.FuncInfo, r *shape.Result) {
	run := c.Run
	site := "helper." + m.Fn
	pos := c.P.Pos(fi.Decl.Pos())
	c.undecidedToFindings(r, "helper-model")
	it := shape.SymResolver(r)
	sym := specSym(it)
	outs := retStreams(r)
	// a returned homogeneous slice counts as one stream
	if len(outs) != len(m.Outs) {
		run.Oblige(false)
		run.Violate(report.Finding{Rule: "helper-model/outputs", Site: site, Detail: fmt.Sprintf("%d outputs", len(outs)), Pos: pos,
			Message: fmt.Sprintf("model has %d output stream(s), the source returns %d", len(m.Outs), len(outs))})
		return
	}
	for i, om := range m.Outs {
		o := outs[i]
		osite := fmt.Sprintf("%s/out%d", site, i)
		// length
		if strings.HasPrefix(om.Len, "<=") {
			bound, err := ParseSpec(om.Len[2:], sym)
			if err != nil {
				run.Break("bad model for " + m.Fn + ": " + err.Error())
				continue
			}
			v, w := decideGE(r.G, bound, o.Len)
			run.Oblige(v == holds)
			if v != holds {
				run.Violate(report.Finding{Rule: "helper-model/len", Site: osite, Detail: o.Len.String(), Pos: pos, Witness: w,
					Message: fmt.Sprintf("output length %s is not bounded by %s%s", o.Len, bound, pathNote(r))})
			}
			// the send must be guarded by exactly the predicate
			ok := false
			for _, st := range r.Stages {
				for _, s := range st.Sends {
					if s.Out == o && s.Cond == "pred" {
						ok = true
					}
				}
			}
			run.Oblige(ok)
			if !ok {
				run.Violate(report.Finding{Rule: "helper-model/guard", Site: osite, Detail: "unguarded", Pos: pos, Message: "the send is not guarded by the predicate"})
			}
		} else {
			want, err := ParseSpec(om.Len, sym)
			if err != nil {
				run.Break("bad model for " + m.Fn + ": " + err.Error())
				continue
			}
			v, w := decideEQ(r.G, o.Len, want)
			run.Oblige(v == holds)
			run.Sample(map[string]string{"obligation": "len(" + osite + ") = " + want.String(), "derived": o.Len.String(), "case": strings.Join(r.PathConds, ";")})
			if v != holds {
				msg := fmt.Sprintf("output length is %s, the slice model gives %s%s", o.Len, want, pathNote(r))
				if w != nil {
					msg += fmt.Sprintf(" (e.g. %d vs %d)", evalAt(o.Len, w), evalAt(want, w))
				}
				run.Violate(report.Finding{Rule: "helper-model/len", Site: osite, Detail: o.Len.String(), Pos: pos, Witness: w, Message: msg})
			}
		}
		if om.Lead != "" && o.Lead != nil {
			want, err := ParseSpec(om.Lead, sym)
			if err != nil {
				run.Break("bad model for " + m.Fn + ": " + err.Error())
				continue
			}
			ok := proveEQWhereNonEmpty(r.G, o.Len, o.Lead, want)
			run.Oblige(ok)
			if !ok {
				run.Violate(report.Finding{Rule: "helper-model/anchor", Site: osite, Detail: o.Lead.String(), Pos: pos,
					Message: fmt.Sprintf("first output element is anchored at input position %s, the model says %s%s", o.Lead, want, pathNote(r))})
			}
		}
		if om.Cap != "" {
			want, err := ParseSpec(om.Cap, sym)
			if err != nil {
				run.Break("bad model for " + m.Fn + ": " + err.Error())
				continue
			}
			v, w := decideEQ(r.G, o.Cap, want)
			run.Oblige(v == holds)
			if v != holds {
				run.Violate(report.Finding{Rule: "helper-model/cap", Site: osite, Detail: o.Cap.String(), Pos: pos, Witness: w,
					Message: fmt.Sprintf("output capacity is %s, expected %s", o.Cap, want)})
			}
		}
		if om.FillN != "" {
			want, _ := ParseSpec(om.FillN, sym)
			ok := o.FillN != nil && want != nil && lin.ProveEQ(r.G, o.FillN, want)
			run.Oblige(ok)
			if !ok {
				got := "none"
				if o.FillN != nil {
					got = o.FillN.String()
				}
				run.Violate(report.Finding{Rule: "helper-model/fill", Site: osite, Detail: got, Pos: pos,
					Message: fmt.Sprintf("fill prefix has %s elements, expected %s", got, om.FillN)})
			}
		}
		// closed on every path (a parameter handed back unchanged is the caller's to close)
		if o.Param != "" {
			continue
		}
		run.Oblige(o.Closed)
		if !o.Closed {
			run.Violate(report.Finding{Rule: "helper-model/close", Site: osite, Detail: "not closed", Pos: pos,
				Message: "the output is not closed on every exit of the stage"})
		}
	}
	// inputs
	for _, ps := range r.ParamStreams {
		im, ok := m.Ins[ps.Param]
		if !ok {
			continue
		}
		isite := site + "/in:" + ps.Param
		if ps.Returned {
			continue // handed back to the caller unread
		}
		if im.Drained {
			v, w := decideEQ(r.G, ps.Consumed, ps.Len)
			run.Oblige(v == holds)
			if v != holds {
				run.Violate(report.Finding{Rule: "helper-model/drain", Site: isite, Detail: ps.Consumed.String(), Pos: pos, Witness: w,
					Message: fmt.Sprintf("input is not consumed to the end: %s of %s elements are taken%s", ps.Consumed, ps.Len, pathNote(r))})
			}
		} else {
			want, err := ParseSpec(im.Consumed, sym)
			if err != nil {
				run.Break("bad model for " + m.Fn + ": " + err.Error())
				continue
			}
			v, w := decideEQ(r.G, ps.Consumed, want)
			run.Oblige(v == holds)
			if v != holds {
				run.Violate(report.Finding{Rule: "helper-model/consume", Site: isite, Detail: ps.Consumed.String(), Pos: pos, Witness: w,
					Message: fmt.Sprintf("takes %s elements from the input, the model says exactly %s", ps.Consumed, want)})
			}
		}
	}
	// close/drain order of the zips and First
	if m.Close != "" {
		var last *shape.Stage
		for _, st := range r.Stages {
			if len(st.Outs) > 0 {
				last = st
			}
		}
		ok := last != nil
		if ok {
			switch m.Close {
			case "deferred-after-drain":
				ok = last.DrainBeforeClose
			case "before-drain":
				ok = !last.DrainBeforeClose
			}
		}
		run.Oblige(ok)
		if !ok {
			run.Violate(report.Finding{Rule: "helper-model/close-order", Site: site, Detail: m.Close, Pos: pos,
				Message: "close/drain order differs from the model (" + m.Close + ")"})
		}
	}
}

// helperValueModels: the value every element of the output carries, as a term over the inputs
// (the same language as the formula table of C01). Copying helpers carry the input itself.
var helperValueModels = map[string]string{
	"Abs": "abs(c)", "Sign": "sign(c)", "KeepPositives": "pos(c)", "KeepNegatives": "neg(c)",
	"Pow": "pow(c, y)", "Sqrt": "sqrt(c)", "RoundDigits": "RoundDigit(c, d)",
	"IncrementBy": "c + i", "DecrementBy": "c - d", "MultiplyBy": "c * m", "DivideBy": "c / d",
	"Add": "ac + bc", "Subtract": "ac - bc", "Multiply": "ac * bc", "Divide": "ac / bc",
	"Change": "c - at(c, before)", "ChangeRatio": "(c - at(c, before)) / at(c, before)", "ChangePercent": "(c - at(c, before)) / at(c, before) * 100",
	"Skip": "c", "Head": "c", "First": "c", "Buffered": "c", "Waitable": "c", "Shift": "c", "SyncPeriod": "c", "Duplicate": "input",
	"Since": `op("closure:helper.Since#1", c)`,
}

// helperValues compares the value term of each arithmetic/copying helper with its model.
func (c *Ctx) helperValues() {
	run := c.Run
	var names []string
	for n := range helperValueModels {
		names = append(names, n)
	}
	sort.Strings(names)
	for _, n := range names {
		fi := c.P.Func("helper", n)
		if fi == nil {
			run.Break("anchor missing: helper." + n)
			continue
		}
		var dom map[string]int64
		for _, hm := range HelperModels {
			if hm.Fn == n {
				dom = hm.Domain
			}
		}
		rs := c.Results(fi, Opts{Mode: shape.ModeInline, ParamDomain: dom})
		if len(rs) == 0 {
			continue
		}
		r := rs[0]
		var streams []string
		isStream := map[string]bool{}
		for _, ps := range r.ParamStreams {
			streams = append(streams, ps.Param)
			isStream[ps.Param] = true
		}
		env := &specEnv{r: r, params: specParams(fi, streams), locals: map[string]bool{}}
		sig := fi.Fn.Type().(*types.Signature)
		scalarNow := map[string]string{} // pinned name of a scalar parameter -> its name now
		orig, act := pinnedOf(rootKey(fi), sig)
		for i := range act {
			if !isStream[act[i]] {
				env.locals[orig[i]] = true
				scalarNow[act[i]] = orig[i]
			}
		}
		want, err := env.parse(helperValueModels[n])
		if err != nil {
			run.Break("bad value model for helper." + n + ": " + err.Error())
			continue
		}
		tm := shape.NewTerms(c.P, r)
		for i, o := range retStreams(r) {
			run.Count("helper_values", 1)
			got := normaliseParams(tm.Of(o))
			// scalar parameters are compared under their pinned names
			ren := map[string]sym.Expr{}
			for now, was := range scalarNow {
				if now != was {
					ren[now] = sym.V(was)
				}
			}
			if len(ren) > 0 {
				got = sym.Subst(got, ren)
			}
			ok := sym.Equal(got, want)
			run.Oblige(ok)
			if !ok {
				run.Violate(report.Finding{Rule: "helper-model/value", Site: fmt.Sprintf("helper.%s/out%d", n, i), Detail: short(sym.CanonString(got), 120), Pos: c.P.Pos(fi.Decl.Pos()),
					Message: fmt.Sprintf("every element of helper.%s should carry %s, the code computes %s", n, sym.CanonString(want), short(sym.CanonString(got), 200))})
				continue
			}
			// the helpers are generic over helper.Number, which includes the integer types: there
			// the order of multiplication and division matters (truncation, overflow), so the term
			// must also agree without moving factors across a division
			ki, kw := intSafeKey(got), intSafeKey(want)
			run.Oblige(ki == kw)
			if ki != kw {
				run.Violate(report.Finding{Rule: "helper-model/value", Site: fmt.Sprintf("helper.%s/out%d", n, i), Detail: "integer arithmetic: " + short(ki, 100), Pos: c.P.Pos(fi.Decl.Pos()),
					Message: fmt.Sprintf("helper.%s computes %s; over the rationals that equals the model %s, but the helper is instantiated with integer element types too, where the order of multiplication and division changes the result (truncation, overflow)", n, short(ki, 160), short(kw, 160))})
			}
		}
	}
	run.Floor("helper_values", 27)
	c.checkStepSpecs([]stepSpec{sinceSpec})
	c.countValues()
	c.seqValues()
	c.fieldValues()
	c.roundDigitValue()
	c.chanToSliceStartsEmpty()
}

// chanToSliceStartsEmpty: ChanToSlice returns exactly the received elements: the slice it
// appends to starts with length 0 (`var s []T`, `[]T{}`, `make([]T, 0, n)`), it grows only by
// appending the received element, and it is what is returned.
func (c *Ctx) chanToSliceStartsEmpty() {
	run := c.Run
	fi := c.P.Func("helper", "ChanToSlice")
	if fi == nil {
		run.Break("anchor missing: helper.ChanToSlice")
		return
	}
	info := fi.Pkg.TypesInfo
	var ret *ast.Ident
	ast.Inspect(fi.Decl.Body, func(n ast.Node) bool {
		if r, ok := n.(*ast.ReturnStmt); ok && len(r.Results) == 1 {
			ret, _ = r.Results[0].(*ast.Ident)
		}
		return true
	})
	ok, why := ret != nil, "the result is not a single slice variable"
	if ok {
		obj := info.ObjectOf(ret)
		why = ""
		ast.Inspect(fi.Decl.Body, func(n ast.Node) bool {
			switch x := n.(type) {
			case *ast.ValueSpec:
				for i, nm := range x.Names {
					if info.ObjectOf(nm) == obj && i < len(x.Values) && !emptySliceExpr(info, x.Values[i]) {
						why = "the slice does not start empty: " + exprString(x.Values[i])
					}
				}
			case *ast.AssignStmt:
				for i, l := range x.Lhs {
					id, isID := l.(*ast.Ident)
					if !isID || info.ObjectOf(id) != obj || i >= len(x.Rhs) {
						continue
					}
					if x.Tok == token.DEFINE {
						if !emptySliceExpr(info, x.Rhs[i]) {
							why = "the slice does not start empty: " + exprString(x.Rhs[i])
						}
						continue
					}
					call, isCall := x.Rhs[i].(*ast.CallExpr)
					good := false
					if isCall && len(call.Args) == 2 {
						if f, isF := call.Fun.(*ast.Ident); isF && f.Name == "append" {
							if a0, isA := call.Args[0].(*ast.Ident); isA && info.ObjectOf(a0) == obj {
								good = true
							}
						}
					}
					if !good {
						why = "the slice is changed other than by appending one received element: " + exprString(x.Rhs[i])
					}
				}
			}
			return true
		})
		ok = why == ""
	}
	run.Oblige(ok)
	if !ok {
		c.violate("helper-model/len", "helper.ChanToSlice", short(why, 100), fi.Decl.Pos(), "ChanToSlice must return exactly the elements received, in order: "+why)
	}
}

func emptySliceExpr(info *types.Info, e ast.Expr) bool {
	switch x := e.(type) {
	case *ast.CompositeLit:
		return len(x.Elts) == 0
	case *ast.Ident:
		return x.Name == "nil"
	case *ast.CallExpr:
		if f, ok := x.Fun.(*ast.Ident); ok && f.Name == "make" && len(x.Args) >= 2 {
			v, isC := constInt(info, x.Args[1])
			return isC && v == 0
		}
	}
	return false
}

// sinceSpec: helper.Since counts how many elements in a row carried the current value: 0 for the
// first element and whenever the value changes, one more otherwise.
var sinceSpec = stepSpec{Site: "helper.Since", Callee: "Map", Rule: "helper-model/value",
	Params: []string{"x"}, State: []string{"first", "last", "count"},
	Hint: map[string]string{"first": "first", "last": "last", "count": "count"},
	Bool: map[string]bool{"first": true},
	Let:  [][2]string{{"NEW", "(first || last != x)"}},
	Updates: map[string]string{
		"first": "false",
		"last":  "ite(NEW, x, last)",
		"count": "ite(NEW, 0, count + 1)",
	},
	Out: "ite(NEW, 0, count + 1)",
	Doc: "Since = 0 for the first element and whenever the value differs from the previous one, previous count + 1 otherwise"}

// normaliseParams: scalar parameters of a root appear as cfg:<name> or plain symbols in value
// terms; the models name them directly.
func normaliseParams(e sym.Expr) sym.Expr {
	vs := map[string]bool{}
	sym.Vars(e, vs)
	sub := map[string]sym.Expr{}
	for v := range vs {
		if strings.HasPrefix(v, "cfg?:") {
			sub[v] = sym.V(v[5:])
		} else if strings.HasPrefix(v, "cfg:") {
			sub[v] = sym.V(v[4:])
		}
	}
	return sym.Subst(e, sub)
}

// intSafeKey: a canonical text of a term modulo the laws that hold in integer arithmetic too:
// associativity and commutativity of + and * (and of max/min), a - b = a + (-1)*b, -x = (-1)*x,
// folding of integer constants. Nothing is distributed, cancelled or moved across a division.
func intSafeKey(e sym.Expr) string {
	var sum func(e sym.Expr, sign int64, terms *[]string, c *big.Rat)
	var prod func(e sym.Expr, factors *[]string, c *big.Rat)
	sum = func(e sym.Expr, sign int64, terms *[]string, c *big.Rat) {
		switch x := e.(type) {
		case sym.Bin:
			if x.Op == "+" {
				sum(x.L, sign, terms, c)
				sum(x.R, sign, terms, c)
				return
			}
			if x.Op == "-" {
				sum(x.L, sign, terms, c)
				sum(x.R, -sign, terms, c)
				return
			}
		case sym.Neg:
			sum(x.X, -sign, terms, c)
			return
		case sym.Num:
			c.Add(c, new(big.Rat).Mul(x.V, big.NewRat(sign, 1)))
			return
		}
		// a product term: fold the sign into its constant
		var fs []string
		k := big.NewRat(sign, 1)
		prod(e, &fs, k)
		sort.Strings(fs)
		if len(fs) == 0 {
			c.Add(c, k)
			return
		}
		t := strings.Join(fs, " * ")
		if k.Cmp(big.NewRat(1, 1)) != 0 {
			t = k.RatString() + " * " + t
		}
		*terms = append(*terms, t)
	}
	prod = func(e sym.Expr, factors *[]string, c *big.Rat) {
		switch x := e.(type) {
		case sym.Bin:
			if x.Op == "*" {
				prod(x.L, factors, c)
				prod(x.R, factors, c)
				return
			}
		case sym.Neg:
			c.Neg(c)
			prod(x.X, factors, c)
			return
		case sym.Num:
			if x.V.IsInt() {
				c.Mul(c, x.V)
				return
			}
		}
		*factors = append(*factors, intSafeAtom(e))
	}
	switch x := e.(type) {
	case sym.Bin:
		if x.Op == "+" || x.Op == "-" || x.Op == "*" {
			var terms []string
			c := new(big.Rat)
			sum(e, 1, &terms, c)
			sort.Strings(terms)
			if c.Sign() != 0 || len(terms) == 0 {
				terms = append(terms, c.RatString())
			}
			if len(terms) == 1 {
				return terms[0]
			}
			return "(" + strings.Join(terms, " + ") + ")"
		}
	case sym.Neg:
		var terms []string
		c := new(big.Rat)
		sum(e, 1, &terms, c)
		if c.Sign() != 0 || len(terms) == 0 {
			terms = append(terms, c.RatString())
		}
		if len(terms) == 1 {
			return terms[0]
		}
		return "(" + strings.Join(terms, " + ") + ")"
	}
	return intSafeAtom(e)
}

func intSafeAtom(e sym.Expr) string {
	switch x := e.(type) {
	case sym.Num:
		return x.V.RatString()
	case sym.Var:
		return x.Name
	case sym.Bin:
		if x.Op == "/" {
			return "(" + intSafeKey(x.L) + " / " + intSafeKey(x.R) + ")"
		}
		if x.Op == "+" || x.Op == "-" || x.Op == "*" {
			return intSafeKey(e)
		}
		return "(" + intSafeKey(x.L) + " " + x.Op + " " + intSafeKey(x.R) + ")"
	case sym.Neg:
		return intSafeKey(e)
	case sym.Call:
		var as []string
		if x.Fn == "max" || x.Fn == "min" {
			var flat func(c sym.Call)
			flat = func(c sym.Call) {
				for _, a := range c.Args {
					if in, ok := a.(sym.Call); ok && in.Fn == x.Fn {
						flat(in)
					} else {
						as = append(as, intSafeKey(a))
					}
				}
			}
			flat(x)
			sort.Strings(as)
			return x.Fn + "(" + strings.Join(as, ", ") + ")"
		}
		for _, a := range x.Args {
			as = append(as, intSafeKey(a))
		}
		return x.Fn + "(" + strings.Join(as, ", ") + ")"
	case sym.Cmp:
		return "(" + intSafeKey(x.L) + " " + x.Op + " " + intSafeKey(x.R) + ")"
	case sym.Logic:
		var as []string
		for _, a := range x.Args {
			as = append(as, intSafeKey(a))
		}
		return x.Op + "(" + strings.Join(as, ", ") + ")"
	case sym.Ite:
		return "ite(" + intSafeKey(x.Cond) + ", " + intSafeKey(x.A) + ", " + intSafeKey(x.B) + ")"
	}
	return sym.String(e)
}

// countValues: helper.Count emits from, from+1, from+2, … - one value per element of the other
// stream. On the SSA form of its goroutine: every value sent is the loop-carried counter, a phi
// of the start value `from` itself (the captured parameter, not something recomputed from it)
// and of that same counter plus the constant 1.
func (c *Ctx) countValues() {
	run := c.Run
	fi := c.fn("helper", "", "Count")
	if fi == nil {
		return
	}
	fn := c.ssaFunc(fi)
	why := ""
	sends := 0
	if fn == nil {
		why = "no SSA form (undecided, fails closed)"
	} else {
		strip := func(v ssa.Value) ssa.Value {
			for {
				switch x := v.(type) {
				case *ssa.ChangeType:
					v = x.X
				case *ssa.Convert:
					v = x.X
				case *ssa.UnOp:
					if x.Op != token.MUL {
						return v
					}
					v = x.X // a load of the captured variable
				default:
					return v
				}
			}
		}
		isFrom := func(v ssa.Value) bool {
			v = strip(v)
			switch x := v.(type) {
			case *ssa.FreeVar:
				return len(fn.Params) > 0 && x.Name() == fn.Params[0].Name()
			case *ssa.Parameter:
				return len(fn.Params) > 0 && x == fn.Params[0]
			}
			return false
		}
		funcs := append([]*ssa.Function{fn}, fn.AnonFuncs...)
		for _, f := range funcs {
			for _, b := range f.Blocks {
				for _, in := range b.Instrs {
					snd, ok := in.(*ssa.Send)
					if !ok {
						continue
					}
					sends++
					phi, isPhi := strip(snd.X).(*ssa.Phi)
					if !isPhi || len(phi.Edges) != 2 {
						why = "the value sent is not a loop-carried counter"
						continue
					}
					okStart, okStep := false, false
					for _, e := range phi.Edges {
						if isFrom(e) {
							okStart = true
							continue
						}
						if bo, isB := strip(e).(*ssa.BinOp); isB && bo.Op == token.ADD {
							x, y := strip(bo.X), strip(bo.Y)
							if cst, isC := y.(*ssa.Const); isC && x == ssa.Value(phi) && cst.Value != nil && cst.Value.ExactString() == "1" {
								okStep = true
							}
							if cst, isC := x.(*ssa.Const); isC && y == ssa.Value(phi) && cst.Value != nil && cst.Value.ExactString() == "1" {
								okStep = true
							}
						}
					}
					if !okStart {
						why = "the counter does not start at the parameter `from` itself"
					} else if !okStep {
						why = "the counter is not advanced by adding 1"
					}
				}
			}
		}
		if sends == 0 && why == "" {
			why = "Count no longer sends from its own stage (undecided, fails closed)"
		}
	}
	run.Oblige(why == "")
	if why != "" {
		c.violate("helper-model/value", "helper.Count", short(why, 60), fi.Decl.Pos(), "Count must emit from, from+1, from+2, … exactly (also for fractional starts): "+why)
	}
}
