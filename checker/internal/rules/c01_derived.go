package rules

import (
	"fmt"
	"go/ast"
	"go/token"
	"go/types"
	"sort"
	"strings"

	"verif/checker/internal/dtab"
	"verif/checker/internal/sym"
)

// Derived sub-periods. An indicator whose documented formula applies its building blocks with
// periods computed from the one the user gives (HMA: WMA(period/2), WMA(period), WMA(sqrt(period)))
// computes them in its constructor. The shape calculus treats the sub-periods as free
// configuration, so the constructor's arithmetic is decided here: the expression handed to the
// sub-indicator stored in each field, as a term over the constructor's parameters, equals the
// specification below (read from the documentation; the rounding is the one the pinned
// implementation and its expected data use: half away from zero).
var derivedPeriodSpecs = map[string]map[string]string{
	"trend.NewHmaWithPeriod": {
		"wma1": "trunc(math.Round(1/2*p0))",
		"wma2": "p0",
		"wma3": "trunc(math.Round(sqrt(p0)))",
	},
}

func (c *Ctx) derivedPeriods() {
	run := c.Run
	var names []string
	for k := range derivedPeriodSpecs {
		names = append(names, k)
	}
	sort.Strings(names)
	n := 0
	for _, name := range names {
		spec := derivedPeriodSpecs[name]
		dot := strings.LastIndex(name, ".")
		fi := c.fn(name[:dot], "", name[dot+1:])
		if fi == nil || fi.Decl.Body == nil {
			run.Break("anchor missing: " + name)
			continue
		}
		info := fi.Pkg.TypesInfo
		var params []types.Object
		ren := map[string]sym.Expr{}
		for _, f := range fi.Decl.Type.Params.List {
			for _, nm := range f.Names {
				ren[nm.Name] = sym.V(fmt.Sprintf("p%d", len(params)))
				params = append(params, info.ObjectOf(nm))
			}
		}
		// the locals the field expressions may use
		var pre []ast.Stmt
		for _, st := range fi.Decl.Body.List {
			as, ok := st.(*ast.AssignStmt)
			if !ok || as.Tok != token.DEFINE || len(as.Lhs) != 1 || len(as.Rhs) != 1 {
				continue
			}
			if _, isID := as.Lhs[0].(*ast.Ident); !isID {
				continue
			}
			switch r := ast.Unparen(as.Rhs[0]).(type) {
			case *ast.CompositeLit:
				continue
			case *ast.UnaryExpr:
				if r.Op == token.AND {
					continue
				}
			}
			pre = append(pre, st)
		}
		// field -> expression stored (composite literal key or assignment to x.field)
		stored := map[string][]ast.Expr{}
		ast.Inspect(fi.Decl.Body, func(nd ast.Node) bool {
			switch x := nd.(type) {
			case *ast.KeyValueExpr:
				if k, ok := x.Key.(*ast.Ident); ok {
					if _, want := spec[k.Name]; want {
						stored[k.Name] = append(stored[k.Name], x.Value)
					}
				}
			case *ast.AssignStmt:
				for i, l := range x.Lhs {
					if sel, ok := l.(*ast.SelectorExpr); ok && i < len(x.Rhs) {
						if _, want := spec[sel.Sel.Name]; want {
							stored[sel.Sel.Name] = append(stored[sel.Sel.Name], x.Rhs[i])
						}
					}
				}
			}
			return true
		})
		var fields []string
		for f := range spec {
			fields = append(fields, f)
		}
		sort.Strings(fields)
		// the specification names the unexported fields as the pinned tree does; when they were
		// renamed, the sub-indicator fields of the struct as it is now are taken instead and the
		// periods are compared as a multiset (which field plays which part is then decided by the
		// formula and admissibility rules, which resolve renamed fields themselves)
		byName := true
		for _, f := range fields {
			if len(stored[f]) == 0 {
				byName = false
			}
		}
		if !byName {
			stored = map[string][]ast.Expr{}
			fields = nil
			res := fi.Fn.Type().(*types.Signature).Results()
			if res.Len() == 1 {
				rt := res.At(0).Type()
				if p, ok := rt.(*types.Pointer); ok {
					rt = p.Elem()
				}
				if st, ok := rt.Underlying().(*types.Struct); ok {
					for i := 0; i < st.NumFields(); i++ {
						if _, isPtr := st.Field(i).Type().(*types.Pointer); isPtr {
							fields = append(fields, st.Field(i).Name())
						}
					}
				}
			}
			want := map[string]bool{}
			for _, f := range fields {
				want[f] = true
			}
			ast.Inspect(fi.Decl.Body, func(nd ast.Node) bool {
				switch x := nd.(type) {
				case *ast.KeyValueExpr:
					if k, ok := x.Key.(*ast.Ident); ok && want[k.Name] {
						stored[k.Name] = append(stored[k.Name], x.Value)
					}
				case *ast.AssignStmt:
					for i, l := range x.Lhs {
						if sel, ok := l.(*ast.SelectorExpr); ok && i < len(x.Rhs) && want[sel.Sel.Name] {
							stored[sel.Sel.Name] = append(stored[sel.Sel.Name], x.Rhs[i])
						}
					}
				}
				return true
			})
			sort.Strings(fields)
		}
		var gotAll, wantAll []string
		for _, v := range spec {
			wantAll = append(wantAll, v)
		}
		sort.Strings(wantAll)
		for _, f := range fields {
			n++
			site := name + "/" + f
			if !byName {
				site = name + "/sub-indicators"
			}
			why := ""
			vals := stored[f]
			if len(vals) != 1 {
				why = fmt.Sprintf("field %s is set %d times in the constructor (undecided, fails closed)", f, len(vals))
			}
			got := ""
			if why == "" {
				v := ast.Unparen(vals[0])
				// a local holding the sub-indicator
				if id, isID := v.(*ast.Ident); isID {
					if d, single := singleDefs(info, fi.Decl.Body)[info.ObjectOf(id)]; single {
						v = ast.Unparen(d)
					}
				}
				call, isCall := v.(*ast.CallExpr)
				if !isCall || len(call.Args) != 1 {
					why = "field " + f + " is not built by a one-argument constructor call (undecided, fails closed)"
				} else {
					stmts := append(append([]ast.Stmt{}, pre...), &ast.ReturnStmt{Return: call.Pos(), Results: []ast.Expr{call.Args[0]}})
					m := dtab.FromStmts(info, stmts, params)
					if len(m.Unsupported) > 0 || len(m.Paths) != 1 || len(m.Paths[0].Ret) != 1 {
						why = "the period of field " + f + " is not a single expression of the parameters (undecided, fails closed)"
					} else {
						got = sym.CanonString(sym.Subst(m.Paths[0].Ret[0], ren))
						gotAll = append(gotAll, got)
						if byName && got != spec[f] {
							why = fmt.Sprintf("the sub-indicator in field %s is built with period %s, the documented formula needs %s", f, got, spec[f])
						}
					}
				}
			}
			run.Oblige(why == "")
			run.Sample(map[string]string{"obligation": site + " period", "derived": got, "specified": spec[f]})
			if why != "" {
				c.violate("formula/derived-period", site, short(got, 60), fi.Decl.Pos(), why+": every value of the indicator is computed over the wrong window for the periods where the two differ")
			}
		}
		if !byName {
			sort.Strings(gotAll)
			good := strings.Join(gotAll, " | ") == strings.Join(wantAll, " | ")
			run.Oblige(good)
			if !good {
				c.violate("formula/derived-period", name+"/sub-indicators", short(strings.Join(gotAll, " | "), 80), fi.Decl.Pos(), fmt.Sprintf("the sub-indicators are built with the periods {%s}, the documented formula needs {%s}: every value of the indicator is computed over the wrong window for the periods where they differ", strings.Join(gotAll, " | "), strings.Join(wantAll, " | ")))
			}
		}
	}
	run.Count("derived_periods", n)
	run.Floor("derived_periods", 3)
}

// trimaPeriods: TRIMA's two SMA periods are computed by an unexported method from the one period
// the user gives: (P/2, P/2+1) for an even P and ((P+1)/2, (P+1)/2) for an odd one (documented).
// The calculus treats the two results as free configuration; here the method is read as a
// decision table and its results are evaluated for P = 1..12.
func (c *Ctx) trimaPeriods() {
	run := c.Run
	tr := c.fn("trend", "Trima", "Compute")
	if tr == nil {
		return
	}
	info := tr.Pkg.TypesInfo
	var calc *ast.FuncDecl
	ast.Inspect(tr.Decl.Body, func(n ast.Node) bool {
		call, ok := n.(*ast.CallExpr)
		if !ok {
			return true
		}
		if fn := callee(info, call); fn != nil && !fn.Exported() {
			if d := c.P.Decls[fn.Origin()]; d != nil && d.Decl.Recv != nil && d.Decl.Type.Results != nil && d.Decl.Type.Results.NumFields() == 2 {
				calc = d.Decl
			}
		}
		return true
	})
	site := "trend.(*Trima).calculatePeriods"
	if calc == nil {
		run.Oblige(false)
		c.violate("formula/derived-period", site, "not found", tr.Decl.Pos(), "the method that derives TRIMA's two SMA periods could not be located (undecided, fails closed)")
		return
	}
	m := dtab.FromFuncDecl(info, calc)
	recv := ""
	if len(calc.Recv.List) == 1 && len(calc.Recv.List[0].Names) == 1 {
		recv = calc.Recv.List[0].Names[0].Name
	}
	why := ""
	if len(m.Unsupported) > 0 || len(m.State) > 0 || recv == "" {
		why = fmt.Sprintf("the method is not a loop-free function of the period (undecided, fails closed): %v", m.Unsupported)
	}
	n := 0
	for p := int64(1); p <= 12 && why == ""; p++ {
		env := map[string]sym.Expr{recv + ".Period": sym.N(p)}
		ps, ok := m.Select(env, modOracle(env))
		if !ok || len(ps) != 1 || len(ps[0].Ret) != 2 {
			why = fmt.Sprintf("the periods for Period=%d are undecided (fails closed)", p)
			break
		}
		w1, w2 := p/2, p/2+1
		if p%2 != 0 {
			w1, w2 = (p+1)/2, (p+1)/2
		}
		g1, ok1 := evalIntTerm(ps[0].Ret[0], env)
		g2, ok2 := evalIntTerm(ps[0].Ret[1], env)
		n++
		if !ok1 || !ok2 {
			why = fmt.Sprintf("the periods for Period=%d are undecided (fails closed)", p)
		} else if g1 != w1 || g2 != w2 {
			why = fmt.Sprintf("for Period=%d the two SMA periods are (%d, %d), documented (%d, %d)", p, g1, g2, w1, w2)
		}
	}
	run.Count("trima_periods_evaluated", n)
	run.Oblige(why == "")
	if why != "" {
		c.violate("formula/derived-period", site, short(why, 80), calc.Pos(), why+": TRIMA is computed over the wrong windows")
	}
}

// evalIntTerm evaluates an integer term (with Go's truncating division and remainder).
func evalIntTerm(e sym.Expr, env map[string]sym.Expr) (int64, bool) {
	switch x := e.(type) {
	case sym.Num:
		if x.V.IsInt() {
			return x.V.Num().Int64(), true
		}
	case sym.Var:
		if v, ok := env[x.Name]; ok {
			if _, same := v.(sym.Var); !same {
				return evalIntTerm(v, env)
			}
		}
	case sym.Neg:
		v, ok := evalIntTerm(x.X, env)
		return -v, ok
	case sym.Bin:
		l, ok1 := evalIntTerm(x.L, env)
		r, ok2 := evalIntTerm(x.R, env)
		if !ok1 || !ok2 {
			return 0, false
		}
		switch x.Op {
		case "+":
			return l + r, true
		case "-":
			return l - r, true
		case "*":
			return l * r, true
		case "/":
			if r == 0 {
				return 0, false
			}
			return l / r, true
		}
	case sym.Call:
		if (x.Fn == "mod" || x.Fn == "%") && len(x.Args) == 2 {
			l, ok1 := evalIntTerm(x.Args[0], env)
			r, ok2 := evalIntTerm(x.Args[1], env)
			if ok1 && ok2 && r != 0 {
				return l % r, true
			}
		}
	case sym.Ite:
		return 0, false
	}
	return 0, false
}

// modOracle decides comparisons between integer terms under env.
func modOracle(env map[string]sym.Expr) dtab.Oracle {
	return func(cm sym.Cmp) (bool, bool) {
		l, ok1 := evalIntTerm(cm.L, env)
		r, ok2 := evalIntTerm(cm.R, env)
		if !ok1 || !ok2 {
			return false, false
		}
		switch cm.Op {
		case "==":
			return l == r, true
		case "!=":
			return l != r, true
		case "<":
			return l < r, true
		case "<=":
			return l <= r, true
		case ">":
			return l > r, true
		case ">=":
			return l >= r, true
		}
		return false, false
	}
}
