package rules

import (
	"fmt"
	"go/ast"
	"go/token"
	"go/types"
	"sort"
	"strings"

	"verif/checker/internal/dtab"
	"verif/checker/internal/sym"
)

// Derived sub-periods. An indicator whose documented formula applies its building blocks with
// periods computed from the one the user gives (HMA: WMA(period/2), WMA(period), WMA(sqrt(period)))
// computes them in its constructor. The shape calculus treats the sub-periods as free
// configuration, so the constructor's arithmetic is decided here: the expression handed to the
// sub-indicator stored in each field, as a term over the constructor's parameters, equals the
// specification below (read from the documentation; the rounding is the one the pinned
// implementation and its expected data use: half away from zero).
var derivedPeriodSpecs = map[string]map[string]string{
	"trend.NewHmaWithPeriod": {
		"wma1": "trunc(math.Round(1/2*p0))",
		"wma2": "p0",
		"wma3": "trunc(math.Round(sqrt(p0)))",
	},
}

func (c *Ctx) derivedPeriods() {
	run := c.Run
	var names []string
	for k := range derivedPeriodSpecs {
		names = append(names, k)
	}
	sort.Strings(names)
	n := 0
	for _, name := range names {
		spec := derivedPeriodSpecs[name]
		dot := strings.LastIndex(name, ".")
		fi := c.fn(name[:dot], "", name[dot+1:])
		if fi == nil || fi.Decl.Body == nil {
			run.Break("anchor missing: " + name)
			continue
		}
		info := fi.Pkg.TypesInfo
		var params []types.Object
		ren := map[string]sym.Expr{}
		for _, f := range fi.Decl.Type.Params.List {
			for _, nm := range f.Names {
				ren[nm.Name] = sym.V(fmt.Sprintf("p%d", len(params)))
				params = append(params, info.ObjectOf(nm))
			}
		}
		// the locals the field expressions may use
		var pre []ast.Stmt
		for _, st := range fi.Decl.Body.List {
			as, ok := st.(*ast.AssignStmt)
			if !ok || as.Tok != token.DEFINE || len(as.Lhs) != 1 || len(as.Rhs) != 1 {
				continue
			}
			if _, isID := as.Lhs[0].(*ast.Ident); !isID {
				continue
			}
			switch r := ast.Unparen(as.Rhs[0]).(type) {
			case *ast.CompositeLit:
				continue
			case *ast.UnaryExpr:
				if r.Op == token.AND {
					continue
				}
			}
			pre = append(pre, st)
		}
		// field -> expression stored (composite literal key or assignment to x.field)
		stored := map[string][]ast.Expr{}
		ast.Inspect(fi.Decl.Body, func(nd ast.Node) bool {
			switch x := nd.(type) {
			case *ast.KeyValueExpr:
				if k, ok := x.Key.(*ast.Ident); ok {
					if _, want := spec[k.Name]; want {
						stored[k.Name] = append(stored[k.Name], x.Value)
					}
				}
			case *ast.AssignStmt:
				for i, l := range x.Lhs {
					if sel, ok := l.(*ast.SelectorExpr); ok && i < len(x.Rhs) {
						if _, want := spec[sel.Sel.Name]; want {
							stored[sel.Sel.Name] = append(stored[sel.Sel.Name], x.Rhs[i])
						}
					}
				}
			}
			return true
		})
		var fields []string
		for f := range spec {
			fields = append(fields, f)
		}
		sort.Strings(fields)
		// the specification names the unexported fields as the pinned tree does; when they were
		// renamed, the sub-indicator fields of the struct as it is now are taken instead and the
		// periods are compared as a multiset (which field plays which part is then decided by the
		// formula and admissibility rules, which resolve renamed fields themselves)
		byName := true
		for _, f := range fields {
			if len(stored[f]) == 0 {
				byName = false
			}
		}
		if !byName {
			stored = map[string][]ast.Expr{}
			fields = nil
			res := fi.Fn.Type().(*types.Signature).Results()
			if res.Len() == 1 {
				rt := res.At(0).Type()
				if p, ok := rt.(*types.Pointer); ok {
					rt = p.Elem()
				}
				if st, ok := rt.Underlying().(*types.Struct); ok {
					for i := 0; i < st.NumFields(); i++ {
						if _, isPtr := st.Field(i).Type().(*types.Pointer); isPtr {
							fields = append(fields, st.Field(i).Name())
						}
					}
				}
			}
			want := map[string]bool{}
			for _, f := range fields {
				want[f] = true
			}
			ast.Inspect(fi.Decl.Body, func(nd ast.Node) bool {
				switch x := nd.(type) {
				case *ast.KeyValueExpr:
					if k, ok := x.Key.(*ast.Ident); ok && want[k.Name] {
						stored[k.Name] = append(stored[k.Name], x.Value)
					}
				case *ast.AssignStmt:
					for i, l := range x.Lhs {
						if sel, ok := l.(*ast.SelectorExpr); ok && i < len(x.Rhs) && want[sel.Sel.Name] {
							stored[sel.Sel.Name] = append(stored[sel.Sel.Name], x.Rhs[i])
						}
					}
				}
				return true
			})
			sort.Strings(fields)
		}
		var gotAll, wantAll []string
		for _, v := range spec {
			wantAll = append(wantAll, v)
		}
		sort.Strings(wantAll)
		for _, f := range fields {
			n++
			site := name + "/" + f
			if !byName {
				site = name + "/sub-indicators"
			}
			why := ""
			vals := stored[f]
			if len(vals) != 1 {
				why = fmt.Sprintf("field %s is set %d times in the constructor (undecided, fails closed)", f, len(vals))
			}
			got := ""
			if why == "" {
				v := ast.Unparen(vals[0])
				// a local holding the sub-indicator
				if id, isID := v.(*ast.Ident); isID {
					if d, single := singleDefs(info, fi.Decl.Body)[info.ObjectOf(id)]; single {
						v = ast.Unparen(d)
					}
				}
				call, isCall := v.(*ast.CallExpr)
				if !isCall || len(call.Args) != 1 {
					why = "field " + f + " is not built by a one-argument constructor call (undecided, fails closed)"
				} else {
					stmts := append(append([]ast.Stmt{}, pre...), &ast.ReturnStmt{Return: call.Pos(), Results: []ast.Expr{call.Args[0]}})
					m := dtab.FromStmts(info, stmts, params)
					if len(m.Unsupported) > 0 || len(m.Paths) != 1 || len(m.Paths[0].Ret) != 1 {
						why = "the period of field " + f + " is not a single expression of the parameters (undecided, fails closed)"
					} else {
						got = sym.CanonString(sym.Subst(m.Paths[0].Ret[0], ren))
						gotAll = append(gotAll, got)
						if byName && got != spec[f] {
							why = fmt.Sprintf("the sub-indicator in field %s is built with period %s, the documented formula needs %s", f, got, spec[f])
						}
					}
				}
			}
			run.Oblige(why == "")
			run.Sample(map[string]string{"obligation": site + " period", "derived": got, "specified": spec[f]})
			if why != "" {
				c.violate("formula/derived-period", site, short(got, 60), fi.Decl.Pos(), why+": every value of the indicator is computed over the wrong window for the periods where the two differ")
			}
		}
		if !byName {
			sort.Strings(gotAll)
			good := strings.Join(gotAll, " | ") == strings.Join(wantAll, " | ")
			run.Oblige(good)
			if !good {
				c.violate("formula/derived-period", name+"/sub-indicators", short(strings.Join(gotAll, " | "), 80), fi.Decl.Pos(), fmt.Sprintf("the sub-indicators are built with the periods {%s}, the documented formula needs {%s}: every value of the indicator is computed over the wrong window for the periods where they differ", strings.Join(gotAll, " | "), strings.Join(wantAll, " | ")))
			}
		}
	}
	run.Count("derived_periods", n)
	run.Floor("derived_periods", 3)
}
