package rules

import (
	"fmt"
	"go/ast"
	"go/constant"
	"go/parser"
	"go/token"
	"go/types"
	"golang.org/x/tools/go/packages"
	"math/big"
	"sort"
	"strconv"
	"strings"
	"time"

	"golang.org/x/tools/go/ssa"

	"verif/checker/internal/dtab"
	"verif/checker/internal/load"
	"verif/checker/internal/modsum"
	"verif/checker/internal/report"
	"verif/checker/internal/sym"
)

// sharedWritesAtGo reports unprotected writes to memory shared between the instances of a
// goroutine started in a loop inside fi (and with the function that starts them).
func (c *Ctx) sharedWritesAtGo(fi *load.FuncInfo, rulePrefix string) int {
	run := c.Run
	ms := c.modsum()
	fn := c.ssaFunc(fi)
	if fn == nil {
		run.Break("no SSA function for " + load.FuncName(fi.Fn))
		return 0
	}
	site := load.FuncName(fi.Fn)
	n := 0
	for _, gs := range ms.GoSites() {
		if gs.Fn != fn || !gs.InLoop {
			continue
		}
		n++
		for _, callee := range gs.Callees {
			s := ms.SummaryOf(callee)
			if s == nil {
				continue
			}
			var keys []string
			for k := range s.Writes {
				keys = append(keys, k)
			}
			sort.Strings(keys)
			clean := true
			for _, k := range keys {
				f := s.Writes[k]
				shared := false
				what := ""
				switch f.Root.Kind {
				case modsum.FreeVar:
					if !modsum.BindingInLoop(gs.Instr, f.Root.Index) {
						shared = true
						what = "the captured variable " + f.Root.Name
					}
				case modsum.Param:
					arg := goArg(gs.Instr, callee, f.Root.Index)
					if arg != nil && !freshPerIteration(arg, gs.Instr) {
						shared = true
						what = "the argument " + f.Root.Name
					}
				case modsum.Global:
					shared = true
					what = "the package variable " + f.Root.Name
				}
				if !shared {
					continue
				}
				if f.Protected {
					run.Oblige(true)
					continue
				}
				clean = false
				run.Oblige(false)
				run.Violate(report.Finding{Rule: rulePrefix + "/shared-write", Site: site, Detail: f.What + " through " + f.Root.Name, Pos: c.P.Pos(f.Pos),
					Message: fmt.Sprintf("the workers started in a loop by %s all write %s without synchronisation (%s%s): data race, and with a map a crash", fi.Fn.Name(), what, f.What, viaString(f))})
			}
			if clean {
				run.Oblige(true)
			}
		}
	}
	return n
}

func goArg(g *ssa.Go, callee *ssa.Function, i int) ssa.Value {
	c := g.Common()
	if c.IsInvoke() {
		if i == 0 {
			return c.Value
		}
		if i-1 < len(c.Args) {
			return c.Args[i-1]
		}
		return nil
	}
	if i < len(c.Args) {
		return c.Args[i]
	}
	return nil
}

// freshPerIteration: the argument is allocated in the loop body (one object per worker).
func freshPerIteration(v ssa.Value, g *ssa.Go) bool {
	switch x := v.(type) {
	case *ssa.Alloc:
		return x.Block() == g.Block()
	case *ssa.MakeChan, *ssa.MakeMap, *ssa.MakeSlice:
		return true
	}
	return false
}

// lockConsistency: in a type that owns a mutex, every method touching a map or slice field holds it.
func (c *Ctx) lockConsistency(rel, typeName string, fields []string, rulePrefix string) {
	run := c.Run
	pk := c.P.Pkg(rel)
	if pk == nil {
		run.Break("package " + rel + " missing")
		return
	}
	tn, _ := pk.Types.Scope().Lookup(typeName).(*types.TypeName)
	if tn == nil {
		run.Break("anchor missing: " + rel + "." + typeName)
		return
	}
	st, _ := tn.Type().Underlying().(*types.Struct)
	hasMutex := false
	present := map[string]bool{}
	var shared []string // every map or slice field: the state the methods share
	for i := 0; st != nil && i < st.NumFields(); i++ {
		f := st.Field(i)
		ts := f.Type().String()
		if ts == "sync.Mutex" || ts == "sync.RWMutex" {
			hasMutex = true
		}
		present[f.Name()] = true
		switch f.Type().Underlying().(type) {
		case *types.Map, *types.Slice:
			shared = append(shared, f.Name())
		}
	}
	// the pinned field names are tried first; if a field was renamed, the shared state is every map/slice field
	for _, f := range fields {
		if !present[f] {
			fields = shared
			break
		}
	}
	run.Oblige(hasMutex)
	if !hasMutex {
		c.violate(rulePrefix+"/lock", rel+"."+typeName, "no mutex", tn.Pos(), typeName+" is used from several workers but has no mutex guarding "+strings.Join(fields, ", "))
		return
	}
	named := tn.Type().(*types.Named)
	type ev struct {
		pos  token.Pos
		kind string
		node ast.Node
		name string
	}
	events := map[string][]ev{}
	decls := map[string]*load.FuncInfo{}
	for i := 0; i < named.NumMethods(); i++ {
		fi := c.P.Info(named.Method(i))
		if fi == nil || fi.Decl.Body == nil {
			continue
		}
		decls[fi.Fn.Name()] = fi
		info := fi.Pkg.TypesInfo
		var evs []ev
		ast.Inspect(fi.Decl.Body, func(n ast.Node) bool {
			switch x := n.(type) {
			case *ast.DeferStmt:
				if name := calleeName(info, x.Call); strings.HasPrefix(name, "sync.") && strings.HasSuffix(name, "nlock") {
					return false // released at return: held for the rest of the method
				}
			case *ast.CallExpr:
				name := calleeName(info, x)
				if strings.HasPrefix(name, "sync.") {
					switch {
					case strings.HasSuffix(name, ".Lock") || strings.HasSuffix(name, ".RLock"):
						evs = append(evs, ev{x.Pos(), "lock", x, ""})
					case strings.HasSuffix(name, ".Unlock") || strings.HasSuffix(name, ".RUnlock"):
						evs = append(evs, ev{x.Pos(), "unlock", x, ""})
					}
				} else if fn := callee(info, x); fn != nil {
					if sig, ok := fn.Type().(*types.Signature); ok && sig.Recv() != nil && recvNamed(sig.Recv().Type()) == named {
						evs = append(evs, ev{x.Pos(), "call", x, fn.Name()})
					}
				}
			case *ast.SelectorExpr:
				for _, f := range fields {
					if x.Sel.Name == f {
						if sel, ok := info.Selections[x]; ok && sel.Kind() == types.FieldVal {
							evs = append(evs, ev{x.Pos(), "access", x, f})
						}
					}
				}
			}
			return true
		})
		sort.Slice(evs, func(i, j int) bool { return evs[i].pos < evs[j].pos })
		events[fi.Fn.Name()] = evs
	}
	// path-sensitive lock state per method (go/cfg may-analysis)
	isLockCall := func(info *types.Info) func(ast.Node) bool {
		return func(n ast.Node) bool {
			call, ok := n.(*ast.CallExpr)
			if !ok {
				return false
			}
			name := calleeName(info, call)
			return strings.HasPrefix(name, "sync.") && (strings.HasSuffix(name, ".Lock") || strings.HasSuffix(name, ".RLock"))
		}
	}
	isUnlockCall := func(info *types.Info) func(ast.Node) bool {
		return func(n ast.Node) bool {
			call, ok := n.(*ast.CallExpr)
			if !ok {
				return false
			}
			name := calleeName(info, call)
			return strings.HasPrefix(name, "sync.") && (strings.HasSuffix(name, ".Unlock") || strings.HasSuffix(name, ".RUnlock"))
		}
	}
	isAccess := func(info *types.Info) func(ast.Node) bool {
		return func(n ast.Node) bool {
			x, ok := n.(*ast.SelectorExpr)
			if !ok {
				return false
			}
			for _, f := range fields {
				if x.Sel.Name == f {
					if sel, ok := info.Selections[x]; ok && sel.Kind() == types.FieldVal {
						return true
					}
				}
			}
			return false
		}
	}
	isSelfCall := func(info *types.Info) func(ast.Node) bool {
		return func(n ast.Node) bool {
			call, ok := n.(*ast.CallExpr)
			if !ok {
				return false
			}
			fn := callee(info, call)
			if fn == nil {
				return false
			}
			sig, ok := fn.Type().(*types.Signature)
			return ok && sig.Recv() != nil && recvNamed(sig.Recv().Type()) == named
		}
	}
	// read-modify-write in one critical section: a value stored into the shared state that was
	// computed from a value read from it must not have crossed an Unlock (another worker's update
	// between the two sections is overwritten)
	for _, fi := range decls {
		info := fi.Pkg.TypesInfo
		isShared := func(e ast.Expr) bool {
			for {
				switch x := e.(type) {
				case *ast.IndexExpr:
					e = x.X
					continue
				case *ast.ParenExpr:
					e = x.X
					continue
				case *ast.SelectorExpr:
					for _, f := range fields {
						if x.Sel.Name == f {
							if sel, ok := info.Selections[x]; ok && sel.Kind() == types.FieldVal {
								return true
							}
						}
					}
				}
				return false
			}
		}
		// where each local last read the shared state: local -> position of the defining statement
		type sharedRead struct {
			pos   token.Pos
			field string
		}
		readAt := map[types.Object]sharedRead{}
		fieldOf := func(e ast.Expr) string {
			name := ""
			ast.Inspect(e, func(n ast.Node) bool {
				if x, ok := n.(*ast.SelectorExpr); ok && name == "" {
					for _, f := range fields {
						if x.Sel.Name == f {
							if sel, ok := info.Selections[x]; ok && sel.Kind() == types.FieldVal {
								name = f
							}
						}
					}
				}
				return name == ""
			})
			return name
		}
		var unlocks []token.Pos
		ast.Inspect(fi.Decl.Body, func(n ast.Node) bool {
			switch x := n.(type) {
			case *ast.DeferStmt:
				return false
			case *ast.CallExpr:
				if name := calleeName(info, x); strings.HasPrefix(name, "sync.") && (strings.HasSuffix(name, ".Unlock") || strings.HasSuffix(name, ".RUnlock")) {
					unlocks = append(unlocks, x.Pos())
				}
			}
			return true
		})
		if len(unlocks) == 0 {
			continue
		}
		mentionsShared := func(e ast.Expr) bool {
			found := false
			ast.Inspect(e, func(n ast.Node) bool {
				if ex, ok := n.(ast.Expr); ok && isShared(ex) {
					found = true
				}
				return !found
			})
			return found
		}
		ast.Inspect(fi.Decl.Body, func(n ast.Node) bool {
			as, ok := n.(*ast.AssignStmt)
			if !ok {
				return true
			}
			for i, l := range as.Lhs {
				if i >= len(as.Rhs) && len(as.Rhs) != 1 {
					continue
				}
				rhs := as.Rhs[0]
				if len(as.Rhs) == len(as.Lhs) {
					rhs = as.Rhs[i]
				}
				if id, ok := l.(*ast.Ident); ok && id.Name != "_" {
					obj := info.ObjectOf(id)
					if mentionsShared(rhs) {
						readAt[obj] = sharedRead{as.Pos(), fieldOf(rhs)}
					} else {
						// derived from locals that carry a read: inherit the earliest
						ast.Inspect(rhs, func(m ast.Node) bool {
							if rid, ok := m.(*ast.Ident); ok {
								if p, has := readAt[info.ObjectOf(rid)]; has {
									if old, had := readAt[obj]; !had || p.pos < old.pos {
										readAt[obj] = p
									}
								}
							}
							return true
						})
					}
					continue
				}
				if !isShared(l) {
					continue
				}
				// a store into the shared state: which reads does the value come from?
				ast.Inspect(rhs, func(m ast.Node) bool {
					rid, ok := m.(*ast.Ident)
					if !ok {
						return true
					}
					rd, has := readAt[info.ObjectOf(rid)]
					if !has || rd.field != fieldOf(l) {
						return true // a value taken out of another part of the state is not an update of this one
					}
					p := rd.pos
					for _, u := range unlocks {
						if p < u && u < as.Pos() {
							run.Oblige(false)
							c.violate(rulePrefix+"/atomic-update", rel+"."+typeName+"."+fi.Fn.Name(), "store of "+rid.Name, as.Pos(),
								typeName+"."+fi.Fn.Name()+" stores a value computed from "+rid.Name+", which was read from the shared state before the lock was released ("+c.P.Pos(u)+"): an update another goroutine makes between the two critical sections is overwritten")
							return false
						}
					}
					return true
				})
			}
			return true
		})
		c.ok()
	}
	var ms []string
	for m := range events {
		ms = append(ms, m)
	}
	sort.Strings(ms)
	// internal helpers called without the lock somewhere
	calledFree := map[string]bool{}
	calledAtAll := map[string]bool{}
	for _, m := range ms {
		fi := decls[m]
		info := fi.Pkg.TypesInfo
		ast.Inspect(fi.Decl.Body, func(n ast.Node) bool {
			if n != nil && isSelfCall(info)(n) {
				calledAtAll[callee(info, n.(*ast.CallExpr)).Name()] = true
			}
			return true
		})
		for _, n := range unguardedNodes(fi.Decl.Body, isLockCall(info), isUnlockCall(info), isSelfCall(info), false) {
			calledFree[callee(info, n.(*ast.CallExpr)).Name()] = true
		}
	}
	for _, m := range ms {
		fi := decls[m]
		info := fi.Pkg.TypesInfo
		nAcc := 0
		ast.Inspect(fi.Decl.Body, func(n ast.Node) bool {
			if n != nil && isAccess(info)(n) {
				nAcc++
			}
			return true
		})
		run.Count("guarded_accesses", nAcc)
		// an unexported helper that is only ever called with the lock held starts in the held state
		startHeld := !ast.IsExported(m) && calledAtAll[m] && !calledFree[m]
		bad := unguardedNodes(fi.Decl.Body, isLockCall(info), isUnlockCall(info), isAccess(info), startHeld)
		run.Oblige(len(bad) == 0)
		for _, n := range bad {
			c.violate(rulePrefix+"/lock", load.FuncName(fi.Fn), "unguarded "+exprString(n.(ast.Expr)), n.Pos(),
				"the field "+n.(*ast.SelectorExpr).Sel.Name+" of "+typeName+" can be accessed here without holding the mutex that guards it in the other methods")
		}
	}
}

func recvNamed(t types.Type) *types.Named {
	if p, ok := t.(*types.Pointer); ok {
		t = p.Elem()
	}
	n, _ := t.(*types.Named)
	return n
}

// ---------------------------------------------------------------------------
// C12 – Sync.

func CheckC12(c *Ctx) {
	run := c.Run
	run.Technique = "typed-AST structure lints on the worker closure of asset.Sync.Run (start-date rule, fault isolation, error reporting, WaitGroup domination, single job channel) + SSA shared-write analysis rooted at the go statement started in a loop + lock-consistency lint on InMemoryRepository"
	run.Explanation = "The resulting repository contents and idempotence depend on repository semantics and are NOT decided. Decided structurally on the worker closure of Sync.Run: the start date is LastDate+1 day when the target has the asset and the default start date otherwise, and that value is what is passed to source.GetSince, whose result is what is appended to the target; every error branch inside the per-asset loop records the failure and continues with the next asset (no return/break: one failing asset does not stop the others), and Run returns a non-nil error iff a failure was recorded; wg.Wait() precedes the final return; all assets flow through one channel consumed by all workers. The SSA shared-write analysis shows that no worker writes memory shared with the other workers without synchronisation (the failure flag; the target repository through the Repository interface, resolved by CHA), and every method of InMemoryRepository touches its map under the mutex. The last date asked for is the target's for the asset in hand, the default asset list (used only when none are configured) is the target's, the job channel is made from the unsliced list, and the loop that starts the workers runs at least once for every Workers >= 1."
	run.Trusted = []string{"go/types", "go/ssa + CHA (x/tools v0.29.0)", "sync/atomic and sync.Mutex semantics"}
	c.syncCommandWiring()
	c.workersPositive("cmd/indicator-sync", "sync/command")
	c.factoryPurity("asset", "NewRepository", "sync/factory") // source and target of the command come from it
	c.assetNameCodec()                                        // asset lists taken from a file-system target
	c.tiingoStartDate()
	c.tiingoFields()
	fi := c.fn("asset", "Sync", "Run")
	if fi == nil {
		return
	}
	info := fi.Pkg.TypesInfo
	site := "asset.(*Sync).Run"
	lits := goLitsOf(fi.Decl)
	if len(lits) != 1 {
		c.violate("sync/shape", site, "workers", fi.Decl.Pos(), "Sync.Run no longer starts exactly one kind of worker goroutine (undecided, fails closed)")
		return
	}
	worker := lits[0]
	c.workerLoop("sync/jobs", site, info, fi.Decl)
	c.defaultWhenEmpty("sync/jobs", site, info, fi.Decl, "Assets")
	// the worker ranges over one jobs channel built from s.Assets
	var loop *ast.RangeStmt
	for _, s := range worker.Body.List {
		if r, ok := s.(*ast.RangeStmt); ok {
			loop = r
		}
	}
	jobsOK := false
	if loop != nil {
		if id, ok := loop.X.(*ast.Ident); ok {
			obj := info.Uses[id]
			ast.Inspect(fi.Decl.Body, func(n ast.Node) bool {
				as, ok := n.(*ast.AssignStmt)
				if !ok || len(as.Lhs) != 1 || len(as.Rhs) != 1 {
					return true
				}
				if l, ok := as.Lhs[0].(*ast.Ident); ok && info.Defs[l] == obj {
					if call, ok := as.Rhs[0].(*ast.CallExpr); ok && strings.HasSuffix(calleeName(info, call), "helper.SliceToChan") {
						src, _ := c.origin(info, fi.Decl, call.Args[0], 0)
						if sel, isSel := ast.Unparen(src).(*ast.SelectorExpr); isSel && sel.Sel.Name == "Assets" && as.Pos() < worker.Pos() {
							if v, isField := info.ObjectOf(sel.Sel).(*types.Var); isField && v.IsField() {
								jobsOK = true
							}
						}
					}
				}
				return true
			})
		}
	}
	run.Oblige(jobsOK)
	if !jobsOK || loop == nil {
		c.violate("sync/jobs", site, "job channel", fi.Decl.Pos(), "the workers no longer share one channel of all asset names created before they start: assets may be skipped or synchronised twice")
		return
	}
	// with no names given, the assets synchronised are the ones the TARGET holds (documented)
	{
		sig := fi.Fn.Type().(*types.Signature)
		var tgt types.Object
		if sig.Params().Len() >= 2 {
			tgt = sig.Params().At(1)
		}
		nFallback := 0
		ast.Inspect(fi.Decl.Body, func(n ast.Node) bool {
			as, ok := n.(*ast.AssignStmt)
			if !ok || len(as.Lhs) != 1 || len(as.Rhs) != 1 {
				return true
			}
			sel, isSel := ast.Unparen(as.Lhs[0]).(*ast.SelectorExpr)
			if !isSel || sel.Sel.Name != "Assets" {
				return true
			}
			nFallback++
			src, _ := c.origin(info, fi.Decl, as.Rhs[0], 0)
			good := false
			if tr, isT := src.(*tupleResult); isT && tr.idx == 0 {
				if fn := callee(info, tr.call); fn != nil && fn.Name() == "Assets" {
					if fs, isS := ast.Unparen(tr.call.Fun).(*ast.SelectorExpr); isS {
						if id, isID := ast.Unparen(fs.X).(*ast.Ident); isID && tgt != nil && info.ObjectOf(id) == tgt {
							good = true
						}
					}
				}
			}
			run.Oblige(good)
			if !good {
				c.violate("sync/jobs", site, "default asset list", as.Pos(), "when no asset names are given the assets synchronised must be the ones the target repository holds; the list is taken from "+exprString(src))
			}
			return true
		})
		run.Count("sync_default_asset_lists", nFallback)
	}
	// The per-asset work may have been moved into an unexported method called with the asset name:
	// then the rules below look at that method's body, with its parameters mapped to Run's.
	procBody := loop.Body
	procInfo := info
	sourceObj, targetObj := types.Object(nil), types.Object(nil)
	var defaultObj types.Object
	nameObj := info.ObjectOf(loop.Key.(*ast.Ident))
	{
		sig := fi.Fn.Type().(*types.Signature)
		if sig.Params().Len() >= 3 {
			sourceObj, targetObj, defaultObj = sig.Params().At(0), sig.Params().At(1), sig.Params().At(2)
		}
	}
	var procCall *ast.CallExpr
	var procIf *ast.IfStmt
	// a start date computed by an unexported helper is analysed as if its body stood in the loop
	loop = &ast.RangeStmt{For: loop.For, Key: loop.Key, Value: loop.Value, Tok: loop.Tok, X: loop.X, Body: &ast.BlockStmt{Lbrace: loop.Body.Lbrace, Rbrace: loop.Body.Rbrace, List: c.inlineValueCalls(info, c.inlineBoolGuards(info, loop.Body.List), true)}}
	procBody = loop.Body
	hasLastDate := false
	ast.Inspect(loop.Body, func(n ast.Node) bool {
		if call, ok := n.(*ast.CallExpr); ok && strings.HasSuffix(calleeName(info, call), ".LastDate") {
			hasLastDate = true
		}
		return true
	})
	if !hasLastDate {
		for _, st := range loop.Body.List {
			is, ok := st.(*ast.IfStmt)
			if !ok || is.Else != nil {
				continue
			}
			u, isNot := ast.Unparen(is.Cond).(*ast.UnaryExpr)
			if !isNot || u.Op != token.NOT {
				continue
			}
			call, isCall := ast.Unparen(u.X).(*ast.CallExpr)
			if !isCall {
				continue
			}
			fn := callee(info, call)
			if fn == nil || fn.Exported() {
				continue
			}
			dfi := c.P.Decls[fn.Origin()]
			if dfi == nil || dfi.Decl.Body == nil || dfi.Decl.Type.Params == nil {
				continue
			}
			// map the callee's parameters to Run's source, target, default date and the asset name
			var pobjs []types.Object
			for _, f := range dfi.Decl.Type.Params.List {
				for _, nm := range f.Names {
					pobjs = append(pobjs, dfi.Pkg.TypesInfo.Defs[nm])
				}
			}
			if len(pobjs) != len(call.Args) {
				continue
			}
			var s2, t2, d2, n2 types.Object
			for i, a := range call.Args {
				if id, isID := a.(*ast.Ident); isID {
					switch info.ObjectOf(id) {
					case sourceObj:
						s2 = pobjs[i]
					case targetObj:
						t2 = pobjs[i]
					case defaultObj:
						d2 = pobjs[i]
					case nameObj:
						n2 = pobjs[i]
					}
				}
			}
			if s2 != nil && t2 != nil && d2 != nil && n2 != nil {
				procBody, procInfo, procCall, procIf = dfi.Decl.Body, dfi.Pkg.TypesInfo, call, is
				sourceObj, targetObj, defaultObj, nameObj = s2, t2, d2, n2
			}
		}
	}
	_ = procCall
	isRecv := func(fun ast.Expr, obj types.Object) bool {
		sel, ok := fun.(*ast.SelectorExpr)
		if !ok {
			return false
		}
		id, ok := sel.X.(*ast.Ident)
		return ok && obj != nil && procInfo.ObjectOf(id) == obj
	}
	// start-date rule
	var lastDateObj, startObj types.Object
	startOK := false
	loopBody := loop.Body
	loop = &ast.RangeStmt{For: loop.For, Key: loop.Key, Value: loop.Value, Tok: loop.Tok, X: loop.X, Body: procBody}
	info = procInfo
	for i, s := range loop.Body.List {
		as, ok := s.(*ast.AssignStmt)
		if !ok || len(as.Rhs) != 1 {
			continue
		}
		call, ok := as.Rhs[0].(*ast.CallExpr)
		if !ok || !strings.HasSuffix(calleeName(info, call), ".LastDate") {
			continue
		}
		// the last date asked for is the target's, for this asset
		if !isRecv(call.Fun, targetObj) || len(call.Args) != 1 || !usesObj(info, call.Args[0], nameObj) {
			run.Oblige(false)
			c.violate("sync/start-date", "asset.(*Sync).Run", "last date of "+exprString(call.Fun), call.Pos(), "the date from which an asset is synchronised is taken from "+exprString(call)+", not from the target's last date for that asset: what the target already holds is copied again, or what it misses is skipped")
			continue
		}
		if id, ok := as.Lhs[0].(*ast.Ident); ok {
			lastDateObj = info.Defs[id]
		}
		if i+1 < len(loop.Body.List) {
			var errObj types.Object
			if len(as.Lhs) == 2 {
				if eid, ok := as.Lhs[1].(*ast.Ident); ok {
					errObj = info.ObjectOf(eid)
				}
			}
			if is, ok := loop.Body.List[i+1].(*ast.IfStmt); ok && is.Else != nil {
				// which branch is taken when LastDate succeeded: `err == nil` or `err != nil` of that err
				orient := nilTest(info, is.Cond, errObj)
				if orient == 0 {
					continue
				}
				var okBranch, failBranch ast.Node = is.Body, is.Else
				if orient < 0 {
					okBranch, failBranch = is.Else, is.Body
				}
				// the start variable is what both branches assign: last date + 1 day / the default
				var startThen, startElse types.Object
				ast.Inspect(okBranch, func(n ast.Node) bool {
					as2, ok := n.(*ast.AssignStmt)
					if !ok || len(as2.Lhs) != 1 || len(as2.Rhs) != 1 {
						return true
					}
					l, isID := as2.Lhs[0].(*ast.Ident)
					call, isCall := ast.Unparen(as2.Rhs[0]).(*ast.CallExpr)
					if isID && isCall && calleeName(info, call) == "time.(Time).AddDate" && len(call.Args) == 3 {
						y, _ := constInt(info, call.Args[0])
						m, _ := constInt(info, call.Args[1])
						d, okd := constInt(info, call.Args[2])
						if okd && y == 0 && m == 0 && d == 1 && usesObj(info, call.Fun, lastDateObj) {
							startThen = info.ObjectOf(l)
						}
					}
					return true
				})
				ast.Inspect(failBranch, func(n ast.Node) bool {
					if as2, ok := n.(*ast.AssignStmt); ok && len(as2.Lhs) == 1 && len(as2.Rhs) == 1 {
						if l, ok := as2.Lhs[0].(*ast.Ident); ok {
							if r, ok := as2.Rhs[0].(*ast.Ident); ok {
								if v, ok := info.Uses[r].(*types.Var); ok && (types.Object(v) == defaultObj || (procIf == nil && isParamOf(fi, v))) {
									startElse = info.ObjectOf(l)
								}
							}
						}
					}
					return true
				})
				startOK = startThen != nil && startThen == startElse
				// when LastDate fails the asset is new to the target, whatever the error says: EVERY
				// path of the failure branch takes the default start date, none skips the asset or
				// records a failure (repositories report a missing asset with errors of their own)
				var allDefault func(n ast.Node) bool
				allDefault = func(n ast.Node) bool {
					switch x := n.(type) {
					case *ast.BlockStmt:
						assigned := false
						for _, st := range x.List {
							switch y := st.(type) {
							case *ast.AssignStmt:
								if len(y.Lhs) == 1 && len(y.Rhs) == 1 {
									if l, ok := y.Lhs[0].(*ast.Ident); ok && info.ObjectOf(l) == startElse {
										if r, ok := y.Rhs[0].(*ast.Ident); ok {
											if v, ok := info.Uses[r].(*types.Var); ok && (types.Object(v) == defaultObj || (procIf == nil && isParamOf(fi, v))) {
												assigned = true
											}
										}
									}
								}
							case *ast.IfStmt:
								if y.Else == nil {
									if !assigned && !allDefault(y.Body) {
										return false
									}
									if containsBranchOrReturn(y.Body) {
										return false
									}
								} else if allDefault(y.Body) && allDefault(y.Else) {
									assigned = true
								} else if !assigned {
									return false
								}
							case *ast.BranchStmt, *ast.ReturnStmt:
								return false
							}
						}
						return assigned
					case *ast.IfStmt:
						if x.Else == nil {
							return false
						}
						return allDefault(x.Body) && allDefault(x.Else)
					}
					return false
				}
				if startOK && !allDefault(failBranch) {
					startOK = false
				}
				if startOK {
					startObj = startThen
				}
			}
		}
	}
	run.Oblige(startOK)
	if !startOK {
		c.violate("sync/start-date", site, "start date", loop.Pos(), "the start date is no longer (target's last date + 1 day) when the target has the asset and the default start date otherwise: snapshots are duplicated or skipped")
	}
	// GetSince(name, start) -> Append(name, thatResult)
	var snapsObj types.Object
	flowOK := false
	ast.Inspect(loop.Body, func(n ast.Node) bool {
		as, ok := n.(*ast.AssignStmt)
		if !ok || len(as.Rhs) != 1 {
			return true
		}
		call, ok := as.Rhs[0].(*ast.CallExpr)
		if !ok {
			return true
		}
		name := calleeName(info, call)
		if strings.HasSuffix(name, ".GetSince") && len(call.Args) == 2 && isRecv(call.Fun, sourceObj) {
			if id, ok := call.Args[1].(*ast.Ident); ok && startObj != nil && info.Uses[id] == startObj {
				if l, ok := as.Lhs[0].(*ast.Ident); ok {
					snapsObj = info.Defs[l]
				}
			}
		}
		if strings.HasSuffix(name, ".Append") && len(call.Args) == 2 && isRecv(call.Fun, targetObj) {
			if id, ok := call.Args[1].(*ast.Ident); ok && snapsObj != nil && info.Uses[id] == snapsObj {
				if nid, ok := call.Args[0].(*ast.Ident); ok && info.ObjectOf(nid) == nameObj {
					flowOK = true
				}
			}
		}
		return true
	})
	run.Oblige(flowOK)
	if !flowOK {
		c.violate("sync/flow", site, "GetSince→Append", loop.Pos(), "the snapshots appended to the target are no longer exactly source.GetSince(name, start) for the same asset name")
	}
	// fault isolation
	flag := ""
	nErr := 0
	for si, s := range loop.Body.List {
		is, ok := s.(*ast.IfStmt)
		if !ok || si == 0 {
			continue
		}
		// the failure branch of a source read or a target append: the statement before assigns the
		// error of GetSince/Append and this condition tests that error against nil
		prev, isAs := loop.Body.List[si-1].(*ast.AssignStmt)
		if !isAs || len(prev.Rhs) != 1 {
			continue
		}
		pc, isCall := prev.Rhs[0].(*ast.CallExpr)
		if !isCall {
			continue
		}
		if pn := calleeName(info, pc); !strings.HasSuffix(pn, ".GetSince") && !strings.HasSuffix(pn, ".Append") {
			continue
		}
		var perr types.Object
		if eid, ok := prev.Lhs[len(prev.Lhs)-1].(*ast.Ident); ok {
			perr = info.ObjectOf(eid)
		}
		if nilTest(info, is.Cond, perr) >= 0 || is.Else != nil {
			continue // not of the form `if err != nil { ... }`
		}
		nErr++
		if procIf != nil {
			// the per-asset method reports a failure by returning false; its caller records it
			good := false
			if r, ok := is.Body.List[len(is.Body.List)-1].(*ast.ReturnStmt); ok && len(r.Results) == 1 && exprString(r.Results[0]) == "false" {
				good = true
			}
			run.Oblige(good)
			if !good {
				c.violate("sync/fault-isolation", site, "error branch", is.Pos(), "a failed source read or target append must make the per-asset method report failure (return false)")
			}
			continue
		}
		sets := recordsFailure(is.Body)
		k, _ := endsWithExit(is.Body)
		leaves := false
		ast.Inspect(is.Body, func(n ast.Node) bool {
			switch x := n.(type) {
			case *ast.ReturnStmt:
				leaves = true
			case *ast.BranchStmt:
				if x.Tok == token.BREAK {
					leaves = true
				}
			}
			return true
		})
		good := sets != "" && k == "continue" && !leaves
		run.Oblige(good)
		if sets != "" {
			flag = sets
		}
		if !good {
			c.violate("sync/fault-isolation", site, "error branch", is.Pos(), "an error for one asset must be recorded and the loop must continue with the next asset; this branch "+map[bool]string{true: "leaves the loop", false: "does not record the failure"}[leaves || k != "continue"])
		}
	}
	if procIf != nil {
		// the caller: if !syncAsset(...) { record; continue }, and the method's last statement returns true
		sets := recordsFailure(procIf.Body)
		k, _ := endsWithExit(procIf.Body)
		leaves := false
		ast.Inspect(procIf.Body, func(n ast.Node) bool {
			switch x := n.(type) {
			case *ast.ReturnStmt:
				leaves = true
			case *ast.BranchStmt:
				if x.Tok == token.BREAK {
					leaves = true
				}
			}
			return true
		})
		lastTrue := false
		if r, ok := procBody.List[len(procBody.List)-1].(*ast.ReturnStmt); ok && len(r.Results) == 1 && exprString(r.Results[0]) == "true" {
			lastTrue = true
		}
		good := sets != "" && (k == "continue" || k == "") && !leaves && lastTrue
		run.Oblige(good)
		flag = sets
		if !good {
			c.violate("sync/fault-isolation", site, "error branch", procIf.Pos(), "when the per-asset method reports failure the worker must record it and go on with the next asset")
		}
	}
	_ = loopBody
	run.Count("sync_error_branches", nErr)
	run.Floor("sync_error_branches", 2)
	// wg.Wait() then `if flag { return error }; return nil`
	tail := fi.Decl.Body.List
	waitIdx, retOK := -1, false
	for i, s := range tail {
		if es, ok := s.(*ast.ExprStmt); ok {
			if call, ok := es.X.(*ast.CallExpr); ok && calleeName(info, call) == "sync.(WaitGroup).Wait" {
				waitIdx = i
			}
		}
	}
	if waitIdx >= 0 && flag != "" {
		for _, s := range tail[waitIdx+1:] {
			if is, ok := s.(*ast.IfStmt); ok && strings.HasPrefix(exprString(is.Cond), flag) {
				if r, ok := is.Body.List[len(is.Body.List)-1].(*ast.ReturnStmt); ok && len(r.Results) == 1 && exprString(r.Results[0]) != "nil" {
					retOK = true
				}
			}
		}
		// nothing returns before the wait once the workers are started
		for _, s := range tail[:waitIdx] {
			if s.Pos() > worker.End() {
				ast.Inspect(s, func(n ast.Node) bool {
					if _, ok := n.(*ast.ReturnStmt); ok {
						retOK = false
					}
					return true
				})
			}
		}
	}
	run.Oblige(waitIdx >= 0 && retOK)
	if !(waitIdx >= 0 && retOK) {
		c.violate("sync/report", site, "wait and report", fi.Decl.Pos(), "Run must wait for all workers and then return an error exactly when a failure was recorded")
	}
	// races
	n := c.sharedWritesAtGo(fi, "sync")
	run.Count("worker_go_sites", n)
	run.Floor("worker_go_sites", 1)
	c.lockConsistency("asset", "InMemoryRepository", []string{"storage"}, "sync")
}

func isParamOf(fi *load.FuncInfo, v *types.Var) bool {
	sig := fi.Fn.Type().(*types.Signature)
	for i := 0; i < sig.Params().Len(); i++ {
		if sig.Params().At(i) == v {
			return true
		}
	}
	return false
}

// ---------------------------------------------------------------------------
// C13 – Backtest.

func CheckC13(c *Ctx) {
	run := c.Run
	run.Technique = "typed-AST protocol/typestate lints on Backtest.Run and Backtest.worker (Begin → per asset: AssetBegin → one Write per strategy → AssetEnd → End after Wait) + SSA shared-write analysis rooted at `go b.worker` + lock-consistency lints on both report implementations + comparator totality lint"
	run.Explanation = "Equality of the reported numbers with a direct evaluation is NOT decided. Decided structurally: Begin is called before any worker starts and End after wg.Wait(); in the worker, for every asset, AssetBegin precedes the strategy loop and AssetEnd follows it; each iteration of the strategy loop calls report.Write exactly once, with the outputs of strategy.ComputeWithOutcome for that strategy on a fresh SliceToChan of that asset's snapshots (no iteration can skip it), and ComputeWithOutcome hands back the strategy's own action stream, untransformed, with Outcome(closings of the same snapshots, those actions); all assets flow through one channel shared by the workers, and the loop over that channel is left only when it is exhausted (no return, break, goto, panic or process exit in its body: an asset that cannot be loaded is skipped, it does not stop the worker). The SSA shared-write analysis shows that nothing reachable from `go b.worker` (including both bundled Report implementations, resolved through the interface by CHA) writes shared memory without holding a mutex, and in both report types every access to the shared maps/slices happens under the mutex. Functions passed to slices.SortFunc / sort.Slice must be total orders on the compared field: no conversion of a floating-point difference to int (results closer than 1 would compare equal, so the entry presented as best need not be maximal). No run crashes: every slice index in package backtest is the key of a range over that slice, a constant below the constant element count of helper.Duplicate, or protected by a length check; the rule is exercised on a built-in positive example on every run. Further: the worker hands Write the two results of one ComputeWithOutcome call as they are, for the strategy written, on two different branches of one Duplicate (for exactly two consumers) of a fresh SliceToChan; the snapshots come from LastDays days before now; nothing leaves the iteration between AssetBegin and AssetEnd; defaults replace the configured names/strategies only when none were configured; the workers' loop runs at least once for Workers >= 1; every field of the result both reports record is the specified SSA term over Write's parameters (last outcome, times 100 in the HTML report; last action; transactions over all actions); ordering functions put the larger outcome first on all three orderings and the entry picked after a sort is the first; what a report appends to starts empty in Begin/AssetBegin; length guards before constant indices are decided, also when they stand in the callers of a helper. The begin notification carries the resolved lists: no assignment to the receiver's Names/Strategies is reachable from the Begin call in Run (go/cfg). Every exit of HTMLReport.AssetEnd (or of the one unexported helper holding the lookup) releases the asset's entry, except the not-found exit (go/cfg), so a later run on the same report can begin the asset again."
	run.Trusted = []string{"go/types", "go/ssa + CHA", "sync.Mutex semantics"}
	runFi := c.fn("backtest", "Backtest", "Run")
	// what a worker writes is what ComputeWithOutcome hands back: the strategy's own actions and
	// Outcome(closings, those actions)
	c.computeWithOutcomeWiring("backtest/direct-evaluation")
	c.workersPositive("cmd/indicator-backtest", "backtest/command")
	c.factoryPurity("backtest", "NewReport", "backtest/factory")
	wFi := c.P.Method("backtest", "Backtest", "worker")
	if wFi == nil {
		wFi = c.goMethod(runFi) // the method Run starts with `go`, whatever it is called now
	}
	if wFi == nil {
		c.Run.Break("anchor missing: the worker method started by backtest.(Backtest).Run")
	}
	if runFi == nil || wFi == nil {
		return
	}
	info := runFi.Pkg.TypesInfo
	site := "backtest.(*Backtest)"
	// Run: Begin < go worker < Wait < End
	pos := map[string]token.Pos{}
	ast.Inspect(runFi.Decl.Body, func(n ast.Node) bool {
		switch x := n.(type) {
		case *ast.CallExpr:
			name := calleeName(info, x)
			switch {
			case strings.HasSuffix(name, "(Report).Begin"):
				pos["Begin"] = x.Pos()
			case strings.HasSuffix(name, "(Report).End"):
				pos["End"] = x.Pos()
			case name == "sync.(WaitGroup).Wait":
				pos["Wait"] = x.Pos()
			default:
				// an unexported helper of the package that issues the notification itself
				if f := callee(info, x); f != nil && !ast.IsExported(f.Name()) {
					if h := c.P.Info(f); h != nil && h.Pkg == runFi.Pkg && h.Decl.Body != nil && h.Fn != wFi.Fn {
						ast.Inspect(h.Decl.Body, func(m ast.Node) bool {
							if hc, ok := m.(*ast.CallExpr); ok {
								hn := calleeName(info, hc)
								switch {
								case strings.HasSuffix(hn, "(Report).Begin"):
									pos["Begin"] = x.Pos()
								case strings.HasSuffix(hn, "(Report).End"):
									pos["End"] = x.Pos()
								}
							}
							return true
						})
					}
				}
			}
		case *ast.GoStmt:
			if fn := callee(info, x.Call); fn != nil && fn.Origin() == wFi.Fn.Origin() {
				pos["go"] = x.Pos()
			}
		}
		return true
	})
	orderOK := pos["Begin"].IsValid() && pos["go"].IsValid() && pos["Wait"].IsValid() && pos["End"].IsValid() &&
		pos["Begin"] < pos["go"] && pos["go"] < pos["Wait"] && pos["Wait"] < pos["End"]
	run.Oblige(orderOK)
	if !orderOK {
		c.violate("backtest/protocol", site+".Run", "Begin<workers<Wait<End", runFi.Decl.Pos(), "Run no longer calls report.Begin before starting the workers and report.End after waiting for all of them")
	}
	// one stream of asset names, created before the workers start and shared by all of them: a
	// stream made inside the loop gives every worker the whole list
	{
		var goStmt *ast.GoStmt
		var loopOfGo ast.Node
		var stack []ast.Node
		ast.Inspect(runFi.Decl.Body, func(n ast.Node) bool {
			if n == nil {
				stack = stack[:len(stack)-1]
				return true
			}
			stack = append(stack, n)
			if g, ok := n.(*ast.GoStmt); ok {
				if fn := callee(info, g.Call); fn != nil && fn.Origin() == wFi.Fn.Origin() {
					goStmt = g
					for i := len(stack) - 1; i >= 0; i-- {
						switch stack[i].(type) {
						case *ast.ForStmt, *ast.RangeStmt:
							if loopOfGo == nil {
								loopOfGo = stack[i]
							}
						}
					}
				}
			}
			return true
		})
		jobsOK := false
		why := "the worker is not started with a channel variable"
		if goStmt != nil {
			for _, a := range goStmt.Call.Args {
				t := info.TypeOf(a)
				if t == nil {
					continue
				}
				if _, isChan := t.Underlying().(*types.Chan); !isChan {
					continue
				}
				id, isID := ast.Unparen(a).(*ast.Ident)
				if !isID {
					why = "the channel of asset names is created in the go statement itself (" + short(exprString(a), 50) + "): every worker gets a stream of its own with all the names"
					continue
				}
				obj := info.ObjectOf(id)
				def, single := singleDefs(info, runFi.Decl.Body)[obj]
				switch {
				case !single:
					why = "the channel variable " + id.Name + " is assigned more than once"
				case loopOfGo != nil && obj.Pos() >= loopOfGo.Pos() && obj.Pos() < loopOfGo.End():
					why = "the channel " + id.Name + " is created inside the loop that starts the workers: every worker gets a stream of its own with all the names"
				default:
					if call, ok := ast.Unparen(def).(*ast.CallExpr); ok && strings.HasSuffix(calleeName(info, call), "helper.SliceToChan") {
						jobsOK = true
					} else {
						why = "the channel " + id.Name + " is not helper.SliceToChan of the asset names"
					}
				}
			}
		}
		run.Oblige(jobsOK)
		if !jobsOK {
			c.violate("backtest/jobs", site+".Run", "job channel", runFi.Decl.Pos(), "the workers must share one stream of asset names created before they start: "+why+" (each asset would be backtested once per worker)")
		}
	}
	// worker
	var assetLoop *ast.RangeStmt
	for _, s := range wFi.Decl.Body.List {
		if r, ok := s.(*ast.RangeStmt); ok {
			assetLoop = r
		}
	}
	if assetLoop == nil {
		c.violate("backtest/protocol", site+".worker", "asset loop", wFi.Decl.Pos(), "the worker no longer ranges over the shared channel of asset names (undecided, fails closed)")
		return
	}
	// the per-asset work may live in unexported methods of Backtest: analyse the loop as if their
	// bodies stood in it
	assetBody := &ast.BlockStmt{Lbrace: assetLoop.Body.Lbrace, Rbrace: assetLoop.Body.Rbrace, List: c.flattenCalls(info, assetLoop.Body.List, 3)}
	// one asset that cannot be processed does not end the worker: the loop over the shared channel
	// is left only when the channel is exhausted
	drains := true
	var leave func(n ast.Node, inner bool)
	leave = func(n ast.Node, inner bool) {
		ast.Inspect(n, func(m ast.Node) bool {
			switch x := m.(type) {
			case *ast.FuncLit:
				return false
			case *ast.ForStmt, *ast.RangeStmt, *ast.SwitchStmt, *ast.TypeSwitchStmt, *ast.SelectStmt:
				if m != n {
					leave(m, true)
					return false
				}
			case *ast.ReturnStmt:
				drains = false
				c.violate("backtest/drain", site+".worker", "return in asset loop", x.Pos(), "the worker stops at this asset: the assets still queued are backtested by nobody once every worker has stopped, and Run still reports success")
			case *ast.BranchStmt:
				if x.Tok == token.GOTO || (x.Tok == token.BREAK && (!inner || x.Label != nil)) {
					drains = false
					c.violate("backtest/drain", site+".worker", "break in asset loop", x.Pos(), "the worker stops at this asset: the assets still queued are backtested by nobody once every worker has stopped, and Run still reports success")
				}
			case *ast.CallExpr:
				if id, ok := x.Fun.(*ast.Ident); ok && id.Name == "panic" && info.Uses[id] == types.Universe.Lookup("panic") {
					drains = false
					c.violate("backtest/drain", site+".worker", "panic in asset loop", x.Pos(), "a panic on a worker goroutine ends the whole run")
				}
				if nm := calleeName(info, x); nm == "os.Exit" || strings.HasPrefix(nm, "log.Fatal") || strings.HasPrefix(nm, "log.Panic") || nm == "runtime.Goexit" {
					drains = false
					c.violate("backtest/drain", site+".worker", nm+" in asset loop", x.Pos(), "the worker (or the process) stops at this asset")
				}
			}
			return true
		})
	}
	leave(assetBody, false)
	run.Oblige(drains)
	var stratLoop *ast.RangeStmt
	idx := map[string]int{}
	for i, s := range assetBody.List {
		switch x := s.(type) {
		case *ast.RangeStmt:
			stratLoop = x
			idx["loop"] = i
		default:
			ast.Inspect(x, func(n ast.Node) bool {
				if call, ok := n.(*ast.CallExpr); ok {
					name := calleeName(info, call)
					if strings.HasSuffix(name, "(Report).AssetBegin") {
						idx["AssetBegin"] = i
					}
					if strings.HasSuffix(name, "(Report).AssetEnd") {
						idx["AssetEnd"] = i
					}
				}
				return true
			})
		}
	}
	_, hb := idx["AssetBegin"]
	_, he := idx["AssetEnd"]
	protoOK := stratLoop != nil && hb && he && idx["AssetBegin"] < idx["loop"] && idx["loop"] < idx["AssetEnd"]
	run.Oblige(protoOK)
	if !protoOK {
		c.violate("backtest/protocol", site+".worker", "AssetBegin<strategies<AssetEnd", assetLoop.Pos(), "per asset the worker must call AssetBegin, then write every strategy, then AssetEnd")
		return
	}
	// once AssetBegin has succeeded the asset is ended: between AssetBegin's own error branch and
	// the strategy loop nothing leaves the iteration (an asset that was begun and never ended stays
	// "begun" in the report: a later run cannot begin it again)
	// ... and an asset whose AssetBegin failed is not written: the statement after AssetBegin is
	// its error branch and leaves the iteration
	{
		handled := false
		if rest := assetBody.List[idx["AssetBegin"]+1 : idx["loop"]]; len(rest) > 0 {
			if is, isIf := rest[0].(*ast.IfStmt); isIf && is.Else == nil {
				if kind, exits := endsWithExit(is.Body); exits && kind == "continue" {
					handled = true
				}
			}
		}
		run.Oblige(handled)
		if !handled {
			c.violate("backtest/protocol", site+".worker", "AssetBegin failure not left", assetBody.List[idx["AssetBegin"]].Pos(), "when AssetBegin fails the worker goes on and writes the strategies of an asset that was not begun (the error branch right after AssetBegin must leave the iteration)")
		}
	}
	for k, s := range assetBody.List[idx["AssetBegin"]+1 : idx["loop"]] {
		if k == 0 {
			if _, isIf := s.(*ast.IfStmt); isIf {
				continue // the error branch of AssetBegin itself
			}
		}
		ast.Inspect(s, func(n ast.Node) bool {
			switch x := n.(type) {
			case *ast.FuncLit:
				return false
			case *ast.BranchStmt:
				if x.Tok == token.CONTINUE || x.Tok == token.BREAK {
					c.violate("backtest/protocol", site+".worker", "AssetEnd skipped after AssetBegin", x.Pos(), "the iteration can be left after AssetBegin succeeded and before AssetEnd: the asset is begun but never ended")
				}
			case *ast.ReturnStmt:
				c.violate("backtest/protocol", site+".worker", "AssetEnd skipped after AssetBegin", x.Pos(), "the worker can return after AssetBegin succeeded and before AssetEnd: the asset is begun but never ended")
			}
			return true
		})
	}
	// nothing between the strategy loop and AssetEnd can skip AssetEnd
	for _, s := range assetBody.List[idx["loop"]+1 : idx["AssetEnd"]] {
		ast.Inspect(s, func(n ast.Node) bool {
			if b, ok := n.(*ast.BranchStmt); ok && (b.Tok == token.CONTINUE || b.Tok == token.BREAK) {
				c.violate("backtest/protocol", site+".worker", "AssetEnd skipped", b.Pos(), "AssetEnd can be skipped after the strategies of an asset were written")
			}
			return true
		})
	}
	// strategy loop: exactly one Write per iteration, fed by ComputeWithOutcome of the loop's strategy on a fresh SliceToChan
	writes, cwo, fresh := 0, false, false
	skippable := false
	var stratObj types.Object
	if id, ok := stratLoop.Value.(*ast.Ident); ok {
		stratObj = info.Defs[id]
	}
	// the per-strategy work may live in an unexported method: its body is analysed as if it stood in
	// the loop, its parameter that receives the loop's strategy standing for it
	stratBody := stratLoop.Body.List
	for _, s := range stratLoop.Body.List {
		es, isES := s.(*ast.ExprStmt)
		if !isES {
			continue
		}
		call, isCall := es.X.(*ast.CallExpr)
		if !isCall {
			continue
		}
		fn := callee(info, call)
		if fn == nil || fn.Exported() {
			continue
		}
		d := c.P.Decls[fn.Origin()]
		if d == nil || d.Decl.Body == nil || d.Pkg.TypesInfo != info {
			continue
		}
		i := 0
		for _, f := range d.Decl.Type.Params.List {
			for _, nm := range f.Names {
				if i < len(call.Args) {
					if aid, isID := ast.Unparen(call.Args[i]).(*ast.Ident); isID && stratObj != nil && info.ObjectOf(aid) == stratObj {
						stratObj = info.ObjectOf(nm)
					}
				}
				i++
			}
		}
		stratBody = c.flattenCalls(info, stratLoop.Body.List, 1)
	}
	for _, s := range stratBody {
		ast.Inspect(s, func(n ast.Node) bool {
			switch x := n.(type) {
			case *ast.CallExpr:
				name := calleeName(info, x)
				if strings.HasSuffix(name, "(Report).Write") {
					writes++
					if len(x.Args) >= 2 && stratObj != nil && usesObj(info, x.Args[1], stratObj) {
						// same strategy as the one computed
					} else {
						skippable = true
					}
				}
				if strings.HasSuffix(name, "strategy.ComputeWithOutcome") && len(x.Args) == 2 && stratObj != nil && usesObj(info, x.Args[0], stratObj) {
					cwo = true
				}
				if strings.HasSuffix(name, "helper.SliceToChan") {
					fresh = true
				}
			case *ast.BranchStmt:
				if x.Tok == token.CONTINUE || x.Tok == token.BREAK {
					skippable = true
				}
			case *ast.ReturnStmt:
				skippable = true
			}
			return true
		})
	}
	// the Write must not sit inside a conditional
	for _, s := range stratBody {
		if is, ok := s.(*ast.IfStmt); ok {
			ast.Inspect(is, func(n ast.Node) bool {
				if call, ok := n.(*ast.CallExpr); ok && strings.HasSuffix(calleeName(info, call), "(Report).Write") {
					skippable = true
				}
				return true
			})
		}
	}
	wOK := writes == 1 && cwo && fresh && !skippable
	run.Oblige(wOK)
	if !wOK {
		c.violate("backtest/write-once", site+".worker", fmt.Sprintf("writes=%d", writes), stratLoop.Pos(), "every (asset, strategy) pair must be written exactly once with the outputs of ComputeWithOutcome of that strategy on a fresh copy of the asset's snapshots")
	}
	c.errorOrientation("backtest/error-orientation", "backtest")
	c.errorTestedFirst("backtest/error-tested", 10, "backtest")
	c.errorsLookedAt("backtest/error-dropped", map[string]string{}, "backtest")
	c.errorFallThrough("backtest/error-fallthrough", "backtest")
	c.lockPairing("backtest/lock", "backtest")
	run.Floor("lock_sites", 5)
	c.workerLoop("backtest/jobs", site+".Run", info, runFi.Decl)
	c.defaultWhenEmpty("backtest/protocol", site+".Run", info, runFi.Decl, "Strategies")
	c.defaultWhenEmpty("backtest/protocol", site+".Run", info, runFi.Decl, "Names")
	c.writeArguments(wFi, site)
	c.writeConsumes()
	c.resultFields()
	c.checkStepSpecs([]stepSpec{countTransactionsSpec})
	// races
	n := c.sharedWritesAtGo(runFi, "backtest")
	run.Count("worker_go_sites", n)
	run.Floor("worker_go_sites", 1)
	c.lockConsistency("backtest", "DataReport", []string{"Results"}, "backtest")
	c.lockConsistency("backtest", "HTMLReport", []string{"assetResults", "bestResults"}, "backtest")
	c.comparators()
	c.sliceBounds()
}

// comparators: functions passed to sorting routines must not order floats through int(difference).
// sortedIsUsed: what is sorted is what is presented. A sort applied to a local copy that nothing
// reads afterwards leaves the ranking that is written in the order the results arrived.
func (c *Ctx) sortedIsUsed() {
	run := c.Run
	n := 0
	for _, pk := range c.P.Pkgs {
		info := pk.TypesInfo
		for _, f := range pk.Syntax {
			if strings.HasSuffix(c.P.Fset.Position(f.Pos()).Filename, "_test.go") {
				continue
			}
			for _, d := range f.Decls {
				fd, ok := d.(*ast.FuncDecl)
				if !ok || fd.Body == nil {
					continue
				}
				ast.Inspect(fd.Body, func(nd ast.Node) bool {
					call, ok := nd.(*ast.CallExpr)
					if !ok || len(call.Args) == 0 {
						return true
					}
					name := calleeName(info, call)
					if !(strings.HasPrefix(name, "slices.Sort") || strings.HasPrefix(name, "sort.Slice") || name == "sort.Sort" || name == "sort.Stable") {
						return true
					}
					id, isLocal := ast.Unparen(call.Args[0]).(*ast.Ident)
					if !isLocal {
						return true // a field or an element of shared state: read by whoever reads the state
					}
					obj := info.ObjectOf(id)
					if v, ok := obj.(*types.Var); !ok || v.Parent() == v.Pkg().Scope() {
						return true
					}
					n++
					// a parameter is the caller's slice: sorted in place for the caller
					isParam := false
					for _, fl := range fd.Type.Params.List {
						for _, nm := range fl.Names {
							if info.ObjectOf(nm) == obj {
								isParam = true
							}
						}
					}
					used := isParam
					ast.Inspect(fd.Body, func(m ast.Node) bool {
						if u, ok := m.(*ast.Ident); ok && u.Pos() > call.End() && info.Uses[u] == obj {
							used = true
						}
						return !used
					})
					// or the local aliases shared state it was assigned from without copying (x := h.field)
					if !used {
						if def, ok := singleDefs(info, fd.Body)[obj]; ok {
							if _, isSel := ast.Unparen(def).(*ast.SelectorExpr); isSel {
								used = true
							}
						}
					}
					run.Oblige(used)
					if !used {
						c.violate("backtest/ranking", load.RelPkg(pk.PkgPath)+"."+fd.Name.Name, "sorted "+id.Name+" unused", call.Pos(), "the slice "+id.Name+" is sorted here and never read afterwards: what is written or returned is another slice, in the order its elements arrived")
					}
					return true
				})
			}
		}
	}
	run.Count("sorted_locals", n)
}

func (c *Ctx) comparators() {
	run := c.Run
	c.sortedIsUsed()
	c.beginAnnouncesResolved()
	c.assetEntryReleased()
	n := 0
	for _, pk := range c.P.Pkgs {
		info := pk.TypesInfo
		for _, f := range pk.Syntax {
			if strings.HasSuffix(c.P.Fset.Position(f.Pos()).Filename, "_test.go") {
				continue
			}
			ast.Inspect(f, func(nd ast.Node) bool {
				call, ok := nd.(*ast.CallExpr)
				if !ok {
					return true
				}
				name := calleeName(info, call)
				if !(strings.HasPrefix(name, "slices.Sort") || strings.HasPrefix(name, "sort.Slice") || strings.HasPrefix(name, "slices.BinarySearchFunc") || strings.HasPrefix(name, "slices.MaxFunc") || strings.HasPrefix(name, "slices.MinFunc")) {
					return true
				}
				for _, a := range call.Args {
					var body *ast.BlockStmt
					binfo := info
					switch x := a.(type) {
					case *ast.FuncLit:
						body = x.Body
					case *ast.Ident, *ast.SelectorExpr:
						// a declared function (or method value) used as the ordering function
						var fn *types.Func
						if id, isID := x.(*ast.Ident); isID {
							fn, _ = info.Uses[id].(*types.Func)
						} else if fn2, isFn := info.Uses[x.(*ast.SelectorExpr).Sel].(*types.Func); isFn {
							fn = fn2
						}
						if fn != nil {
							if dfi := c.P.Decls[fn.Origin()]; dfi != nil && dfi.Decl.Body != nil {
								body = dfi.Decl.Body
								binfo = dfi.Pkg.TypesInfo
							}
						}
					}
					if body == nil {
						continue
					}
					info := binfo
					n++
					bad := false
					var bp token.Pos
					ast.Inspect(body, func(m ast.Node) bool {
						conv, ok := m.(*ast.CallExpr)
						if !ok || len(conv.Args) != 1 {
							return true
						}
						tv, ok := info.Types[conv.Fun]
						if !ok || !tv.IsType() {
							return true
						}
						if b, ok := tv.Type.Underlying().(*types.Basic); !ok || b.Info()&types.IsInteger == 0 {
							return true
						}
						at := info.TypeOf(conv.Args[0])
						if at == nil {
							return true
						}
						if b, ok := at.Underlying().(*types.Basic); ok && b.Info()&types.IsFloat != 0 {
							bad = true
							bp = conv.Pos()
						}
						return true
					})
					run.Oblige(!bad)
					if bad {
						c.violate("backtest/comparator", load.RelPkg(pk.PkgPath), "int(float difference)", bp,
							"the ordering function converts a floating-point difference to int: values closer than 1 compare equal (and large differences overflow), so the sorted order is not by outcome and the first entry need not be the best")
					}
				}
				return true
			})
		}
	}
	run.Count("comparators", n)
	run.Floor("comparators", 1)
	c.rankingOrder()
	c.accumulatorsReset()
}

// accumulatorsReset: what a report accumulates during a run starts empty in every run. For every
// implementation of backtest.Report, a slice field the methods append to (x.F = append(x.F, ..))
// is given a fresh empty slice by Begin, and a map element they append to (x.F[k] = append(x.F[k],
// ..)) is given one by AssetBegin. A second run on the same report object otherwise ranks this
// run's results together with the previous run's: an asset is listed once per run so far.
func (c *Ctx) accumulatorsReset() {
	run := c.Run
	bp := c.P.Pkg("backtest")
	if bp == nil {
		return
	}
	info := bp.TypesInfo
	n := 0
	for _, nm := range c.implementers("backtest", "Report") {
		if nm.Obj().Pkg() != bp.Types {
			continue
		}
		type acc struct {
			field   string
			element bool
			pos     token.Pos
		}
		var accs []acc
		seen := map[string]bool{}
		var methods []*load.FuncInfo
		for _, fi := range c.P.Decls {
			if fi.Pkg == bp && fi.Decl.Recv != nil && fi.Decl.Body != nil && recvTypeName(fi) == nm.Obj().Name() {
				methods = append(methods, fi)
			}
		}
		for _, fi := range methods {
			ast.Inspect(fi.Decl.Body, func(nd ast.Node) bool {
				as, ok := nd.(*ast.AssignStmt)
				if !ok || len(as.Lhs) != 1 || len(as.Rhs) != 1 {
					return true
				}
				call, isCall := as.Rhs[0].(*ast.CallExpr)
				if !isCall || len(call.Args) < 2 {
					return true
				}
				if id, isID := call.Fun.(*ast.Ident); !isID || id.Name != "append" {
					return true
				}
				if _, isB := info.Uses[call.Fun.(*ast.Ident)].(*types.Builtin); !isB {
					return true
				}
				if exprString(as.Lhs[0]) != exprString(call.Args[0]) {
					// or a local read from the same place: results, ok := x.F[k]; x.F[k] = append(results, ..)
					same := false
					if id, isID := call.Args[0].(*ast.Ident); isID {
						obj := info.ObjectOf(id)
						ast.Inspect(fi.Decl.Body, func(q ast.Node) bool {
							if d, isAs := q.(*ast.AssignStmt); isAs && len(d.Rhs) == 1 && len(d.Lhs) >= 1 {
								if lid, isL := d.Lhs[0].(*ast.Ident); isL && info.ObjectOf(lid) == obj && exprString(d.Rhs[0]) == exprString(as.Lhs[0]) {
									same = true
								}
							}
							return true
						})
					}
					if !same {
						return true
					}
				}
				l := ast.Unparen(as.Lhs[0])
				element := false
				if ix, isIx := l.(*ast.IndexExpr); isIx {
					if _, isMap := info.TypeOf(ix.X).Underlying().(*types.Map); isMap {
						element = true
						l = ast.Unparen(ix.X)
					}
				}
				sel, isSel := l.(*ast.SelectorExpr)
				if !isSel {
					return true
				}
				if v, isField := info.ObjectOf(sel.Sel).(*types.Var); !isField || !v.IsField() {
					return true
				}
				key := fmt.Sprint(sel.Sel.Name, element)
				if !seen[key] {
					seen[key] = true
					accs = append(accs, acc{sel.Sel.Name, element, as.Pos()})
				}
				return true
			})
		}
		for _, a := range accs {
			n++
			where := "Begin"
			if a.element {
				where = "AssetBegin"
			}
			site := "backtest.(" + nm.Obj().Name() + ")." + where
			fi := c.methodDecl(nm, where)
			good := false
			if fi != nil {
				for _, body := range c.familyBodies(fi) {
					ast.Inspect(body, func(nd ast.Node) bool {
						as, ok := nd.(*ast.AssignStmt)
						if !ok || len(as.Lhs) != len(as.Rhs) {
							return true
						}
						for i, l := range as.Lhs {
							l = ast.Unparen(l)
							if a.element {
								ix, isIx := l.(*ast.IndexExpr)
								if !isIx {
									continue
								}
								l = ast.Unparen(ix.X)
							}
							sel, isSel := l.(*ast.SelectorExpr)
							if !isSel || sel.Sel.Name != a.field {
								continue
							}
							rhs := ast.Unparen(as.Rhs[i])
							if id, isID := rhs.(*ast.Ident); isID {
								if d, single := singleDefs(info, body)[info.ObjectOf(id)]; single {
									rhs = ast.Unparen(d)
								}
							}
							if emptySliceExpr(info, rhs) {
								good = true
							}
						}
						return true
					})
				}
			}
			run.Oblige(good)
			if !good {
				what := nm.Obj().Name() + "." + a.field
				if a.element {
					what += "[asset]"
				}
				pos := a.pos
				if fi != nil {
					pos = fi.Decl.Pos()
				}
				c.violate("backtest/reset", site, a.field, pos, what+" is appended to during a run but "+where+" does not start it as a fresh empty slice: a second run on the same report keeps the previous run's results, and the rankings list them again")
			}
		}
	}
	run.Count("report_accumulators", n)
	run.Floor("report_accumulators", 3)
}

// rankingOrder: "the rankings list results in non-increasing outcome order, so the entry presented
// as best has the maximal outcome". Every ordering function handed to a sort in package backtest
// is evaluated, as a decision table, on the three orderings of the outcomes of its two arguments:
// it must put the larger outcome first (positive when a < b, zero when equal, negative when
// a > b) and read nothing but the outcome. After the sort, the sorted slice is indexed only by 0
// or by a range key (the entry presented as best is the first).
func (c *Ctx) rankingOrder() {
	run := c.Run
	bp := c.P.Pkg("backtest")
	if bp == nil {
		return
	}
	info := bp.TypesInfo
	sites, methods := 0, 0
	isSort := func(call *ast.CallExpr) bool {
		name := calleeName(info, call)
		return strings.HasPrefix(name, "slices.SortFunc") || strings.HasPrefix(name, "slices.SortStableFunc") || strings.HasPrefix(name, "sort.Slice")
	}
	// after a sort the sorted slice is indexed by 0 or a range key only
	picks := func(fd *ast.FuncDecl, site string, call *ast.CallExpr, sorted string) {
		var stack []ast.Node
		ast.Inspect(fd.Body, func(q ast.Node) bool {
			if q == nil {
				stack = stack[:len(stack)-1]
				return true
			}
			stack = append(stack, q)
			if _, isLit := q.(*ast.FuncLit); isLit && q.Pos() < call.Pos() {
				stack = stack[:len(stack)-1]
				return false // evaluated when it is called
			}
			ix, isIx := q.(*ast.IndexExpr)
			if !isIx || exprString(ix.X) != sorted {
				return true
			}
			if ix.Pos() < call.End() {
				// an entry taken by a constant position before the slice was sorted (the arguments
				// of a defer statement are evaluated where the statement stands)
				if ix.Pos() < call.Pos() {
					if _, isC := constInt(info, ix.Index); isC {
						run.Oblige(false)
						c.violate("backtest/ranking", site, "early pick "+exprString(ix), ix.Pos(), "the entry "+exprString(ix)+" is taken before "+sorted+" is sorted: it is whichever result was written first, not the one with the maximal outcome")
					}
				}
				return true
			}
			for _, p := range stack {
				if rs, isR := p.(*ast.RangeStmt); isR && exprString(rs.X) == sorted {
					if k, ok := rs.Key.(*ast.Ident); ok {
						if id, ok := ix.Index.(*ast.Ident); ok && info.ObjectOf(id) == info.ObjectOf(k) {
							return true
						}
					}
				}
			}
			v, isC := constInt(info, ix.Index)
			good := isC && v == 0
			run.Oblige(good)
			if !good {
				c.violate("backtest/ranking", site, "pick "+exprString(ix), ix.Pos(), "after the sort the entry taken from the ranking is "+exprString(ix)+", not the first: the entry presented as best must have the maximal outcome")
			}
			return true
		})
	}
	for _, fi := range c.P.Decls {
		if fi.Pkg != bp || fi.Decl.Body == nil || strings.HasSuffix(c.P.Fset.Position(fi.Decl.Pos()).Filename, "_test.go") {
			continue
		}
		// the exported entry points that rank (the sort may sit in an unexported helper)
		if fi.Fn.Exported() {
			ranks := false
			for _, body := range c.familyBodies(fi) {
				ast.Inspect(body, func(n ast.Node) bool {
					if call, ok := n.(*ast.CallExpr); ok && isSort(call) {
						ranks = true
					}
					return !ranks
				})
			}
			if ranks {
				methods++
			}
		}
		fd := fi.Decl
		site := "backtest." + fd.Name.Name
		ast.Inspect(fd.Body, func(n ast.Node) bool {
			call, ok := n.(*ast.CallExpr)
			if ok && len(call.Args) == 2 {
				// the best entry chosen by slices.MaxFunc / MinFunc: the ordering function decides
				// which end of the order "max" is. MaxFunc needs an ascending one (negative when a's
				// outcome is below b's), MinFunc a descending one; with the ranking's own descending
				// function MaxFunc hands back the WORST result.
				name := calleeName(info, call)
				isMax, isMin := strings.HasPrefix(name, "slices.MaxFunc"), strings.HasPrefix(name, "slices.MinFunc")
				if isMax || isMin {
					sites++
					signs, why := c.orderingSigns(info, bp, call.Args[1])
					if why == "" {
						want := [3]int{-1, 0, 1}
						which := "slices.MaxFunc"
						if isMin {
							want = [3]int{1, 0, -1}
							which = "slices.MinFunc"
						}
						if signs != want {
							why = fmt.Sprintf("%s with an ordering function of signs %v on (below, equal, above) selects the result with the minimal outcome, not the best", which, signs)
						}
					}
					run.Oblige(why == "")
					if why != "" {
						c.violate("backtest/ranking", site, "selection by "+short(exprString(call.Fun), 20), call.Pos(), why)
					}
					return true
				}
			}
			if ok && !isSort(call) {
				// a helper of the package that sorts the slice handed to it
				if fn := callee(info, call); fn != nil {
					if d := c.P.Decls[fn.Origin()]; d != nil && d.Pkg == bp && d.Decl.Body != nil {
						idx := 0
						for _, f := range d.Decl.Type.Params.List {
							for _, nm := range f.Names {
								pobj := info.ObjectOf(nm)
								sortsParam := false
								ast.Inspect(d.Decl.Body, func(q ast.Node) bool {
									if sc, isC := q.(*ast.CallExpr); isC && isSort(sc) && len(sc.Args) >= 1 {
										if id, isID := sc.Args[0].(*ast.Ident); isID && info.ObjectOf(id) == pobj {
											sortsParam = true
										}
									}
									return !sortsParam
								})
								if sortsParam && idx < len(call.Args) {
									picks(fd, site, call, exprString(call.Args[idx]))
								}
								idx++
							}
						}
					}
				}
				return true
			}
			if !ok || len(call.Args) != 2 {
				return true
			}
			if strings.HasPrefix(calleeName(info, call), "sort.Slice") {
				// an index-based less function: not the form the bundled code uses; undecided
				run.Oblige(false)
				c.violate("backtest/ranking", site, "sort.Slice", call.Pos(), "the ranking is sorted through an index-based less function: the order is undecided (fails closed)")
				return true
			}
			sites++
			var m *dtab.Machine
			switch x := ast.Unparen(call.Args[1]).(type) {
			case *ast.FuncLit:
				m = dtab.FromFuncLit(info, x)
			case *ast.Ident:
				if fn, isFn := info.Uses[x].(*types.Func); isFn {
					if d := c.P.Decls[fn.Origin()]; d != nil && d.Decl.Body != nil && d.Pkg == bp {
						m = dtab.FromFuncDecl(info, d.Decl)
					}
				}
			}
			why := ""
			switch {
			case m == nil:
				why = "the ordering function is not a function literal or a function of the package (undecided, fails closed)"
			case len(m.Unsupported) > 0 || len(m.State) > 0 || len(m.Params) != 2:
				why = "the ordering function is not a loop-free, effect-free function of its two arguments (undecided, fails closed)"
			}
			if why == "" {
				a, b := m.Params[0], m.Params[1]
				fa, fb := "", ""
				for _, r := range m.Reads {
					switch {
					case strings.HasPrefix(r, a+"."):
						if fa != "" && fa != r[len(a)+1:] {
							why = "the ordering function reads more than one field of its arguments"
						}
						fa = r[len(a)+1:]
					case strings.HasPrefix(r, b+"."):
						if fb != "" && fb != r[len(b)+1:] {
							why = "the ordering function reads more than one field of its arguments"
						}
						fb = r[len(b)+1:]
					default:
						why = "the ordering function depends on " + r + ", not only on the two results compared"
					}
				}
				if why == "" && (fa != fb || fa != "Outcome") {
					why = fmt.Sprintf("the ordering function compares %s.%s with %s.%s: the rankings are by outcome", a, fa, b, fb)
				}
				if why == "" {
					for _, tc := range []struct {
						va, vb int64
						want   int
						text   string
					}{{0, 1, 1, "a's outcome below b's: b must come first (positive)"}, {1, 1, 0, "equal outcomes: zero"}, {1, 0, -1, "a's outcome above b's: a must come first (negative)"}} {
						env := map[string]sym.Expr{a + "." + fa: sym.N(tc.va), b + "." + fb: sym.N(tc.vb)}
						ps, ok := m.Select(env, numOracle)
						got, decided := 0, false
						if ok && len(ps) == 1 && len(ps[0].Ret) == 1 {
							if v, okv := evalRat(ps[0].Ret[0], env); okv {
								got, decided = v.Sign(), true
							}
						}
						if !decided {
							why = "the value of the ordering function is undecided for " + tc.text + " (fails closed)"
							break
						}
						if got != tc.want {
							why = fmt.Sprintf("%s, but the ordering function returns a value of sign %d: the ranking is not in non-increasing outcome order", tc.text, got)
							break
						}
					}
				}
			}
			run.Oblige(why == "")
			if why != "" {
				c.violate("backtest/ranking", site, "order of "+short(exprString(call.Args[0]), 40), call.Pos(), why)
			}
			picks(fd, site, call, exprString(call.Args[0]))
			return true
		})
	}
	run.Count("ranking_sorts", sites)
	run.Floor("ranking_sorts", 1)
	run.Count("ranking_entry_points", methods)
	run.Floor("ranking_entry_points", 2)
}

// evalRat evaluates a numeric decision-table term under an assignment of numbers.
func evalRat(e sym.Expr, env map[string]sym.Expr) (*big.Rat, bool) {
	switch x := e.(type) {
	case sym.Num:
		return x.V, true
	case sym.Var:
		if v, ok := env[x.Name]; ok {
			if _, same := v.(sym.Var); !same {
				return evalRat(v, env)
			}
		}
		return nil, false
	case sym.Neg:
		v, ok := evalRat(x.X, env)
		if !ok {
			return nil, false
		}
		return new(big.Rat).Neg(v), true
	case sym.Bin:
		l, ok1 := evalRat(x.L, env)
		r, ok2 := evalRat(x.R, env)
		if !ok1 || !ok2 {
			return nil, false
		}
		switch x.Op {
		case "+":
			return new(big.Rat).Add(l, r), true
		case "-":
			return new(big.Rat).Sub(l, r), true
		case "*":
			return new(big.Rat).Mul(l, r), true
		case "/":
			if r.Sign() == 0 {
				return nil, false
			}
			return new(big.Rat).Quo(l, r), true
		}
	case sym.Call:
		if (x.Fn == "cmp.Compare" || strings.HasSuffix(x.Fn, ".Compare")) && len(x.Args) == 2 {
			l, ok1 := evalRat(x.Args[0], env)
			r, ok2 := evalRat(x.Args[1], env)
			if ok1 && ok2 {
				return big.NewRat(int64(l.Cmp(r)), 1), true
			}
		}
		if x.Fn == "trunc" && len(x.Args) == 1 {
			if v, ok := evalRat(x.Args[0], env); ok {
				q := new(big.Int).Quo(v.Num(), v.Denom())
				return new(big.Rat).SetInt(q), true
			}
		}
	case sym.Ite:
		if cv, ok := dtab.EvalBool(x.Cond, env, numOracle); ok {
			if cv {
				return evalRat(x.A, env)
			}
			return evalRat(x.B, env)
		}
	}
	return nil, false
}

// sliceBounds: "no run crashes" - every index into a slice in the backtest package (reports,
// worker) is protected: the index is the key of a range over that slice, or an enclosing
// condition mentions the length of that slice. The bundled code indexes maps only; an index such
// as transactions[len(transactions)-1] on a possibly empty slice panics on a worker goroutine
// and takes the whole run down.
func (c *Ctx) sliceBounds() {
	run := c.Run
	bp := c.P.Pkg("backtest")
	if bp == nil {
		return
	}
	for _, f := range bp.Syntax {
		if strings.HasSuffix(c.P.Fset.Position(f.Pos()).Filename, "_test.go") {
			continue
		}
		for _, d := range f.Decls {
			fd, ok := d.(*ast.FuncDecl)
			if !ok || fd.Body == nil {
				continue
			}
			for _, site := range unguardedSliceIndexes(bp.TypesInfo, fd.Body) {
				run.Count("slice_indexes", 1)
				if !site.guarded && !fd.Name.IsExported() {
					// an unexported helper indexing its parameter: guarded when every caller in the
					// package checks the length of what it passes before the call
					site.guarded = c.callersGuard(bp, fd, site)
				}
				run.Oblige(site.guarded)
				if !site.guarded {
					c.violate("backtest/bounds", "backtest."+fd.Name.Name, site.text, site.pos, "the slice index "+site.text+" is neither the key of a range over that slice nor protected by a check of its length: an empty (or shorter) slice panics, on a worker goroutine that ends the whole run")
				}
			}
		}
	}
	// the rule's expected count on this code base is zero: keep it honest on a positive example
	const sample = `package p
func last(xs []int) int { return xs[len(xs)-1] }
func safe(xs []int) int { if len(xs) == 0 { return 0 }; return xs[len(xs)-1] }
func each(xs []int) int { s := 0; for i := range xs { s += xs[i] }; return s }`
	fset := token.NewFileSet()
	pf, err := parser.ParseFile(fset, "sample.go", sample, 0)
	okSample := false
	if err == nil {
		info := &types.Info{Types: map[ast.Expr]types.TypeAndValue{}, Defs: map[*ast.Ident]types.Object{}, Uses: map[*ast.Ident]types.Object{}}
		if _, err := (&types.Config{}).Check("p", fset, []*ast.File{pf}, info); err == nil {
			var got []bool
			for _, d := range pf.Decls {
				for _, s := range unguardedSliceIndexes(info, d.(*ast.FuncDecl).Body) {
					got = append(got, s.guarded)
				}
			}
			okSample = len(got) == 3 && !got[0] && got[1] && got[2]
		}
	}
	run.Oblige(okSample)
	if !okSample {
		run.Break("the slice-bounds rule does not classify its built-in examples as expected")
	}
}

// definedCount: the variable is defined exactly once in body, by a call whose last argument is
// the constant number of elements the returned slice has (helper.Duplicate(c, n)).
func definedCount(info *types.Info, body *ast.BlockStmt, obj types.Object) (int64, bool) {
	var n int64
	defs, ok := 0, false
	ast.Inspect(body, func(m ast.Node) bool {
		as, isAs := m.(*ast.AssignStmt)
		if !isAs {
			return true
		}
		for i, l := range as.Lhs {
			id, isID := l.(*ast.Ident)
			if !isID || info.ObjectOf(id) != obj {
				continue
			}
			defs++
			if len(as.Lhs) != len(as.Rhs) {
				continue
			}
			call, isCall := as.Rhs[i].(*ast.CallExpr)
			if !isCall || len(call.Args) == 0 || !strings.HasSuffix(calleeText2(call.Fun), "Duplicate") {
				continue
			}
			if tv, has := info.Types[call.Args[len(call.Args)-1]]; has && tv.Value != nil {
				if v, exact := constant.Int64Val(constant.ToInt(tv.Value)); exact {
					n, ok = v, true
				}
			}
		}
		return true
	})
	return n, ok && defs == 1
}

func calleeText2(e ast.Expr) string {
	switch x := e.(type) {
	case *ast.Ident:
		return x.Name
	case *ast.SelectorExpr:
		return x.Sel.Name
	case *ast.IndexExpr:
		return calleeText2(x.X)
	case *ast.IndexListExpr:
		return calleeText2(x.X)
	}
	return ""
}

type indexSite struct {
	text    string
	pos     token.Pos
	guarded bool
}

func unguardedSliceIndexes(info *types.Info, body *ast.BlockStmt) []indexSite {
	var out []indexSite
	var stack []ast.Node
	ast.Inspect(body, func(n ast.Node) bool {
		if n == nil {
			stack = stack[:len(stack)-1]
			return true
		}
		stack = append(stack, n)
		ix, ok := n.(*ast.IndexExpr)
		if !ok {
			return true
		}
		t := info.TypeOf(ix.X)
		if t == nil {
			return true
		}
		if _, isSlice := t.Underlying().(*types.Slice); !isSlice {
			return true
		}
		if tv, ok := info.Types[ix.Index]; ok && tv.Value != nil {
			// a constant index still needs a length check
		}
		base := types.ExprString(ix.X)
		guarded := false
		// xs := f(.., N) with a constant count N (helper.Duplicate) indexed by a constant below N
		if id, ok := ix.X.(*ast.Ident); ok {
			if tv, ok := info.Types[ix.Index]; ok && tv.Value != nil {
				if k, exact := constant.Int64Val(constant.ToInt(tv.Value)); exact {
					if n, ok := definedCount(info, body, info.ObjectOf(id)); ok && k >= 0 && k < n {
						guarded = true
					}
				}
			}
		}
		mentionsLen := func(e ast.Node) bool {
			found := false
			ast.Inspect(e, func(m ast.Node) bool {
				if call, ok := m.(*ast.CallExpr); ok && len(call.Args) == 1 {
					if id, ok := call.Fun.(*ast.Ident); ok && id.Name == "len" && types.ExprString(call.Args[0]) == base {
						found = true
					}
				}
				return !found
			})
			return found
		}
		for i := len(stack) - 2; i >= 0 && !guarded; i-- {
			switch p := stack[i].(type) {
			case *ast.RangeStmt:
				if types.ExprString(p.X) == base {
					if k, ok := p.Key.(*ast.Ident); ok {
						if id, ok := ix.Index.(*ast.Ident); ok && info.ObjectOf(id) == info.ObjectOf(k) {
							guarded = true
						}
					}
				}
			case *ast.IfStmt:
				if mentionsLen(p.Cond) {
					guarded = true
					// a constant index k: the branch the index sits in must be unreachable for len <= k
					if tv, isC := info.Types[ix.Index]; isC && tv.Value != nil {
						if k, exact := constant.Int64Val(constant.ToInt(tv.Value)); exact && k >= 0 && k < 8 {
							inThen := ix.Pos() >= p.Body.Pos() && ix.End() <= p.Body.End()
							for ln := int64(0); ln <= k; ln++ {
								if v, dec := lenCondAt(info, p.Cond, base, ln); dec && v == inThen {
									guarded = false
								}
							}
							if !guarded {
								out = append(out, indexSite{text: types.ExprString(ix), pos: ix.Pos(), guarded: false})
								return true
							}
						}
					}
				}
			case *ast.ForStmt:
				if p.Cond != nil && mentionsLen(p.Cond) {
					guarded = true
				}
			case *ast.BlockStmt:
				// an earlier statement of the block that leaves when the slice is too short
				for _, s := range p.List {
					if s.End() > ix.Pos() {
						break
					}
					if is, ok := s.(*ast.IfStmt); ok && mentionsLen(is.Cond) && len(is.Body.List) > 0 {
						switch is.Body.List[len(is.Body.List)-1].(type) {
						case *ast.ReturnStmt, *ast.BranchStmt:
							guarded = true
							// a constant index k: the guard must leave for every len <= k
							if tv, isC := info.Types[ix.Index]; isC && tv.Value != nil {
								if k, exact := constant.Int64Val(constant.ToInt(tv.Value)); exact && k >= 0 && k < 8 {
									for ln := int64(0); ln <= k; ln++ {
										if v, dec := lenCondAt(info, is.Cond, base, ln); dec && !v {
											guarded = false
										}
									}
								}
							}
						}
					}
				}
			}
		}
		out = append(out, indexSite{text: types.ExprString(ix), pos: ix.Pos(), guarded: guarded})
		return true
	})
	return out
}

// syncCommandWiring: the indicator-sync command hands Sync the assets named on the command line
// or, when there are none, the assets of the SOURCE repository. Decided structurally in main: the
// variable assigned to sync.Assets is the one that receives source.Assets() inside the
// `len(...) == 0` branch, and no inner `:=` shadows a local that is used after the inner block
// (the classic way such a hand-over is lost while everything still compiles).
func (c *Ctx) syncCommandWiring() {
	run := c.Run
	fi := c.fn("cmd/indicator-sync", "", "main")
	if fi == nil {
		return
	}
	info := fi.Pkg.TypesInfo
	site := "cmd/indicator-sync.main"
	// (1) shadowing
	for _, sh := range shadowedLocals(info, fi.Decl) {
		run.Oblige(false)
		c.violate("sync/command", site, "shadowed "+sh.name, sh.pos, "`"+sh.name+" :=` in an inner block declares a new variable; the outer `"+sh.name+"`, which is used afterwards, keeps its old value")
	}
	// (2) the hand-over
	var assetsObj types.Object
	for _, fd := range packageFuncs(fi.Pkg) {
		ast.Inspect(fd.Body, func(n ast.Node) bool {
			as, ok := n.(*ast.AssignStmt)
			if !ok || len(as.Lhs) != 1 || len(as.Rhs) != 1 {
				return true
			}
			if sel, ok := as.Lhs[0].(*ast.SelectorExpr); ok && sel.Sel.Name == "Assets" {
				if e := argInMain(info, fi.Decl, fd, as.Rhs[0]); e != nil {
					if id, ok := e.(*ast.Ident); ok {
						assetsObj = info.ObjectOf(id)
					}
				}
			}
			return true
		})
	}
	// the source repository is the first argument of sync.Run
	var sourceObj types.Object
	ast.Inspect(fi.Decl.Body, func(n ast.Node) bool {
		call, isCall := n.(*ast.CallExpr)
		if !isCall || len(call.Args) < 2 {
			return true
		}
		if fn := callee(info, call); fn != nil && fn.Name() == "Run" && strings.HasSuffix(fn.FullName(), "asset.Sync).Run") {
			if id, isID := call.Args[0].(*ast.Ident); isID {
				sourceObj = info.ObjectOf(id)
			}
		}
		return true
	})
	ok := false
	if assetsObj != nil {
		ast.Inspect(fi.Decl.Body, func(n ast.Node) bool {
			is, isIf := n.(*ast.IfStmt)
			if !isIf {
				return true
			}
			// if len(assets) == 0 { assets, err = source.Assets() ... }
			guard := false
			ast.Inspect(is.Cond, func(m ast.Node) bool {
				if call, isCall := m.(*ast.CallExpr); isCall && len(call.Args) == 1 {
					if id, isID := call.Fun.(*ast.Ident); isID && id.Name == "len" {
						if a, isA := call.Args[0].(*ast.Ident); isA && info.ObjectOf(a) == assetsObj {
							guard = true
						}
					}
				}
				return true
			})
			if !guard {
				return true
			}
			for _, st := range is.Body.List {
				as, isAs := st.(*ast.AssignStmt)
				if !isAs || len(as.Rhs) != 1 || len(as.Lhs) < 1 {
					continue
				}
				call, isCall := as.Rhs[0].(*ast.CallExpr)
				if !isCall {
					continue
				}
				sel, isSel := call.Fun.(*ast.SelectorExpr)
				if !isSel || sel.Sel.Name != "Assets" {
					continue
				}
				recv, isID := sel.X.(*ast.Ident)
				if !isID || sourceObj == nil || info.ObjectOf(recv) != sourceObj {
					continue
				}
				if id, isLID := as.Lhs[0].(*ast.Ident); isLID && info.ObjectOf(id) == assetsObj {
					ok = true
				}
			}
			return true
		})
	}
	run.Count("sync_command_wiring", 1)
	run.Oblige(ok)
	if !ok {
		c.violate("sync/command", site, "asset list", fi.Decl.Pos(), "the variable handed to sync.Assets does not receive source.Assets() when no asset is named on the command line: Sync falls back to the target's assets and never creates the source's other assets")
	}
	run.Floor("sync_command_wiring", 1)
}

type shadow struct {
	name string
	pos  token.Pos
}

// shadowedLocals: `x :=` inside a nested block of fd where x also names a local variable of an
// enclosing block of the same function that is still used after the nested block ends.
func shadowedLocals(info *types.Info, fd *ast.FuncDecl) []shadow {
	var out []shadow
	ast.Inspect(fd.Body, func(n ast.Node) bool {
		as, ok := n.(*ast.AssignStmt)
		if !ok || as.Tok != token.DEFINE {
			return true
		}
		for _, l := range as.Lhs {
			id, ok := l.(*ast.Ident)
			if !ok || id.Name == "_" {
				continue
			}
			obj := info.Defs[id]
			if obj == nil {
				continue // reuses an existing variable of this scope
			}
			inner := obj.Parent()
			if inner == nil || inner.Parent() == nil {
				continue
			}
			_, outer := inner.Parent().LookupParent(id.Name, id.Pos())
			ov, isVar := outer.(*types.Var)
			if !isVar || ov.Pos() < fd.Pos() || ov.Pos() > fd.End() {
				continue // not a local of this function
			}
			if !types.Identical(ov.Type(), obj.Type()) {
				continue
			}
			// is the outer variable used after the inner scope ends?
			usedAfter := false
			for uid, uo := range info.Uses {
				if uo == outer && uid.Pos() > inner.End() {
					usedAfter = true
				}
			}
			if usedAfter {
				out = append(out, shadow{id.Name, id.Pos()})
			}
		}
		return true
	})
	sort.Slice(out, func(i, j int) bool { return out[i].pos < out[j].pos })
	return out
}

// nilTest: +1 when cond is `obj == nil`, -1 when it is `obj != nil` (either operand order), else 0.
func nilTest(info *types.Info, cond ast.Expr, obj types.Object) int {
	for {
		p, ok := cond.(*ast.ParenExpr)
		if !ok {
			break
		}
		cond = p.X
	}
	be, ok := cond.(*ast.BinaryExpr)
	if !ok || obj == nil || (be.Op != token.EQL && be.Op != token.NEQ) {
		return 0
	}
	isObj := func(e ast.Expr) bool { id, ok := e.(*ast.Ident); return ok && info.ObjectOf(id) == obj }
	isNil := func(e ast.Expr) bool {
		id, ok := e.(*ast.Ident)
		return ok && id.Name == "nil" && info.ObjectOf(id) == types.Universe.Lookup("nil")
	}
	if (isObj(be.X) && isNil(be.Y)) || (isNil(be.X) && isObj(be.Y)) {
		if be.Op == token.EQL {
			return 1
		}
		return -1
	}
	return 0
}

// recvIsParam: fun is a method selected on the k-th parameter of fi.
func recvIsParam(info *types.Info, fi *load.FuncInfo, fun ast.Expr, k int) bool {
	sel, ok := fun.(*ast.SelectorExpr)
	if !ok {
		return false
	}
	id, ok := sel.X.(*ast.Ident)
	if !ok {
		return false
	}
	sig := fi.Fn.Type().(*types.Signature)
	return k < sig.Params().Len() && info.ObjectOf(id) == sig.Params().At(k)
}

// recordsFailure: the expression of the flag a block sets to true (x = true / x.Store(true)), "" if none.
func recordsFailure(b *ast.BlockStmt) string {
	sets := ""
	ast.Inspect(b, func(n ast.Node) bool {
		switch x := n.(type) {
		case *ast.AssignStmt:
			if len(x.Lhs) == 1 && len(x.Rhs) == 1 && exprString(x.Rhs[0]) == "true" {
				sets = exprString(x.Lhs[0])
			}
		case *ast.CallExpr:
			if sel, ok := x.Fun.(*ast.SelectorExpr); ok && sel.Sel.Name == "Store" && len(x.Args) == 1 && exprString(x.Args[0]) == "true" {
				sets = exprString(sel.X)
			}
		}
		return true
	})
	return sets
}

// workersPositive: a command that runs Sync or Backtest hands over a worker count that is at
// least one whenever the -workers flag is (zero workers process nothing and the run still
// reports success). The lower bound of the assigned expression is computed over intervals: a flag
// variable is >= 1, len(...) >= 0, constants are themselves, min/max/+/* combine bounds.
func (c *Ctx) workersPositive(rel, rule string) {
	run := c.Run
	fi := c.fn(rel, "", "main")
	if fi == nil {
		run.Break("anchor missing: " + rel + ".main")
		return
	}
	info := fi.Pkg.TypesInfo
	site := rel + ".main"
	// variables bound to a command-line flag
	flagVars := map[types.Object]bool{} // variables and struct fields bound to a flag, anywhere in the command
	for _, fd := range packageFuncs(fi.Pkg) {
		ast.Inspect(fd.Body, func(n ast.Node) bool {
			call, ok := n.(*ast.CallExpr)
			if !ok {
				return true
			}
			if nm := calleeName(info, call); strings.HasPrefix(nm, "flag.") && strings.HasSuffix(nm, "Var") && len(call.Args) > 0 {
				if u, ok := call.Args[0].(*ast.UnaryExpr); ok && u.Op == token.AND {
					switch x := u.X.(type) {
					case *ast.Ident:
						flagVars[info.ObjectOf(x)] = true
					case *ast.SelectorExpr:
						flagVars[info.ObjectOf(x.Sel)] = true
					}
				}
			}
			return true
		})
	}
	defs := singleDefs(info, fi.Decl.Body)
	const unknown = -1 << 40
	var lower func(e ast.Expr, depth int) int64
	lower = func(e ast.Expr, depth int) int64 {
		if depth > 6 {
			return unknown
		}
		e = ast.Unparen(e)
		if tv, ok := info.Types[e]; ok && tv.Value != nil {
			if v, exact := constant.Int64Val(constant.ToInt(tv.Value)); exact {
				return v
			}
		}
		switch x := e.(type) {
		case *ast.Ident:
			obj := info.ObjectOf(x)
			if flagVars[obj] {
				return 1
			}
			if d, ok := defs[obj]; ok {
				return lower(d, depth+1)
			}
		case *ast.SelectorExpr:
			if flagVars[info.ObjectOf(x.Sel)] {
				return 1
			}
		case *ast.CallExpr:
			if id, ok := x.Fun.(*ast.Ident); ok {
				switch id.Name {
				case "len", "cap":
					return 0
				case "min":
					m := int64(1 << 40)
					for _, a := range x.Args {
						if v := lower(a, depth+1); v < m {
							m = v
						}
					}
					return m
				case "max":
					m := int64(unknown)
					for _, a := range x.Args {
						if v := lower(a, depth+1); v > m {
							m = v
						}
					}
					return m
				}
				if tv, ok := info.Types[x.Fun]; ok && tv.IsType() && len(x.Args) == 1 {
					return lower(x.Args[0], depth+1) // conversion
				}
			}
		case *ast.BinaryExpr:
			l, r := lower(x.X, depth+1), lower(x.Y, depth+1)
			if l == unknown || r == unknown {
				return unknown
			}
			switch x.Op {
			case token.ADD:
				return l + r
			case token.MUL:
				if l >= 0 && r >= 0 {
					return l * r
				}
			}
		}
		return unknown
	}
	n := 0
	for _, fd := range packageFuncs(fi.Pkg) {
		fd := fd
		ast.Inspect(fd.Body, func(nd ast.Node) bool {
			as, ok := nd.(*ast.AssignStmt)
			if !ok || len(as.Lhs) != len(as.Rhs) {
				return true
			}
			for i, l := range as.Lhs {
				sel, ok := l.(*ast.SelectorExpr)
				if !ok || sel.Sel.Name != "Workers" {
					continue
				}
				n++
				rhs := as.Rhs[i]
				if e := argInMain(info, fi.Decl, fd, rhs); e != nil {
					rhs = e
				}
				lb := lower(rhs, 0)
				good := lb >= 1
				run.Oblige(good)
				if !good {
					c.violate(rule, site, "Workers = "+short(exprString(as.Rhs[i]), 60), as.Pos(), "the worker count handed over ("+exprString(rhs)+") can be zero although the -workers flag is at least one: with no workers nothing is processed and the command still reports success")
				}
			}
			return true
		})
	}
	run.Count("worker_count_handovers", n)
}

// packageFuncs: the function declarations with bodies of a package's non-test files.
func packageFuncs(pk *packages.Package) []*ast.FuncDecl {
	var out []*ast.FuncDecl
	for _, f := range pk.Syntax {
		for _, d := range f.Decls {
			if fd, ok := d.(*ast.FuncDecl); ok && fd.Body != nil {
				out = append(out, fd)
			}
		}
	}
	return out
}

// argInMain: an expression used in a helper function of a command, seen from main: a parameter of
// the helper is replaced by the argument main passes at its (single) call; an expression of main
// itself is returned as it is; anything else is nil.
func argInMain(info *types.Info, mainFn, fd *ast.FuncDecl, e ast.Expr) ast.Expr {
	if fd == mainFn {
		return e
	}
	id, ok := ast.Unparen(e).(*ast.Ident)
	if !ok {
		if sel, ok := ast.Unparen(e).(*ast.SelectorExpr); ok {
			return sel // a field of a value (flags.workers): judged by the field
		}
		return nil
	}
	obj := info.ObjectOf(id)
	idx := -1
	i := 0
	if fd.Type.Params != nil {
		for _, fl := range fd.Type.Params.List {
			for _, nm := range fl.Names {
				if info.ObjectOf(nm) == obj {
					idx = i
				}
				i++
			}
		}
	}
	if idx < 0 {
		return nil
	}
	fnObj := info.ObjectOf(fd.Name)
	var arg ast.Expr
	ast.Inspect(mainFn.Body, func(n ast.Node) bool {
		call, ok := n.(*ast.CallExpr)
		if !ok || idx >= len(call.Args) {
			return true
		}
		if fn := callee(info, call); fn != nil && types.Object(fn) == fnObj {
			arg = call.Args[idx]
		}
		return true
	})
	return arg
}

func containsBranchOrReturn(n ast.Node) bool {
	found := false
	ast.Inspect(n, func(m ast.Node) bool {
		switch m.(type) {
		case *ast.FuncLit:
			return false
		case *ast.BranchStmt, *ast.ReturnStmt:
			found = true
		}
		return !found
	})
	return found
}

// writeArguments: what a worker hands to report.Write is the evaluation itself, untouched: the
// actions and outcomes are the two results of one strategy.ComputeWithOutcome call for the
// strategy that is written (not streams derived from them), the snapshots written and the
// snapshots evaluated are two different branches of one helper.Duplicate of a fresh
// helper.SliceToChan, and the look-back window the snapshots come from starts LastDays days
// before now.
func (c *Ctx) writeArguments(worker *load.FuncInfo, site string) {
	run := c.Run
	if worker == nil {
		return
	}
	info := worker.Pkg.TypesInfo
	nW := 0
	for _, fi := range c.family(worker) {
		fd := fi.Decl
		ast.Inspect(fd.Body, func(nd ast.Node) bool {
			call, ok := nd.(*ast.CallExpr)
			if !ok || !strings.HasSuffix(calleeName(info, call), "(Report).Write") || len(call.Args) != 5 {
				return true
			}
			nW++
			why := ""
			oa, _ := c.origin(info, fd, call.Args[3], 0)
			oo, _ := c.origin(info, fd, call.Args[4], 0)
			ta, okA := oa.(*tupleResult)
			to, okO := oo.(*tupleResult)
			switch {
			case !okA || !strings.HasSuffix(calleeName(info, ta.call), "strategy.ComputeWithOutcome") || ta.idx != 0:
				why = "the actions written are " + exprString(call.Args[3]) + ", not the first result of strategy.ComputeWithOutcome as it is"
			case !okO || to.call != ta.call || to.idx != 1:
				why = "the outcomes written are " + exprString(call.Args[4]) + ", not the second result of the same strategy.ComputeWithOutcome call as it is"
			}
			if why == "" {
				cwo := ta.call
				s1, _ := c.origin(info, fd, call.Args[1], 0)
				s2, _ := c.origin(info, fd, cwo.Args[0], 0)
				if exprString(s1) != exprString(s2) {
					why = "the result is written for " + exprString(call.Args[1]) + " but was computed with " + exprString(cwo.Args[0])
				}
				// two different branches of one duplicate of a fresh stream
				b1, _ := c.origin(info, fd, call.Args[2], 0)
				b2, _ := c.origin(info, fd, cwo.Args[1], 0)
				x1, ok1 := b1.(*ast.IndexExpr)
				x2, ok2 := b2.(*ast.IndexExpr)
				if why == "" {
					switch {
					case !ok1 || !ok2:
						why = "the snapshots written and the snapshots evaluated are not branches of one helper.Duplicate"
					default:
						d1, _ := c.origin(info, fd, x1.X, 0)
						d2, _ := c.origin(info, fd, x2.X, 0)
						k1, c1 := constInt(info, x1.Index)
						k2, c2 := constInt(info, x2.Index)
						dc, isCall := d1.(*ast.CallExpr)
						switch {
						case d1 != d2 || !isCall || !strings.HasSuffix(calleeName(info, dc), "helper.Duplicate") || len(dc.Args) != 2:
							why = "the snapshots written and the snapshots evaluated are not branches of one helper.Duplicate"
						case func() bool { n, isC := constInt(info, dc.Args[1]); return !isC || n != 2 }():
							why = "the snapshots are duplicated " + exprString(dc.Args[1]) + " times for two consumers: a branch nobody reads blocks the duplicate, and with it the evaluation"
						case !c1 || !c2 || k1 == k2:
							why = "the snapshots written and the snapshots evaluated are the same branch of the duplicate: both consumers compete for one stream"
						default:
							src, _ := c.origin(info, fd, dc.Args[0], 0)
							if sc, isC := src.(*ast.CallExpr); !isC || !strings.HasSuffix(calleeName(info, sc), "helper.SliceToChan") {
								why = "the duplicated stream is " + exprString(src) + ", not a fresh helper.SliceToChan of the asset's snapshots"
							}
						}
					}
				}
			}
			run.Oblige(why == "")
			if why != "" {
				c.violate("backtest/direct-evaluation", site+".worker", short(why, 70), call.Pos(), "what is reported for an (asset, strategy) pair must equal evaluating the strategy directly on the asset's snapshots: "+why)
			}
			return true
		})
	}
	run.Count("report_write_calls", nW)
	run.Floor("report_write_calls", 1)
	// the look-back window
	nG := 0
	for _, fi := range c.family(worker) {
		fd := fi.Decl
		ast.Inspect(fd.Body, func(nd ast.Node) bool {
			call, ok := nd.(*ast.CallExpr)
			if !ok || !strings.HasSuffix(calleeName(info, call), "(Repository).GetSince") || len(call.Args) != 2 {
				return true
			}
			nG++
			why := ""
			o, ofd := c.origin(info, fd, call.Args[1], 0)
			// the bound may be a parameter of a helper: follow it to the worker once
			if id, isID := o.(*ast.Ident); isID && ofd != worker.Decl {
				if pi := paramIndex(info, ofd, info.ObjectOf(id)); pi >= 0 {
					ast.Inspect(worker.Decl.Body, func(q ast.Node) bool {
						if cc, isC := q.(*ast.CallExpr); isC {
							if fn := callee(info, cc); fn != nil && c.P.Decls[fn.Origin()] != nil && c.P.Decls[fn.Origin()].Decl == ofd && pi < len(cc.Args) {
								o, ofd = c.origin(info, worker.Decl, cc.Args[pi], 0)
							}
						}
						return true
					})
				}
			}
			add, isCall := o.(*ast.CallExpr)
			if !isCall || !strings.HasSuffix(calleeName(info, add), "time.(Time).AddDate") || len(add.Args) != 3 {
				why = "the bound handed to GetSince is " + exprString(o) + ", not time.Now().AddDate(0, 0, -LastDays)"
			} else {
				y, okY := constInt(info, add.Args[0])
				m, okM := constInt(info, add.Args[1])
				days, _ := c.origin(info, ofd, add.Args[2], 0)
				neg, isNeg := ast.Unparen(days).(*ast.UnaryExpr)
				now := false
				if sel, isSel := ast.Unparen(add.Fun).(*ast.SelectorExpr); isSel {
					base, _ := c.origin(info, ofd, sel.X, 0)
					if nc, isC := ast.Unparen(base).(*ast.CallExpr); isC && calleeName(info, nc) == "time.Now" {
						now = true
					}
				}
				switch {
				case !now:
					why = "the look-back window is not counted back from time.Now()"
				case !okY || !okM || y != 0 || m != 0:
					why = "the look-back window is counted in years or months: LastDays is a number of days"
				case !isNeg || neg.Op != token.SUB || !strings.HasSuffix(exprString(neg.X), "LastDays"):
					why = "the look-back window starts at now + (" + exprString(add.Args[2]) + ") days, not LastDays days before now"
				}
			}
			run.Oblige(why == "")
			if why != "" {
				c.violate("backtest/window", site+".worker", short(why, 70), call.Pos(), "the snapshots a strategy is evaluated on are those inside the look-back window of LastDays days: "+why)
			}
			return true
		})
	}
	run.Count("lookback_windows", nG)
	run.Floor("lookback_windows", 1)
}

func paramIndex(info *types.Info, fd *ast.FuncDecl, obj types.Object) int {
	i := 0
	for _, f := range fd.Type.Params.List {
		for _, nm := range f.Names {
			if info.ObjectOf(nm) == obj {
				return i
			}
			i++
		}
	}
	return -1
}

// workerLoop: the go statements of fd that start workers sit in a loop that runs exactly Workers
// times: `for i := 0; i < x.Workers; i++` (a range over the integer is normalised to this form).
// A loop that starts no worker returns a run that did nothing as a success; one that starts
// more or fewer than configured breaks "the result does not depend on the number of workers"
// only in resource use, so only the zero case and a foreign bound are judged: the bound is the
// Workers field and the loop counts up from 0 by 1 with `<`.
func (c *Ctx) workerLoop(rule, site string, info *types.Info, fd *ast.FuncDecl) {
	run := c.Run
	n := 0
	var stack []ast.Node
	ast.Inspect(fd.Body, func(nd ast.Node) bool {
		if nd == nil {
			stack = stack[:len(stack)-1]
			return true
		}
		stack = append(stack, nd)
		if _, isGo := nd.(*ast.GoStmt); !isGo {
			return true
		}
		var loop *ast.ForStmt
		for i := len(stack) - 1; i >= 0 && loop == nil; i-- {
			if fs, ok := stack[i].(*ast.ForStmt); ok {
				loop = fs
			}
			if _, isLit := stack[i].(*ast.FuncLit); isLit {
				break
			}
		}
		if loop == nil {
			return true
		}
		n++
		why := ""
		init, okI := loop.Init.(*ast.AssignStmt)
		cond, okC := loop.Cond.(*ast.BinaryExpr)
		post, okP := loop.Post.(*ast.IncDecStmt)
		switch {
		case !okI || !okC || !okP || len(init.Lhs) != 1 || len(init.Rhs) != 1:
			why = "the loop that starts the workers is not a counted loop (undecided, fails closed)"
		default:
			iv, _ := init.Lhs[0].(*ast.Ident)
			lo, isC := constInt(info, init.Rhs[0])
			cv, _ := ast.Unparen(cond.X).(*ast.Ident)
			pv, _ := post.X.(*ast.Ident)
			bound, _ := c.origin(info, fd, cond.Y, 0)
			sel, isSel := ast.Unparen(bound).(*ast.SelectorExpr)
			switch {
			case iv == nil || cv == nil || pv == nil || info.ObjectOf(cv) != info.ObjectOf(iv) || info.ObjectOf(pv) != info.ObjectOf(iv):
				why = "the loop that starts the workers does not count one variable (undecided, fails closed)"
			case !isC || post.Tok != token.INC || !((cond.Op == token.LSS && lo <= 0) || (cond.Op == token.LEQ && lo <= 1)):
				// (at least one iteration whenever Workers >= 1)
				why = fmt.Sprintf("the loop that starts the workers is `for %s; %s; %s`: it does not run once for each of the configured workers", exprString2(init), exprString(cond), exprString2(post))
			case !isSel || sel.Sel.Name != "Workers":
				why = "the number of workers started is " + exprString(cond.Y) + ", not the configured Workers"
			}
		}
		run.Oblige(why == "")
		if why != "" {
			c.violate(rule, site, "worker loop", loop.Pos(), why+": with no worker started the run ends at once and reports success without having processed a single asset")
		}
		return true
	})
	run.Count("worker_loops", n)
	run.Floor("worker_loops", 1)
	// the wait group: one Add per worker started, Done on every way out of the worker
	isWG := func(m ast.Node, method string) bool {
		call, ok := m.(*ast.CallExpr)
		return ok && calleeName(info, call) == "sync.(WaitGroup)."+method
	}
	workers := goLitsOf(fd)
	run.Count("worker_bodies", len(workers))
	for _, w := range workers {
		bad := exitsWithout(w.Body, nil, func(m ast.Node) bool { return isWG(m, "Done") }, nil)
		run.Oblige(len(bad) == 0)
		if len(bad) > 0 {
			c.violate(rule, site, "wg.Done", bad[0], "a worker can end here without having called (or deferred) wg.Done(): the Wait() of the run never returns")
		}
	}
	adds, gos := 0, 0
	ast.Inspect(fd.Body, func(nd ast.Node) bool {
		switch x := nd.(type) {
		case *ast.FuncLit:
			return false
		case *ast.GoStmt:
			gos++
			return false
		case *ast.CallExpr:
			if isWG(x, "Add") {
				if v, isC := constInt(info, x.Args[0]); isC && v == 1 {
					adds++
				}
			}
		}
		return true
	})
	run.Oblige(adds == gos && gos > 0)
	if adds != gos || gos == 0 {
		c.violate(rule, site, "wg.Add", fd.Pos(), fmt.Sprintf("%d worker start(s) but %d wg.Add(1): the run waits for too few or too many workers", gos, adds))
	}
}

func exprString2(s ast.Stmt) string {
	switch x := s.(type) {
	case *ast.AssignStmt:
		return exprString(x.Lhs[0]) + " " + x.Tok.String() + " " + exprString(x.Rhs[0])
	case *ast.IncDecStmt:
		return exprString(x.X) + x.Tok.String()
	}
	return "…"
}

// defaultWhenEmpty: an assignment to the configuration field (the strategies to backtest, the
// assets to synchronise) inside fd replaces what the caller configured; it is the documented
// default and may only happen when the caller configured nothing: it sits under a condition that
// holds exactly when the field's length is 0 (decided for lengths 0, 1 and 2).
func (c *Ctx) defaultWhenEmpty(rule, site string, info *types.Info, fd *ast.FuncDecl, field string) {
	run := c.Run
	n := 0
	bodies := []*ast.BlockStmt{fd.Body}
	for _, fi := range c.P.Decls {
		if fi.Decl == fd {
			bodies = c.familyBodies(fi)
		}
	}
	defer func() {
		// the default itself is documented behaviour ("in the absence of explicitly defined …"):
		// with no assignment left, a caller who configures nothing gets nothing processed
		run.Oblige(n > 0)
		if n == 0 {
			c.violate(rule, site, "no default "+field, fd.Pos(), "nothing assigns the default "+field+" any more: a run configured without "+field+" processes none instead of the documented default")
		}
	}()
	var stack []ast.Node
	for _, body := range bodies {
		ast.Inspect(body, func(nd ast.Node) bool {
			if nd == nil {
				stack = stack[:len(stack)-1]
				return true
			}
			stack = append(stack, nd)
			as, ok := nd.(*ast.AssignStmt)
			if !ok {
				return true
			}
			for _, l := range as.Lhs {
				sel, isSel := ast.Unparen(l).(*ast.SelectorExpr)
				if !isSel || sel.Sel.Name != field {
					continue
				}
				if v, isF := info.ObjectOf(sel.Sel).(*types.Var); !isF || !v.IsField() {
					continue
				}
				n++
				why := "the configured " + field + " are replaced unconditionally"
				// an early return in front of the assignment, taken exactly when some are configured
				// (`if len(x.F) != 0 { return … }` in a helper that applies the default)
				guardedByReturn := false
				for i := len(stack) - 2; i >= 0 && !guardedByReturn; i-- {
					blk, isBlk := stack[i].(*ast.BlockStmt)
					if !isBlk {
						continue
					}
					for _, st := range blk.List {
						if st.End() > as.Pos() {
							break
						}
						is, isIf := st.(*ast.IfStmt)
						if !isIf || is.Else != nil || is.Init != nil {
							continue
						}
						if kind, exits := endsWithExit(is.Body); !exits || kind != "return" {
							continue
						}
						exact := true
						for _, ln := range []int64{0, 1, 2} {
							v, decided := lenCondAt(info, is.Cond, exprString(sel), ln)
							if !decided || v != (ln != 0) {
								exact = false
							}
						}
						if exact {
							guardedByReturn = true
						}
					}
				}
				if guardedByReturn {
					run.Oblige(true)
					continue
				}
				for i := len(stack) - 2; i >= 0; i-- {
					is, isIf := stack[i].(*ast.IfStmt)
					if !isIf {
						continue
					}
					// the assignment must be in the then-branch
					if as.Pos() < is.Body.Pos() || as.End() > is.Body.End() {
						why = "the configured " + field + " are replaced in the else-branch of `" + exprString(is.Cond) + "`"
						break
					}
					be, isBin := ast.Unparen(is.Cond).(*ast.BinaryExpr)
					if !isBin {
						why = "the condition `" + exprString(is.Cond) + "` is not a test of the number of " + field + " (undecided, fails closed)"
						break
					}
					lenOf := func(e ast.Expr) bool {
						call, ok := ast.Unparen(e).(*ast.CallExpr)
						if !ok || len(call.Args) != 1 {
							return false
						}
						id, ok := call.Fun.(*ast.Ident)
						if !ok || id.Name != "len" {
							return false
						}
						s2, ok := ast.Unparen(call.Args[0]).(*ast.SelectorExpr)
						return ok && s2.Sel.Name == field
					}
					var k int64
					op := be.Op
					switch {
					case lenOf(be.X):
						v, isC := constInt(info, be.Y)
						if !isC {
							why = "undecided condition `" + exprString(is.Cond) + "` (fails closed)"
						}
						k = v
					case lenOf(be.Y):
						v, isC := constInt(info, be.X)
						if !isC {
							why = "undecided condition `" + exprString(is.Cond) + "` (fails closed)"
						}
						k = v
						// k op len  ==  len op' k
						op = map[token.Token]token.Token{token.LSS: token.GTR, token.GTR: token.LSS, token.LEQ: token.GEQ, token.GEQ: token.LEQ, token.EQL: token.EQL, token.NEQ: token.NEQ}[op]
					default:
						why = "the condition `" + exprString(is.Cond) + "` is not a test of the number of " + field + " (undecided, fails closed)"
					}
					if strings.HasPrefix(why, "the configured") {
						good := true
						for _, ln := range []int64{0, 1, 2} {
							var v bool
							switch op {
							case token.EQL:
								v = ln == k
							case token.NEQ:
								v = ln != k
							case token.LSS:
								v = ln < k
							case token.LEQ:
								v = ln <= k
							case token.GTR:
								v = ln > k
							case token.GEQ:
								v = ln >= k
							}
							if v != (ln == 0) {
								good = false
							}
						}
						if good {
							why = ""
						} else {
							why = "the configured " + field + " are replaced under `" + exprString(is.Cond) + "`, which is not \"none were configured\""
						}
					}
					break
				}
				run.Oblige(why == "")
				if why != "" {
					c.violate(rule, site, "default "+field, as.Pos(), why+": what the caller asked for is not what is processed")
				}
			}
			return true
		})
	}
	run.Count("default_"+strings.ToLower(field), n)
}

// lenCondAt evaluates a condition made of comparisons of len(base) with constants (joined by
// && and ||) for the length ln; decided=false when it contains anything else.
func lenCondAt(info *types.Info, cond ast.Expr, base string, ln int64) (bool, bool) {
	cond = ast.Unparen(cond)
	be, ok := cond.(*ast.BinaryExpr)
	if !ok {
		if u, isU := cond.(*ast.UnaryExpr); isU && u.Op == token.NOT {
			v, d := lenCondAt(info, u.X, base, ln)
			return !v, d
		}
		return false, false
	}
	if be.Op == token.LAND || be.Op == token.LOR {
		l, d1 := lenCondAt(info, be.X, base, ln)
		r, d2 := lenCondAt(info, be.Y, base, ln)
		if !d1 || !d2 {
			return false, false
		}
		if be.Op == token.LAND {
			return l && r, true
		}
		return l || r, true
	}
	isLen := func(e ast.Expr) bool {
		call, ok := ast.Unparen(e).(*ast.CallExpr)
		if !ok || len(call.Args) != 1 {
			return false
		}
		id, ok := call.Fun.(*ast.Ident)
		return ok && id.Name == "len" && types.ExprString(call.Args[0]) == base
	}
	var l, r int64
	switch {
	case isLen(be.X):
		k, isC := constInt(info, be.Y)
		if !isC {
			return false, false
		}
		l, r = ln, k
	case isLen(be.Y):
		k, isC := constInt(info, be.X)
		if !isC {
			return false, false
		}
		l, r = k, ln
	default:
		return false, false
	}
	switch be.Op {
	case token.EQL:
		return l == r, true
	case token.NEQ:
		return l != r, true
	case token.LSS:
		return l < r, true
	case token.LEQ:
		return l <= r, true
	case token.GTR:
		return l > r, true
	case token.GEQ:
		return l >= r, true
	}
	return false, false
}

// callersGuard: site indexes a parameter of the unexported function fd with a constant; true when
// the package calls fd at least once and every call is preceded, in its own function, by a
// statement that leaves when the argument's length does not exceed the index.
func (c *Ctx) callersGuard(pk *packages.Package, fd *ast.FuncDecl, site indexSite) bool {
	info := pk.TypesInfo
	// the indexed parameter and the constant index, from the site text "p[k]"
	open := strings.LastIndex(site.text, "[")
	if open < 0 || !strings.HasSuffix(site.text, "]") {
		return false
	}
	pname := site.text[:open]
	k, err := strconv.ParseInt(site.text[open+1:len(site.text)-1], 10, 64)
	if err != nil || k < 0 {
		return false
	}
	pidx := -1
	i := 0
	for _, f := range fd.Type.Params.List {
		for _, nm := range f.Names {
			if nm.Name == pname {
				pidx = i
			}
			i++
		}
	}
	if pidx < 0 {
		return false
	}
	fobj := info.Defs[fd.Name]
	calls, guarded := 0, 0
	for _, f := range pk.Syntax {
		for _, d := range f.Decls {
			caller, ok := d.(*ast.FuncDecl)
			if !ok || caller.Body == nil {
				continue
			}
			var stack []ast.Node
			ast.Inspect(caller.Body, func(n ast.Node) bool {
				if n == nil {
					stack = stack[:len(stack)-1]
					return true
				}
				stack = append(stack, n)
				call, isCall := n.(*ast.CallExpr)
				if !isCall || pidx >= len(call.Args) {
					return true
				}
				if fn := callee(info, call); fn == nil || fn.Origin() != fobj {
					return true
				}
				calls++
				base := types.ExprString(call.Args[pidx])
				ok := false
				for i := len(stack) - 1; i >= 0 && !ok; i-- {
					blk, isB := stack[i].(*ast.BlockStmt)
					if !isB {
						continue
					}
					for _, st := range blk.List {
						if st.End() > call.Pos() {
							break
						}
						is, isIf := st.(*ast.IfStmt)
						if !isIf || len(is.Body.List) == 0 {
							continue
						}
						switch is.Body.List[len(is.Body.List)-1].(type) {
						case *ast.ReturnStmt, *ast.BranchStmt:
						default:
							continue
						}
						all := true
						for ln := int64(0); ln <= k; ln++ {
							if v, dec := lenCondAt(info, is.Cond, base, ln); !dec || !v {
								all = false
							}
						}
						if all {
							ok = true
						}
					}
				}
				if ok {
					guarded++
				}
				return true
			})
		}
	}
	return calls > 0 && calls == guarded
}

// countTransactionsSpec: the number of transactions the HTML report prints counts every action
// that is not Hold (the actions it is given are the raw recommendations).
var countTransactionsSpec = stepSpec{Site: "strategy.CountTransactions", Callee: "Map", Rule: "backtest/result",
	Params: []string{"action"}, State: []string{"transactions"},
	Hint: map[string]string{"transactions": "transactions"},
	Enum: map[string][]string{"action": {"Buy", "Hold", "Sell"}},
	Updates: map[string]string{
		"transactions": "ite(action != Hold, transactions + 1, transactions)",
	},
	Out: "ite(action != Hold, transactions + 1, transactions)",
	Doc: "CountTransactions = the running number of actions other than Hold"}

// tiingoStartDate: the source of a sync run is asked for "everything since the start date" (C12).
// For the Tiingo repository that date travels as the startDate parameter of the request, which
// the service reads as an ISO 8601 calendar date (year-month-day; frozen from the API's
// documentation, as the comment of GetSince's URL states). Every layout with which GetSince (or
// an unexported helper of it) formats a time.Time must therefore render 2023-11-28 as
// "2023-11-28": a layout with day and month exchanged asks for another day, silently.
func (c *Ctx) tiingoStartDate() {
	run := c.Run
	run.Explanation += " The start date reaches the Tiingo service through a layout that renders year-month-day."
	fi := c.fn("asset", "TiingoRepository", "GetSince")
	if fi == nil {
		return
	}
	base := time.Date(2023, time.November, 28, 7, 14, 9, 0, time.UTC)
	n := 0
	for _, m := range c.family(fi) {
		if m.Decl.Body == nil {
			continue
		}
		info := m.Pkg.TypesInfo
		ast.Inspect(m.Decl.Body, func(nd ast.Node) bool {
			call, ok := nd.(*ast.CallExpr)
			if !ok || len(call.Args) != 1 {
				return true
			}
			sel, isSel := call.Fun.(*ast.SelectorExpr)
			if !isSel || sel.Sel.Name != "Format" {
				return true
			}
			t := info.TypeOf(sel.X)
			if t == nil || t.String() != "time.Time" {
				return true
			}
			n++
			tv, has := info.Types[call.Args[0]]
			good, got := false, "a layout that is not a constant"
			if has && tv.Value != nil && tv.Value.Kind() == constant.String {
				got = base.Format(constant.StringVal(tv.Value))
				good = got == "2023-11-28"
			}
			run.Oblige(good)
			if !good {
				c.violate("sync/source-date", "asset.(*TiingoRepository).GetSince", "layout "+short(exprString(call.Args[0]), 30), call.Pos(),
					fmt.Sprintf("the date asked of the service is formatted as %s for 2023-11-28: the startDate parameter is a year-month-day date, so the source is asked for another day than the one Sync computed", got))
			}
			return true
		})
	}
	run.Count("tiingo_date_layouts", n)
	run.Floor("tiingo_date_layouts", 1)
}

// writeConsumes: the worker hands Write three streams fed by one Duplicate and one
// ComputeWithOutcome; a stream that Write leaves unread blocks its producer, and with it the
// other two, so the result is never delivered. Rule (go/cfg, may-analysis): in the Write method
// of every implementation of backtest.Report no way from the entry to a return avoids a mention
// of each channel parameter (a call it is handed to, a goroutine that drains it, a receive).
func (c *Ctx) writeConsumes() {
	run := c.Run
	run.Explanation += " Every stream handed to a report's Write is taken up (passed on, drained or received from) on every way through Write."
	n := 0
	for _, nm := range c.implementers("backtest", "Report") {
		fi := c.methodDecl(nm, "Write")
		if fi == nil || fi.Decl.Body == nil || fi.Decl.Type.Params == nil {
			continue
		}
		info := fi.Pkg.TypesInfo
		site := "backtest.(" + nm.Obj().Name() + ").Write"
		for _, fl := range fi.Decl.Type.Params.List {
			for _, name := range fl.Names {
				obj := info.ObjectOf(name)
				if obj == nil {
					continue
				}
				if _, isChan := obj.Type().Underlying().(*types.Chan); !isChan {
					continue
				}
				n++
				mentions := func(nd ast.Node) bool {
					id, ok := nd.(*ast.Ident)
					return ok && info.Uses[id] == obj
				}
				// a go statement or a deferred literal that mentions the stream takes it up
				event := func(nd ast.Node) bool {
					if mentions(nd) {
						return true
					}
					if g, isGo := nd.(*ast.GoStmt); isGo {
						found := false
						ast.Inspect(g, func(m ast.Node) bool {
							if m != nil && mentions(m) {
								found = true
							}
							return !found
						})
						return found
					}
					return false
				}
				exits := exitsWithout(fi.Decl.Body, nil, event, func(*ast.ReturnStmt) bool { return false })
				run.Oblige(len(exits) == 0)
				if len(exits) > 0 {
					c.violate("backtest/write-consumes", site, "stream "+name.Name, exits[0], "Write can return without having taken up the stream "+name.Name+": the stage that feeds it blocks, and with it the streams computed from the same snapshots - the result of this pair is never delivered")
				}
			}
		}
	}
	run.Count("write_streams", n)
	run.Floor("write_streams", 6)
}

// tiingoFields: what Sync copies from a Tiingo source is what ToSnapshot makes of a record. Every
// field of the snapshot is filled from the record's field of the same role - Date from Date, and
// Open/High/Low/Close/Volume from the field of that name or its adjusted twin (Adj<Name>), all
// five from the same family. (Low filled from AdjHigh passes every test of the suite.)
func (c *Ctx) tiingoFields() {
	run := c.Run
	run.Explanation += " The snapshot made of a Tiingo record takes every field from the record's field of the same role (one family: raw or adjusted)."
	fi := c.fn("asset", "TiingoEndOfDay", "ToSnapshot")
	if fi == nil || fi.Decl.Body == nil {
		return
	}
	site := "asset.(*TiingoEndOfDay).ToSnapshot"
	root := c.ssaFunc(fi)
	if root == nil {
		return
	}
	// ToSnapshot and the unexported functions of the package it calls
	fns := []*ssa.Function{root}
	seen := map[*ssa.Function]bool{root: true}
	for i := 0; i < len(fns) && i < 8; i++ {
		for _, b := range fns[i].Blocks {
			for _, in := range b.Instrs {
				if call, ok := in.(*ssa.Call); ok {
					if sc := call.Call.StaticCallee(); sc != nil && !seen[sc] && sc.Pkg == root.Pkg && len(sc.Blocks) > 0 && !ast.IsExported(sc.Name()) {
						seen[sc] = true
						fns = append(fns, sc)
					}
				}
			}
		}
	}
	structName := func(t types.Type) string {
		if p, ok := t.Underlying().(*types.Pointer); ok {
			if nm, ok := p.Elem().(*types.Named); ok {
				return nm.Obj().Name()
			}
		}
		return ""
	}
	fieldOf := func(fa *ssa.FieldAddr) string {
		p, _ := fa.X.Type().Underlying().(*types.Pointer)
		if p == nil {
			return ""
		}
		st, _ := p.Elem().Underlying().(*types.Struct)
		if st == nil || fa.Field >= st.NumFields() {
			return ""
		}
		return st.Field(fa.Field).Name()
	}
	from := map[string][]string{} // snapshot field -> record fields stored into it ("?" when not a record field)
	pos := map[string]token.Pos{}
	for _, fn := range fns {
		for _, b := range fn.Blocks {
			for _, in := range b.Instrs {
				st, ok := in.(*ssa.Store)
				if !ok {
					continue
				}
				fa, ok := st.Addr.(*ssa.FieldAddr)
				if !ok || structName(fa.X.Type()) != "Snapshot" {
					continue
				}
				k := fieldOf(fa)
				v := st.Val
				for {
					switch x := v.(type) {
					case *ssa.Convert:
						v = x.X
						continue
					case *ssa.ChangeType:
						v = x.X
						continue
					}
					break
				}
				src := "?"
				if u, isU := v.(*ssa.UnOp); isU && u.Op == token.MUL {
					if sfa, isFA := u.X.(*ssa.FieldAddr); isFA && structName(sfa.X.Type()) == "TiingoEndOfDay" {
						src = fieldOf(sfa)
					}
				}
				from[k] = append(from[k], src)
				if pos[k] == token.NoPos {
					pos[k] = st.Pos()
				}
			}
		}
	}
	family := ""
	keys := make([]string, 0, len(from))
	for k := range from {
		keys = append(keys, k)
	}
	sort.Strings(keys)
	for _, k := range keys {
		why := ""
		for _, src := range from[k] {
			switch {
			case src == "?":
				why = k + " is not filled from one field of the record"
			case k == "Date":
				if src != "Date" {
					why = "Date is filled from " + src
				}
			case src == k:
				if family == "adjusted" {
					why = k + " is the raw value while the other fields are adjusted"
				}
				family = "raw"
			case src == "Adj"+k:
				if family == "raw" {
					why = k + " is the adjusted value while the other fields are raw"
				}
				family = "adjusted"
			default:
				why = k + " is filled from " + src
			}
		}
		run.Oblige(why == "")
		if why != "" {
			p := pos[k]
			if p == token.NoPos {
				p = fi.Decl.Pos()
			}
			c.violate("sync/source-fields", site, "field "+k, p, "the snapshot of a Tiingo record must take every field from the record's field of the same role: "+why)
		}
	}
	run.Count("tiingo_snapshot_fields", len(keys))
	run.Floor("tiingo_snapshot_fields", 6)
}

// orderingSigns evaluates an ordering function of two results (a literal or a function of the
// package) on outcomes (0,1), (1,1), (1,0) and returns the signs of its value.
func (c *Ctx) orderingSigns(info *types.Info, bp *packages.Package, arg ast.Expr) ([3]int, string) {
	var out [3]int
	var m *dtab.Machine
	switch x := ast.Unparen(arg).(type) {
	case *ast.FuncLit:
		m = dtab.FromFuncLit(info, x)
	case *ast.Ident:
		if fn, isFn := info.Uses[x].(*types.Func); isFn {
			if d := c.P.Decls[fn.Origin()]; d != nil && d.Decl.Body != nil && d.Pkg == bp {
				m = dtab.FromFuncDecl(info, d.Decl)
			}
		}
	}
	switch {
	case m == nil:
		return out, "the ordering function is not a function literal or a function of the package (undecided, fails closed)"
	case len(m.Unsupported) > 0 || len(m.State) > 0 || len(m.Params) != 2:
		return out, "the ordering function is not a loop-free, effect-free function of its two arguments (undecided, fails closed)"
	}
	a, b := m.Params[0], m.Params[1]
	for _, r := range m.Reads {
		if r != a+".Outcome" && r != b+".Outcome" {
			return out, "the ordering function reads " + r + ": the best result is the one with the maximal outcome"
		}
	}
	for i, tc := range [][2]int64{{0, 1}, {1, 1}, {1, 0}} {
		env := map[string]sym.Expr{a + ".Outcome": sym.N(tc[0]), b + ".Outcome": sym.N(tc[1])}
		ps, ok := m.Select(env, numOracle)
		if !ok || len(ps) != 1 || len(ps[0].Ret) != 1 {
			return out, "the value of the ordering function is undecided (fails closed)"
		}
		v, okv := evalRat(ps[0].Ret[0], env)
		if !okv {
			return out, "the value of the ordering function is undecided (fails closed)"
		}
		out[i] = v.Sign()
	}
	return out, ""
}
