package rules

import (
	"go/ast"
	"go/constant"
	"go/token"
	"go/types"
	"strings"
	"verif/checker/internal/load"

	"golang.org/x/tools/go/cfg"
	"golang.org/x/tools/go/ssa"
)

// beginAnnouncesResolved (C13, backtest/begin-arguments): the begin notification carries the lists
// the run will cover. On the control-flow graph of Backtest.Run: no assignment to the receiver's
// Names or Strategies field (the two defaulting steps) is reachable from the call of report.Begin.
// A Begin issued in front of a defaulting step announces the unresolved (empty) list while
// AssetBegin/Write/AssetEnd are issued for the resolved one.
func (c *Ctx) beginAnnouncesResolved() {
	fi := c.fn("backtest", "Backtest", "Run")
	if fi == nil || fi.Decl.Body == nil {
		return
	}
	info := fi.Pkg.TypesInfo
	isBegin := func(n ast.Node) bool {
		call, ok := n.(*ast.CallExpr)
		if !ok {
			return false
		}
		f := callee(info, call)
		if f == nil {
			return false
		}
		if f.Name() == "Begin" && f.Type().(*types.Signature).Recv() != nil {
			return true
		}
		// an unexported helper of the package that issues the Begin call itself
		if h := c.P.Info(f); h != nil && h.Pkg == fi.Pkg && h.Decl.Body != nil && !ast.IsExported(f.Name()) {
			found := false
			ast.Inspect(h.Decl.Body, func(m ast.Node) bool {
				if hc, ok := m.(*ast.CallExpr); ok {
					if hf := callee(info, hc); hf != nil && hf.Name() == "Begin" && hf.Type().(*types.Signature).Recv() != nil {
						found = true
					}
				}
				return !found
			})
			return found
		}
		return false
	}
	contains := func(n ast.Node, pred func(ast.Node) bool) bool {
		found := false
		ast.Inspect(n, func(m ast.Node) bool {
			if m == nil || found {
				return false
			}
			if _, isLit := m.(*ast.FuncLit); isLit {
				return false
			}
			if pred(m) {
				found = true
			}
			return true
		})
		return found
	}
	var storePos token.Pos
	storeName := ""
	isStore := func(n ast.Node) bool {
		as, ok := n.(*ast.AssignStmt)
		if !ok {
			return false
		}
		for _, l := range as.Lhs {
			sel, ok := l.(*ast.SelectorExpr)
			if !ok || (sel.Sel.Name != "Names" && sel.Sel.Name != "Strategies") {
				continue
			}
			t := info.TypeOf(sel.X)
			if t == nil {
				continue
			}
			if p, isP := t.(*types.Pointer); isP {
				t = p.Elem()
			}
			if nm, isN := t.(*types.Named); isN && nm.Obj().Name() == "Backtest" {
				storePos, storeName = as.Pos(), sel.Sel.Name
				return true
			}
		}
		return false
	}
	g := cfg.New(fi.Decl.Body, func(*ast.CallExpr) bool { return true })
	begins, stores := 0, 0
	bad := false
	for _, b := range g.Blocks {
		for i, n := range b.Nodes {
			if contains(n, isStore) {
				stores++
			}
			if !contains(n, isBegin) {
				continue
			}
			begins++
			// forward reachability from the node after the Begin call
			seen := map[*cfg.Block]bool{}
			var walk func(bl *cfg.Block, from int)
			walk = func(bl *cfg.Block, from int) {
				for _, m := range bl.Nodes[from:] {
					if contains(m, isStore) {
						bad = true
					}
				}
				for _, s := range bl.Succs {
					if !seen[s] {
						seen[s] = true
						walk(s, 0)
					}
				}
			}
			walk(b, i+1)
		}
	}
	c.Run.Count("begin_calls", begins)
	if begins == 0 {
		c.violate("backtest/begin-arguments", "backtest.(*Backtest).Run", "no-begin", fi.Decl.Pos(), "Run no longer calls the report's Begin itself (undecided, fails closed)")
		return
	}
	_ = stores
	c.Run.Oblige(!bad)
	if bad {
		c.violate("backtest/begin-arguments", "backtest.(*Backtest).Run", storeName, storePos,
			"the list "+storeName+" is (re)assigned on a path after report.Begin was called: Begin announces the unresolved list (empty when the default applies) while the per-asset notifications cover the resolved one")
	}
}

// stringCellsVerbatim (C11, codec-agreement/string-verbatim): the writer hands a string field to
// encoding/csv unchanged (which quotes it as needed), so the reader must store the cell unchanged:
// on the SSA form of helper.setReflectValue every (reflect.Value).SetString call receives the
// function's own cell parameter, not a value computed from it (trimmed, case-folded, unquoted …).
func (c *Ctx) stringCellsVerbatim() {
	fi := c.fn("helper", "", "setReflectValue")
	if fi == nil {
		return
	}
	fn := c.ssaFunc(fi)
	if fn == nil {
		c.violate("codec-agreement/string-verbatim", "helper.setReflectValue", "no-ssa", fi.Decl.Pos(), "no SSA form (undecided, fails closed)")
		return
	}
	n := 0
	var visit func(f *ssa.Function, cell func(ssa.Value) bool, depth int)
	visit = func(f *ssa.Function, cell func(ssa.Value) bool, depth int) {
		for _, b := range f.Blocks {
			for _, in := range b.Instrs {
				call, ok := in.(ssa.CallInstruction)
				if !ok {
					continue
				}
				com := call.Common()
				cal := com.StaticCallee()
				if cal == nil {
					continue
				}
				if cal.Name() == "SetString" && cal.Pkg != nil && cal.Pkg.Pkg.Path() == "reflect" && len(com.Args) == 2 {
					n++
					good := cell(com.Args[1])
					c.Run.Oblige(good)
					if !good {
						c.violate("codec-agreement/string-verbatim", "helper."+f.Name(), "SetString", in.Pos(),
							"a string cell is not stored as read: SetString receives "+com.Args[1].String()+" ("+com.Args[1].Name()+") instead of the cell itself, so a string the writer emitted (quoted as needed) is read back changed")
					}
					continue
				}
				// unexported helpers of the package that receive the cell
				if depth < 2 && cal.Pkg == fn.Pkg && cal.Blocks != nil && !ast.IsExported(cal.Name()) {
					for i, a := range com.Args {
						if i < len(cal.Params) && cell(a) && types.Identical(a.Type().Underlying(), types.Typ[types.String]) {
							p := cal.Params[i]
							visit(cal, func(v ssa.Value) bool { return v == ssa.Value(p) }, depth+1)
						}
					}
				}
			}
		}
	}
	var cellParam *ssa.Parameter
	for _, p := range fn.Params {
		if types.Identical(p.Type(), types.Typ[types.String]) {
			cellParam = p
			break
		}
	}
	if cellParam == nil {
		c.violate("codec-agreement/string-verbatim", "helper.setReflectValue", "no-cell", fi.Decl.Pos(), "no string parameter carries the cell (undecided, fails closed)")
		return
	}
	visit(fn, func(v ssa.Value) bool { return v == ssa.Value(cellParam) }, 0)
	c.Run.Count("setstring_calls", n)
	if n == 0 {
		c.violate("codec-agreement/string-verbatim", "helper.setReflectValue", "no-setstring", fi.Decl.Pos(), "no SetString call found behind setReflectValue (undecided, fails closed)")
	}
}

// csvStrictness (C19, reader/csv-strictness): a data row whose field count differs from the first
// row's is malformed, and the reader ends its stream there (encoding/csv reports ErrFieldCount
// while FieldsPerRecord is 0; bad quoting is an error while LazyQuotes is false). Every assignment
// to those two options of a csv.Reader in the non-test sources keeps the strict value.
func (c *Ctx) csvStrictness() {
	n, readers := 0, 0
	for _, pk := range c.P.Pkgs {
		info := pk.TypesInfo
		if info == nil {
			continue
		}
		for _, f := range pk.Syntax {
			if strings.HasSuffix(c.P.Fset.Position(f.Pos()).Filename, "_test.go") {
				continue
			}
			ast.Inspect(f, func(nd ast.Node) bool {
				if call, ok := nd.(*ast.CallExpr); ok {
					if fo := callee(info, call); fo != nil && fo.Pkg() != nil && fo.Pkg().Path() == "encoding/csv" && fo.Name() == "NewReader" {
						readers++
					}
				}
				as, ok := nd.(*ast.AssignStmt)
				if !ok {
					return true
				}
				for i, l := range as.Lhs {
					sel, ok := l.(*ast.SelectorExpr)
					if !ok || (sel.Sel.Name != "FieldsPerRecord" && sel.Sel.Name != "LazyQuotes") {
						continue
					}
					t := info.TypeOf(sel.X)
					if t == nil || !strings.HasSuffix(strings.TrimPrefix(t.String(), "*"), "encoding/csv.Reader") {
						continue
					}
					n++
					strict := false
					if i < len(as.Rhs) && as.Tok == token.ASSIGN {
						if tv, ok := info.Types[as.Rhs[i]]; ok && tv.Value != nil {
							switch tv.Value.Kind() {
							case constant.Int:
								v, exact := constant.Int64Val(tv.Value)
								strict = exact && v == 0
							case constant.Bool:
								strict = !constant.BoolVal(tv.Value)
							}
						}
					}
					c.Run.Oblige(strict)
					if !strict {
						c.violate("reader/csv-strictness", pk.Name, sel.Sel.Name, as.Pos(),
							"the CSV reader's "+sel.Sel.Name+" is set to a non-strict value: a malformed row (wrong field count / bad quoting) is then delivered together with the rows after it instead of ending the stream after the well-formed prefix")
					}
				}
				return true
			})
		}
	}
	c.Run.Count("csv_readers", readers)
	c.Run.Count("csv_strictness_assignments", n)
	c.Run.Oblige(readers >= 1)
	if readers == 0 {
		c.Run.Break("reader/csv-strictness: no encoding/csv.NewReader call found in the module (the rule has nothing to decide; fails closed)")
	}
}

// assetEntryReleased (C13, backtest/asset-entry): HTMLReport keeps one entry per begun asset and
// AssetBegin refuses a name that still has one. On the control-flow graph of HTMLReport.AssetEnd:
// every exit passes through delete(<the map the entry was looked up in>, name), except the exit
// inside the branch taken when the lookup found no entry. An exit that leaves the entry behind
// (e.g. the "no results" exit taken before the delete) makes every later AssetBegin for that name
// fail, so a later run on the same report delivers no result for the asset.
func (c *Ctx) assetEntryReleased() {
	top := c.fn("backtest", "HTMLReport", "AssetEnd")
	if top == nil || top.Decl.Body == nil {
		return
	}
	if c.assetEntryReleasedIn(top, top) {
		return
	}
	// the lookup-and-release may live in one unexported helper of the package
	info := top.Pkg.TypesInfo
	done := false
	ast.Inspect(top.Decl.Body, func(n ast.Node) bool {
		call, ok := n.(*ast.CallExpr)
		if !ok || done {
			return !done
		}
		f := callee(info, call)
		if f == nil || ast.IsExported(f.Name()) {
			return true
		}
		if h := c.P.Info(f); h != nil && h.Pkg == top.Pkg && h.Decl.Body != nil {
			done = c.assetEntryReleasedIn(h, top)
		}
		return !done
	})
	if !done {
		c.violate("backtest/asset-entry", "backtest.(*HTMLReport).AssetEnd", "no-lookup", top.Decl.Pos(), "AssetEnd no longer looks its asset up in a map field with the two-value form, itself or in an unexported helper (undecided, fails closed)")
	}
}

// assetEntryReleasedIn decides the rule on fi's body when the two-value lookup is there.
func (c *Ctx) assetEntryReleasedIn(fi, top *load.FuncInfo) bool {
	info := fi.Pkg.TypesInfo
	// the lookup `v, ok := h.<map>[name]`
	var okObj types.Object
	var mapField types.Object
	ast.Inspect(fi.Decl.Body, func(n ast.Node) bool {
		as, ok := n.(*ast.AssignStmt)
		if !ok || len(as.Lhs) != 2 || len(as.Rhs) != 1 || okObj != nil {
			return true
		}
		ix, ok := ast.Unparen(as.Rhs[0]).(*ast.IndexExpr)
		if !ok {
			return true
		}
		if _, isMap := info.TypeOf(ix.X).Underlying().(*types.Map); !isMap {
			return true
		}
		sel, ok := ast.Unparen(ix.X).(*ast.SelectorExpr)
		if !ok {
			return true
		}
		if id, ok := as.Lhs[1].(*ast.Ident); ok {
			okObj = info.ObjectOf(id)
			mapField = info.ObjectOf(sel.Sel)
		}
		return true
	})
	if okObj == nil || mapField == nil {
		return false
	}
	isDelete := func(n ast.Node) bool {
		call, ok := n.(*ast.CallExpr)
		if !ok || len(call.Args) != 2 {
			return false
		}
		id, ok := call.Fun.(*ast.Ident)
		if !ok {
			return false
		}
		if b, isB := info.Uses[id].(*types.Builtin); !isB || b.Name() != "delete" {
			return false
		}
		sel, ok := ast.Unparen(call.Args[0]).(*ast.SelectorExpr)
		return ok && info.ObjectOf(sel.Sel) == mapField
	}
	// returns inside `if !ok { … }`
	notFound := map[*ast.ReturnStmt]bool{}
	ast.Inspect(fi.Decl.Body, func(n ast.Node) bool {
		ifs, ok := n.(*ast.IfStmt)
		if !ok {
			return true
		}
		un, ok := ast.Unparen(ifs.Cond).(*ast.UnaryExpr)
		if !ok || un.Op != token.NOT {
			return true
		}
		if id, ok := ast.Unparen(un.X).(*ast.Ident); ok && info.ObjectOf(id) == okObj {
			ast.Inspect(ifs.Body, func(m ast.Node) bool {
				if r, ok := m.(*ast.ReturnStmt); ok {
					notFound[r] = true
				}
				return true
			})
		}
		return true
	})
	// `if ok { … delete … }`: when the entry exists (the only case in which there is one to
	// release) the branch is taken, so the test itself counts as the release
	guarded := map[ast.Node]bool{}
	ast.Inspect(fi.Decl.Body, func(n ast.Node) bool {
		ifs, ok := n.(*ast.IfStmt)
		if !ok {
			return true
		}
		if id, ok := ast.Unparen(ifs.Cond).(*ast.Ident); ok && info.ObjectOf(id) == okObj {
			has := false
			ast.Inspect(ifs.Body, func(m ast.Node) bool {
				if m != nil && isDelete(m) {
					has = true
				}
				return !has
			})
			if has {
				guarded[ast.Unparen(ifs.Cond)] = true
			}
		}
		return true
	})
	event := func(n ast.Node) bool { return isDelete(n) || guarded[n] }
	bad := exitsWithout(fi.Decl.Body, nil, event, func(r *ast.ReturnStmt) bool { return notFound[r] })
	c.Run.Count("asset_end_not_found_exits", len(notFound))
	c.Run.Oblige(len(bad) == 0)
	for _, p := range bad {
		c.violate("backtest/asset-entry", "backtest.(*HTMLReport).AssetEnd", "exit without delete", p,
			"this exit of AssetEnd leaves the asset's entry in "+mapField.Name()+": AssetBegin refuses a name that still has an entry, so the asset gets no result in any later run on the same report")
		break
	}
	return true
}
