// Package rules turns the summaries of the shape calculus and the structural
// lints into obligations per property.
package rules

import (
	"fmt"
	"go/ast"
	"go/parser"
	"go/token"
	"go/types"
	"os"
	"sort"
	"strconv"
	"strings"

	"verif/checker/internal/dtab"
	"verif/checker/internal/lin"
	"verif/checker/internal/load"
	"verif/checker/internal/modsum"
	"verif/checker/internal/report"
	"verif/checker/internal/shape"
)

type Ctx struct {
	P     *load.Program
	Tier  string
	Run   *report.Run
	cache map[string][]*shape.Result
	ms    *modsum.Analysis
}

func NewCtx(p *load.Program, tier string, run *report.Run) *Ctx {
	declResolver = func(fn *types.Func) *load.FuncInfo { return p.Decls[fn] }
	goInfo = func(id *ast.Ident) types.Object {
		for _, pk := range p.Pkgs {
			if o := pk.TypesInfo.Uses[id]; o != nil {
				return o
			}
		}
		return nil
	}
	dtab.Resolver = func(fn *types.Func) (*ast.FuncDecl, *types.Info) {
		if fi := p.Decls[fn]; fi != nil {
			return fi.Decl, fi.Pkg.TypesInfo
		}
		return nil, nil
	}
	tables := readOnlyTables(p)
	dtab.ConstTable = func(obj types.Object) (*ast.CompositeLit, *types.Info) {
		if t, ok := tables[obj]; ok {
			return t.lit, t.info
		}
		return nil, nil
	}
	readOnlyTable = func(obj types.Object) bool { _, ok := tables[obj]; return ok }
	return &Ctx{P: p, Tier: tier, Run: run, cache: map[string][]*shape.Result{}}
}

type Opts struct {
	Mode         shape.Mode
	DistinctLens bool
	ParamDomain  map[string]int64
	// SkipGamma names types whose Γ ordering assumption is not needed by the calling rule and is
	// therefore not used (an assumption hides every violation outside it)
	SkipGamma map[string]bool
}

func (c *Ctx) Results(fi *load.FuncInfo, o Opts) []*shape.Result {
	key := fmt.Sprintf("%s|%d|%v|%v|%v", load.FuncName(fi.Fn), o.Mode, o.DistinctLens, o.ParamDomain, o.SkipGamma)
	if r, ok := c.cache[key]; ok {
		return r
	}
	it := shape.NewInterp(c.P, o.Mode)
	it.DistinctLens = o.DistinctLens
	it.ParamDomain = o.ParamDomain
	it.SkipGamma = o.SkipGamma
	rs := it.AnalyzeRoot(fi)
	c.cache[key] = rs
	return rs
}

var indicatorPkgs = []string{"trend", "momentum", "volatility", "volume"}

// IndicatorComputes lists the Compute methods of the four indicator packages.
func IndicatorComputes(p *load.Program) []*load.FuncInfo {
	var out []*load.FuncInfo
	for _, fi := range p.Decls {
		if fi.Fn.Name() != "Compute" || fi.Decl.Recv == nil {
			continue
		}
		rel := load.RelPkg(fi.Pkg.PkgPath)
		for _, ip := range indicatorPkgs {
			if rel == ip {
				out = append(out, fi)
			}
		}
	}
	sortFuncs(out)
	return out
}

// StrategyMethods lists methods with the given name on types implementing strategy.Strategy.
func StrategyMethods(p *load.Program, name string) []*load.FuncInfo {
	var out []*load.FuncInfo
	spk := p.Pkg("strategy")
	if spk == nil {
		return nil
	}
	tn, _ := spk.Types.Scope().Lookup("Strategy").(*types.TypeName)
	if tn == nil {
		return nil
	}
	iface, _ := tn.Type().Underlying().(*types.Interface)
	if iface == nil {
		return nil
	}
	for _, fi := range p.Decls {
		if fi.Fn.Name() != name || fi.Decl.Recv == nil {
			continue
		}
		if !strings.HasPrefix(load.RelPkg(fi.Pkg.PkgPath), "strategy") {
			continue
		}
		sig := fi.Fn.Type().(*types.Signature)
		rt := sig.Recv().Type()
		if _, ok := rt.(*types.Pointer); !ok {
			rt = types.NewPointer(rt)
		}
		if types.Implements(rt, iface) {
			out = append(out, fi)
		}
	}
	sortFuncs(out)
	return out
}

func sortFuncs(fs []*load.FuncInfo) {
	sort.Slice(fs, func(i, j int) bool { return load.FuncName(fs[i].Fn) < load.FuncName(fs[j].Fn) })
}

// ---------------------------------------------------------------------------
// Specification expressions: a tiny language over symbols, + - *, max, min, pos.

// ParseSpec parses e.g. "max(0, n_c - count)"; symbols are mapped through sym.
func ParseSpec(src string, sym func(name string) *lin.Expr) (*lin.Expr, error) {
	e, err := parser.ParseExpr(src)
	if err != nil {
		return nil, err
	}
	return specExpr(e, sym)
}

func specExpr(e ast.Expr, sym func(string) *lin.Expr) (*lin.Expr, error) {
	switch x := e.(type) {
	case *ast.ParenExpr:
		return specExpr(x.X, sym)
	case *ast.BasicLit:
		n, err := strconv.ParseInt(x.Value, 10, 64)
		if err != nil {
			return nil, err
		}
		return lin.C(n), nil
	case *ast.Ident:
		v := sym(x.Name)
		if v == nil {
			return nil, fmt.Errorf("unknown symbol %s", x.Name)
		}
		return v, nil
	case *ast.UnaryExpr:
		if x.Op == token.SUB {
			v, err := specExpr(x.X, sym)
			if err != nil {
				return nil, err
			}
			return lin.Neg(v), nil
		}
	case *ast.BinaryExpr:
		l, err := specExpr(x.X, sym)
		if err != nil {
			return nil, err
		}
		r, err := specExpr(x.Y, sym)
		if err != nil {
			return nil, err
		}
		switch x.Op {
		case token.ADD:
			return lin.Add(l, r), nil
		case token.SUB:
			return lin.Sub(l, r), nil
		case token.MUL:
			if l.IsLin() && l.T.IsConst() {
				return lin.Scale(r, l.T.C), nil
			}
			if r.IsLin() && r.T.IsConst() {
				return lin.Scale(l, r.T.C), nil
			}
		}
	case *ast.CallExpr:
		fn, _ := x.Fun.(*ast.Ident)
		if fn == nil {
			break
		}
		var args []*lin.Expr
		for _, a := range x.Args {
			v, err := specExpr(a, sym)
			if err != nil {
				return nil, err
			}
			args = append(args, v)
		}
		switch fn.Name {
		case "max", "min":
			if len(args) == 0 {
				break
			}
			r := args[0]
			for _, a := range args[1:] {
				if fn.Name == "max" {
					r = lin.Max(r, a)
				} else {
					r = lin.Min(r, a)
				}
			}
			return r, nil
		case "pos":
			if len(args) == 1 {
				return lin.Pos(args[0]), nil
			}
		}
	}
	return nil, fmt.Errorf("unsupported spec expression %s", types.ExprString(e))
}

// ---------------------------------------------------------------------------
// Decisions with witnesses.

// symsOf collects the symbols of expressions and a context.
func symsOf(g *lin.Ctx, es ...*lin.Expr) []lin.Sym {
	m := map[lin.Sym]bool{}
	for _, e := range es {
		if e != nil {
			e.Syms(m)
		}
	}
	// symbols that constrain those (one step of closure through Γ)
	for changed := true; changed; {
		changed = false
		for _, c := range g.Cs {
			touch := false
			for s := range c.M {
				if m[s] {
					touch = true
				}
			}
			if touch {
				for s := range c.M {
					if !m[s] {
						m[s] = true
						changed = true
					}
				}
			}
		}
	}
	var out []lin.Sym
	for s := range m {
		out = append(out, s)
	}
	sort.Slice(out, func(i, j int) bool { return out[i] < out[j] })
	return out
}

// Witness searches a small integer box for a configuration and length under
// which pred holds; symbols get their Γ lower bounds as the start of the range.
func Witness(g *lin.Ctx, pred func(env map[lin.Sym]int64) bool, es ...*lin.Expr) map[string]int64 {
	syms := symsOf(g, es...)
	lo := map[lin.Sym]int64{}
	hi := map[lin.Sym]int64{}
	for _, s := range syms {
		name := string(s)
		if name == "n" || strings.HasPrefix(name, "n.") {
			lo[s], hi[s] = 0, 24
		}
	}
	w := lin.FindWitness(g, syms, lo, hi, 0, 5, pred)
	if w == nil {
		return nil
	}
	out := map[string]int64{}
	for k, v := range w {
		out[string(k)] = v
	}
	return out
}

// CrossCheck (thorough tier): every proved entailment is re-examined by evaluating both sides on
// the lattice of admissible configurations (periods 0..5, n 0..24); a disagreement breaks the check.
var CrossCheck bool
var crossChecks int

// CrossChecks reports how many proved entailments were re-examined by evaluation.
func CrossChecks() int { return crossChecks }

// verdict of an entailment.
type verdict int

const (
	holds verdict = iota
	fails
	undecidedV
)

// decideEQ decides g ⊢ a = b; on failure it looks for a witness.
func decideEQ(g *lin.Ctx, a, b *lin.Expr) (verdict, map[string]int64) {
	if lin.ProveEQ(g, a, b) {
		if CrossCheck {
			crossChecks++
			if w := Witness(g, func(env map[lin.Sym]int64) bool { return a.Eval(env) != b.Eval(env) }, a, b); w != nil {
				panic(fmt.Sprintf("decision procedure inconsistent: proved %s = %s but they differ at %v", a, b, w))
			}
		}
		return holds, nil
	}
	w := Witness(g, func(env map[lin.Sym]int64) bool { return a.Eval(env) != b.Eval(env) }, a, b)
	if w != nil {
		return fails, w
	}
	return undecidedV, nil
}

// decideGE decides g ⊢ a >= b.
func decideGE(g *lin.Ctx, a, b *lin.Expr) (verdict, map[string]int64) {
	if CrossCheck && lin.ProveGE(g, a, b) {
		crossChecks++
		if w := Witness(g, func(env map[lin.Sym]int64) bool { return a.Eval(env) < b.Eval(env) }, a, b); w != nil {
			panic(fmt.Sprintf("decision procedure inconsistent: proved %s >= %s but it fails at %v", a, b, w))
		}
	}
	if lin.ProveGE(g, a, b) {
		return holds, nil
	}
	w := Witness(g, func(env map[lin.Sym]int64) bool { return a.Eval(env) < b.Eval(env) }, a, b)
	if w != nil {
		return fails, w
	}
	return undecidedV, nil
}

func evalAt(e *lin.Expr, w map[string]int64) int64 {
	env := map[lin.Sym]int64{}
	for k, v := range w {
		env[lin.Sym(k)] = v
	}
	return e.Eval(env)
}

func pathNote(r *shape.Result) string {
	if len(r.PathConds) == 0 {
		return ""
	}
	return " [case: " + strings.Join(r.PathConds, " ; ") + "]"
}

func gammaStrings(r *shape.Result) []string {
	var out []string
	for _, n := range r.Notes {
		if strings.HasPrefix(n, "Γ[") || strings.HasPrefix(n, "assumed ") {
			out = append(out, n)
		}
	}
	return out
}

// undecidedToFindings reports undecided sites of a result (fail closed).
func (c *Ctx) undecidedToFindings(r *shape.Result, rule string) {
	for _, u := range r.Undecided {
		c.Run.Oblige(false)
		c.Run.Violate(report.Finding{Rule: rule + "/undecided", Site: r.RootName, Detail: u.Why, Pos: c.P.Pos(u.Pos),
			Message: "the analysis cannot decide this construct (fails closed): " + u.Why})
	}
}

// retStreams returns the channel results of a root in order.
func retStreams(r *shape.Result) []*shape.Stream {
	return shape.StreamsOf(r.Ret)
}

func readFile(path string) ([]byte, error) { return os.ReadFile(path) }

type roTable struct {
	lit  *ast.CompositeLit
	info *types.Info
}

// readOnlyTable: obj is a package-level lookup table nothing in the module ever changes.
var readOnlyTable = func(types.Object) bool { return false }

// readOnlyTables finds the package-level variables of the module that are initialised with a
// composite literal and only ever read: every mention outside the declaration is the operand of
// an index expression that is read (not assigned, incremented or address-taken), of len, or of a
// range. Such a variable is a constant table.
func readOnlyTables(p *load.Program) map[types.Object]roTable {
	cand := map[types.Object]roTable{}
	for _, pk := range p.Pkgs {
		for _, f := range pk.Syntax {
			if strings.HasSuffix(p.Fset.Position(f.Pos()).Filename, "_test.go") {
				continue
			}
			for _, d := range f.Decls {
				gd, ok := d.(*ast.GenDecl)
				if !ok || gd.Tok != token.VAR {
					continue
				}
				for _, sp := range gd.Specs {
					vs := sp.(*ast.ValueSpec)
					if len(vs.Names) != len(vs.Values) {
						continue
					}
					for i, nm := range vs.Names {
						if lit, ok := vs.Values[i].(*ast.CompositeLit); ok {
							if obj := pk.TypesInfo.Defs[nm]; obj != nil {
								cand[obj] = roTable{lit, pk.TypesInfo}
							}
						}
					}
				}
			}
		}
	}
	if len(cand) == 0 {
		return cand
	}
	for _, pk := range p.Pkgs {
		info := pk.TypesInfo
		for _, f := range pk.Syntax {
			// test files may change a table too: they are not part of the library, but be conservative
			par := map[ast.Node]ast.Node{}
			var stack []ast.Node
			ast.Inspect(f, func(n ast.Node) bool {
				if n == nil {
					stack = stack[:len(stack)-1]
					return true
				}
				if len(stack) > 0 {
					par[n] = stack[len(stack)-1]
				}
				stack = append(stack, n)
				return true
			})
			ast.Inspect(f, func(n ast.Node) bool {
				id, ok := n.(*ast.Ident)
				if !ok {
					return true
				}
				obj := info.Uses[id]
				if _, isCand := cand[obj]; !isCand {
					return true
				}
				var node ast.Node = id
				if sel, ok := par[id].(*ast.SelectorExpr); ok && sel.Sel == id {
					node = sel // pkg.Table
				}
				okUse := false
				switch pp := par[node].(type) {
				case *ast.IndexExpr:
					if pp.X == node {
						okUse = true
						switch g := par[pp].(type) {
						case *ast.AssignStmt:
							for _, l := range g.Lhs {
								if l == ast.Expr(pp) {
									okUse = false
								}
							}
						case *ast.IncDecStmt:
							okUse = false
						case *ast.UnaryExpr:
							if g.Op == token.AND {
								okUse = false
							}
						}
					}
				case *ast.RangeStmt:
					okUse = pp.X == node
				case *ast.CallExpr:
					if fn, ok := pp.Fun.(*ast.Ident); ok && fn.Name == "len" && len(pp.Args) == 1 {
						okUse = true
					}
				}
				if !okUse {
					delete(cand, obj)
				}
				return true
			})
		}
	}
	return cand
}
