package rules

import (
	"fmt"
	"go/ast"
	"go/constant"
	"go/parser"
	"go/token"
	"go/types"
	"golang.org/x/tools/go/ssa"
	"golang.org/x/tools/go/ssa/ssautil"
	"strings"

	"golang.org/x/tools/go/packages"

	"verif/checker/internal/load"
	"verif/checker/internal/report"
	"verif/checker/internal/shape"
)

// fn looks up a function/method and breaks the check when the anchor is gone.
func (c *Ctx) fn(rel, typ, name string) *load.FuncInfo {
	var fi *load.FuncInfo
	if typ == "" {
		fi = c.P.Func(rel, name)
	} else {
		fi = c.P.Method(rel, typ, name)
	}
	if fi == nil {
		full := rel + "." + name
		if typ != "" {
			full = rel + ".(" + typ + ")." + name
		}
		c.Run.Break("anchor missing: " + full + " (renamed or removed; the rule cannot be evaluated)")
	}
	return fi
}

func (c *Ctx) pos(p token.Pos) string { return c.P.Pos(p) }

// violate is a shorthand that also records the failed obligation.
func (c *Ctx) violate(rule, site, detail string, p token.Pos, msg string) {
	c.Run.Oblige(false)
	c.Run.Violate(report.Finding{Rule: rule, Site: site, Detail: detail, Pos: c.P.Pos(p), Message: msg})
}

func (c *Ctx) ok() { c.Run.Oblige(true) }

// callee resolves the called function object of a call expression.
func callee(info *types.Info, call *ast.CallExpr) *types.Func {
	var id *ast.Ident
	switch f := call.Fun.(type) {
	case *ast.Ident:
		id = f
	case *ast.SelectorExpr:
		id = f.Sel
	case *ast.IndexExpr:
		switch g := f.X.(type) {
		case *ast.Ident:
			id = g
		case *ast.SelectorExpr:
			id = g.Sel
		}
	case *ast.IndexListExpr:
		switch g := f.X.(type) {
		case *ast.Ident:
			id = g
		case *ast.SelectorExpr:
			id = g.Sel
		}
	}
	if id == nil {
		return nil
	}
	fn, _ := info.Uses[id].(*types.Func)
	return fn
}

// calleeName is "pkgpath.Name" or "pkgpath.(Recv).Name" of a call's callee ("" if unresolved).
func calleeName(info *types.Info, call *ast.CallExpr) string {
	fn := callee(info, call)
	if fn == nil {
		return ""
	}
	return qualName(fn)
}

func qualName(fn *types.Func) string {
	pk := ""
	if fn.Pkg() != nil {
		pk = fn.Pkg().Path()
	}
	sig, _ := fn.Type().(*types.Signature)
	if sig != nil && sig.Recv() != nil {
		t := sig.Recv().Type()
		if p, ok := t.(*types.Pointer); ok {
			t = p.Elem()
		}
		if n, ok := t.(*types.Named); ok {
			return pk + ".(" + n.Obj().Name() + ")." + fn.Name()
		}
		return pk + ".(?)." + fn.Name()
	}
	return pk + "." + fn.Name()
}

// constInt evaluates a constant integer expression.
func constInt(info *types.Info, e ast.Expr) (int64, bool) {
	tv, ok := info.Types[e]
	if !ok || tv.Value == nil {
		return 0, false
	}
	if tv.Value.Kind() != constant.Int {
		return 0, false
	}
	return constant.Int64Val(tv.Value)
}

// endsWithExit: the block's last statement leaves the enclosing loop or function.
func endsWithExit(b *ast.BlockStmt) (string, bool) {
	if b == nil || len(b.List) == 0 {
		return "", false
	}
	switch s := b.List[len(b.List)-1].(type) {
	case *ast.ReturnStmt:
		return "return", true
	case *ast.BranchStmt:
		switch s.Tok {
		case token.BREAK:
			return "break", true
		case token.CONTINUE:
			return "continue", true
		}
	}
	return "", false
}

// mentions reports whether the node's source mentions an identifier with the given name.
func mentions(n ast.Node, name string) bool {
	found := false
	ast.Inspect(n, func(m ast.Node) bool {
		if id, ok := m.(*ast.Ident); ok && id.Name == name {
			found = true
		}
		return !found
	})
	return found
}

// usesObj reports whether the node refers to the object.
func usesObj(info *types.Info, n ast.Node, obj types.Object) bool {
	found := false
	ast.Inspect(n, func(m ast.Node) bool {
		if id, ok := m.(*ast.Ident); ok && info.Uses[id] == obj {
			found = true
		}
		return !found
	})
	return found
}

// funcLitsIn returns the function literals started with `go` directly in the body.
func goLits(body *ast.BlockStmt) []*ast.GoStmt {
	var out []*ast.GoStmt
	ast.Inspect(body, func(n ast.Node) bool {
		if g, ok := n.(*ast.GoStmt); ok {
			out = append(out, g)
		}
		return true
	})
	return out
}

func exprString(e ast.Expr) string {
	if t, ok := e.(*tupleResult); ok {
		return fmt.Sprintf("result %d of %s", t.idx, types.ExprString(t.call))
	}
	return types.ExprString(e)
}

// implementers lists the named types of the module whose pointer implements the interface rel.Name.
func (c *Ctx) implementers(rel, ifaceName string) []*types.Named {
	pk := c.P.Pkg(rel)
	if pk == nil {
		return nil
	}
	tn, _ := pk.Types.Scope().Lookup(ifaceName).(*types.TypeName)
	if tn == nil {
		return nil
	}
	iface, _ := tn.Type().Underlying().(*types.Interface)
	if iface == nil {
		return nil
	}
	var out []*types.Named
	for _, p := range c.P.Pkgs {
		sc := p.Types.Scope()
		for _, name := range sc.Names() {
			t, ok := sc.Lookup(name).(*types.TypeName)
			if !ok {
				continue
			}
			n, ok := t.Type().(*types.Named)
			if !ok {
				continue
			}
			if _, isIface := n.Underlying().(*types.Interface); isIface {
				continue
			}
			if strings.HasSuffix(c.P.Fset.Position(t.Pos()).Filename, "_test.go") {
				continue
			}
			if types.Implements(types.NewPointer(n), iface) {
				out = append(out, n)
			}
		}
	}
	return out
}

// methodDecl finds the declaration of a method of a named type.
func (c *Ctx) methodDecl(n *types.Named, name string) *load.FuncInfo {
	for i := 0; i < n.NumMethods(); i++ {
		if m := n.Method(i); m.Name() == name {
			return c.P.Info(m)
		}
	}
	return nil
}

func typeExprName(e ast.Expr) string {
	switch x := e.(type) {
	case *ast.StarExpr:
		return typeExprName(x.X)
	case *ast.Ident:
		return x.Name
	case *ast.IndexExpr:
		return typeExprName(x.X)
	case *ast.IndexListExpr:
		return typeExprName(x.X)
	case *ast.SelectorExpr:
		return x.Sel.Name
	}
	return ""
}

func recvTypeName(fi *load.FuncInfo) string {
	if fi.Decl.Recv == nil || len(fi.Decl.Recv.List) == 0 {
		return ""
	}
	return typeExprName(fi.Decl.Recv.List[0].Type)
}

// ---------------------------------------------------------------------------
// Anchors that are not API: unexported functions, methods and fields may be renamed freely, so
// they are found by what they are, with the pinned name tried first.

// unexportedCallee: the unexported function or method of the module that `from` calls and that
// satisfies pred (nil: any); the pinned name is preferred when it still exists among them.
func (c *Ctx) unexportedCallee(from *load.FuncInfo, pinned string, pred func(fi *load.FuncInfo) bool) *load.FuncInfo {
	if from == nil || from.Decl.Body == nil {
		return nil
	}
	info := from.Pkg.TypesInfo
	var cands []*load.FuncInfo
	seen := map[*types.Func]bool{}
	ast.Inspect(from.Decl.Body, func(n ast.Node) bool {
		call, ok := n.(*ast.CallExpr)
		if !ok {
			return true
		}
		fn := callee(info, call)
		if fn == nil || fn.Exported() || seen[fn.Origin()] {
			return true
		}
		seen[fn.Origin()] = true
		if dfi := c.P.Decls[fn.Origin()]; dfi != nil && (pred == nil || pred(dfi)) {
			cands = append(cands, dfi)
		}
		return true
	})
	for _, d := range cands {
		if d.Fn.Name() == pinned {
			return d
		}
	}
	if len(cands) >= 1 {
		return cands[0]
	}
	return nil
}

// anchorVia: the function pinned under `name`, or - if it was renamed - the unexported callee of
// the exported entry point that satisfies pred. Breaks the check when neither exists.
func (c *Ctx) anchorVia(rel, typ, name string, entry *load.FuncInfo, pred func(fi *load.FuncInfo) bool) *load.FuncInfo {
	var fi *load.FuncInfo
	if typ == "" {
		fi = c.P.Func(rel, name)
	} else {
		fi = c.P.Method(rel, typ, name)
	}
	if fi != nil {
		return fi
	}
	if fi = c.unexportedCallee(entry, name, pred); fi != nil {
		return fi
	}
	c.Run.Break("anchor missing: " + rel + "." + typ + "." + name + " (renamed or removed and not found through its caller; the rule cannot be evaluated)")
	return nil
}

// goMethod: the function or method started by the go statement of entry (Backtest.Run -> worker).
func (c *Ctx) goMethod(entry *load.FuncInfo) *load.FuncInfo {
	if entry == nil {
		return nil
	}
	info := entry.Pkg.TypesInfo
	var out *load.FuncInfo
	ast.Inspect(entry.Decl.Body, func(n ast.Node) bool {
		g, ok := n.(*ast.GoStmt)
		if !ok || out != nil {
			return true
		}
		if fn := callee(info, g.Call); fn != nil {
			out = c.P.Decls[fn.Origin()]
		}
		return true
	})
	return out
}

// structFields describes the unexported fields of a struct by type.
type fieldInfo struct {
	name string
	typ  types.Type
}

func structFieldsOf(pk *packages.Package, typeName string) []fieldInfo {
	obj := pk.Types.Scope().Lookup(typeName)
	if obj == nil {
		return nil
	}
	st, ok := obj.Type().Underlying().(*types.Struct)
	if !ok {
		return nil
	}
	var out []fieldInfo
	for i := 0; i < st.NumFields(); i++ {
		out = append(out, fieldInfo{st.Field(i).Name(), st.Field(i).Type()})
	}
	return out
}

// columnStream: the stream a report column draws its values from - the field of the column
// object that holds a stream (pinned name `values`).
func columnStream(co *shape.Object) (*shape.Stream, bool) {
	if co == nil {
		return nil, false
	}
	if s, ok := shape.FieldOf(co, "values").(*shape.Stream); ok {
		return s, true
	}
	var found *shape.Stream
	n := 0
	for _, cell := range co.Fields {
		if s, ok := cell.V.(*shape.Stream); ok {
			found = s
			n++
		}
	}
	return found, n == 1
}

// flattenCalls expands, in a loop body, every statement that is just a call of an unexported,
// result-less function or method of the same package into the statements of its body (to the
// given depth): `for x := range ch { w.one(x) }` is analysed as if the body of one stood in the
// loop. A `return` of the inlined body leaves the iteration, so it becomes `continue`; a body with
// a return inside a nested loop, switch or function literal is left as a call.
func (c *Ctx) flattenCalls(info *types.Info, list []ast.Stmt, depth int) []ast.Stmt {
	var out []ast.Stmt
	for _, s := range list {
		es, ok := s.(*ast.ExprStmt)
		if !ok || depth <= 0 {
			out = append(out, s)
			continue
		}
		call, ok := es.X.(*ast.CallExpr)
		if !ok {
			out = append(out, s)
			continue
		}
		fn := callee(info, call)
		if fn == nil || fn.Exported() {
			out = append(out, s)
			continue
		}
		d := c.P.Decls[fn.Origin()]
		if d == nil || d.Decl.Body == nil || d.Pkg.TypesInfo != info {
			out = append(out, s)
			continue
		}
		if sig, ok := fn.Type().(*types.Signature); !ok || sig.Results().Len() != 0 {
			out = append(out, s)
			continue
		}
		body, ok := returnsToContinue(d.Decl.Body.List)
		if !ok {
			out = append(out, s)
			continue
		}
		out = append(out, c.flattenCalls(info, body, depth-1)...)
	}
	return out
}

func returnsToContinue(list []ast.Stmt) ([]ast.Stmt, bool) {
	ok := true
	var conv func(s ast.Stmt) ast.Stmt
	convBlock := func(b *ast.BlockStmt) *ast.BlockStmt {
		if b == nil {
			return nil
		}
		nb := &ast.BlockStmt{Lbrace: b.Lbrace, Rbrace: b.Rbrace}
		for _, s := range b.List {
			nb.List = append(nb.List, conv(s))
		}
		return nb
	}
	conv = func(s ast.Stmt) ast.Stmt {
		switch x := s.(type) {
		case *ast.ReturnStmt:
			return &ast.BranchStmt{TokPos: x.Pos(), Tok: token.CONTINUE}
		case *ast.BlockStmt:
			return convBlock(x)
		case *ast.IfStmt:
			n := &ast.IfStmt{If: x.If, Init: x.Init, Cond: x.Cond, Body: convBlock(x.Body)}
			if x.Else != nil {
				n.Else = conv(x.Else)
			}
			return n
		case *ast.ForStmt, *ast.RangeStmt, *ast.SwitchStmt, *ast.TypeSwitchStmt, *ast.SelectStmt, *ast.DeferStmt, *ast.GoStmt, *ast.LabeledStmt:
			ast.Inspect(x, func(n ast.Node) bool {
				if _, isLit := n.(*ast.FuncLit); isLit {
					return false
				}
				if _, isRet := n.(*ast.ReturnStmt); isRet {
					ok = false
				}
				return ok
			})
			if _, isDefer := x.(*ast.DeferStmt); isDefer {
				ok = false // a deferred call runs at the end of the callee, not of the iteration
			}
		}
		return s
	}
	var out []ast.Stmt
	for _, s := range list {
		out = append(out, conv(s))
	}
	// a trailing continue is redundant
	if n := len(out); n > 0 {
		if b, isB := out[n-1].(*ast.BranchStmt); isB && b.Tok == token.CONTINUE {
			out = out[:n-1]
		}
	}
	return out, ok
}

// inlineSingleReturn: for a call of an unexported function of the same package whose body is a
// single `return expr`, the returned expression with the parameters replaced by the arguments
// (a syntactic copy: identifiers and literals of the callee keep their type information).
func (c *Ctx) inlineSingleReturn(info *types.Info, call *ast.CallExpr) ast.Expr {
	fn := callee(info, call)
	if fn == nil || fn.Exported() {
		return nil
	}
	d := c.P.Decls[fn.Origin()]
	if d == nil || d.Decl.Body == nil || d.Pkg.TypesInfo != info || len(d.Decl.Body.List) == 0 {
		return nil
	}
	return returnedExpr(info, d.Decl, call.Args)
}

// returnedExpr: the single expression a function made of call-free local definitions and one
// return evaluates to, with the parameters replaced by args (nil: parameters stay).
func returnedExpr(info *types.Info, fd *ast.FuncDecl, args []ast.Expr) ast.Expr {
	if fd.Body == nil || len(fd.Body.List) == 0 {
		return nil
	}
	nb := len(fd.Body.List)
	ret, ok := fd.Body.List[nb-1].(*ast.ReturnStmt)
	if !ok || len(ret.Results) != 1 {
		return nil
	}
	sub := map[types.Object]ast.Expr{}
	// locals defined once by a call-free expression before the return are replaced by their definitions
	var locals []*ast.AssignStmt
	for _, s := range fd.Body.List[:nb-1] {
		as, ok := s.(*ast.AssignStmt)
		if !ok || as.Tok != token.DEFINE || len(as.Lhs) != 1 || len(as.Rhs) != 1 {
			return nil
		}
		if _, isID := as.Lhs[0].(*ast.Ident); !isID || !callFree(info, as.Rhs[0]) {
			return nil
		}
		locals = append(locals, as)
	}
	i := 0
	for _, f := range fd.Type.Params.List {
		for _, nm := range f.Names {
			if args == nil {
				continue
			}
			if i >= len(args) {
				return nil
			}
			sub[info.ObjectOf(nm)] = args[i]
			i++
		}
	}
	var cp func(e ast.Expr) ast.Expr
	cp = func(e ast.Expr) ast.Expr {
		switch x := e.(type) {
		case *ast.Ident:
			if r, ok := sub[info.ObjectOf(x)]; ok {
				return &ast.ParenExpr{X: r}
			}
			return x
		case *ast.ParenExpr:
			return &ast.ParenExpr{X: cp(x.X)}
		case *ast.BinaryExpr:
			return &ast.BinaryExpr{X: cp(x.X), Op: x.Op, OpPos: x.OpPos, Y: cp(x.Y)}
		case *ast.UnaryExpr:
			return &ast.UnaryExpr{Op: x.Op, OpPos: x.OpPos, X: cp(x.X)}
		case *ast.CallExpr:
			n := &ast.CallExpr{Fun: x.Fun, Lparen: x.Lparen, Rparen: x.Rparen}
			for _, a := range x.Args {
				n.Args = append(n.Args, cp(a))
			}
			return n
		case *ast.SelectorExpr:
			return &ast.SelectorExpr{X: cp(x.X), Sel: x.Sel}
		case *ast.IndexExpr:
			return &ast.IndexExpr{X: cp(x.X), Index: cp(x.Index)}
		}
		return e
	}
	for _, as := range locals {
		sub[info.ObjectOf(as.Lhs[0].(*ast.Ident))] = cp(as.Rhs[0])
	}
	return cp(ret.Results[0])
}

// callFree: the expression calls nothing but len, cap and conversions.
func callFree(info *types.Info, e ast.Expr) bool {
	ok := true
	ast.Inspect(e, func(n ast.Node) bool {
		switch x := n.(type) {
		case *ast.FuncLit:
			ok = false
		case *ast.CallExpr:
			if tv, has := info.Types[x.Fun]; has && tv.IsType() {
				return true
			}
			if id, isID := x.Fun.(*ast.Ident); isID {
				if _, isB := info.Uses[id].(*types.Builtin); isB && (id.Name == "len" || id.Name == "cap") {
					return true
				}
			}
			ok = false
		}
		return ok
	})
	return ok
}

// inlineValueCalls expands, in a statement list, `v := f(a, b, …)` / `v = f(…)` where f is an
// unexported single-result function of the same package made of assignments, ifs and returns
// and the arguments are plain identifiers: the callee's statements are copied with its
// parameters replaced by the argument identifiers, and every `return E` becomes `v = E` (the
// statements after a returning branch move into the other branch). The copies reuse the leaf
// nodes of the originals, so type information keeps resolving.
func (c *Ctx) inlineValueCalls(info *types.Info, list []ast.Stmt, exportedToo bool) []ast.Stmt {
	var out []ast.Stmt
	for _, s := range list {
		as, ok := s.(*ast.AssignStmt)
		if !ok || len(as.Lhs) != 1 || len(as.Rhs) != 1 {
			out = append(out, s)
			continue
		}
		call, ok := as.Rhs[0].(*ast.CallExpr)
		target, isID := as.Lhs[0].(*ast.Ident)
		if !ok || !isID {
			out = append(out, s)
			continue
		}
		fn := callee(info, call)
		if fn == nil || (fn.Exported() && !exportedToo) {
			out = append(out, s)
			continue
		}
		d := c.P.Decls[fn.Origin()]
		if d == nil || d.Decl.Body == nil || d.Pkg.TypesInfo != info || d.Decl.Recv != nil {
			out = append(out, s)
			continue
		}
		sig := fn.Type().(*types.Signature)
		if sig.Results().Len() != 1 {
			out = append(out, s)
			continue
		}
		sub := map[types.Object]*ast.Ident{}
		i, plain := 0, true
		for _, f := range d.Decl.Type.Params.List {
			for _, nm := range f.Names {
				if i >= len(call.Args) {
					plain = false
					break
				}
				a, isIdent := call.Args[i].(*ast.Ident)
				if !isIdent {
					plain = false
					break
				}
				sub[info.ObjectOf(nm)] = a
				i++
			}
		}
		if !plain {
			out = append(out, s)
			continue
		}
		cl := &astCloner{info: info, sub: sub}
		body, ok := cl.valueBody(d.Decl.Body.List, target)
		if !ok {
			out = append(out, s)
			continue
		}
		if as.Tok == token.DEFINE {
			// declare the target first
			decl := &ast.DeclStmt{Decl: &ast.GenDecl{TokPos: as.Pos(), Tok: token.VAR, Specs: []ast.Spec{&ast.ValueSpec{Names: []*ast.Ident{target}}}}}
			out = append(out, decl)
		}
		out = append(out, body...)
	}
	return out
}

type astCloner struct {
	info *types.Info
	sub  map[types.Object]*ast.Ident
}

func (cl *astCloner) expr(e ast.Expr) ast.Expr {
	keep := func(n ast.Expr, old ast.Expr) ast.Expr {
		if tv, ok := cl.info.Types[old]; ok {
			cl.info.Types[n] = tv
		}
		return n
	}
	switch x := e.(type) {
	case nil:
		return nil
	case *ast.Ident:
		if r, ok := cl.sub[cl.info.ObjectOf(x)]; ok {
			return r
		}
		return x
	case *ast.ParenExpr:
		return keep(&ast.ParenExpr{Lparen: x.Lparen, X: cl.expr(x.X), Rparen: x.Rparen}, x)
	case *ast.SelectorExpr:
		n := &ast.SelectorExpr{X: cl.expr(x.X), Sel: x.Sel}
		if s, ok := cl.info.Selections[x]; ok {
			cl.info.Selections[n] = s
		}
		return keep(n, x)
	case *ast.CallExpr:
		n := &ast.CallExpr{Fun: cl.expr(x.Fun), Lparen: x.Lparen, Ellipsis: x.Ellipsis, Rparen: x.Rparen}
		for _, a := range x.Args {
			n.Args = append(n.Args, cl.expr(a))
		}
		return keep(n, x)
	case *ast.BinaryExpr:
		return keep(&ast.BinaryExpr{X: cl.expr(x.X), OpPos: x.OpPos, Op: x.Op, Y: cl.expr(x.Y)}, x)
	case *ast.UnaryExpr:
		return keep(&ast.UnaryExpr{OpPos: x.OpPos, Op: x.Op, X: cl.expr(x.X)}, x)
	case *ast.StarExpr:
		return keep(&ast.StarExpr{Star: x.Star, X: cl.expr(x.X)}, x)
	case *ast.IndexExpr:
		return keep(&ast.IndexExpr{X: cl.expr(x.X), Lbrack: x.Lbrack, Index: cl.expr(x.Index), Rbrack: x.Rbrack}, x)
	}
	return e
}

func (cl *astCloner) stmt(s ast.Stmt) (ast.Stmt, bool) {
	switch x := s.(type) {
	case *ast.AssignStmt:
		n := &ast.AssignStmt{TokPos: x.TokPos, Tok: x.Tok}
		for _, l := range x.Lhs {
			n.Lhs = append(n.Lhs, cl.expr(l))
		}
		for _, r := range x.Rhs {
			n.Rhs = append(n.Rhs, cl.expr(r))
		}
		return n, true
	case *ast.ExprStmt:
		return &ast.ExprStmt{X: cl.expr(x.X)}, true
	case *ast.DeclStmt:
		return x, true
	}
	return nil, false
}

// valueBody converts a function body of assignments, ifs and returns into statements that assign
// the returned value to target.
func (cl *astCloner) valueBody(list []ast.Stmt, target *ast.Ident) ([]ast.Stmt, bool) {
	if len(list) == 0 {
		return nil, true
	}
	s, rest := list[0], list[1:]
	switch x := s.(type) {
	case *ast.ReturnStmt:
		if len(x.Results) != 1 {
			return nil, false
		}
		return []ast.Stmt{&ast.AssignStmt{Lhs: []ast.Expr{target}, TokPos: x.Pos(), Tok: token.ASSIGN, Rhs: []ast.Expr{cl.expr(x.Results[0])}}}, true
	case *ast.BlockStmt:
		return cl.valueBody(append(append([]ast.Stmt{}, x.List...), rest...), target)
	case *ast.IfStmt:
		var pre []ast.Stmt
		if x.Init != nil {
			p, ok := cl.stmt(x.Init)
			if !ok {
				return nil, false
			}
			pre = append(pre, p)
		}
		thenB, ok := cl.valueBody(append(append([]ast.Stmt{}, x.Body.List...), rest...), target)
		if !ok {
			return nil, false
		}
		var elseList []ast.Stmt
		if x.Else != nil {
			elseList = append(elseList, x.Else)
		}
		elseB, ok := cl.valueBody(append(elseList, rest...), target)
		if !ok {
			return nil, false
		}
		n := &ast.IfStmt{If: x.If, Cond: cl.expr(x.Cond), Body: &ast.BlockStmt{Lbrace: x.Body.Lbrace, List: thenB, Rbrace: x.Body.Rbrace}}
		if len(elseB) > 0 {
			n.Else = &ast.BlockStmt{Lbrace: x.End(), List: elseB, Rbrace: x.End()}
		}
		return append(pre, n), true
	default:
		c, ok := cl.stmt(s)
		if !ok {
			return nil, false
		}
		r, ok := cl.valueBody(rest, target)
		if !ok {
			return nil, false
		}
		return append([]ast.Stmt{c}, r...), true
	}
}

// family: fi and the unexported functions and methods of its package that it calls, transitively
// (static callees). A rule that looks for a construct "in the reader" looks in the family, so that
// cutting the reader into helpers does not hide the construct.
func (c *Ctx) family(fi *load.FuncInfo) []*load.FuncInfo {
	if fi == nil {
		return nil
	}
	seen := map[*load.FuncInfo]bool{fi: true}
	out := []*load.FuncInfo{fi}
	for i := 0; i < len(out); i++ {
		cur := out[i]
		if cur.Decl.Body == nil {
			continue
		}
		ast.Inspect(cur.Decl.Body, func(n ast.Node) bool {
			call, ok := n.(*ast.CallExpr)
			if !ok {
				return true
			}
			fn := callee(cur.Pkg.TypesInfo, call)
			if fn == nil || fn.Exported() {
				return true
			}
			d := c.P.Decls[fn.Origin()]
			if d == nil || d.Pkg != cur.Pkg || seen[d] {
				return true
			}
			seen[d] = true
			out = append(out, d)
			return true
		})
	}
	return out
}

// familyBodies: the bodies of the family of fi.
func (c *Ctx) familyBodies(fi *load.FuncInfo) []*ast.BlockStmt {
	var out []*ast.BlockStmt
	for _, f := range c.family(fi) {
		if f.Decl.Body != nil {
			out = append(out, f.Decl.Body)
		}
	}
	return out
}

// resolveLocals replaces, in a copy of e, every local variable of body that is defined exactly
// once by a call-free expression with that expression (repeatedly, three levels).
func resolveLocals(info *types.Info, body *ast.BlockStmt, e ast.Expr) ast.Expr {
	defs := singleDefs(info, body)
	var cp func(e ast.Expr, depth int) ast.Expr
	cp = func(e ast.Expr, depth int) ast.Expr {
		switch x := e.(type) {
		case *ast.Ident:
			if d, ok := defs[info.ObjectOf(x)]; ok && depth < 3 && callFree(info, d) {
				return &ast.ParenExpr{X: cp(d, depth+1)}
			}
			return x
		case *ast.ParenExpr:
			return &ast.ParenExpr{X: cp(x.X, depth)}
		case *ast.BinaryExpr:
			return &ast.BinaryExpr{X: cp(x.X, depth), Op: x.Op, OpPos: x.OpPos, Y: cp(x.Y, depth)}
		case *ast.UnaryExpr:
			return &ast.UnaryExpr{Op: x.Op, OpPos: x.OpPos, X: cp(x.X, depth)}
		case *ast.CallExpr:
			n := &ast.CallExpr{Fun: x.Fun, Lparen: x.Lparen, Rparen: x.Rparen}
			for _, a := range x.Args {
				n.Args = append(n.Args, cp(a, depth))
			}
			return n
		case *ast.SelectorExpr:
			return &ast.SelectorExpr{X: cp(x.X, depth), Sel: x.Sel}
		case *ast.IndexExpr:
			return &ast.IndexExpr{X: cp(x.X, depth), Index: cp(x.Index, depth)}
		}
		return e
	}
	return cp(e, 0)
}

// errorOrientation: inside the branch of `if err == nil` / the else of `if err != nil` the error
// is known to be nil; returning it, wrapping it or logging it there means the test is the wrong
// way round: the failure path runs on success, and a real failure falls through as a success
// ("unreadable files surface as errors rather than as empty successes"). Re-assigning the
// variable in that branch is fine.
func (c *Ctx) errorOrientation(rule string, rels ...string) {
	run := c.Run
	n := 0
	errType := types.Universe.Lookup("error").Type()
	for _, rel := range rels {
		pk := c.P.Pkg(rel)
		if pk == nil {
			continue
		}
		info := pk.TypesInfo
		for _, f := range pk.Syntax {
			if strings.HasSuffix(c.P.Fset.Position(f.Pos()).Filename, "_test.go") {
				continue
			}
			for _, d := range f.Decls {
				fd, isFn := d.(*ast.FuncDecl)
				if !isFn || fd.Body == nil {
					continue
				}
				fname := rel + "." + fd.Name.Name
				if fd.Recv != nil && len(fd.Recv.List) == 1 {
					fname = rel + ".(" + typeExprName(fd.Recv.List[0].Type) + ")." + fd.Name.Name
				}
				ast.Inspect(fd.Body, func(nd ast.Node) bool {
					is, ok := nd.(*ast.IfStmt)
					if !ok {
						return true
					}
					be, ok := ast.Unparen(is.Cond).(*ast.BinaryExpr)
					if !ok || (be.Op != token.EQL && be.Op != token.NEQ) {
						return true
					}
					var id *ast.Ident
					switch {
					case isNilIdent(ast.Unparen(be.Y)):
						id, _ = ast.Unparen(be.X).(*ast.Ident)
					case isNilIdent(ast.Unparen(be.X)):
						id, _ = ast.Unparen(be.Y).(*ast.Ident)
					}
					if id == nil {
						return true
					}
					obj := info.ObjectOf(id)
					if obj == nil || !types.Identical(obj.Type(), errType) {
						return true
					}
					n++
					var nilBranch ast.Node = is.Body
					if be.Op == token.NEQ {
						nilBranch = is.Else
					}
					if nilBranch == nil {
						run.Oblige(true)
						return true
					}
					var bad *ast.Ident
					assigned := false
					ast.Inspect(nilBranch, func(m ast.Node) bool {
						if bad != nil || assigned {
							return false
						}
						switch x := m.(type) {
						case *ast.FuncLit:
							return false
						case *ast.AssignStmt:
							for _, l := range x.Lhs {
								if lid, isID := l.(*ast.Ident); isID && info.ObjectOf(lid) == obj {
									assigned = true // from here on the variable holds a new result
								}
							}
						case *ast.Ident:
							if info.Uses[x] == obj {
								bad = x
							}
						}
						return true
					})
					run.Oblige(bad == nil)
					if bad != nil {
						c.violate(rule, fname, "nil "+id.Name+" used", bad.Pos(), "`"+id.Name+"` is used in the branch where it is known to be nil (`"+exprString(is.Cond)+"`): the error handling runs on success and a failure is taken for a success")
					}
					return true
				})
			}
		}
	}
	run.Count("error_tests", n)
}

// inlineBoolGuards expands, in a loop body, `if !f(a, b, …) { E… }` where f is an unexported
// function or method of the package that reports success as a bool: its body (assignments, calls
// and ifs, the arguments being identifiers) replaces the statement, every `return false` becoming
// E… and the final `return true` falling through to what follows. The per-element work of a
// loop moved into a helper that "reports whether it succeeded" is analysed as if it stood in the
// loop.
func (c *Ctx) inlineBoolGuards(info *types.Info, list []ast.Stmt) []ast.Stmt {
	var out []ast.Stmt
	for _, s := range list {
		is, ok := s.(*ast.IfStmt)
		if !ok || is.Init != nil || is.Else != nil {
			out = append(out, s)
			continue
		}
		u, ok := ast.Unparen(is.Cond).(*ast.UnaryExpr)
		if !ok || u.Op != token.NOT {
			out = append(out, s)
			continue
		}
		call, ok := ast.Unparen(u.X).(*ast.CallExpr)
		if !ok {
			out = append(out, s)
			continue
		}
		fn := callee(info, call)
		if fn == nil || fn.Exported() {
			out = append(out, s)
			continue
		}
		d := c.P.Decls[fn.Origin()]
		sig, _ := fn.Type().(*types.Signature)
		if d == nil || d.Decl.Body == nil || d.Pkg.TypesInfo != info || sig == nil || sig.Results().Len() != 1 || !types.Identical(sig.Results().At(0).Type(), types.Typ[types.Bool]) {
			out = append(out, s)
			continue
		}
		sub := map[types.Object]*ast.Ident{}
		plain := true
		i := 0
		for _, f := range d.Decl.Type.Params.List {
			for _, nm := range f.Names {
				if i >= len(call.Args) {
					plain = false
					break
				}
				a, isIdent := ast.Unparen(call.Args[i]).(*ast.Ident)
				if !isIdent {
					plain = false
					break
				}
				sub[info.ObjectOf(nm)] = a
				i++
			}
		}
		// the receiver of a method is the expression it was called on (an identifier)
		if d.Decl.Recv != nil && len(d.Decl.Recv.List) == 1 && len(d.Decl.Recv.List[0].Names) == 1 {
			if sel, isSel := ast.Unparen(call.Fun).(*ast.SelectorExpr); isSel {
				if rid, isID := ast.Unparen(sel.X).(*ast.Ident); isID {
					sub[info.ObjectOf(d.Decl.Recv.List[0].Names[0])] = rid
				} else {
					plain = false
				}
			}
		}
		if !plain {
			out = append(out, s)
			continue
		}
		// what replaces `return false`: the guarded statements, which must leave the iteration
		// afterwards (they end in a branch, or the guard is the last statement of the loop body)
		guarded := is.Body.List
		endsInBranch := false
		if ng := len(guarded); ng > 0 {
			switch guarded[ng-1].(type) {
			case *ast.BranchStmt, *ast.ReturnStmt:
				endsInBranch = true
			}
		}
		if !endsInBranch {
			if s != list[len(list)-1] {
				out = append(out, s)
				continue
			}
			guarded = append(append([]ast.Stmt{}, guarded...), &ast.BranchStmt{TokPos: is.End(), Tok: token.CONTINUE})
		}
		cl := &astCloner{info: info, sub: sub}
		var conv func(list []ast.Stmt, top bool) ([]ast.Stmt, bool)
		conv = func(list []ast.Stmt, top bool) ([]ast.Stmt, bool) {
			var res []ast.Stmt
			for k, st := range list {
				switch x := st.(type) {
				case *ast.ReturnStmt:
					if len(x.Results) != 1 {
						return nil, false
					}
					switch exprString(x.Results[0]) {
					case "false":
						res = append(res, guarded...)
					case "true":
						if !top || k != len(list)-1 {
							return nil, false
						}
					default:
						return nil, false
					}
				case *ast.IfStmt:
					n := &ast.IfStmt{If: x.If, Cond: cl.expr(x.Cond)}
					if x.Init != nil {
						p, ok := cl.stmt(x.Init)
						if !ok {
							return nil, false
						}
						res = append(res, p)
					}
					b, ok := conv(x.Body.List, false)
					if !ok {
						return nil, false
					}
					n.Body = &ast.BlockStmt{Lbrace: x.Body.Lbrace, List: b, Rbrace: x.Body.Rbrace}
					if x.Else != nil {
						var el []ast.Stmt
						if eb, isB := x.Else.(*ast.BlockStmt); isB {
							el = eb.List
						} else {
							el = []ast.Stmt{x.Else}
						}
						e2, ok := conv(el, false)
						if !ok {
							return nil, false
						}
						n.Else = &ast.BlockStmt{Lbrace: x.Else.Pos(), List: e2, Rbrace: x.Else.End()}
					}
					res = append(res, n)
				case *ast.BlockStmt:
					b, ok := conv(x.List, false)
					if !ok {
						return nil, false
					}
					res = append(res, &ast.BlockStmt{Lbrace: x.Lbrace, List: b, Rbrace: x.Rbrace})
				default:
					p, ok := cl.stmt(st)
					if !ok {
						return nil, false
					}
					res = append(res, p)
				}
			}
			return res, true
		}
		body, ok := conv(d.Decl.Body.List, true)
		if !ok {
			out = append(out, s)
			continue
		}
		out = append(out, body...)
	}
	return out
}

// lockPairing: every Lock()/RLock() taken in a function of the package is released on every way
// out of it (go/cfg may-analysis started at the lock call: no exit is reachable before an
// Unlock()/RUnlock() of the same mutex was executed or deferred). A mutex that stays locked
// blocks the next worker for ever.
func (c *Ctx) lockPairing(rule string, rels ...string) {
	run := c.Run
	n := 0
	unlockName := map[string]string{"Lock": "Unlock", "RLock": "RUnlock"}
	for _, rel := range rels {
		pk := c.P.Pkg(rel)
		if pk == nil {
			continue
		}
		info := pk.TypesInfo
		syncCall := func(m ast.Node) (recv, kind string) {
			call, ok := m.(*ast.CallExpr)
			if !ok {
				return "", ""
			}
			if !strings.HasPrefix(calleeName(info, call), "sync.") {
				return "", ""
			}
			sel, ok := call.Fun.(*ast.SelectorExpr)
			if !ok {
				return "", ""
			}
			return exprString(sel.X), sel.Sel.Name
		}
		for _, f := range pk.Syntax {
			if strings.HasSuffix(c.P.Fset.Position(f.Pos()).Filename, "_test.go") {
				continue
			}
			for _, d := range f.Decls {
				fd, ok := d.(*ast.FuncDecl)
				if !ok || fd.Body == nil {
					continue
				}
				fname := rel + "." + fd.Name.Name
				if fd.Recv != nil && len(fd.Recv.List) == 1 {
					fname = rel + ".(" + typeExprName(fd.Recv.List[0].Type) + ")." + fd.Name.Name
				}
				var locks []*ast.CallExpr
				ast.Inspect(fd.Body, func(nd ast.Node) bool {
					if _, isLit := nd.(*ast.FuncLit); isLit {
						return false
					}
					if _, isDefer := nd.(*ast.DeferStmt); isDefer {
						return false
					}
					if call, ok := nd.(*ast.CallExpr); ok {
						if _, kind := syncCall(call); unlockName[kind] != "" {
							locks = append(locks, call)
						}
					}
					return true
				})
				for _, lc := range locks {
					recv, kind := syncCall(lc)
					want := unlockName[kind]
					n++
					bad := exitsWithout(fd.Body,
						func(m ast.Node) bool { return m == ast.Node(lc) },
						func(m ast.Node) bool { r2, k2 := syncCall(m); return r2 == recv && k2 == want },
						nil)
					run.Oblige(len(bad) == 0)
					if len(bad) > 0 {
						c.violate(rule, fname, recv+"."+kind, bad[0], recv+"."+kind+"() taken in "+fd.Name.Name+" is still held at this way out (no "+want+"() executed or deferred on the path): the next caller blocks for ever")
					}
				}
			}
		}
	}
	run.Count("lock_sites", n)
}

// errorsLookedAt: in the non-test functions of the packages every error a call returns is looked
// at (tested, returned, wrapped, logged, handed on). An error that is overwritten or ignored is
// a failure that surfaces as a success ("unreadable files surface as errors", "a failure for one
// asset does not go unreported"). Calls in accepted are exempt by callee name, with the reason.
func (c *Ctx) errorsLookedAt(rule string, accepted map[string]string, rels ...string) {
	run := c.Run
	if !strings.Contains(run.Explanation, "No error result") {
		run.Explanation += " No error result of a call in the packages analysed goes unread (SSA: an error stored into a variable cell and overwritten before any load counts as unread); nothing goes on with the value that came with an error that was only logged."
	}
	n := 0
	for _, rel := range rels {
		pk := c.P.Pkg(rel)
		if pk == nil {
			continue
		}
		for _, fi := range c.P.Decls {
			if fi.Pkg != pk || fi.Decl.Body == nil || strings.HasSuffix(c.P.Fset.Position(fi.Decl.Pos()).Filename, "_test.go") {
				continue
			}
			fn := c.ssaFunc(fi)
			if fn == nil {
				continue
			}
			for _, f := range withAnon(fn) {
				for _, call := range droppedErrors(f) {
					name := ""
					if sc := call.Call.StaticCallee(); sc != nil {
						name = sc.String()
					} else if call.Call.IsInvoke() {
						name = call.Call.Method.FullName()
					}
					n++
					_, ok := accepted[name]
					run.Oblige(ok)
					if !ok {
						c.violate(rule, load.FuncName(fi.Fn), "error of "+name, call.Pos(), "the error returned by "+name+" is never looked at here (overwritten or ignored): a failure is taken for a success")
					}
				}
			}
		}
	}
	run.Count("ignored_error_sites", n)
	okSample := droppedErrorsSelfTest()
	run.Oblige(okSample)
	if !okSample {
		run.Break("the ignored-error detector does not classify its built-in examples as expected")
	}
}

// droppedErrorsSelfTest: the detector finds the two ignored errors of a built-in example (the
// rule's expected count on this code base is zero).
func droppedErrorsSelfTest() bool {
	const src = `package p
func f() error { return nil }
func g() { f() }
func h() error { err := f(); err = f(); return err }
func k() error { if err := f(); err != nil { return err }; return nil }
func m() func() error { err := f(); return func() error { err = f(); return err } }
func n() func() error { err := f(); return func() error { return err } }
func o() error { var err error; func() { err = f() }(); return err }`
	fset := token.NewFileSet()
	file, err := parser.ParseFile(fset, "p.go", src, 0)
	if err != nil {
		return false
	}
	pkg := types.NewPackage("p", "p")
	sp, _, err := ssautil.BuildPackage(&types.Config{}, fset, pkg, []*ast.File{file}, ssa.SanityCheckFunctions)
	if err != nil {
		return false
	}
	count := func(name string) int {
		fn := sp.Func(name)
		if fn == nil {
			return -1
		}
		k := 0
		for _, f := range withAnon(fn) {
			k += len(droppedErrors(f))
		}
		return k
	}
	// m: the captured err is overwritten by the closure before anyone loads it; n: the closure
	// loads it; o: stored by a closure and read by the owner afterwards
	return count("g") == 1 && count("h") == 1 && count("k") == 0 && count("m") == 1 && count("n") == 0 && count("o") == 0
}

// errorFallThrough: after `x, err := f(…)` an `if err != nil { … }` that does not leave (no return,
// continue, break at its end, no else) falls through into code that goes on with x, the other
// result of the call that failed - in this library a nil stream or a zero value that the next
// stage waits on for ever or takes for data.
func (c *Ctx) errorFallThrough(rule string, rels ...string) {
	run := c.Run
	n := 0
	errType := types.Universe.Lookup("error").Type()
	for _, rel := range rels {
		pk := c.P.Pkg(rel)
		if pk == nil {
			continue
		}
		info := pk.TypesInfo
		for _, f := range pk.Syntax {
			if strings.HasSuffix(c.P.Fset.Position(f.Pos()).Filename, "_test.go") {
				continue
			}
			for _, d := range f.Decls {
				fd, ok := d.(*ast.FuncDecl)
				if !ok || fd.Body == nil {
					continue
				}
				fname := rel + "." + fd.Name.Name
				if fd.Recv != nil && len(fd.Recv.List) == 1 {
					fname = rel + ".(" + typeExprName(fd.Recv.List[0].Type) + ")." + fd.Name.Name
				}
				ast.Inspect(fd.Body, func(nd ast.Node) bool {
					blk, ok := nd.(*ast.BlockStmt)
					if !ok {
						return true
					}
					for i := 0; i+1 < len(blk.List); i++ {
						as, ok := blk.List[i].(*ast.AssignStmt)
						if !ok || len(as.Lhs) < 2 || len(as.Rhs) != 1 {
							continue
						}
						if _, isCall := as.Rhs[0].(*ast.CallExpr); !isCall {
							continue
						}
						eid, ok := as.Lhs[len(as.Lhs)-1].(*ast.Ident)
						if !ok {
							continue
						}
						eobj := info.ObjectOf(eid)
						if eobj == nil || !types.Identical(eobj.Type(), errType) {
							continue
						}
						is, ok := blk.List[i+1].(*ast.IfStmt)
						if !ok || is.Else != nil || is.Init != nil {
							continue
						}
						be, ok := ast.Unparen(is.Cond).(*ast.BinaryExpr)
						if !ok || be.Op != token.NEQ {
							continue
						}
						cid, ok := ast.Unparen(be.X).(*ast.Ident)
						if !ok || info.ObjectOf(cid) != eobj || !isNilIdent(ast.Unparen(be.Y)) {
							continue
						}
						n++
						if _, exits := endsWithExit(is.Body); exits {
							run.Oblige(true)
							continue
						}
						// does the code after the if go on with another result of the failed call?
						bad := ""
						for _, l := range as.Lhs[:len(as.Lhs)-1] {
							lid, isID := l.(*ast.Ident)
							if !isID || lid.Name == "_" {
								continue
							}
							lobj := info.ObjectOf(lid)
							for _, st := range blk.List[i+2:] {
								if usesObj(info, st, lobj) {
									bad = lid.Name
								}
							}
						}
						run.Oblige(bad == "")
						if bad != "" {
							c.violate(rule, fname, "falls through with "+bad, is.Pos(), "when "+exprString(as.Rhs[0])+" fails, the branch that handles the error does not leave, and the code goes on with `"+bad+"`, the other result of the failed call")
						}
					}
					return true
				})
			}
		}
	}
	run.Count("error_branches_after_tuple_calls", n)
}

// withAnon: the function and every function literal nested in it.
func withAnon(fn *ssa.Function) []*ssa.Function {
	out := []*ssa.Function{fn}
	for i := 0; i < len(out); i++ {
		out = append(out, out[i].AnonFuncs...)
	}
	return out
}

// jsonArrayOpen: a reader that loops `for decoder.More()` over the elements of a JSON array has
// consumed the array's opening token first: some call of Token() on the same decoder dominates
// every call of More(). Without it Decode is handed the whole array, fails (or, for a slice
// element type, succeeds once with everything), and well-formed data is reported as malformed.
func (c *Ctx) jsonArrayOpen(rule string, floor int, rels ...string) {
	run := c.Run
	run.Explanation += " A reader that loops over decoder.More() has consumed the opening token of the array on every way there (SSA dominance)."
	n := 0
	isDec := func(call *ssa.Call, name string) ssa.Value {
		sc := call.Call.StaticCallee()
		if sc == nil || sc.Name() != name || sc.Pkg == nil || sc.Pkg.Pkg.Path() != "encoding/json" || len(call.Call.Args) == 0 {
			return nil
		}
		return call.Call.Args[0]
	}
	for _, rel := range rels {
		pk := c.P.Pkg(rel)
		if pk == nil {
			continue
		}
		for _, fi := range c.P.Decls {
			if fi.Pkg != pk || fi.Decl.Body == nil || strings.HasSuffix(c.P.Fset.Position(fi.Decl.Pos()).Filename, "_test.go") {
				continue
			}
			root := c.ssaFunc(fi)
			if root == nil {
				continue
			}
			for _, fn := range withAnon(root) {
				type at struct {
					b *ssa.BasicBlock
					i int
				}
				tokens := map[ssa.Value][]at{}
				var mores []*ssa.Call
				where := map[*ssa.Call]at{}
				for _, b := range fn.Blocks {
					for i, in := range b.Instrs {
						call, ok := in.(*ssa.Call)
						if !ok {
							continue
						}
						if d := isDec(call, "Token"); d != nil {
							tokens[d] = append(tokens[d], at{b, i})
						}
						// a helper of the module that reads a token from the decoder it is handed
						if sc := call.Call.StaticCallee(); sc != nil && len(sc.Blocks) > 0 && !call.Call.IsInvoke() {
							for j, a := range call.Call.Args {
								if j < len(sc.Params) && readsToken(sc, j, 0, isDec) {
									tokens[a] = append(tokens[a], at{b, i})
								}
							}
						}
						if d := isDec(call, "More"); d != nil {
							mores = append(mores, call)
							where[call] = at{b, i}
						}
					}
				}
				for _, m := range mores {
					n++
					w := where[m]
					ok := false
					for _, t := range tokens[m.Call.Args[0]] {
						if (t.b == w.b && t.i < w.i) || (t.b != w.b && t.b.Dominates(w.b)) {
							ok = true
						}
					}
					run.Oblige(ok)
					if !ok {
						c.violate(rule, load.FuncName(fi.Fn), "More without Token", m.Pos(), "the reader asks for More() elements of a JSON array whose opening token it has not consumed on every way there: the first Decode is handed the whole array")
					}
				}
			}
		}
	}
	run.Count("json_array_loops", n)
	run.Floor("json_array_loops", floor)
}

// rowsClosed: every *sql.Rows obtained by a query is closed on every way out of the function that
// obtained it, except the ways out of the branch taken when the query itself failed: a close
// (rows.Close or a helper of the module that closes the rows it is handed), deferred or not, or
// the start of a goroutine whose function defers such a close, dominates every other return.
// Rows that stay open keep a connection of the pool (and, for SQLite, a read lock) for ever.
func (c *Ctx) rowsClosed(rule string, floor int, rels ...string) {
	run := c.Run
	run.Explanation += " Every *sql.Rows obtained by a query is closed (directly, by a deferred helper, or by the goroutine that reads it) on every way out but the failed query's own."
	n := 0
	isRows := func(t types.Type) bool {
		p, ok := t.(*types.Pointer)
		if !ok {
			return false
		}
		nm, ok := p.Elem().(*types.Named)
		return ok && nm.Obj().Name() == "Rows" && nm.Obj().Pkg() != nil && nm.Obj().Pkg().Path() == "database/sql"
	}
	// closesArg: the callee closes the rows passed as argument k (directly, one level of helper)
	var closesArg func(fn *ssa.Function, k, depth int) bool
	closesArg = func(fn *ssa.Function, k, depth int) bool {
		if fn == nil || depth > 2 {
			return false
		}
		if fn.Name() == "Close" && fn.Signature.Recv() != nil && isRows(fn.Signature.Recv().Type()) {
			return k == 0
		}
		if len(fn.Blocks) == 0 || k >= len(fn.Params) {
			return false
		}
		for _, b := range fn.Blocks {
			for _, in := range b.Instrs {
				var cc *ssa.CallCommon
				switch x := in.(type) {
				case *ssa.Call:
					cc = &x.Call
				case *ssa.Defer:
					cc = &x.Call
				}
				if cc == nil {
					continue
				}
				for j, a := range cc.Args {
					if a == ssa.Value(fn.Params[k]) && closesArg(cc.StaticCallee(), j, depth+1) {
						return true
					}
				}
			}
		}
		return false
	}
	for _, rel := range rels {
		pk := c.P.Pkg(rel)
		if pk == nil {
			continue
		}
		for _, fi := range c.P.Decls {
			if fi.Pkg != pk || fi.Decl.Body == nil || strings.HasSuffix(c.P.Fset.Position(fi.Decl.Pos()).Filename, "_test.go") {
				continue
			}
			root := c.ssaFunc(fi)
			if root == nil {
				continue
			}
			for _, fn := range withAnon(root) {
				for _, b := range fn.Blocks {
					for _, in := range b.Instrs {
						call, ok := in.(*ssa.Call)
						if !ok {
							continue
						}
						res := call.Call.Signature().Results()
						if res.Len() != 2 || !isRows(res.At(0).Type()) {
							continue
						}
						n++
						var rowsV, errV ssa.Value
						if refs := call.Referrers(); refs != nil {
							for _, r := range *refs {
								if ex, isEx := r.(*ssa.Extract); isEx {
									if ex.Index == 0 {
										rowsV = ex
									} else {
										errV = ex
									}
								}
							}
						}
						// the values and cells that hold the rows
						alias := map[ssa.Value]bool{}
						cells := map[ssa.Value]bool{}
						if rowsV != nil {
							alias[rowsV] = true
							if refs := rowsV.Referrers(); refs != nil {
								for _, r := range *refs {
									if st, isSt := r.(*ssa.Store); isSt && st.Val == rowsV {
										cells[st.Addr] = true
									}
								}
							}
						}
						holds := func(v ssa.Value) bool {
							if alias[v] {
								return true
							}
							if u, isU := v.(*ssa.UnOp); isU && u.Op == token.MUL && cells[u.X] {
								return true
							}
							return false
						}
						closesHere := func(cc *ssa.CallCommon) bool {
							if cc.IsInvoke() {
								return false
							}
							for j, a := range cc.Args {
								if holds(a) && closesArg(cc.StaticCallee(), j, 0) {
									return true
								}
							}
							return false
						}
						type at struct {
							b *ssa.BasicBlock
							i int
						}
						var closers []at
						for _, b2 := range fn.Blocks {
							for i2, in2 := range b2.Instrs {
								switch x := in2.(type) {
								case *ssa.Call:
									if closesHere(&x.Call) {
										closers = append(closers, at{b2, i2})
									}
								case *ssa.Defer:
									if closesHere(&x.Call) {
										closers = append(closers, at{b2, i2})
									}
								case *ssa.Go:
									mc, isMC := x.Call.Value.(*ssa.MakeClosure)
									if !isMC {
										continue
									}
									cf, _ := mc.Fn.(*ssa.Function)
									if cf == nil {
										continue
									}
									for k, bind := range mc.Bindings {
										if !(alias[bind] || cells[bind]) || k >= len(cf.FreeVars) {
											continue
										}
										fv := cf.FreeVars[k]
										inner := func(v ssa.Value) bool {
											if v == ssa.Value(fv) && alias[bind] {
												return true
											}
											u, isU := v.(*ssa.UnOp)
											return isU && u.Op == token.MUL && u.X == ssa.Value(fv) && cells[bind]
										}
										// a defer in the goroutine's entry block that closes the rows
										if len(cf.Blocks) > 0 {
											for _, in3 := range cf.Blocks[0].Instrs {
												if d, isD := in3.(*ssa.Defer); isD && !d.Call.IsInvoke() {
													for j, a := range d.Call.Args {
														if inner(a) && closesArg(d.Call.StaticCallee(), j, 0) {
															closers = append(closers, at{b2, i2})
														}
													}
												}
											}
										}
									}
								}
							}
						}
						// the branch taken when the query failed
						var failed *ssa.BasicBlock
						if errV != nil {
							if refs := errV.Referrers(); refs != nil {
								for _, r := range *refs {
									bo, isB := r.(*ssa.BinOp)
									if !isB || bo.Op != token.NEQ {
										continue
									}
									if brefs := bo.Referrers(); brefs != nil {
										for _, br := range *brefs {
											if ifi, isIf := br.(*ssa.If); isIf && len(ifi.Block().Succs) == 2 {
												failed = ifi.Block().Succs[0]
											}
										}
									}
								}
							}
						}
						why := ""
						for _, rb := range fn.Blocks {
							if len(rb.Instrs) == 0 {
								continue
							}
							if _, isRet := rb.Instrs[len(rb.Instrs)-1].(*ssa.Return); !isRet {
								continue
							}
							if failed != nil && (failed == rb || failed.Dominates(rb)) {
								continue
							}
							if !(b == rb || b.Dominates(rb)) {
								continue // a return that cannot follow the query
							}
							ok := false
							for _, k := range closers {
								if k.b == rb || k.b.Dominates(rb) {
									ok = true
								}
							}
							if !ok {
								why = "a return at " + c.P.Pos(rb.Instrs[len(rb.Instrs)-1].Pos()) + " is reached with the rows still open"
								if rb.Instrs[len(rb.Instrs)-1].Pos() == token.NoPos {
									why = "the function ends with the rows still open"
								}
							}
						}
						run.Oblige(why == "")
						if why != "" {
							c.violate(rule, load.FuncName(fi.Fn), "rows of "+short(call.Call.Value.Name(), 30), call.Pos(), "the rows returned by this query are not closed on every way out: "+why+" (the connection they hold is never given back)")
						}
					}
				}
			}
		}
	}
	run.Count("sql_row_sets", n)
	run.Floor("sql_row_sets", floor)
}

// readsToken: fn calls Token() on its k-th parameter in its entry block or in a block that
// dominates all its returns (directly or through one more helper).
func readsToken(fn *ssa.Function, k, depth int, isDec func(*ssa.Call, string) ssa.Value) bool {
	if depth > 1 || k >= len(fn.Params) {
		return false
	}
	for _, b := range fn.Blocks {
		for _, in := range b.Instrs {
			call, ok := in.(*ssa.Call)
			if !ok {
				continue
			}
			hit := false
			if d := isDec(call, "Token"); d == ssa.Value(fn.Params[k]) {
				hit = true
			}
			if sc := call.Call.StaticCallee(); !hit && sc != nil && len(sc.Blocks) > 0 && !call.Call.IsInvoke() {
				for j, a := range call.Call.Args {
					if a == ssa.Value(fn.Params[k]) && readsToken(sc, j, depth+1, isDec) {
						hit = true
					}
				}
			}
			if !hit {
				continue
			}
			all := true
			for _, rb := range fn.Blocks {
				if len(rb.Instrs) == 0 {
					continue
				}
				if _, isRet := rb.Instrs[len(rb.Instrs)-1].(*ssa.Return); isRet && !(b == rb || b.Dominates(rb)) {
					all = false
				}
			}
			if all {
				return true
			}
		}
	}
	return false
}

// errorTestedFirst: in these packages the statement after a fallible call tests that call's
// error (89 of 93 sites on the pinned tree; the other four return the error or have no test at
// all). The rule is the contradiction form: when the statement after `v, err := f(…)` is an
// `if` that compares something with nil, that something is err. `if v != nil { return …, err }`
// takes the failure path on success and lets a failure through with a nil v.
func (c *Ctx) errorTestedFirst(rule string, floor int, rels ...string) {
	run := c.Run
	n := 0
	errType := types.Universe.Lookup("error").Type()
	for _, rel := range rels {
		pk := c.P.Pkg(rel)
		if pk == nil {
			continue
		}
		info := pk.TypesInfo
		for _, f := range pk.Syntax {
			if strings.HasSuffix(c.P.Fset.Position(f.Pos()).Filename, "_test.go") {
				continue
			}
			var fname string
			ast.Inspect(f, func(nd ast.Node) bool {
				if fd, isFn := nd.(*ast.FuncDecl); isFn {
					fname = rel + "." + fd.Name.Name
					if fd.Recv != nil && len(fd.Recv.List) == 1 {
						fname = rel + ".(" + typeExprName(fd.Recv.List[0].Type) + ")." + fd.Name.Name
					}
				}
				blk, ok := nd.(*ast.BlockStmt)
				if !ok {
					return true
				}
				for i := 0; i+1 < len(blk.List); i++ {
					as, ok := blk.List[i].(*ast.AssignStmt)
					if !ok || len(as.Rhs) != 1 || len(as.Lhs) < 1 {
						continue
					}
					fcall, isCall := ast.Unparen(as.Rhs[0]).(*ast.CallExpr)
					if !isCall {
						continue
					}
					if nm := calleeName(info, fcall); nm == "fmt.Errorf" || strings.HasPrefix(nm, "errors.") {
						continue // makes an error value, cannot fail
					}
					eid, ok := as.Lhs[len(as.Lhs)-1].(*ast.Ident)
					if !ok {
						continue
					}
					eobj := info.ObjectOf(eid)
					if eobj == nil || !types.Identical(eobj.Type(), errType) {
						continue
					}
					is, ok := blk.List[i+1].(*ast.IfStmt)
					if !ok || is.Init != nil {
						continue
					}
					n++
					nilTest, mentions := false, false
					ast.Inspect(is.Cond, func(m ast.Node) bool {
						switch x := m.(type) {
						case *ast.BinaryExpr:
							if (x.Op == token.EQL || x.Op == token.NEQ) && (isNilIdent(ast.Unparen(x.X)) || isNilIdent(ast.Unparen(x.Y))) {
								nilTest = true
							}
						case *ast.Ident:
							if info.Uses[x] == eobj {
								mentions = true
							}
						}
						return true
					})
					good := !nilTest || mentions
					run.Oblige(good)
					if !good {
						c.violate(rule, fname, "tests "+short(exprString(is.Cond), 30), is.Pos(), "the statement after the call tests `"+exprString(is.Cond)+"`, not the error "+eid.Name+" the call returned: the failure branch is taken on the wrong condition and a failed call goes on with its zero result")
					}
				}
				return true
			})
		}
	}
	run.Count("error_tests_after_calls", n)
	run.Floor("error_tests_after_calls", floor)
}
