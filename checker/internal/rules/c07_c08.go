package rules

import (
	"fmt"
	"go/ast"
	"go/token"
	"go/types"
	"math/big"
	"strings"

	"verif/checker/internal/dtab"
	"verif/checker/internal/lin"
	"verif/checker/internal/load"
	"verif/checker/internal/shape"
	"verif/checker/internal/sym"
)

var actions = []string{"Sell", "Hold", "Buy"}

func act(name string) sym.Expr { return sym.V(dtab.ConstName(name)) }

// closureArg returns the function literal passed to the first call of a function whose
// qualified name ends in calleeSuffix inside fd.
func closureArg(info *types.Info, fd *ast.FuncDecl, calleeSuffix string) *ast.FuncLit {
	var out *ast.FuncLit
	ast.Inspect(fd.Body, func(n ast.Node) bool {
		call, ok := n.(*ast.CallExpr)
		if !ok || out != nil {
			return true
		}
		if !strings.HasSuffix(calleeName(info, call), calleeSuffix) {
			return true
		}
		for _, a := range call.Args {
			if fl := funcLitOf(info, fd, a); fl != nil {
				out = fl
			}
		}
		return true
	})
	return out
}

// declResolver finds the declaration of a module function (set by NewCtx).
var declResolver func(fn *types.Func) *load.FuncInfo

// funcLitOf: the function literal an argument denotes - the literal itself, a local bound exactly
// once to a literal (decide := func(...) {...}), or a declared function or method value of the
// same package (presented as a literal over its body).
func funcLitOf(info *types.Info, fd *ast.FuncDecl, a ast.Expr) *ast.FuncLit {
	switch x := a.(type) {
	case *ast.FuncLit:
		return x
	case *ast.ParenExpr:
		return funcLitOf(info, fd, x.X)
	case *ast.IndexExpr: // generic instantiation f[T]
		return funcLitOf(info, fd, x.X)
	case *ast.Ident:
		switch obj := info.ObjectOf(x).(type) {
		case *types.Var:
			var lit *ast.FuncLit
			defs := 0
			ast.Inspect(fd.Body, func(m ast.Node) bool {
				as, isAs := m.(*ast.AssignStmt)
				if !isAs || len(as.Lhs) != len(as.Rhs) {
					return true
				}
				for i, l := range as.Lhs {
					if lid, isL := l.(*ast.Ident); isL && info.ObjectOf(lid) == obj {
						defs++
						if fl, isLit := as.Rhs[i].(*ast.FuncLit); isLit {
							lit = fl
						}
					}
				}
				return true
			})
			if defs == 1 {
				return lit
			}
		case *types.Func:
			if declResolver != nil {
				if dfi := declResolver(obj.Origin()); dfi != nil && dfi.Decl.Body != nil {
					return &ast.FuncLit{Type: dfi.Decl.Type, Body: dfi.Decl.Body}
				}
			}
		}
	case *ast.SelectorExpr:
		if fn, ok := info.Uses[x.Sel].(*types.Func); ok && declResolver != nil {
			if dfi := declResolver(fn.Origin()); dfi != nil && dfi.Decl.Body != nil {
				return &ast.FuncLit{Type: dfi.Decl.Type, Body: dfi.Decl.Body}
			}
		}
	}
	return nil
}

// retAction: the single returned/sent value of the unique selected path as an action name.
func pathAction(p *dtab.Path) (string, bool) {
	var v sym.Expr
	switch {
	case len(p.Ret) == 1:
		v = p.Ret[0]
	case len(p.Sends) == 1:
		v = p.Sends[0]
	default:
		return "", false
	}
	if x, ok := v.(sym.Var); ok && strings.HasPrefix(x.Name, "#") {
		return x.Name[1:], true
	}
	return sym.String(v), false
}

// constOf folds a closed expression to a number.
func constOf(e sym.Expr) (*big.Rat, bool) {
	m := map[string]bool{}
	sym.Vars(e, m)
	if len(m) > 0 {
		return nil, false
	}
	r := sym.Canon(e)
	if len(r.Den) != 1 || len(r.Num) > 1 {
		return nil, false
	}
	d, ok := r.Den[""]
	if !ok {
		return nil, false
	}
	n := new(big.Rat)
	if len(r.Num) == 1 {
		c, ok := r.Num[""]
		if !ok {
			return nil, false
		}
		n.Set(c)
	}
	return n.Quo(n, d), true
}

// numOracle decides comparisons whose sides fold to numbers.
func numOracle(c sym.Cmp) (bool, bool) {
	l, ok1 := constOf(c.L)
	r, ok2 := constOf(c.R)
	if !ok1 || !ok2 {
		return false, false
	}
	k := l.Cmp(r)
	switch c.Op {
	case "<":
		return k < 0, true
	case "<=":
		return k <= 0, true
	case ">":
		return k > 0, true
	case ">=":
		return k >= 0, true
	case "==":
		return k == 0, true
	case "!=":
		return k != 0, true
	}
	return false, false
}

// one selects the unique path for an abstract point; it reports a violation when the machine is
// not a function there.
func (c *Ctx) one(m *dtab.Machine, env map[string]sym.Expr, rule, site, point string, fd *ast.FuncDecl) *dtab.Path {
	ps, ok := m.Select(env, numOracle)
	if !ok {
		c.violate(rule, site, "undecided at "+point, fd.Pos(), "a branch condition of the decision function is outside the comparison vocabulary at "+point+" (undecided, fails closed)")
		return nil
	}
	if len(ps) != 1 {
		c.violate(rule, site, fmt.Sprintf("%d paths at %s", len(ps), point), fd.Pos(), "the decision function is not single-valued at "+point)
		return nil
	}
	// values computed by an inlined helper are conditional expressions: settle them at this point
	q := *ps[0]
	q.Ret = append([]sym.Expr{}, q.Ret...)
	for i, v := range q.Ret {
		q.Ret[i] = reduceIte(v, env)
	}
	q.Sends = append([]sym.Expr{}, q.Sends...)
	for i, v := range q.Sends {
		q.Sends[i] = reduceIte(v, env)
	}
	return &q
}

// reduceIte chooses the branches of conditional expressions whose conditions are decided by env.
func reduceIte(e sym.Expr, env map[string]sym.Expr) sym.Expr {
	for {
		it, ok := e.(sym.Ite)
		if !ok {
			return e
		}
		b, decided := dtab.EvalBool(it.Cond, env, numOracle)
		if !decided {
			return e
		}
		if b {
			e = it.A
		} else {
			e = it.B
		}
	}
}

func (c *Ctx) machineOK(m *dtab.Machine, rule, site string, fd *ast.FuncDecl) bool {
	if m == nil {
		c.violate(rule, site, "not found", fd.Pos(), "the decision function could not be located (undecided, fails closed)")
		return false
	}
	if len(m.Unsupported) > 0 {
		c.violate(rule, site, "unsupported: "+strings.Join(m.Unsupported, ","), fd.Pos(), "the decision function contains a construct outside the loop-free grammar (undecided, fails closed): "+strings.Join(m.Unsupported, ", "))
		return false
	}
	return true
}

// CheckC07: compound and decorator strategies against their documented tables.
func CheckC07(c *Ctx) {
	run := c.Run
	run.Technique = "decision-table extraction (Engine D): symbolic execution of the loop-free decision closures into guarded commands, evaluated exhaustively on the finite abstract domains their atoms induce (actions {Sell,Hold,Buy}; vote counts for k<=6; orderings of the remembered level against the close) and compared point by point with the documented function"
	run.Explanation = "Inverse (3 points), Split (9), the MACD-RSI combiner (9) are compared point by point with the documented functions; And/Or/Majority vote predicates are evaluated on every tally (buy, hold, sell) with buy+hold+sell = k for k = 1..6, which realises every consistent weak ordering of the compared quantities (the predicates only compare them); CountActions is shown to take exactly one action from every source per position and to increment exactly one counter per action, and every source to pass through DenormalizeActions; the No-Loss and Stop-Loss closures are extracted as transducers over action x {not invested, invested} x ordering(level, close) and compared with the specification transducer (outputs and updates of the remembered level), from which the safety statements follow for all histories because the transducer is finite. Comparison is semantic: branch order or if/switch style do not matter. The behaviour of the wrapped strategies themselves and float rounding are not decided. No-Loss and Stop-Loss are compared with the documented step written as a conditional expression, for every wrapped action and every ordering of close, remembered level and 0 (including non-positive closings), outputs and level updates alike."
	run.Trusted = []string{"go/types", "specification tables in rules/c07_c08.go (DESIGN appendix C)", "closing prices are positive (the level 0 encodes 'not invested')"}

	c.compoundRegistries()
	c.decoratorInputs()
	// Inverse
	if fi := c.fn("strategy/decorator", "InverseStrategy", "Compute"); fi != nil {
		info := fi.Pkg.TypesInfo
		lit := closureArg(info, fi.Decl, "helper.Map")
		site := "strategy/decorator.(*InverseStrategy).Compute"
		if lit == nil {
			c.violate("decision-table", site, "closure", fi.Decl.Pos(), "the Inverse closure passed to helper.Map was not found")
		} else {
			m := dtab.FromFuncLit(info, lit)
			if c.machineOK(m, "decision-table", site, fi.Decl) && len(m.Params) == 1 {
				want := map[string]string{"Buy": "Sell", "Sell": "Buy", "Hold": "Hold"}
				for _, a := range actions {
					p := c.one(m, map[string]sym.Expr{m.Params[0]: act(a)}, "decision-table", site, a, fi.Decl)
					if p == nil {
						continue
					}
					got, _ := pathAction(p)
					run.Oblige(got == want[a])
					run.Sample(map[string]string{"obligation": "Inverse(" + a + ") = " + want[a], "derived": got})
					if got != want[a] {
						c.violate("decision-table", site, a+"->"+got, lit.Pos(), "Inverse maps "+a+" to "+got+", the documented function maps it to "+want[a])
					}
				}
			}
		}
	}
	// every decorator hands back its one decided pipeline on every path: no shortcut returns
	// something else (the inner strategy's own stream, a nested decorator's stream, …)
	for _, d := range []struct{ typ, callee string }{{"InverseStrategy", "helper.Map"}, {"NoLossStrategy", "helper.Operate"}, {"StopLossStrategy", "helper.Operate"}} {
		if fi := c.fn("strategy/decorator", d.typ, "Compute"); fi != nil {
			c.everyReturnIsThePipeline(fi, d.callee, "strategy/decorator.(*"+d.typ+").Compute")
		}
	}
	// MACD-RSI combiner
	if fi := c.fn("strategy/compound", "MacdRsiStrategy", "Compute"); fi != nil {
		info := fi.Pkg.TypesInfo
		lit := closureArg(info, fi.Decl, "helper.Operate")
		site := "strategy/compound.(*MacdRsiStrategy).Compute"
		if lit == nil {
			c.violate("decision-table", site, "closure", fi.Decl.Pos(), "the MACD-RSI combiner passed to helper.Operate was not found")
		} else {
			m := dtab.FromFuncLit(info, lit)
			if c.machineOK(m, "decision-table", site, fi.Decl) && len(m.Params) == 2 {
				for _, a := range actions {
					for _, b := range actions {
						want := "Hold"
						if a == b {
							want = a
						}
						p := c.one(m, map[string]sym.Expr{m.Params[0]: act(a), m.Params[1]: act(b)}, "decision-table", site, a+"/"+b, fi.Decl)
						if p == nil {
							continue
						}
						// the returned value may be a parameter: substitute
						var got string
						if len(p.Ret) == 1 {
							v := sym.Subst(p.Ret[0], map[string]sym.Expr{m.Params[0]: act(a), m.Params[1]: act(b)})
							if x, ok := v.(sym.Var); ok && strings.HasPrefix(x.Name, "#") {
								got = x.Name[1:]
							}
						}
						run.Oblige(got == want)
						if got != want {
							c.violate("decision-table", site, a+"/"+b+"->"+got, lit.Pos(), fmt.Sprintf("MACD %s with RSI %s gives %s, documented: %s (agree -> that action, otherwise Hold)", a, b, got, want))
						}
					}
				}
				// both inputs are denormalised
				n := 0
				ast.Inspect(fi.Decl.Body, func(nd ast.Node) bool {
					if call, ok := nd.(*ast.CallExpr); ok && strings.HasSuffix(calleeName(info, call), "strategy.DenormalizeActions") {
						n++
					}
					return true
				})
				run.Oblige(n == 2)
				if n != 2 {
					c.violate("decision-table", site, "denormalise", fi.Decl.Pos(), "the MACD and RSI action streams are no longer both denormalised (standing recommendations) before they are combined")
				}
			}
		}
	}
	// Split
	if fi := c.fn("strategy", "SplitStrategy", "Compute"); fi != nil {
		c.splitTable(fi)
	}
	// votes
	for _, v := range []struct {
		typ  string
		spec func(buy, hold, sell, k int) string
		doc  string
	}{
		{"AndStrategy", func(b, h, s, k int) string {
			if s == k {
				return "Sell"
			}
			if b == k {
				return "Buy"
			}
			return "Hold"
		}, "Sell if all say Sell, Buy if all say Buy, else Hold"},
		{"OrStrategy", func(b, h, s, k int) string {
			if s > 0 && b == 0 {
				return "Sell"
			}
			if b > 0 && s == 0 {
				return "Buy"
			}
			return "Hold"
		}, "Sell if some say Sell and none Buy, Buy if some say Buy and none Sell, else Hold"},
		{"MajorityStrategy", func(b, h, s, k int) string {
			if s > b && s > h {
				return "Sell"
			}
			if b > s && b > h {
				return "Buy"
			}
			return "Hold"
		}, "the strict plurality among Sell/Hold/Buy, Hold on ties"},
	} {
		if fi := c.fn("strategy", v.typ, "Compute"); fi != nil {
			c.voteTable(fi, v.typ, v.spec, v.doc)
		}
	}
	c.countActionsTable()
	// decorators with memory
	if fi := c.fn("strategy/decorator", "NoLossStrategy", "Compute"); fi != nil {
		c.lossTable(fi, "NoLoss")
	}
	if fi := c.fn("strategy/decorator", "StopLossStrategy", "Compute"); fi != nil {
		c.lossTable(fi, "StopLoss")
	}
	run.Floor("table_points", 260)
}

func (c *Ctx) splitTable(fi *load.FuncInfo) {
	run := c.Run
	info := fi.Pkg.TypesInfo
	site := "strategy.(*SplitStrategy).Compute"
	lits := goLitsOf(fi.Decl)
	if len(lits) != 1 {
		c.violate("decision-table", site, "goroutine", fi.Decl.Pos(), "Split no longer has one combining goroutine (undecided, fails closed)")
		return
	}
	var loop *ast.ForStmt
	for _, s := range lits[0].Body.List {
		if f, ok := s.(*ast.ForStmt); ok {
			loop = f
		}
	}
	if loop == nil {
		c.violate("decision-table", site, "loop", fi.Decl.Pos(), "Split's combining loop was not found")
		return
	}
	// the two received values, in order: buy then sell
	var inputs []types.Object
	var sources []string // what each received channel was computed from
	var decide ast.Stmt
	var tail []ast.Stmt // everything after the last receive and its check: local definitions and the decision
	defs := singleDefs(info, fi.Decl.Body)
	lastRecv := -1
	for i, s := range loop.Body.List {
		if as, ok := s.(*ast.AssignStmt); ok && len(as.Rhs) == 1 {
			if u, ok := as.Rhs[0].(*ast.UnaryExpr); ok && u.Op.String() == "<-" {
				if id, ok := as.Lhs[0].(*ast.Ident); ok {
					if obj := info.Defs[id]; obj != nil {
						inputs = append(inputs, obj)
						src := exprString(u.X)
						if cid, isID := u.X.(*ast.Ident); isID {
							if d := defs[info.ObjectOf(cid)]; d != nil {
								src = exprString(d)
							}
						}
						sources = append(sources, src)
						lastRecv = i
					}
				}
			}
		}
		if is, ok := s.(*ast.IfStmt); ok && containsSend(is) {
			decide = is
		}
		if snd, ok := s.(*ast.SendStmt); ok && decide == nil {
			decide = snd // result <- decision(buyAction, sellAction): the callee is read by the extractor
		}
	}
	if len(inputs) != 2 || decide == nil {
		c.violate("decision-table", site, "shape", loop.Pos(), "Split's loop no longer receives one buy and one sell action and then decides (undecided, fails closed)")
		return
	}
	for i := lastRecv + 1; i < len(loop.Body.List); i++ {
		s := loop.Body.List[i]
		if is, ok := s.(*ast.IfStmt); ok && !containsSend(is) && i == lastRecv+1 {
			continue // the ok check of the last receive
		}
		tail = append(tail, s)
	}
	// which input comes from the BuyStrategy (the exported field the channel was computed from)
	buyFirst := strings.Contains(sources[0], "BuyStrategy") || !strings.Contains(sources[1], "BuyStrategy") && strings.Contains(strings.ToLower(inputs[0].Name()), "buy")
	m := dtab.FromStmts(info, tail, inputs)
	if !c.machineOK(m, "decision-table", site, fi.Decl) {
		return
	}
	for _, b := range actions {
		for _, s := range actions {
			want := "Hold"
			if b == "Buy" && s != "Sell" {
				want = "Buy"
			} else if s == "Sell" && b != "Buy" {
				want = "Sell"
			}
			env := map[string]sym.Expr{inputs[0].Name(): act(b), inputs[1].Name(): act(s)}
			if !buyFirst {
				env = map[string]sym.Expr{inputs[0].Name(): act(s), inputs[1].Name(): act(b)}
			}
			p := c.one(m, env, "decision-table", site, b+"/"+s, fi.Decl)
			if p == nil {
				continue
			}
			got, _ := pathAction(p)
			run.Count("table_points", 1)
			run.Oblige(got == want)
			if got != want {
				c.violate("decision-table", site, b+"/"+s+"->"+got, decide.Pos(), fmt.Sprintf("buy-strategy %s with sell-strategy %s gives %s, documented: %s (Buy from the first, Sell from the second, Hold when they conflict)", b, s, got, want))
			}
		}
	}
}

func containsSend(n ast.Node) bool {
	f := false
	ast.Inspect(n, func(m ast.Node) bool {
		if _, ok := m.(*ast.SendStmt); ok {
			f = true
		}
		return !f
	})
	return f
}

func (c *Ctx) voteTable(fi *load.FuncInfo, typ string, spec func(b, h, s, k int) string, doc string) {
	run := c.Run
	info := fi.Pkg.TypesInfo
	site := "strategy.(*" + typ + ").Compute"
	lits := goLitsOf(fi.Decl)
	if len(lits) != 1 {
		c.violate("decision-table", site, "goroutine", fi.Decl.Pos(), "the voting goroutine was not found (undecided, fails closed)")
		return
	}
	var loop *ast.ForStmt
	var pre []ast.Stmt
	for _, s := range lits[0].Body.List {
		if f, ok := s.(*ast.ForStmt); ok {
			loop = f
		} else if loop == nil {
			pre = append(pre, s)
		}
	}
	if loop == nil {
		c.violate("decision-table", site, "loop", fi.Decl.Pos(), "the voting loop was not found")
		return
	}
	var tally *ast.AssignStmt
	var decide ast.Stmt
	for _, s := range loop.Body.List {
		if as, ok := s.(*ast.AssignStmt); ok && len(as.Rhs) == 1 {
			if call, ok := as.Rhs[0].(*ast.CallExpr); ok && strings.HasSuffix(calleeName(info, call), "strategy.CountActions") {
				tally = as
			}
		}
		if is, ok := s.(*ast.IfStmt); ok && containsSend(is) {
			decide = is
		}
	}
	// the decision may have been moved into a declared function: result <- decideVote(buy, hold, sell, ...)
	var decideCall *ast.CallExpr
	var decideFn *load.FuncInfo
	var decideLit *ast.FuncLit // … or into a closure bound to a local: result <- decide(buy, sell)
	if decide == nil {
		for _, s := range loop.Body.List {
			if snd, ok := s.(*ast.SendStmt); ok {
				if call, ok := snd.Value.(*ast.CallExpr); ok {
					if fn := callee(info, call); fn != nil {
						if dfi := c.P.Decls[fn.Origin()]; dfi != nil && dfi.Decl.Body != nil {
							decideCall, decideFn, decide = call, dfi, snd
						}
					} else if lit := funcLitOf(info, fi.Decl, call.Fun); lit != nil {
						decideCall, decideLit, decide = call, lit, snd
					}
				}
			}
		}
	}
	if tally == nil || decide == nil || len(tally.Lhs) != 4 {
		c.violate("decision-table", site, "shape", loop.Pos(), "the loop no longer tallies the sources with CountActions and then decides (undecided, fails closed)")
		return
	}
	names := make([]string, 3) // buy, hold, sell as bound by the call
	var inputs []types.Object
	for i := 0; i < 3; i++ {
		if id, ok := tally.Lhs[i].(*ast.Ident); ok && id.Name != "_" {
			names[i] = id.Name
			if obj := info.Defs[id]; obj != nil {
				inputs = append(inputs, obj)
			}
		}
	}
	// locals computed from the number of sources before the loop (`and := len(a.Strategies)`,
	// `half := len(sources) / 2`) are evaluated with Go's integer semantics for every k
	type preDef struct {
		name string
		expr ast.Expr
	}
	var preDefs []preDef
	for _, s := range pre {
		if as, ok := s.(*ast.AssignStmt); ok && len(as.Lhs) == len(as.Rhs) {
			for i, l := range as.Lhs {
				if id, ok := l.(*ast.Ident); ok {
					preDefs = append(preDefs, preDef{id.Name, as.Rhs[i]})
				}
			}
		}
	}
	var m *dtab.Machine
	if decideFn != nil || decideLit != nil {
		if decideFn != nil {
			m = dtab.FromFuncDecl(decideFn.Pkg.TypesInfo, decideFn.Decl)
		} else {
			m = dtab.FromFuncLit(info, decideLit)
		}
		if len(m.Params) != len(decideCall.Args) {
			c.violate("decision-table", site, "shape", loop.Pos(), "the decision function is not called with one argument per parameter (undecided, fails closed)")
			return
		}
	} else {
		m = dtab.FromStmts(info, []ast.Stmt{decide}, inputs)
	}
	if !c.machineOK(m, "decision-table", site, fi.Decl) {
		return
	}
	for k := 1; k <= 6; k++ {
		for b := 0; b <= k; b++ {
			for h := 0; h+b <= k; h++ {
				s := k - b - h
				env := map[string]sym.Expr{}
				vals := []int{b, h, s}
				ienv := map[string]int64{}
				for i, nm := range names {
					if nm != "" {
						env[nm] = sym.N(int64(vals[i]))
					}
				}
				for _, d := range preDefs {
					if v, ok := intEval(d.expr, ienv, int64(k)); ok {
						ienv[d.name] = v
						env[d.name] = sym.N(v)
					}
				}
				if decideFn != nil || decideLit != nil {
					// bind the callee's parameters to the values of the arguments at this point
					for i, nm := range names {
						if nm != "" {
							ienv[nm] = int64(vals[i])
						}
					}
					okArgs := true
					for i, a := range decideCall.Args {
						v, ok := intEval(a, ienv, int64(k))
						if !ok {
							okArgs = false
							break
						}
						env[m.Params[i]] = sym.N(v)
					}
					if !okArgs {
						c.violate("decision-table", site, "arguments", decideCall.Pos(), "an argument of the decision function is not a tally or a count of the sources (undecided, fails closed)")
						return
					}
				}
				point := fmt.Sprintf("k=%d buy=%d hold=%d sell=%d", k, b, h, s)
				run.Count("table_points", 1)
				p := c.one(m, env, "decision-table", site, point, fi.Decl)
				if p == nil {
					continue
				}
				got, _ := pathAction(p)
				want := spec(b, h, s, k)
				run.Oblige(got == want)
				if got != want {
					c.violate("decision-table", site, point+"->"+got, decide.Pos(), fmt.Sprintf("with %s the vote yields %s, documented: %s (%s)", point, got, want, doc))
				}
			}
		}
	}
}

// countActionsTable: CountActions takes one action from every source and increments exactly the matching counter.
func (c *Ctx) countActionsTable() {
	run := c.Run
	fi := c.fn("strategy", "", "CountActions")
	src := c.fn("strategy", "", "ActionSources")
	if fi == nil || src == nil {
		return
	}
	info := fi.Pkg.TypesInfo
	site := "strategy.CountActions"
	var loop *ast.RangeStmt
	for _, s := range fi.Decl.Body.List {
		if r, ok := s.(*ast.RangeStmt); ok {
			loop = r
		}
	}
	if loop == nil {
		c.violate("decision-table", site, "loop", fi.Decl.Pos(), "CountActions no longer ranges over the sources (undecided, fails closed)")
		return
	}
	var in types.Object
	var sw ast.Stmt
	recvs := 0
	for _, s := range loop.Body.List {
		if as, ok := s.(*ast.AssignStmt); ok && len(as.Rhs) == 1 {
			if u, ok := as.Rhs[0].(*ast.UnaryExpr); ok && u.Op.String() == "<-" {
				recvs++
				if id, ok := as.Lhs[0].(*ast.Ident); ok {
					in = info.Defs[id]
				}
			}
		}
		switch s.(type) {
		case *ast.SwitchStmt:
			sw = s
		case *ast.IfStmt:
			if !strings.Contains(exprString(s.(*ast.IfStmt).Cond), "ok") {
				sw = s
			}
		}
	}
	run.Oblige(recvs == 1)
	if recvs != 1 || in == nil || sw == nil {
		c.violate("decision-table", site, "shape", loop.Pos(), "CountActions must receive exactly one action from every source per call and tally it")
		return
	}
	m := dtab.FromStmts(info, []ast.Stmt{sw}, []types.Object{in})
	if !c.machineOK(m, "decision-table", site, fi.Decl) {
		return
	}
	counter := map[string]string{"Sell": "sell", "Buy": "buy", "Hold": "hold"}
	for _, a := range actions {
		p := c.one(m, map[string]sym.Expr{in.Name(): act(a)}, "decision-table", site, a, fi.Decl)
		if p == nil {
			continue
		}
		good := len(p.Updates) == 1
		for name, v := range p.Updates {
			if name != counter[a] || !sym.Equal(v, sym.Add(sym.V(name), sym.N(1))) {
				good = false
			}
		}
		run.Count("table_points", 1)
		run.Oblige(good)
		if !good {
			c.violate("decision-table", site, a, sw.Pos(), "an action "+a+" must increment exactly the "+counter[a]+" counter by one")
		}
	}
	// ActionSources denormalises every source: every channel that can be an element of a returned
	// slice is DenormalizeActions(member.Compute(...))
	sinfo := src.Pkg.TypesInfo
	okDen := true
	nElems := 0
	badElem := ""
	defsAll := singleDefs(sinfo, src.Decl.Body)
	isDen := func(e ast.Expr) bool {
		call, ok := ast.Unparen(e).(*ast.CallExpr)
		if !ok || !strings.HasSuffix(calleeName(sinfo, call), "strategy.DenormalizeActions") || len(call.Args) != 1 {
			return false
		}
		arg := call.Args[0]
		// the Compute result may go through a local first: actions := member.Compute(...)
		if id, isID := arg.(*ast.Ident); isID {
			if def := defsAll[sinfo.ObjectOf(id)]; def != nil {
				arg = def
			}
		}
		if inner, ok := arg.(*ast.CallExpr); ok {
			if sel, ok := inner.Fun.(*ast.SelectorExpr); ok && sel.Sel.Name == "Compute" {
				return true
			}
		}
		return false
	}
	elem := func(e ast.Expr) {
		nElems++
		if id, isID := ast.Unparen(e).(*ast.Ident); isID {
			if def := defsAll[sinfo.ObjectOf(id)]; def != nil {
				e = def
			}
		}
		if !isDen(e) {
			okDen = false
			if badElem == "" {
				badElem = exprString(e)
			}
		}
	}
	var elemsOf func(e ast.Expr, depth int)
	elemsOf = func(e ast.Expr, depth int) {
		switch x := ast.Unparen(e).(type) {
		case *ast.CompositeLit:
			for _, el := range x.Elts {
				if kv, ok := el.(*ast.KeyValueExpr); ok {
					el = kv.Value
				}
				elem(el)
			}
		case *ast.Ident:
			obj := sinfo.ObjectOf(x)
			ast.Inspect(src.Decl.Body, func(n ast.Node) bool {
				as, ok := n.(*ast.AssignStmt)
				if !ok {
					return true
				}
				for i, l := range as.Lhs {
					if i >= len(as.Rhs) {
						break
					}
					if ix, ok := l.(*ast.IndexExpr); ok {
						if id, ok := ix.X.(*ast.Ident); ok && sinfo.ObjectOf(id) == obj {
							elem(as.Rhs[i])
						}
					}
					if id, ok := l.(*ast.Ident); ok && sinfo.ObjectOf(id) == obj {
						switch r := ast.Unparen(as.Rhs[i]).(type) {
						case *ast.CallExpr:
							if f, ok := r.Fun.(*ast.Ident); ok && f.Name == "append" {
								for _, a := range r.Args[1:] {
									elem(a)
								}
							} else if f, ok := r.Fun.(*ast.Ident); !ok || f.Name != "make" {
								okDen = false
								if badElem == "" {
									badElem = exprString(r)
								}
							}
						case *ast.CompositeLit:
							if depth < 2 {
								elemsOf(r, depth+1)
							}
						}
					}
				}
				return true
			})
		default:
			okDen = false
			if badElem == "" {
				badElem = exprString(e)
			}
		}
	}
	ast.Inspect(src.Decl.Body, func(n ast.Node) bool {
		if _, isLit := n.(*ast.FuncLit); isLit {
			return false
		}
		if r, ok := n.(*ast.ReturnStmt); ok && len(r.Results) == 1 {
			elemsOf(r.Results[0], 0)
		}
		return true
	})
	if nElems == 0 {
		okDen = false
	}
	run.Count("action_source_elements", nElems)
	run.Oblige(okDen)
	if !okDen {
		c.violate("decision-table", "strategy.ActionSources", "denormalise", src.Decl.Pos(), "every source must be DenormalizeActions(strategy.Compute(...)): the votes are over standing recommendations; a returned element is "+short(badElem, 80))
	}
}

// lossSpecs: the documented No-Loss / Stop-Loss transducers as conditional expressions over the
// wrapped action a, the closing price c and the remembered level (0 = not invested). They are
// compared with the closures for every action and every ordering of close, level and 0.
var lossSpecs = []stepSpec{
	{Site: "strategy/decorator.(*NoLossStrategy).Compute", Callee: "helper.Operate", Rule: "decision-table",
		Params: []string{"a", "c"}, State: []string{"level"}, Enum: map[string][]string{"a": {"Buy", "Hold", "Sell"}},
		Let:     [][2]string{{"OPEN", "(level == 0 && a == Buy)"}, {"CLOSE", "(level != 0 && a == Sell && level < c)"}},
		Updates: map[string]string{"level": "ite(OPEN, c, ite(CLOSE, 0, level))"},
		Out:     "ite(OPEN, Buy, ite(CLOSE, Sell, Hold))",
		Doc:     "Buy when not invested and the wrapped strategy says Buy (remember the close); Sell when invested, the wrapped strategy says Sell and the close is above the purchase close; Hold otherwise"},
	{Site: "strategy/decorator.(*StopLossStrategy).Compute", Callee: "helper.Operate", Rule: "decision-table",
		Params: []string{"a", "c"}, State: []string{"level"}, Enum: map[string][]string{"a": {"Buy", "Hold", "Sell"}},
		Let:     [][2]string{{"OPEN", "(level == 0 && a == Buy)"}, {"CLOSE", "(level != 0 && (a == Sell || c <= level))"}},
		Updates: map[string]string{"level": "ite(OPEN, c * (1 - Percentage), ite(CLOSE, 0, level))"},
		Out:     "ite(OPEN, Buy, ite(CLOSE, Sell, Hold))",
		Doc:     "Buy when not invested and the wrapped strategy says Buy (remember close*(1-percentage)); Sell when invested and the wrapped strategy says Sell or the close is at or below the stop level; Hold otherwise"},
}

// lossTable checks the No-Loss / Stop-Loss transducers.
func (c *Ctx) lossTable(fi *load.FuncInfo, kind string) {
	run := c.Run
	info := fi.Pkg.TypesInfo
	site := "strategy/decorator.(*" + kind + "Strategy).Compute"
	lit := closureArg(info, fi.Decl, "helper.Operate")
	if lit == nil {
		c.violate("decision-table", site, "closure", fi.Decl.Pos(), "the decorator's closure passed to helper.Operate was not found")
		return
	}
	m := dtab.FromFuncLit(info, lit)
	if !c.machineOK(m, "decision-table", site, fi.Decl) || len(m.Params) != 2 {
		return
	}
	if len(m.State) != 1 {
		c.violate("decision-table", site, fmt.Sprintf("state %v", m.State), lit.Pos(), "the decorator must remember exactly one level (purchase close / stop level)")
		return
	}
	level := m.State[0]
	// the level starts at 0 (= not invested)
	initOK := false
	ast.Inspect(fi.Decl.Body, func(n ast.Node) bool {
		if as, ok := n.(*ast.AssignStmt); ok && len(as.Lhs) == 1 && exprString(as.Lhs[0]) == level && as.Pos() < lit.Pos() {
			if v, ok := constInt(info, as.Rhs[0]); ok && v == 0 {
				initOK = true
			} else if tv, ok := info.Types[as.Rhs[0]]; ok && tv.Value != nil && tv.Value.String() == "0" {
				initOK = true
			}
		}
		return true
	})
	run.Oblige(initOK)
	if !initOK {
		c.violate("decision-table", site, "initial level", fi.Decl.Pos(), "the remembered level must start at 0 (not invested)")
	}
	_ = level
	for _, sp := range lossSpecs {
		if strings.Contains(sp.Site, kind+"Strategy") {
			c.checkStepSpecs([]stepSpec{sp})
			run.Count("table_points", 1)
		}
	}
	// the closing stream is the snapshots' Close, the action stream the inner strategy's
	roleOK := false
	for _, body := range c.familyBodies(fi) {
		ast.Inspect(body, func(n ast.Node) bool {
			if call, ok := n.(*ast.CallExpr); ok && strings.HasSuffix(calleeName(info, call), "asset.SnapshotsAsClosings") {
				roleOK = true
			}
			return true
		})
	}
	run.Oblige(roleOK)
	if !roleOK {
		c.violate("decision-table", site, "closings", fi.Decl.Pos(), "the level is no longer compared with the closing price (asset.SnapshotsAsClosings)")
	}
}

// ---------------------------------------------------------------------------
// C08

func CheckC08(c *Ctx) {
	run := c.Run
	run.Technique = "decision-table extraction (Engine D) of NormalizeActions, DenormalizeActions, CountTransactions and the Outcome step function; exhaustive product exploration of the extracted finite transducers; normal-form comparison of the update expressions (exact rational-function algebra); sign analysis; shape calculus for lengths"
	run.Explanation = "NormalizeActions and DenormalizeActions are extracted as transducers over {Sell,Hold,Buy} and compared with their specification tables; on the extracted machines an exhaustive exploration shows (i) from the initial state the non-Hold outputs of Normalize alternate Buy, Sell, Buy… starting with Buy, (ii) Normalize∘Denormalize is the identity on that language. Outcome's step function is extracted over {cash, invested} x action: Buy acts only in cash, Sell only when invested, everything else leaves both variables untouched (idempotence under repeated signals); the updates and the result are compared as normalised rational functions with shares' = balance/value, balance' = 0; balance' = shares·value, shares' = 0; result = balance' + shares'·value − 1, so the portfolio value is conserved across a trade and the result is 0 until the first Buy; a sign analysis gives result >= −1 for non-negative values. The shape calculus gives one entry per (value, action) pair and ComputeWithOutcome's wiring. Float rounding of the compounded product is not decided."
	run.Trusted = []string{"go/types", "specification tables (DESIGN appendix C)", "exact rational arithmetic (internal/sym)"}
	spk := c.P.Pkg("strategy")
	if spk == nil {
		run.Break("package strategy missing")
		return
	}
	norm := c.actionMachine("NormalizeActions", "Sell")
	den := c.actionMachine("DenormalizeActions", "Hold")
	// Normalize table
	type step func(a, last string) (out, next string, ok bool)
	mk := func(m *machineInfo) step {
		return func(a, last string) (string, string, bool) {
			if m == nil {
				return "", "", false
			}
			env := map[string]sym.Expr{m.param: act(a), m.state: act(last)}
			ps, ok := m.m.Select(env, numOracle)
			if !ok || len(ps) != 1 {
				return "", "", false
			}
			p := ps[0]
			next := last
			if v, has := p.Updates[m.state]; has {
				if x, ok := sym.Subst(v, env).(sym.Var); ok && strings.HasPrefix(x.Name, "#") {
					next = x.Name[1:]
				} else {
					return "", "", false
				}
			}
			if len(p.Ret) != 1 {
				return "", "", false
			}
			r := sym.Subst(p.Ret[0], env)
			// the returned value may be the (updated) state variable
			if x, ok := r.(sym.Var); ok {
				if strings.HasPrefix(x.Name, "#") {
					return x.Name[1:], next, true
				}
			}
			return "", "", false
		}
	}
	ns, ds := mk(norm), mk(den)
	if norm != nil {
		for _, a := range actions {
			for _, last := range actions {
				out, next, ok := ns(a, last)
				wantOut, wantNext := "Hold", last
				if a != "Hold" && a != last {
					wantOut, wantNext = a, a
				}
				run.Count("table_points", 1)
				good := ok && out == wantOut && next == wantNext
				run.Oblige(good)
				if !good {
					c.violate("decision-table", "strategy.NormalizeActions", a+"/"+last, norm.pos, fmt.Sprintf("NormalizeActions with input %s and last=%s emits %s and remembers %s; specification: %s, %s", a, last, out, next, wantOut, wantNext))
				}
			}
		}
	}
	if den != nil {
		for _, a := range actions {
			for _, last := range actions {
				out, next, ok := ds(a, last)
				wantNext := last
				if a != "Hold" && a != last {
					wantNext = a
				}
				run.Count("table_points", 1)
				good := ok && out == wantNext && next == wantNext
				run.Oblige(good)
				if !good {
					c.violate("decision-table", "strategy.DenormalizeActions", a+"/"+last, den.pos, fmt.Sprintf("DenormalizeActions with input %s and standing %s emits %s and remembers %s; specification: both %s", a, last, out, next, wantNext))
				}
			}
		}
	}
	// exploration on the extracted machines
	if norm != nil && den != nil {
		// (i) alternation: explore (last, lastEmitted) over all input words (finite state)
		type st struct{ last, emitted string }
		seen := map[st]bool{}
		work := []st{{norm.init, ""}}
		altOK := true
		for len(work) > 0 {
			s := work[len(work)-1]
			work = work[:len(work)-1]
			if seen[s] {
				continue
			}
			seen[s] = true
			for _, a := range actions {
				out, next, ok := ns(a, s.last)
				if !ok {
					altOK = false
					continue
				}
				em := s.emitted
				if out != "Hold" {
					if (s.emitted == "" && out != "Buy") || out == s.emitted {
						altOK = false
					}
					em = out
				}
				work = append(work, st{next, em})
			}
		}
		run.Count("explored_states", len(seen))
		run.Oblige(altOK)
		if !altOK {
			c.violate("transducer", "strategy.NormalizeActions", "alternation", norm.pos, "from the initial state some input word makes the normalised stream repeat an action or start with Sell")
		}
		// (ii) Normalize(Denormalize(w)) = w for alternating w (Hold-padded)
		type ps struct{ d, n, expect string }
		seen2 := map[ps]bool{}
		work2 := []ps{{den.init, norm.init, "Buy"}}
		idOK := true
		for len(work2) > 0 {
			s := work2[len(work2)-1]
			work2 = work2[:len(work2)-1]
			if seen2[s] {
				continue
			}
			seen2[s] = true
			for _, a := range []string{"Hold", s.expect} {
				d1, dn, ok1 := ds(a, s.d)
				n1, nn, ok2 := ns(d1, s.n)
				if !ok1 || !ok2 || n1 != a {
					idOK = false
					continue
				}
				ex := s.expect
				if a != "Hold" {
					if a == "Buy" {
						ex = "Sell"
					} else {
						ex = "Buy"
					}
				}
				work2 = append(work2, ps{dn, nn, ex})
			}
		}
		run.Count("explored_states", len(seen2))
		run.Oblige(idOK)
		if !idOK {
			c.violate("transducer", "strategy.NormalizeActions/DenormalizeActions", "round trip", norm.pos, "denormalising and then normalising a strictly alternating action stream does not give it back")
		}
	}
	c.countTransactions()
	c.outcomeStep()
	// one entry per (value, action) pair
	if fi := c.fn("strategy", "", "Outcome"); fi != nil {
		for _, r := range c.Results(fi, Opts{Mode: shape.ModeInline, DistinctLens: true}) {
			outs := retStreams(r)
			good := len(outs) == 1 && outs[0].Len != nil
			if good {
				want, _ := ParseSpec("min(n_values, n_actions)", specSym(shape.SymResolver(r)))
				good = lin.ProveEQ(r.G, outs[0].Len, want)
			}
			run.Oblige(good)
			if !good {
				c.violate("outcome/len", "strategy.Outcome", "length", fi.Decl.Pos(), "the outcome stream does not have one entry per (value, action) pair (min of the two lengths)")
			}
		}
	}
	c.computeWithOutcomeWiring("outcome/wiring")
	run.Floor("table_points", 30)
}

// computeWithOutcomeWiring: the outcome is Outcome(closings of the snapshots, the strategy's own
// actions) and the actions handed back are those same actions, untransformed.
func (c *Ctx) computeWithOutcomeWiring(rule string) {
	run := c.Run
	fi := c.fn("strategy", "", "ComputeWithOutcome")
	if fi == nil {
		run.Break("anchor missing: strategy.ComputeWithOutcome")
		return
	}
	info := fi.Pkg.TypesInfo
	var closings, acts bool
	ast.Inspect(fi.Decl.Body, func(n ast.Node) bool {
		call, ok := n.(*ast.CallExpr)
		if !ok {
			return true
		}
		name := calleeName(info, call)
		if strings.HasSuffix(name, "strategy.Outcome") && len(call.Args) == 2 {
			// first argument derives from SnapshotsAsClosings, second from s.Compute
			closings = derivesFrom(info, fi.Decl, call.Args[0], "asset.SnapshotsAsClosings")
			acts = derivesFrom(info, fi.Decl, call.Args[1], ".Compute")
		}
		return true
	})
	retActs := true
	ast.Inspect(fi.Decl.Body, func(n ast.Node) bool {
		if _, isLit := n.(*ast.FuncLit); isLit {
			return false
		}
		if r, ok := n.(*ast.ReturnStmt); ok && len(r.Results) == 2 {
			if !derivesFrom(info, fi.Decl, r.Results[0], ".Compute") {
				retActs = false
			}
		}
		return true
	})
	run.Oblige(closings && acts && retActs)
	if !(closings && acts) {
		c.violate(rule, "strategy.ComputeWithOutcome", "wiring", fi.Decl.Pos(), "the outcome must be computed from the snapshots' closing prices and the same strategy's actions")
	} else if !retActs {
		c.violate(rule, "strategy.ComputeWithOutcome", "actions", fi.Decl.Pos(), "the actions handed back must be the strategy's own action stream, untransformed")
	}
}

type machineInfo struct {
	m     *dtab.Machine
	param string
	state string
	init  string
	pos   token.Pos
}

func (c *Ctx) actionMachine(fn, wantInit string) *machineInfo {
	fi := c.fn("strategy", "", fn)
	if fi == nil {
		return nil
	}
	info := fi.Pkg.TypesInfo
	site := "strategy." + fn
	lit := closureArg(info, fi.Decl, "helper.Map")
	if lit == nil {
		c.violate("decision-table", site, "closure", fi.Decl.Pos(), "the closure passed to helper.Map was not found")
		return nil
	}
	m := dtab.FromFuncLit(info, lit)
	if !c.machineOK(m, "decision-table", site, fi.Decl) || len(m.Params) != 1 {
		return nil
	}
	state := ""
	if len(m.State) == 1 {
		state = m.State[0]
	} else {
		c.violate("decision-table", site, fmt.Sprintf("state %v", m.State), lit.Pos(), fn+" must remember exactly one action")
		return nil
	}
	init := ""
	ast.Inspect(fi.Decl.Body, func(n ast.Node) bool {
		if as, ok := n.(*ast.AssignStmt); ok && len(as.Lhs) == 1 && exprString(as.Lhs[0]) == state && as.Pos() < lit.Pos() {
			init = exprString(as.Rhs[0])
		}
		return true
	})
	c.Run.Oblige(init == wantInit)
	if init != wantInit {
		c.violate("decision-table", site, "initial "+init, fi.Decl.Pos(), fn+" must start from "+wantInit+", it starts from "+init)
	}
	return &machineInfo{m: m, param: m.Params[0], state: state, init: init, pos: lit.Pos()}
}

func (c *Ctx) countTransactions() {
	run := c.Run
	fi := c.fn("strategy", "", "CountTransactions")
	if fi == nil {
		return
	}
	info := fi.Pkg.TypesInfo
	lit := closureArg(info, fi.Decl, "helper.Map")
	if lit == nil {
		c.violate("decision-table", "strategy.CountTransactions", "closure", fi.Decl.Pos(), "closure not found")
		return
	}
	m := dtab.FromFuncLit(info, lit)
	if !c.machineOK(m, "decision-table", "strategy.CountTransactions", fi.Decl) || len(m.Params) != 1 || len(m.State) != 1 {
		return
	}
	cnt := m.State[0]
	for _, a := range actions {
		p := c.one(m, map[string]sym.Expr{m.Params[0]: act(a)}, "decision-table", "strategy.CountTransactions", a, fi.Decl)
		if p == nil {
			continue
		}
		want := sym.V(cnt)
		if a != "Hold" {
			want = sym.Add(sym.V(cnt), sym.N(1))
		}
		nv, has := p.Updates[cnt]
		if !has {
			nv = sym.V(cnt)
		}
		good := sym.Equal(nv, want) && len(p.Ret) == 1 && sym.Equal(p.Ret[0], want)
		run.Count("table_points", 1)
		run.Oblige(good)
		if !good {
			c.violate("decision-table", "strategy.CountTransactions", a, lit.Pos(), "the transaction count must grow by one exactly on Buy and Sell and be emitted after the update")
		}
	}
}

// outcomeStep checks the portfolio step function.
func (c *Ctx) outcomeStep() {
	run := c.Run
	fi := c.fn("strategy", "", "Outcome")
	if fi == nil {
		return
	}
	info := fi.Pkg.TypesInfo
	site := "strategy.Outcome"
	lit := closureArg(info, fi.Decl, "helper.Operate")
	if lit == nil {
		c.violate("decision-table", site, "closure", fi.Decl.Pos(), "the step closure passed to helper.Operate was not found")
		return
	}
	m := dtab.FromFuncLit(info, lit)
	if !c.machineOK(m, "decision-table", site, fi.Decl) || len(m.Params) != 2 {
		return
	}
	vName, aName := m.Params[0], m.Params[1]
	// state variables: the one initialised to 1 is the cash balance, the one initialised to 0 the shares
	bal, shr := "", ""
	ast.Inspect(fi.Decl.Body, func(n ast.Node) bool {
		if as, ok := n.(*ast.AssignStmt); ok && len(as.Lhs) == 1 && len(as.Rhs) == 1 && as.Pos() < lit.Pos() {
			if tv, ok := info.Types[as.Rhs[0]]; ok && tv.Value != nil {
				switch tv.Value.String() {
				case "1":
					bal = exprString(as.Lhs[0])
				case "0":
					shr = exprString(as.Lhs[0])
				}
			}
		}
		return true
	})
	st := map[string]bool{}
	for _, s := range m.State {
		st[s] = true
	}
	if bal == "" || shr == "" || !st[bal] || !st[shr] || len(m.State) != 2 {
		c.violate("decision-table", site, "state", fi.Decl.Pos(), "Outcome must start with one unit of cash and no shares and keep exactly these two variables")
		return
	}
	B, S, Val := sym.V(bal), sym.V(shr), sym.V(vName)
	type pt struct {
		name   string
		b, s   int64
		cash   bool
		shares bool
	}
	points := []pt{{"cash", 1, 0, true, false}, {"invested", 0, 2, false, true}, {"empty", 0, 0, false, false}, {"both", 1, 2, true, true}}
	for _, p := range points {
		for _, a := range actions {
			env := map[string]sym.Expr{aName: act(a), bal: sym.N(p.b), shr: sym.N(p.s), vName: sym.N(5)}
			point := p.name + "/" + a
			path := c.one(m, env, "decision-table", site, point, fi.Decl)
			if path == nil {
				return
			}
			wantB, wantS := B, S
			switch {
			case a == "Buy" && p.cash:
				wantS, wantB = sym.Div(B, Val), sym.N(0)
			case a == "Sell" && p.shares && !(p.cash && a == "Buy"):
				wantB, wantS = sym.Mul(S, Val), sym.N(0)
			}
			gotB, hb := path.Updates[bal]
			if !hb {
				gotB = B
			}
			gotS, hs := path.Updates[shr]
			if !hs {
				gotS = S
			}
			wantR := sym.Sub(sym.Add(wantB, sym.Mul(wantS, Val)), sym.N(1))
			good := sym.Equal(gotB, wantB) && sym.Equal(gotS, wantS) && len(path.Ret) == 1 && sym.Equal(path.Ret[0], wantR)
			run.Count("table_points", 1)
			run.Oblige(good)
			run.Sample(map[string]string{"obligation": "Outcome step at " + point, "balance'": sym.String(gotB), "shares'": sym.String(gotS), "verdict": fmt.Sprint(good)})
			if !good {
				ret := "?"
				if len(path.Ret) == 1 {
					ret = sym.CanonString(path.Ret[0])
				}
				c.violate("decision-table", site, point, lit.Pos(), fmt.Sprintf("at %s the step gives balance'=%s shares'=%s result=%s; the all-in/all-out portfolio gives balance'=%s shares'=%s result=%s",
					point, sym.CanonString(gotB), sym.CanonString(gotS), ret, sym.CanonString(wantB), sym.CanonString(wantS), sym.CanonString(wantR)))
			}
			// non-negativity is preserved (so the result is never below -1)
			nn := nonNeg(gotB, map[string]bool{bal: true, shr: true, vName: true}) && nonNeg(gotS, map[string]bool{bal: true, shr: true, vName: true})
			run.Oblige(nn)
			if !nn {
				c.violate("outcome/sign", site, point+" sign", lit.Pos(), "an update can make the balance or the shares negative for non-negative inputs: the outcome can fall below -100%")
			}
		}
	}
}

// nonNeg: the expression is built from non-negative atoms with +, *, / only.
func nonNeg(e sym.Expr, pos map[string]bool) bool {
	switch x := e.(type) {
	case sym.Var:
		return pos[x.Name]
	case sym.Num:
		return x.V.Sign() >= 0
	case sym.Bin:
		if x.Op == "-" {
			return false
		}
		return nonNeg(x.L, pos) && nonNeg(x.R, pos)
	}
	return false
}

// derivesFrom: the expression (following single-definition locals, indexing and Duplicate) comes from a call whose name ends in suffix.
func derivesFrom(info *types.Info, fd *ast.FuncDecl, e ast.Expr, suffix string) bool {
	defs := singleDefs(info, fd.Body)
	var walk func(e ast.Expr, depth int) bool
	walk = func(e ast.Expr, depth int) bool {
		if depth > 8 {
			return false
		}
		switch x := e.(type) {
		case *ast.ParenExpr:
			return walk(x.X, depth+1)
		case *ast.IndexExpr:
			return walk(x.X, depth+1)
		case *ast.Ident:
			if obj := info.Uses[x]; obj != nil {
				if d, ok := defs[obj]; ok {
					return walk(d, depth+1)
				}
			}
		case *ast.CallExpr:
			name := calleeName(info, x)
			if strings.HasSuffix(name, suffix) {
				return true
			}
			if strings.HasSuffix(name, "helper.Duplicate") && len(x.Args) > 0 {
				return walk(x.Args[0], depth+1)
			}
		}
		return false
	}
	return walk(e, 0)
}

// intEval evaluates an integer expression with Go semantics; len(...) of anything is k.
func intEval(e ast.Expr, env map[string]int64, k int64) (int64, bool) {
	switch x := e.(type) {
	case *ast.ParenExpr:
		return intEval(x.X, env, k)
	case *ast.BasicLit:
		var v int64
		if _, err := fmt.Sscan(x.Value, &v); err == nil {
			return v, true
		}
	case *ast.Ident:
		v, ok := env[x.Name]
		return v, ok
	case *ast.CallExpr:
		if id, ok := x.Fun.(*ast.Ident); ok && id.Name == "len" {
			return k, true
		}
	case *ast.UnaryExpr:
		if x.Op == token.SUB {
			v, ok := intEval(x.X, env, k)
			return -v, ok
		}
	case *ast.BinaryExpr:
		l, ok1 := intEval(x.X, env, k)
		r, ok2 := intEval(x.Y, env, k)
		if !ok1 || !ok2 {
			return 0, false
		}
		switch x.Op {
		case token.ADD:
			return l + r, true
		case token.SUB:
			return l - r, true
		case token.MUL:
			return l * r, true
		case token.QUO:
			if r != 0 {
				return l / r, true
			}
		case token.REM:
			if r != 0 {
				return l % r, true
			}
		}
	}
	return 0, false
}

// everyReturnIsThePipeline: each return of a decorator's Compute yields (possibly through locals)
// the call calleeSuffix(…) whose closure argument is the decided one and whose stream argument
// comes from the wrapped strategy's Compute.
func (c *Ctx) everyReturnIsThePipeline(fi *load.FuncInfo, calleeSuffix, site string) {
	run := c.Run
	info := fi.Pkg.TypesInfo
	lit := closureArg(info, fi.Decl, calleeSuffix)
	defs := singleDefs(info, fi.Decl.Body)
	n := 0
	ast.Inspect(fi.Decl.Body, func(nd ast.Node) bool {
		if _, isLit := nd.(*ast.FuncLit); isLit {
			return false
		}
		r, ok := nd.(*ast.ReturnStmt)
		if !ok || len(r.Results) != 1 {
			return true
		}
		n++
		e := ast.Unparen(r.Results[0])
		for i := 0; i < 6; i++ {
			id, isID := e.(*ast.Ident)
			if !isID {
				break
			}
			d, has := defs[info.ObjectOf(id)]
			if !has {
				break
			}
			e = ast.Unparen(d)
		}
		good := false
		if call, ok := e.(*ast.CallExpr); ok && strings.HasSuffix(calleeName(info, call), calleeSuffix) {
			hasLit, fromInner := false, false
			for _, a := range call.Args {
				// the same closure: a declared function handed by name is presented as a fresh
				// literal over its body on every look-up, so bodies are compared, not nodes
				if fl := funcLitOf(info, fi.Decl, a); fl != nil && lit != nil && (fl == lit || (fl.Body != nil && lit.Body != nil && (fl.Body == lit.Body || fl.Body.Pos() == lit.Body.Pos()))) {
					hasLit = true
				}
				if derivesFromDeep(info, fi.Decl, a, ".Compute") {
					fromInner = true
				}
				// ... also through a local or an unexported helper that returns it
				if o, _ := c.origin(info, fi.Decl, a, 0); o != nil {
					if oc, isCall := ast.Unparen(o).(*ast.CallExpr); isCall {
						if sel, isSel := oc.Fun.(*ast.SelectorExpr); isSel && sel.Sel.Name == "Compute" {
							fromInner = true
						}
					}
				}
			}
			good = hasLit && fromInner
		}
		run.Oblige(good)
		if !good {
			c.violate("decision-table", site, "return "+short(exprString(r.Results[0]), 60), r.Pos(), "this path does not return the decorator's pipeline ("+calleeSuffix+" over the wrapped strategy's actions with the decided closure) but "+short(exprString(e), 80)+": the documented function of the wrapped action stream is not applied on it")
		}
		return true
	})
	run.Count("decorator_returns", n)
}

// derivesFromDeep: like derivesFrom, but also through the stream arguments of helper stages
// (Duplicate element, Map/Skip/Shift of a stream, asset.SnapshotsAs…).
func derivesFromDeep(info *types.Info, fd *ast.FuncDecl, e ast.Expr, suffix string) bool {
	defs := singleDefs(info, fd.Body)
	var walk func(e ast.Expr, depth int) bool
	walk = func(e ast.Expr, depth int) bool {
		if depth > 10 {
			return false
		}
		switch x := e.(type) {
		case *ast.ParenExpr:
			return walk(x.X, depth+1)
		case *ast.IndexExpr:
			return walk(x.X, depth+1)
		case *ast.Ident:
			if d, ok := defs[info.Uses[x]]; ok {
				return walk(d, depth+1)
			}
		case *ast.CallExpr:
			if strings.HasSuffix(calleeName(info, x), suffix) {
				return true
			}
			for _, a := range x.Args {
				if t := info.TypeOf(a); t != nil {
					if _, isChan := t.Underlying().(*types.Chan); isChan || strings.HasPrefix(t.String(), "[]<-chan") || strings.HasPrefix(t.String(), "[]chan") {
						if walk(a, depth+1) {
							return true
						}
					}
				}
			}
		}
		return false
	}
	return walk(e, 0)
}

// compoundRegistries: AllAndStrategies / AllSplitStrategies build one compound per ordered pair
// of different strategies of the list they are given. What each compound combines is decided on
// the source: the object appended in the inner loop has exactly the two loop variables as its
// operands - through its constructor's strategy arguments and any slice literal stored into a
// field of it before the append. (With the operands missing an And strategy votes over nothing;
// with one of them twice a Split strategy buys and sells on the same strategy.)
func (c *Ctx) compoundRegistries() {
	run := c.Run
	run.Explanation += " The compounds built by AllAndStrategies / AllSplitStrategies have exactly the two strategies of their pair as operands."
	sp := c.P.Pkg("strategy")
	if sp == nil {
		return
	}
	info := sp.TypesInfo
	n := 0
	isStrategy := func(e ast.Expr) bool {
		t := info.TypeOf(e)
		if t == nil {
			return false
		}
		nm, ok := t.(*types.Named)
		return ok && nm.Obj().Name() == "Strategy" && nm.Obj().Pkg() == sp.Types
	}
	for _, fi := range c.P.Decls {
		if fi.Pkg != sp || fi.Decl.Recv != nil || fi.Decl.Body == nil || !strings.HasPrefix(fi.Fn.Name(), "All") || fi.Fn.Name() == "AllStrategies" {
			continue
		}
		if strings.HasSuffix(c.P.Fset.Position(fi.Decl.Pos()).Filename, "_test.go") {
			continue
		}
		site := "strategy." + fi.Fn.Name()
		var outer, inner *ast.RangeStmt
		ast.Inspect(fi.Decl.Body, func(nd ast.Node) bool {
			if r, ok := nd.(*ast.RangeStmt); ok {
				if outer == nil {
					outer = r
				} else if inner == nil && r.Pos() > outer.Body.Pos() && r.End() < outer.Body.End() {
					inner = r
				}
			}
			return true
		})
		n++
		why := ""
		var v1, v2, k1, k2 types.Object
		if outer == nil || inner == nil {
			why = "the function no longer has the two nested loops over the list (undecided, fails closed)"
		} else {
			if a, ok := outer.Value.(*ast.Ident); ok && a.Name != "_" {
				v1 = info.ObjectOf(a)
			}
			if b, ok := inner.Value.(*ast.Ident); ok && b.Name != "_" {
				v2 = info.ObjectOf(b)
			}
			if k, ok := outer.Key.(*ast.Ident); ok && k.Name != "_" {
				k1 = info.ObjectOf(k)
			}
			if k, ok := inner.Key.(*ast.Ident); ok && k.Name != "_" {
				k2 = info.ObjectOf(k)
			}
			if (v1 == nil && k1 == nil) || (v2 == nil && k2 == nil) {
				why = "the loops do not name their elements (undecided, fails closed)"
			}
		}
		if why == "" {
			appends := 0
			ast.Inspect(inner.Body, func(nd ast.Node) bool {
				call, ok := nd.(*ast.CallExpr)
				if !ok || len(call.Args) != 2 {
					return true
				}
				if id, isID := call.Fun.(*ast.Ident); !isID || id.Name != "append" {
					return true
				}
				appends++
				// the object appended: a constructor call, or a local assigned from one
				elem := ast.Unparen(call.Args[1])
				var ctor *ast.CallExpr
				var local types.Object
				if cc, isC := elem.(*ast.CallExpr); isC {
					ctor = cc
				} else if id, isID := elem.(*ast.Ident); isID {
					local = info.ObjectOf(id)
					ast.Inspect(inner.Body, func(m ast.Node) bool {
						as, isAs := m.(*ast.AssignStmt)
						if isAs && len(as.Lhs) == 1 && len(as.Rhs) == 1 {
							if l, isL := as.Lhs[0].(*ast.Ident); isL && info.ObjectOf(l) == local {
								if cc, isC := ast.Unparen(as.Rhs[0]).(*ast.CallExpr); isC {
									ctor = cc
								}
							}
						}
						return true
					})
				}
				if ctor == nil {
					why = "what is appended is not built by a constructor call in the loop (undecided, fails closed)"
					return true
				}
				var operands []ast.Expr
				for _, a := range ctor.Args {
					if isStrategy(a) {
						operands = append(operands, a)
					}
				}
				if local != nil {
					ast.Inspect(inner.Body, func(m ast.Node) bool {
						as, isAs := m.(*ast.AssignStmt)
						if !isAs || len(as.Lhs) != 1 || len(as.Rhs) != 1 || as.Pos() > call.Pos() {
							return true
						}
						sel, isSel := as.Lhs[0].(*ast.SelectorExpr)
						if !isSel {
							return true
						}
						if x, isX := sel.X.(*ast.Ident); !isX || info.ObjectOf(x) != local {
							return true
						}
						if cl, isCL := ast.Unparen(as.Rhs[0]).(*ast.CompositeLit); isCL {
							operands = nil // the field replaces what the constructor was given
							for _, e := range cl.Elts {
								operands = append(operands, e)
							}
						} else if isStrategy(as.Rhs[0]) {
							operands = append(operands, as.Rhs[0])
						}
						return true
					})
				}
				// the element of a loop: its value variable, list[key], or a local set from either
				elemOf := func(e ast.Expr, val, key types.Object, list ast.Expr) bool {
					o, _ := c.origin(info, fi.Decl, e, 0)
					o = ast.Unparen(o)
					if id, ok := o.(*ast.Ident); ok {
						return val != nil && info.ObjectOf(id) == val
					}
					if ix, ok := o.(*ast.IndexExpr); ok && key != nil && exprString(ix.X) == exprString(list) {
						if kid, isID := ast.Unparen(ix.Index).(*ast.Ident); isID && info.ObjectOf(kid) == key {
							return true
						}
					}
					return false
				}
				isElem := func(e ast.Expr, which int) bool {
					if which == 1 {
						return elemOf(e, v1, k1, outer.X)
					}
					return elemOf(e, v2, k2, inner.X)
				}
				// both loops run over the same list, so (a, b) and (b, a) both occur: which loop
				// variable comes first only permutes the registry
				inOrder := len(operands) == 2 && isElem(operands[0], 1) && isElem(operands[1], 2)
				swapped := len(operands) == 2 && isElem(operands[0], 2) && isElem(operands[1], 1) && exprString(outer.X) == exprString(inner.X)
				if !inOrder && !swapped {
					var txt []string
					for _, o := range operands {
						txt = append(txt, exprString(o))
					}
					why = fmt.Sprintf("the compound appended for a pair of the two loops' elements has the operands [%s]", strings.Join(txt, ", "))
				}
				return true
			})
			if appends == 0 && why == "" {
				why = "nothing is appended in the inner loop"
			}
			// what is returned is the list the compounds were appended to
			if why == "" {
				var appended types.Object
				ast.Inspect(inner.Body, func(nd ast.Node) bool {
					as, ok := nd.(*ast.AssignStmt)
					if !ok || len(as.Lhs) != 1 || len(as.Rhs) != 1 {
						return true
					}
					if call, isC := ast.Unparen(as.Rhs[0]).(*ast.CallExpr); isC {
						if id, isID := call.Fun.(*ast.Ident); isID && id.Name == "append" {
							if l, isL := as.Lhs[0].(*ast.Ident); isL {
								appended = info.ObjectOf(l)
							}
						}
					}
					return true
				})
				ast.Inspect(fi.Decl.Body, func(nd ast.Node) bool {
					if _, isLit := nd.(*ast.FuncLit); isLit {
						return false
					}
					r, ok := nd.(*ast.ReturnStmt)
					if !ok || len(r.Results) != 1 {
						return true
					}
					o, _ := c.origin(info, fi.Decl, r.Results[0], 0)
					if id, isID := ast.Unparen(o).(*ast.Ident); !isID || appended == nil || info.ObjectOf(id) != appended {
						why = "the function returns " + exprString(r.Results[0]) + ", not the list the compounds were appended to"
					}
					return true
				})
			}
		}
		run.Oblige(why == "")
		if why != "" {
			c.violate("compound-registry", site, short(why, 60), fi.Decl.Pos(), "every compound of the registry combines exactly the two strategies of its pair: "+why)
		}
	}
	run.Count("compound_registries", n)
	run.Floor("compound_registries", 2)
}

// decoratorInputs: the step of a decorator is compared with the documented transducer; what the
// transducer runs ON is decided here. In the Compute of every decorator the action stream handed
// to the stage that carries the closure (helper.Map / helper.Operate) is the wrapped strategy's own
// Compute result - no stage in between (a NormalizeActions in front of No-Loss removes the
// standing Sell the decorator is documented to act on) - and, where a second stream is taken, it
// is the closings of the same snapshots.
func (c *Ctx) decoratorInputs() {
	run := c.Run
	run.Explanation += " The decorators' closures are fed the wrapped strategy's own Compute result (no stage in between) and the closings of the same snapshots."
	n := 0
	for _, tn := range []string{"InverseStrategy", "NoLossStrategy", "StopLossStrategy"} {
		fi := c.fn("strategy/decorator", tn, "Compute")
		if fi == nil || fi.Decl.Body == nil {
			continue
		}
		info := fi.Pkg.TypesInfo
		site := "strategy/decorator.(*" + tn + ").Compute"
		var stage *ast.CallExpr
		for _, body := range c.familyBodies(fi) {
			ast.Inspect(body, func(nd ast.Node) bool {
				call, ok := nd.(*ast.CallExpr)
				if !ok || stage != nil {
					return true
				}
				name := calleeName(info, call)
				if !(strings.HasSuffix(name, "helper.Map") || strings.HasSuffix(name, "helper.Operate")) {
					return true
				}
				for _, a := range call.Args {
					if funcLitOf(info, fi.Decl, a) != nil {
						stage = call
					}
				}
				return true
			})
		}
		if stage == nil {
			continue // the decision-table rule reports the missing closure
		}
		n++
		why := ""
		streams := 0
		for _, a := range stage.Args {
			t := info.TypeOf(a)
			if t == nil {
				continue
			}
			ch, isChan := t.Underlying().(*types.Chan)
			if !isChan {
				continue
			}
			streams++
			o, _ := c.origin(info, fi.Decl, a, 0)
			call, isCall := ast.Unparen(o).(*ast.CallExpr)
			if nm, isNamed := ch.Elem().(*types.Named); isNamed && nm.Obj().Name() == "Action" {
				// the wrapped strategy's Compute
				good := false
				if isCall {
					if sel, isSel := call.Fun.(*ast.SelectorExpr); isSel && sel.Sel.Name == "Compute" {
						if fn := callee(info, call); fn != nil && fn.Pkg() != nil && strings.HasSuffix(fn.Pkg().Path(), "/strategy") {
							if inner, isInner := sel.X.(*ast.SelectorExpr); isInner {
								if v, isF := info.ObjectOf(inner.Sel).(*types.Var); isF && v.IsField() {
									good = true
								}
							}
						}
					}
				}
				if !good {
					why = "the actions the decorator works on are " + short(exprString(o), 50) + ", not the wrapped strategy's own Compute result"
				}
			} else if isCall {
				if !strings.HasSuffix(calleeName(info, call), "asset.SnapshotsAsClosings") {
					why = "the second stream is " + short(exprString(o), 50) + ", not the closings of the snapshots"
				}
			} else {
				why = "the second stream is " + short(exprString(o), 50) + ", not the closings of the snapshots"
			}
		}
		if streams == 0 && why == "" {
			why = "the stage takes no stream (undecided, fails closed)"
		}
		run.Oblige(why == "")
		if why != "" {
			c.violate("decorator-input", site, short(why, 60), stage.Pos(), why)
		}
	}
	run.Count("decorator_stages", n)
	run.Floor("decorator_stages", 3)
}
