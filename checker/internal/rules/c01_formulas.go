package rules

import (
	"fmt"
	"go/ast"
	"go/token"
	"go/types"
	"hash/fnv"
	"regexp"
	"sort"
	"strings"

	"verif/checker/internal/dtab"
	"verif/checker/internal/load"
	"verif/checker/internal/report"
	"verif/checker/internal/shape"
	"verif/checker/internal/sym"
)

// formulaSpec: the documented formula of an indicator's outputs, written over its parameters
// (by name), its sub-indicator objects (receiver fields applied as functions, or constructed
// objects pkg.Type{Field: value}), configuration fields, prev(x)/at(x,k), max, min, abs, sqrt,
// pow, sign, pos (keep positives), neg (keep negatives), since (run length) and arithmetic.
type formulaSpec struct {
	Type string
	Let  [][2]string // named sub-expressions, substituted textually (longest name first)
	Outs []string
	Doc  string
}

// FormulaSpecs is the frozen table, transcribed from the doc comment of each type.
var FormulaSpecs = []formulaSpec{
	{"trend.Apo", nil, []string{"trend.Ema{Period: FastPeriod, Smoothing: 2}(c) - trend.Ema{Period: SlowPeriod, Smoothing: 2}(c)"}, "APO = Ema(values, fast) - Ema(values, slow)"},
	{"trend.Bop", nil, []string{"(closing - opening) / (high - low)"}, "BOP = (Closing - Opening) / (High - Low)"},
	{"trend.Cci", [][2]string{{"TP", "trend.TypicalPrice{}(highs, lows, closings)"}, {"MA", "trend.Sma{Period: Period}(TP)"}},
		[]string{"(TP - MA) / (0.015 * trend.Sma{Period: Period}(abs(TP - MA)))"}, "CCI = (TP - SMA(TP)) / (0.015 * SMA(|TP - SMA(TP)|))"},
	{"trend.Dema", nil, []string{"2*Ema1(c) - Ema2(Ema1(c))"}, "DEMA = 2*EMA1(values) - EMA2(EMA1(values))"},
	{"trend.Envelope", nil, []string{"Ma(closings) * (1 + Percentage/100)", "Ma(closings)", "Ma(closings) * (1 - Percentage/100)"}, "moving average +/- percentage"},
	{"trend.Hma", nil, []string{"wma3(2*wma1(values) - wma2(values))"}, "HMA = WMA(sqrt(p), 2*WMA(p/2) - WMA(p))"},
	{"trend.Kdj", [][2]string{{"RSV", "(closing - MovingMin(low)) / (MovingMax(high) - MovingMin(low)) * 100"}},
		[]string{"Sma1(RSV)", "Sma2(Sma1(RSV))", "3*Sma1(RSV) - 2*Sma2(Sma1(RSV))"}, "K = Sma(RSV), D = Sma(K), J = 3K - 2D"},
	{"trend.Macd", nil, []string{"Ema1(c) - Ema2(c)", "Ema3(Ema1(c) - Ema2(c))"}, "MACD = EMA12 - EMA26, Signal = EMA9(MACD)"},
	{"trend.MassIndex", nil, []string{"MovingSum(Ema1(highs - lows) / Ema2(Ema1(highs - lows)))"}, "Mass Index = SUM(EMA(H-L) / EMA(EMA(H-L)))"},
	{"trend.Mlr", nil, []string{"Mls(x, y)[0]*x + Mls(x, y)[1]"}, "y = mx + b"},
	{"trend.Mls", [][2]string{{"M", "(Sum.Period*Sum(x*y) - Sum(x)*Sum(y)) / (Sum.Period*Sum(pow(x, 2)) - Sum(x)*Sum(x))"}},
		[]string{"M", "(Sum(y) - M*Sum(x)) / Sum.Period"}, "m = (p*sumXY - sumX*sumY)/(p*sumX2 - sumX*sumX), b = (sumY - m*sumX)/p"},
	{"trend.Sma", nil, []string{"trend.MovingSum{Period: Period}(c) / Period"}, "SMA = moving sum / period"},
	{"trend.Tema", nil, []string{"3*Ema1(c) - 3*Ema2(Ema1(c)) + Ema3(Ema2(Ema1(c)))"}, "TEMA = 3*EMA1 - 3*EMA2 + EMA3"},
	{"trend.Trima", nil, []string{"trend.Sma{Period: calculatePeriods_0}(trend.Sma{Period: calculatePeriods_1}(c))"}, "TRIMA = SMA(p1, SMA(p2, values))"},
	{"trend.Trix", [][2]string{{"E3", "trend.Ema{Period: Period, Smoothing: 2}(trend.Ema{Period: Period, Smoothing: 2}(trend.Ema{Period: Period, Smoothing: 2}(c)))"}},
		[]string{"(E3 - prev(E3)) / prev(E3)"}, "TRIX = (EMA3 - previous EMA3) / previous EMA3"},
	{"trend.Tsi", nil, []string{"FirstSmoothing(SecondSmoothing(closings - prev(closings))) / FirstSmoothing(SecondSmoothing(abs(closings - prev(closings)))) * 100"}, "TSI = (PCDS / APCDS) * 100"},
	{"trend.TypicalPrice", nil, []string{"(high + low + closing) / 3"}, "(High + Low + Closing) / 3"},
	{"trend.Vwma", nil, []string{"trend.MovingSum{Period: Period}(closing*volume) / trend.MovingSum{Period: Period}(volume)"}, "VWMA = Sum(Price*Volume) / Sum(Volume)"},
	{"trend.WeightedClose", nil, []string{"(highs + lows + closes*2) / 4"}, "(High + Low + Close*2) / 4"},
	{"trend.Aroon", nil, []string{"RoundDigit((Period - since(trend.MovingMax{Period: Period}(high))) / Period * 100, 0)", "RoundDigit((Period - since(trend.MovingMin{Period: Period}(low))) / Period * 100, 0)"}, "Aroon Up/Down = (period - days since the extreme) / period * 100"},
	{"momentum.AwesomeOscillator", nil, []string{"ShortSma((highs + lows)/2) - LongSma((highs + lows)/2)"}, "AO = SMA5(median) - SMA34(median)"},
	{"momentum.ChaikinOscillator", [][2]string{{"AD", "Ad(highs, lows, closings, volumes)"}}, []string{"ShortEma(AD) - LongEma(AD)", "AD"}, "CO = Ema(fast, AD) - Ema(slow, AD)"},
	{"momentum.IchimokuCloud", [][2]string{{"CONV", "(ConversionMax(highs) + ConversionMin(lows)) / 2"}, {"BASE", "(BaseMax(highs) + BaseMin(lows)) / 2"}},
		[]string{"CONV", "BASE", "(CONV + BASE) / 2", "(LeadingMax(highs) + LeadingMin(lows)) / 2", "closings"}, "conversion, base, span A, span B, lagging"},
	{"momentum.Ppo", [][2]string{{"PPO", "(ShortEma(closings) - LongEma(closings)) / LongEma(closings) * 100"}}, []string{"PPO", "SignalEma(PPO)", "PPO - SignalEma(PPO)"}, "PPO, Signal = EMA(PPO), Histogram = PPO - Signal"},
	{"momentum.Pvo", [][2]string{{"PVO", "(ShortEma(volumes) - LongEma(volumes)) / LongEma(volumes) * 100"}}, []string{"PVO", "SignalEma(PVO)", "PVO - SignalEma(PVO)"}, "PVO, Signal, Histogram"},
	{"momentum.Qstick", nil, []string{"Sma(closings - openings)"}, "QS = SMA(Closings - Openings)"},
	{"momentum.Rsi", [][2]string{{"CH", "(closings - prev(closings))"}, {"RS", "Rma(pos(CH)) / (-1*Rma(neg(CH)))"}}, []string{"100 - 100/(1 + RS)"}, "RSI = 100 - 100/(1+RS), RS = average gain / average loss"},
	{"momentum.StochasticOscillator", [][2]string{{"K", "(closings - Min(lows)) / (Max(highs) - Min(lows)) * 100"}}, []string{"K", "Sma(K)"}, "K = (C - LL)/(HH - LL)*100, D = SMA(K)"},
	{"momentum.StochasticRsi", nil, []string{"(Rsi(closings) - Min(Rsi(closings))) / (Max(Rsi(closings)) - Min(Rsi(closings)))"}, "(RSI - min RSI)/(max RSI - min RSI)"},
	{"momentum.WilliamsR", nil, []string{"(Max(highs) - closings) / (Max(highs) - Min(lows)) * -100"}, "WR = (HH - C)/(HH - LL) * -100"},
	{"volatility.AccelerationBands", nil, []string{"trend.Sma{Period: Period}(high * (1 + 4*(high - low)/(high + low)))", "trend.Sma{Period: Period}(closing)", "trend.Sma{Period: Period}(low * (1 - 4*(high - low)/(high + low)))"}, "upper/middle/lower acceleration bands"},
	{"volatility.Atr", nil, []string{"Ma(max(highs - lows, highs - prev(closings), prev(closings) - lows))"}, "ATR = MA(TR), TR = max(H-L, H-prevC, prevC-L)"},
	{"volatility.BollingerBandWidth", nil, []string{"(BollingerBands(c)[0] - BollingerBands(c)[2]) / BollingerBands(c)[1]"}, "(upper - lower) / middle"},
	{"volatility.BollingerBands", nil, []string{"trend.Sma{Period: Period}(c) + 2*volatility.MovingStd{Period: Period}(c)", "trend.Sma{Period: Period}(c)", "trend.Sma{Period: Period}(c) - 2*volatility.MovingStd{Period: Period}(c)"}, "SMA +/- 2 std"},
	{"volatility.ChandelierExit", [][2]string{{"ATR", "volatility.Atr{Ma: trend.Sma{Period: Period}}(highs, lows, closings)"}},
		[]string{"trend.MovingMax{Period: Period}(highs) - ATR*Multiplier", "trend.MovingMin{Period: Period}(lows) + ATR*Multiplier"}, "highest high - ATR*3, lowest low + ATR*3"},
	{"volatility.DonchianChannel", nil, []string{"Max(c)", "(Max(c) + Min(c)) / 2", "Min(c)"}, "upper = max, lower = min, middle = their mean"},
	{"volatility.KeltnerChannel", nil, []string{"Ema(closings) + 2*Atr(highs, lows, closings)", "Ema(closings)", "Ema(closings) - 2*Atr(highs, lows, closings)"}, "EMA +/- 2 ATR"},
	{"volatility.PercentB", nil, []string{"(closings - BollingerBands(closings)[2]) / (BollingerBands(closings)[0] - BollingerBands(closings)[2])"}, "%B = (C - lower)/(upper - lower)"},
	{"volatility.UlcerIndex", [][2]string{{"HC", "trend.MovingMax{Period: Period}(closings)"}, {"PD", "(100 * ((closings - HC) / HC))"}},
		[]string{"sqrt(trend.Sma{Period: Period}(PD * PD))"}, "UI = sqrt(SMA(PD*PD)), PD = 100*(C - max C)/max C"},
	{"volume.Cmf", nil, []string{"Sum(Mfv(highs, lows, closings, volumes)) / Sum(volumes)"}, "CMF = Sum(MFV) / Sum(Volume)"},
	{"volume.Emv", nil, []string{"Sma((((highs + lows)/2) - ((prev(highs) + prev(lows))/2)) / ((volumes/100000000) / (highs - lows)))"}, "EMV = SMA(distance moved / box ratio)"},
	{"volume.Fi", nil, []string{"Ema((closings - prev(closings)) * volumes)"}, "FI = EMA((Current - Previous) * Volume)"},
	{"volume.Mfi", [][2]string{{"RMF", "(TypicalPrice(highs, lows, closings) * volumes)"}, {"MF", "(sign(RMF - prev(RMF)) * RMF)"}, {"MR", "(Sum(pos(MF)) / Sum(-1*neg(MF)))"}},
		[]string{"100 - 100/(1 + MR)"}, "MFI = 100 - 100/(1 + money ratio)"},
	{"volume.Mfm", nil, []string{"((closings - lows) - (highs - closings)) / (highs - lows)"}, "MFM = ((C-L) - (H-C)) / (H-L)"},
	{"volume.Mfv", nil, []string{"Mfm(highs, lows, closings) * volumes"}, "MFV = MFM * Volume"},
	{"volume.Vwap", nil, []string{"Sum(closings*volumes) / Sum(volumes)"}, "VWAP = Sum(C*V)/Sum(V)"},
	{"volume.Ad", nil, []string{"scan(acc + Mfv(highs, lows, closings, volumes), 0)"}, "AD = previous AD + MFV"},
	{"volume.Vpt", nil, []string{"scan(acc + volumes * (closings - prev(closings)) / prev(closings), 0)"}, "VPT = previous VPT + Volume*(C - prevC)/prevC"},
}

// opaqueOperators: what the named stateful closures and hand-written stages compute; the loop-free ones
// are compared against the documented recurrence in recurrenceSpecs, the others are not decided.
var opaqueFormulaSpecs = []formulaSpec{
	{"trend.Ema", nil, []string{`op("stage:trend.(*Ema).Compute/go#1", trend.Sma{Period: Period}(c), c)`}, "EMA recurrence seeded with the SMA of the first period values"},
	{"trend.Rma", nil, []string{`op("stage:trend.(*Rma).Compute/go#1", trend.Sma{Period: Period}(c), c)`}, "RMA recurrence seeded with the SMA of the first period values"},
	{"trend.Smma", nil, []string{`op("stage:trend.(*Smma).Compute/go#1", trend.Sma{Period: Period}(c), c)`}, "SMMA recurrence seeded with the SMA of the first period values"},
	{"trend.Kama", [][2]string{{"ER", "(abs(closings - at(closings, ErPeriod)) / trend.MovingSum{Period: ErPeriod}(abs(closings - prev(closings))))"}},
		[]string{`op("stage:trend.(*Kama).Compute/go#1", closings, pow(ER*(2/(FastScPeriod + 1) - 2/(SlowScPeriod + 1)) + 2/(SlowScPeriod + 1), 2))`}, "KAMA = previous KAMA + SC*(price - previous KAMA), SC = (ER*(2/(fast+1) - 2/(slow+1)) + 2/(slow+1))^2"},
	{"trend.MovingSum", nil, []string{`op("closure:trend.(*MovingSum).Compute#1", c, at(c, Period))`}, "sliding sum over the last period values"},
	{"trend.MovingMax", nil, []string{`op("closure:trend.(*MovingMax).Compute#1", c, at(c, Period))`}, "maximum of the last period values"},
	{"trend.MovingMin", nil, []string{`op("closure:trend.(*MovingMin).Compute#1", c, at(c, Period))`}, "minimum of the last period values"},
	{"trend.Wma", nil, []string{`op("closure:trend.(*Wma).Compute#1", values)`}, "weighted moving average"},
	{"volatility.MovingStd", nil, []string{`op("stage:volatility.(*MovingStd).Compute/go#1", c)`}, "standard deviation of the last period values"},
	{"volatility.SuperTrend", nil, []string{`op("closure:volatility.(*SuperTrend).Compute#1", (highs + lows)/2, Multiplier*Atr(highs, lows, closings), closings)`}, "bands = (H+L)/2 +/- multiplier*ATR, trend selection on closings"},
	{"volatility.Po", [][2]string{{"X", `op("stage:helper.Count/helper.Count#1", closings)`}, {"PL", `obj_min(highs + mls(X, highs)[0])`}, {"PH", `obj_max(lows + mls(X, lows)[0])`}},
		[]string{"100 * (closings - PL) / (PH - PL)"}, "PO = 100*(Closing - PL)/(PH - PL)"},
	{"volume.Nvi", nil, []string{`op("closure:volume.(*Nvi).Compute#1", (closings - prev(closings)) / prev(closings), volumes - prev(volumes))`}, "NVI recurrence over the closing ratio and the volume change"},
	{"volume.Obv", nil, []string{`op("closure:volume.(*Obv).Compute#1", closings, volumes)`}, "OBV recurrence over closings and volumes"},
}

// formulasNotCompared: indicators whose values come from a hand-written loop or a stateful closure;
// their recurrences are compared in recurrenceSpecs where they are loop-free, otherwise not decided.
var formulasNotCompared = map[string]string{
	"trend.Ema": "recurrence (hand-written stage): see recurrence table", "trend.Rma": "recurrence: see recurrence table", "trend.Smma": "recurrence: see recurrence table",
	"trend.Kama": "recurrence: see recurrence table", "trend.MovingSum": "recurrence: see recurrence table",
	"trend.MovingMax": "window maximum kept in a search tree (values not decided)", "trend.MovingMin": "window minimum kept in a search tree (values not decided)",
	"trend.Wma": "weighted sum computed by a loop over a ring (values not decided)", "volatility.MovingStd": "loop over a ring inside the stage (values not decided)",
	"volatility.SuperTrend": "stateful band selection rule (values not decided)", "volatility.Po": "uses a counter stage for x (values not decided)",
	"volume.Nvi": "recurrence: see recurrence table", "volume.Obv": "recurrence: see recurrence table",
}

func (e *specEnv) expand(src string, lets [][2]string) string {
	// every definition may use the names defined before it: expand the later names first
	out := src
	for i := len(lets) - 1; i >= 0; i-- {
		out = replaceWord(out, lets[i][0], "("+lets[i][1]+")")
	}
	return out
}

func replaceWord(s, word, with string) string {
	var b strings.Builder
	for i := 0; i < len(s); {
		if strings.HasPrefix(s[i:], word) {
			before := i == 0 || !isWordChar(s[i-1])
			after := i+len(word) >= len(s) || !isWordChar(s[i+len(word)])
			if before && after {
				b.WriteString(with)
				i += len(word)
				continue
			}
		}
		b.WriteByte(s[i])
		i++
	}
	return b.String()
}

func isWordChar(c byte) bool {
	return c == '_' || c == '.' || (c >= '0' && c <= '9') || (c >= 'a' && c <= 'z') || (c >= 'A' && c <= 'Z')
}

// checkFormulas compares the value term of every indicator output with its documented formula.
func (c *Ctx) checkFormulas() {
	run := c.Run
	specs := map[string]formulaSpec{}
	for _, s := range FormulaSpecs {
		specs[s.Type] = s
	}
	for _, s := range opaqueFormulaSpecs {
		specs[s.Type] = s
		run.Assume("the values of " + s.Type + " are decided only as far as its inputs are wired (" + s.Doc + "); " + formulasNotCompared[s.Type])
	}
	for _, fi := range IndicatorComputes(c.P) {
		rs := c.Results(fi, Opts{Mode: shape.ModeContracts})
		if len(rs) == 0 {
			continue
		}
		r := rs[0]
		tn := ""
		if r.Recv != nil {
			tn = r.Recv.TypeName()
		}
		sp, has := specs[tn]
		if !has {
			run.Oblige(false)
			run.Violate(report.Finding{Rule: "formula", Site: r.RootName, Detail: "no specification", Pos: c.P.Pos(fi.Decl.Pos()),
				Message: "indicator " + tn + " has no entry in the documented-formula table: its arithmetic is not covered"})
			continue
		}
		run.Count("formulas", 1)
		outs := retStreams(r)
		if len(outs) != len(sp.Outs) {
			run.Oblige(false)
			run.Violate(report.Finding{Rule: "formula", Site: r.RootName, Detail: "output count", Pos: c.P.Pos(fi.Decl.Pos()),
				Message: fmt.Sprintf("%s has %d outputs, its documented formula has %d", tn, len(outs), len(sp.Outs))})
			continue
		}
		var streams []string
		for _, ps := range r.ParamStreams {
			streams = append(streams, ps.Param)
		}
		env := &specEnv{r: r, params: specParams(fi, streams)}
		tm := shape.NewTerms(c.P, r)
		for i, o := range outs {
			site := fmt.Sprintf("%s/out%d", r.RootName, i)
			want, err := env.parse(env.expand(sp.Outs[i], sp.Let))
			if err != nil {
				run.Oblige(false)
				run.Violate(report.Finding{Rule: "formula", Site: site, Detail: "specification not evaluable", Pos: c.P.Pos(fi.Decl.Pos()),
					Message: "the documented formula refers to something the indicator no longer has: " + err.Error()})
				continue
			}
			got := tm.Of(o)
			ok := sym.Equal(got, want) || sym.Equal(anonymise(got), anonymise(want))
			run.Oblige(ok)
			// the indicators are generic over helper.Number. Where the documented formula divides by
			// configuration constants only (averages, midpoints: meaningful on integer series), the
			// code must agree with it in integer arithmetic too: nothing moved across a division
			if ok && constDenominators(want) {
				ki, kw := intSafeKey(anonymise(got)), intSafeKey(anonymise(want))
				run.Count("integer_safe_formulas", 1)
				run.Oblige(ki == kw)
				if ki != kw {
					run.Violate(report.Finding{Rule: "formula", Site: site, Detail: "integer arithmetic: " + short(ki, 140), Pos: c.P.Pos(fi.Decl.Pos()),
						Message: fmt.Sprintf("over the rationals the value computed equals the documented formula (%s), but the indicator is generic over integer element types too, where the order of multiplication and division changes the result (1/period is 0): computed %s ; documented %s", sp.Doc, short(ki, 200), short(kw, 200))})
				}
			}
			if ok {
				g2, w2 := got, want
				if !sym.Equal(got, want) {
					g2, w2 = anonymise(got), anonymise(want)
				}
				why, pts := limitAgreement(g2, w2)
				run.Count("limit_points", pts)
				run.Oblige(why == "")
				if why != "" {
					run.Violate(report.Finding{Rule: "formula/limit", Site: site, Detail: short(why, 140), Pos: c.P.Pos(fi.Decl.Pos()),
						Message: fmt.Sprintf("as rational functions the value computed equals the documented formula (%s), but not in floating-point arithmetic where a denominator vanishes: %s (a NaN or a different limit where the documented formula has a value)", sp.Doc, why)})
				}
			}
			run.Sample(map[string]string{"obligation": "value(" + site + ") = " + sp.Doc, "verdict": fmt.Sprint(ok)})
			if !ok {
				fh := fnv.New32a()
				fh.Write([]byte(sym.CanonString(got)))
				run.Violate(report.Finding{Rule: "formula", Site: site, Detail: fmt.Sprintf("%s #%08x", short(sym.CanonString(got), 140), fh.Sum32()), Pos: c.P.Pos(fi.Decl.Pos()),
					Message: fmt.Sprintf("the value computed is not the documented formula (%s). computed: %s ; documented: %s", sp.Doc, short(sym.CanonString(got), 300), short(sym.CanonString(want), 300))})
			}
		}
	}
	run.Floor("formulas", 61)
	c.checkRecurrences()
}

// ---------------------------------------------------------------------------
// Recurrences: stateful closures and hand-written loop bodies compared as guarded commands.

type recRule struct {
	Cond    string            // over parameters and state ("" = always)
	Updates map[string]string // state -> new value
	Out     string
}

type recurrenceSpec struct {
	Site   string   // "volume.(*Nvi).Compute" (closure passed to a helper) or a stage
	Kind   string   // "closure" or "stage"
	Params []string // names used in the spec for the inputs, in order
	State  string   // the name used in the spec for the single state variable
	Free   []string // further quantities the documented rule refers to
	Rules  []recRule
	Doc    string
}

var recurrenceSpecs = []recurrenceSpec{
	{"volume.(*Nvi).Compute", "closure", []string{"ratio", "dv"}, "nvi", nil,
		[]recRule{{"dv <= 0", map[string]string{"nvi": "nvi + ratio*nvi"}, "nvi + ratio*nvi"}, {"", map[string]string{}, "nvi"}},
		"NVI = previous NVI if the volume increased, else previous NVI + ratio * previous NVI"},
	{"trend.(*MovingSum).Compute", "closure", []string{"x", "old"}, "sum", nil,
		[]recRule{{"", map[string]string{"sum": "sum + x - old"}, "sum + x - old"}}, "sliding sum: add the new value, remove the one that left the window"},
	{"trend.(*Rma).Compute", "stage", []string{"x"}, "r", nil,
		[]recRule{{"", map[string]string{"r": "((r * (Period - 1)) + x) / Period"}, "((r * (Period - 1)) + x) / Period"}}, "R[i] = ((R[i-1]*(p-1)) + v[i]) / p"},
	{"trend.(*Smma).Compute", "stage", []string{"x"}, "r", nil,
		[]recRule{{"", map[string]string{"r": "((r * (Period - 1)) + x) / Period"}, "((r * (Period - 1)) + x) / Period"}}, "SMMA[i] = ((SMMA[i-1]*(N-1)) + Close[i]) / N"},
	{"trend.(*Kama).Compute", "stage", []string{"price", "sc"}, "kama", nil,
		[]recRule{{"", map[string]string{"kama": "kama + sc*(price - kama)"}, "kama + sc*(price - kama)"}}, "KAMA = previous KAMA + SC*(price - previous KAMA)"},
	{"volume.(*Obv).Compute", "closure", []string{"closing", "volume"}, "obv", []string{"previousClosing"},
		[]recRule{{"closing > previousClosing", map[string]string{"obv": "obv + volume"}, "obv + volume"},
			{"closing < previousClosing", map[string]string{"obv": "obv - volume"}, "obv - volume"},
			{"", map[string]string{}, "obv"}}, "OBV[i] = OBV[i-1] +/- Volume[i] as Closing[i] is above/below Closing[i-1]"},
	{"trend.(*Ema).Compute", "stage", []string{"x"}, "r", nil,
		[]recRule{{"", map[string]string{"r": "(x - r) * (Smoothing / (Period + 1)) + r"}, "(x - r) * (Smoothing / (Period + 1)) + r"}}, "EMA = (value - previous EMA) * smoothing/(period+1) + previous EMA"},
}

func (c *Ctx) checkRecurrences() {
	run := c.Run
	for _, sp := range recurrenceSpecs {
		parts := strings.SplitN(sp.Site, ".", 2)
		tn := strings.TrimSuffix(strings.TrimPrefix(parts[1], "(*"), ").Compute")
		fi := c.fn(parts[0], tn, "Compute")
		if fi == nil {
			continue
		}
		info := fi.Pkg.TypesInfo
		var m *dtab.Machine
		switch sp.Kind {
		case "closure":
			lit := closureArg(info, fi.Decl, "Operate")
			if lit != nil {
				m = dtab.FromFuncLit(info, lit)
			}
		case "stage":
			// the steady-state loop of the hand-written goroutine: `for n := range c { … }`
			for _, fl := range goLitsOf(fi.Decl) {
				if mm := stageLoopMachine(info, fl); mm != nil {
					m = mm
				}
			}
		}
		site := sp.Site
		run.Count("recurrences", 1)
		if m == nil {
			c.violate("formula/recurrence", site, "not found", fi.Decl.Pos(), "the recurrence could not be located (undecided, fails closed)")
			continue
		}
		if len(m.Unsupported) > 0 || len(m.Params) != len(sp.Params) || len(m.State) != 1 {
			c.violate("formula/recurrence", site, "shape", fi.Decl.Pos(), fmt.Sprintf("the recurrence no longer has %d input(s) and one remembered value in loop-free form (undecided, fails closed): params %v state %v %v", len(sp.Params), m.Params, m.State, m.Unsupported))
			continue
		}
		ren := map[string]sym.Expr{}
		for i, p := range m.Params {
			ren[p] = sym.V(sp.Params[i])
		}
		ren[m.State[0]] = sym.V(sp.State)
		// configuration reads (r.Period, e.Smoothing, multiplier) are resolved to field names
		for _, rd := range m.Reads {
			if i := strings.LastIndex(rd, "."); i >= 0 {
				ren[rd] = sym.V("cfg:" + rd[i+1:])
			}
		}
		rs := c.Results(fi, Opts{Mode: shape.ModeContracts})
		env := &specEnv{locals: map[string]bool{sp.State: true}}
		if len(rs) > 0 {
			env.r = rs[0]
		}
		for _, p := range sp.Params {
			env.locals[p] = true
		}
		for _, p := range sp.Free {
			env.locals[p] = true
		}
		// atoms of both sides
		keys := map[string]bool{}
		type srule struct {
			cond sym.Expr
			upd  map[string]sym.Expr
			out  sym.Expr
		}
		var srules []srule
		bad := false
		for _, rr := range sp.Rules {
			sr := srule{upd: map[string]sym.Expr{}}
			if rr.Cond != "" {
				e, err := env.parse(rr.Cond)
				if err != nil {
					bad = true
					break
				}
				sr.cond = e
				collectKeys(e, keys)
			}
			for k, v := range rr.Updates {
				e, err := env.parse(v)
				if err != nil {
					bad = true
					break
				}
				sr.upd[k] = e
			}
			e, err := env.parse(rr.Out)
			if err != nil {
				bad = true
				break
			}
			sr.out = e
			srules = append(srules, sr)
		}
		if bad {
			run.Break("bad recurrence specification for " + site)
			continue
		}
		for _, p := range m.Paths {
			for _, cd := range p.Conds {
				collectKeys(sym.Subst(cd, ren), keys)
			}
		}
		var ks []string
		for k := range keys {
			ks = append(ks, k)
		}
		sort.Strings(ks)
		okAll := true
		var msg string
		allMsgs := fnv.New32a() // every mismatch enters the finding's key
		total := 1
		for range ks {
			total *= 3
		}
		for idx := 0; idx < total; idx++ {
			sg := map[string]int{}
			x := idx
			for _, k := range ks {
				sg[k] = x%3 - 1
				x /= 3
			}
			// specification rule
			var want *srule
			for i := range srules {
				if srules[i].cond == nil {
					want = &srules[i]
					break
				}
				if v, ok := evalCond(srules[i].cond, sg); ok && v {
					want = &srules[i]
					break
				}
			}
			// code path
			var got *dtab.Path
			n := 0
			for _, p := range m.Paths {
				take := true
				for _, cd := range p.Conds {
					v, ok := evalCond(sym.Subst(cd, ren), sg)
					if !ok {
						take = false
						okAll = false
						msg = "a condition of the recurrence is not a comparison of its inputs"
					}
					if !v {
						take = false
					}
				}
				if take {
					got = p
					n++
				}
			}
			if want == nil || got == nil || n != 1 {
				okAll = false
				if msg == "" {
					msg = "the recurrence is not single-valued on some ordering of its inputs"
				}
				continue
			}
			gu, has := got.Updates[m.State[0]]
			var gotUpd sym.Expr = sym.V(sp.State)
			if has {
				gotUpd = sym.Subst(gu, ren)
			}
			var wantUpd sym.Expr = sym.V(sp.State)
			if w, ok := want.upd[sp.State]; ok {
				wantUpd = w
			}
			var gotOut sym.Expr
			switch {
			case len(got.Ret) == 1:
				gotOut = sym.Subst(got.Ret[0], ren)
			case len(got.Sends) == 1:
				gotOut = sym.Subst(got.Sends[0], ren)
			}
			if gotOut == nil || !sym.Equal(gotUpd, wantUpd) || !sym.Equal(gotOut, want.out) {
				okAll = false
				var desc []string
				for _, k := range ks {
					desc = append(desc, fmt.Sprintf("%s %s 0", short(k, 50), map[int]string{-1: "<", 0: "=", 1: ">"}[sg[k]]))
				}
				o := "?"
				if gotOut != nil {
					o = sym.CanonString(gotOut)
				}
				msg = fmt.Sprintf("when %s: remembered value becomes %s and %s is emitted; documented: %s and %s", strings.Join(desc, ", "), sym.CanonString(gotUpd), o, sym.CanonString(wantUpd), sym.CanonString(want.out))
				allMsgs.Write([]byte(msg))
			}
		}
		run.Oblige(okAll)
		if !okAll {
			c.violate("formula/recurrence", site, fmt.Sprintf("%s #%08x", short(msg, 100), allMsgs.Sum32()), fi.Decl.Pos(), "the recurrence is not the documented one ("+sp.Doc+"): "+msg)
		}
	}
	run.Floor("recurrences", 7)
	c.checkStepSpecs(stepSpecs)
	run.Floor("selection_rules", 1)
	c.checkLoopFormulas()
}

// stageLoopMachine: the guarded commands of one iteration of the steady-state loop of a
// hand-written stage. Receives become the inputs, the `if !ok { break }` checks are dropped,
// pure definitions immediately before the loop are included.
func stageLoopMachine(info *types.Info, fl *ast.FuncLit) *dtab.Machine {
	list := fl.Body.List
	for i := len(list) - 1; i >= 0; i-- {
		var body *ast.BlockStmt
		var inputs []types.Object
		switch x := list[i].(type) {
		case *ast.RangeStmt:
			body = x.Body
			if id, ok := x.Key.(*ast.Ident); ok {
				if o := info.Defs[id]; o != nil {
					inputs = append(inputs, o)
				}
			}
		case *ast.ForStmt:
			if x.Cond == nil && x.Init == nil && x.Post == nil {
				body = x.Body
			}
		}
		if body == nil {
			continue
		}
		// variables the loop body assigns are the remembered values, not definitions to inline
		assigned := map[types.Object]bool{}
		ast.Inspect(body, func(n ast.Node) bool {
			switch x := n.(type) {
			case *ast.AssignStmt:
				for _, l := range x.Lhs {
					if id, ok := l.(*ast.Ident); ok {
						if o := info.Uses[id]; o != nil {
							assigned[o] = true
						}
					}
				}
			case *ast.IncDecStmt:
				if id, ok := x.X.(*ast.Ident); ok {
					if o := info.Uses[id]; o != nil {
						assigned[o] = true
					}
				}
			}
			return true
		})
		j := i
		for j > 0 {
			as, ok := list[j-1].(*ast.AssignStmt)
			if !ok || as.Tok != token.DEFINE || !pureExprs(info, as.Rhs) {
				break
			}
			carried := false
			for _, l := range as.Lhs {
				if id, ok := l.(*ast.Ident); ok && assigned[info.Defs[id]] {
					carried = true
				}
			}
			if carried {
				break
			}
			j--
		}
		stmts := append([]ast.Stmt{}, list[j:i]...)
		okVars := map[types.Object]bool{}
		for _, s := range body.List {
			if as, ok := s.(*ast.AssignStmt); ok && len(as.Rhs) == 1 {
				if u, ok := as.Rhs[0].(*ast.UnaryExpr); ok && u.Op == token.ARROW {
					if id, ok := as.Lhs[0].(*ast.Ident); ok {
						if o := info.Defs[id]; o != nil {
							inputs = append(inputs, o)
						} else {
							return nil
						}
					}
					if len(as.Lhs) == 2 {
						if id, ok := as.Lhs[1].(*ast.Ident); ok {
							if o := info.ObjectOf(id); o != nil {
								okVars[o] = true
							}
						}
					}
					continue
				}
			}
			if is, ok := s.(*ast.IfStmt); ok && is.Else == nil && is.Init == nil {
				if u, ok := is.Cond.(*ast.UnaryExpr); ok && u.Op == token.NOT {
					if id, ok := u.X.(*ast.Ident); ok && okVars[info.ObjectOf(id)] {
						continue
					}
				}
			}
			stmts = append(stmts, s)
		}
		return dtab.FromStmts(info, stmts, inputs)
	}
	return nil
}

func pureExprs(info *types.Info, es []ast.Expr) bool {
	pure := true
	for _, e := range es {
		ast.Inspect(e, func(n ast.Node) bool {
			switch x := n.(type) {
			case *ast.UnaryExpr:
				if x.Op == token.ARROW {
					pure = false
				}
			case *ast.CallExpr:
				if tv, ok := info.Types[x.Fun]; !ok || !tv.IsType() {
					pure = false
				}
			case *ast.FuncLit:
				pure = false
			}
			return pure
		})
	}
	return pure
}

// ---------------------------------------------------------------------------
// Multi-state selection rules (SuperTrend): the documented step written as conditional
// expressions, compared with the closure on every truth assignment of the comparisons involved.

type stepSpec struct {
	Site    string              // "volatility.(*SuperTrend).Compute"
	Callee  string              // the helper the closure is passed to
	Params  []string            // spec names of the inputs, in order
	State   []string            // spec names of the remembered values
	Hint    map[string]string   // spec state name -> name of the captured variable (tried first)
	Bool    map[string]bool     // which state values are truth values
	Enum    map[string][]string // inputs ranging over named constants (enumerated, not compared by sign)
	Rule    string              // rule name in reports
	Let     [][2]string
	Updates map[string]string
	Out     string
	Doc     string
}

var stepSpecs = []stepSpec{
	{Site: "volatility.(*SuperTrend).Compute", Callee: "Operate3",
		Params: []string{"median", "atr", "c"},
		State:  []string{"first", "up", "pc", "fu", "fl"},
		Hint:   map[string]string{"first": "first", "up": "upTrend", "pc": "previousClosing", "fu": "finalUpperBand", "fl": "finalLowerBand"},
		Bool:   map[string]bool{"first": true, "up": true},
		Let: [][2]string{{"BU", "(median + atr)"}, {"BL", "(median - atr)"},
			{"FU", "ite(BU < fu || pc > fu, BU, fu)"}, {"FL", "ite(BL > fl || pc < fl, BL, fl)"}},
		Updates: map[string]string{
			"first": "false",
			"fu":    "ite(first, BU, FU)",
			"fl":    "ite(first, BL, FL)",
			"pc":    "c",
			"up":    "ite(first, up, ite(up, c <= FU, !(c >= FL)))",
		},
		Out: "ite(first, BL, ite(up, ite(c <= FU, FU, FL), ite(c >= FL, FL, FU)))",
		Doc: "final bands tighten unless the previous close broke them; SuperTrend follows the upper band while close <= it (up-trend), the lower band while close >= it, and flips otherwise; the first value is the lower band"},
}

type truth struct {
	sg    map[string]int
	bools map[string]bool
}

// evalB evaluates a condition under a truth assignment (comparisons by sign, plain truth values by name).
func evalB(e sym.Expr, t truth) (bool, bool) {
	switch x := e.(type) {
	case sym.Var:
		switch x.Name {
		case "#true":
			return true, true
		case "#false":
			return false, true
		}
		v, ok := t.bools[x.Name]
		return v, ok
	case sym.Cmp:
		if v, isConst := constCmp(x); isConst {
			return v, true
		}
		return evalCond(x, t.sg)
	case sym.Logic:
		switch x.Op {
		case "!":
			v, ok := evalB(x.Args[0], t)
			return !v, ok
		case "&&":
			for _, a := range x.Args {
				v, ok := evalB(a, t)
				if !ok {
					return false, false
				}
				if !v {
					return false, true
				}
			}
			return true, true
		case "||":
			for _, a := range x.Args {
				v, ok := evalB(a, t)
				if !ok {
					return false, false
				}
				if v {
					return true, true
				}
			}
			return false, true
		}
	case sym.Ite:
		c, ok := evalB(x.Cond, t)
		if !ok {
			return false, false
		}
		if c {
			return evalB(x.A, t)
		}
		return evalB(x.B, t)
	}
	return false, false
}

// resolveIte selects the branches of every conditional under a truth assignment.
func resolveIte(e sym.Expr, t truth) (sym.Expr, bool) {
	switch x := e.(type) {
	case sym.Ite:
		c, ok := evalB(x.Cond, t)
		if !ok {
			return nil, false
		}
		if c {
			return resolveIte(x.A, t)
		}
		return resolveIte(x.B, t)
	case sym.Bin:
		l, ok1 := resolveIte(x.L, t)
		r, ok2 := resolveIte(x.R, t)
		return sym.Bin{Op: x.Op, L: l, R: r}, ok1 && ok2
	case sym.Neg:
		v, ok := resolveIte(x.X, t)
		return sym.Neg{X: v}, ok
	}
	return e, true
}

// constCmp decides a comparison between two named constants (#Buy == #Sell).
func constCmp(x sym.Cmp) (bool, bool) {
	l, ok1 := x.L.(sym.Var)
	r, ok2 := x.R.(sym.Var)
	if !ok1 || !ok2 || !strings.HasPrefix(l.Name, "#") || !strings.HasPrefix(r.Name, "#") {
		return false, false
	}
	switch x.Op {
	case "==":
		return l.Name == r.Name, true
	case "!=":
		return l.Name != r.Name, true
	}
	return false, false
}

func collectCondKeys(e sym.Expr, keys map[string]bool) {
	switch x := e.(type) {
	case sym.Cmp:
		if _, isConst := constCmp(x); isConst {
			return
		}
		keys[cmpKey(x).key] = true
	case sym.Logic:
		for _, a := range x.Args {
			collectCondKeys(a, keys)
		}
	case sym.Ite:
		collectCondKeys(x.Cond, keys)
		collectCondKeys(x.A, keys)
		collectCondKeys(x.B, keys)
	case sym.Bin:
		collectCondKeys(x.L, keys)
		collectCondKeys(x.R, keys)
	case sym.Neg:
		collectCondKeys(x.X, keys)
	}
}

func permutations(xs []string) [][]string {
	if len(xs) <= 1 {
		return [][]string{append([]string{}, xs...)}
	}
	var out [][]string
	for i := range xs {
		rest := append(append([]string{}, xs[:i]...), xs[i+1:]...)
		for _, p := range permutations(rest) {
			out = append(out, append([]string{xs[i]}, p...))
		}
	}
	return out
}

func (c *Ctx) checkStepSpecs(specs []stepSpec) {
	run := c.Run
	for _, sp := range specs {
		var fi *load.FuncInfo
		if parts := strings.SplitN(sp.Site, ".(*", 2); len(parts) == 2 {
			fi = c.fn(parts[0], strings.TrimSuffix(parts[1], ").Compute"), "Compute")
		} else if i := strings.LastIndex(sp.Site, "."); i > 0 {
			fi = c.fn(sp.Site[:i], "", sp.Site[i+1:]) // a plain function: "helper.Since"
		}
		if fi == nil {
			continue
		}
		if sp.Rule == "" {
			sp.Rule = "formula/step"
		}
		run.Count("selection_rules", 1)
		lit := closureArg(fi.Pkg.TypesInfo, fi.Decl, sp.Callee)
		if lit == nil {
			c.violate(sp.Rule, sp.Site, "not found", fi.Decl.Pos(), "the closure implementing the documented step could not be located (undecided, fails closed)")
			continue
		}
		m := dtab.FromFuncLit(fi.Pkg.TypesInfo, lit)
		if len(m.Unsupported) > 0 || len(m.Params) != len(sp.Params) || len(m.State) != len(sp.State) {
			c.violate(sp.Rule, sp.Site, "shape", lit.Pos(), fmt.Sprintf("the step no longer has %d inputs and %d remembered values in loop-free form (undecided, fails closed): params %v state %v %v", len(sp.Params), len(sp.State), m.Params, m.State, m.Unsupported))
			continue
		}
		// specification
		env := &specEnv{locals: map[string]bool{}}
		for _, n := range append(append([]string{}, sp.Params...), sp.State...) {
			env.locals[n] = true
		}
		specUpd := map[string]sym.Expr{}
		bad := ""
		for k, v := range sp.Updates {
			e, err := env.parse(env.expand(v, sp.Let))
			if err != nil {
				bad = err.Error()
				continue
			}
			specUpd[k] = liftIte(e)
		}
		specOut, err := env.parse(env.expand(sp.Out, sp.Let))
		if err != nil || bad != "" {
			run.Break("bad step specification for " + sp.Site + ": " + bad)
			continue
		}
		specOut = liftIte(specOut)
		// candidate assignments of the captured variables to the specification's names
		have := map[string]bool{}
		for _, s := range m.State {
			have[s] = true
		}
		var cands []map[string]string // code name -> spec name
		hinted := map[string]string{}
		okHint := true
		for sn, cn := range sp.Hint {
			if !have[cn] {
				okHint = false
			}
			hinted[cn] = sn
		}
		if okHint && len(hinted) == len(m.State) {
			cands = append(cands, hinted)
		} else {
			for _, perm := range permutations(m.State) {
				mp := map[string]string{}
				for i, cn := range perm {
					mp[cn] = sp.State[i]
				}
				cands = append(cands, mp)
			}
		}
		var lastMsg string
		matched := false
		for _, mp := range cands {
			if msg := c.compareStep(m, sp, mp, specUpd, specOut); msg == "" {
				matched = true
				break
			} else if lastMsg == "" {
				lastMsg = msg
			}
		}
		if !matched && len(sp.Bool) > 0 {
			// a truth value may be kept with the opposite sense (`started` for `!first`): try the
			// closure with each remembered truth value negated
			for _, mp := range cands {
				for cn, sn := range mp {
					if !sp.Bool[sn] {
						continue
					}
					if msg := c.compareStep(flipState(m, cn), sp, mp, specUpd, specOut); msg == "" {
						matched = true
					}
				}
				if matched {
					break
				}
			}
		}
		run.Oblige(matched)
		run.Sample(map[string]string{"obligation": "one step of " + sp.Site + " = " + sp.Doc, "verdict": fmt.Sprint(matched)})
		if !matched {
			c.violate(sp.Rule, sp.Site, short(lastMsg, 140), lit.Pos(), "the step is not the documented one ("+sp.Doc+"): "+lastMsg)
		}
	}
}

// compareStep returns "" when the closure equals the specification under the given naming.
func (c *Ctx) compareStep(m *dtab.Machine, sp stepSpec, codeToSpec map[string]string, specUpd map[string]sym.Expr, specOut sym.Expr) string {
	ren := map[string]sym.Expr{}
	for i, p := range m.Params {
		ren[p] = sym.V(sp.Params[i])
	}
	for cn, sn := range codeToSpec {
		ren[cn] = sym.V(sn)
	}
	for _, rd := range m.Reads {
		if i := strings.LastIndex(rd, "."); i >= 0 {
			ren[rd] = sym.V("cfg:" + rd[i+1:])
		}
	}
	// enumerated inputs: one comparison per combination of constants
	if len(sp.Enum) > 0 {
		var names []string
		for n := range sp.Enum {
			names = append(names, n)
		}
		sort.Strings(names)
		n0 := names[0]
		rest := map[string][]string{}
		for _, n := range names[1:] {
			rest[n] = sp.Enum[n]
		}
		for _, val := range sp.Enum[n0] {
			sub := map[string]sym.Expr{n0: sym.V("#" + val)}
			m2 := &dtab.Machine{Params: m.Params, State: m.State, Reads: m.Reads}
			// substitute in the machine after renaming: done by extending ren on a copy
			sp2 := sp
			sp2.Enum = rest
			if len(rest) == 0 {
				sp2.Enum = nil
			}
			su := map[string]sym.Expr{}
			for k, v := range specUpd {
				su[k] = sym.Subst(v, sub)
			}
			so := sym.Subst(specOut, sub)
			for _, pth := range m.Paths {
				np := &dtab.Path{Updates: map[string]sym.Expr{}, Effects: pth.Effects, Exit: pth.Exit}
				// the code names of the enumerated input
				csub := map[string]sym.Expr{}
				for i, pn := range sp.Params {
					if pn == n0 {
						csub[m.Params[i]] = sym.V("#" + val)
					}
				}
				for _, cd := range pth.Conds {
					np.Conds = append(np.Conds, sym.Subst(cd, csub))
				}
				for k, v := range pth.Updates {
					np.Updates[k] = sym.Subst(v, csub)
				}
				for _, r := range pth.Ret {
					np.Ret = append(np.Ret, sym.Subst(r, csub))
				}
				m2.Paths = append(m2.Paths, np)
			}
			if msg := c.compareStep(m2, sp2, codeToSpec, su, so); msg != "" {
				return n0 + "=" + val + ": " + msg
			}
		}
		return ""
	}
	keys := map[string]bool{}
	type cpath struct {
		conds []sym.Expr
		cfn   []boolFn
		upd   map[string]sym.Expr
		out   sym.Expr
	}
	var paths []cpath
	for _, p := range m.Paths {
		cp := cpath{upd: map[string]sym.Expr{}}
		for _, cd := range p.Conds {
			r := sym.Subst(cd, ren)
			cp.conds = append(cp.conds, r)
			cp.cfn = append(cp.cfn, compileB(r))
			collectCondKeys(r, keys)
		}
		for k, v := range p.Updates {
			cp.upd[codeToSpec[k]] = sym.Subst(v, ren)
		}
		if len(p.Ret) == 1 {
			cp.out = sym.Subst(p.Ret[0], ren)
		}
		if len(p.Effects) > 0 {
			return "the step has effects beyond its remembered values: " + strings.Join(p.Effects, "; ")
		}
		paths = append(paths, cp)
	}
	for _, e := range specUpd {
		collectCondKeys(e, keys)
	}
	collectCondKeys(specOut, keys)
	var ks []string
	for k := range keys {
		ks = append(ks, k)
	}
	sort.Strings(ks)
	var bs []string
	for sn := range sp.Bool {
		bs = append(bs, sn)
	}
	sort.Strings(bs)
	if len(ks) > 10 {
		return "too many distinct comparisons to enumerate"
	}
	total := 1
	for range ks {
		total *= 3
	}
	for range bs {
		total *= 2
	}
	describe := func(t truth) string {
		var d []string
		for _, b := range bs {
			d = append(d, fmt.Sprintf("%s=%v", b, t.bools[b]))
		}
		for _, k := range ks {
			d = append(d, fmt.Sprintf("%s %s 0", short(k, 40), map[int]string{-1: "<", 0: "=", 1: ">"}[t.sg[k]]))
		}
		return strings.Join(d, ", ")
	}
	selCache := map[string]selFn{}
	eqCache := map[string]bool{}
	for idx := 0; idx < total; idx++ {
		t := truth{sg: map[string]int{}, bools: map[string]bool{}}
		x := idx
		for _, b := range bs {
			t.bools[b] = x%2 == 1
			x /= 2
		}
		for _, k := range ks {
			t.sg[k] = x%3 - 1
			x /= 3
		}
		var sel *cpath
		n := 0
		for i := range paths {
			take := true
			for ci, cf := range paths[i].cfn {
				v, ok := cf(t)
				if !ok {
					return "a condition of the step is not a comparison of its inputs and remembered values: " + sym.String(paths[i].conds[ci])
				}
				if !v {
					take = false
					break
				}
			}
			if take {
				sel = &paths[i]
				n++
			}
		}
		if n != 1 {
			return "the step is not single-valued when " + describe(t)
		}
		same := func(name string, got, want sym.Expr) string {
			sf, okc := selCache[name]
			if !okc {
				sf = compileSel(want)
				selCache[name] = sf
			}
			w, ok := sf(t)
			if !ok {
				return "specification not evaluable"
			}
			if sp.Bool[name] {
				gv, ok1 := evalB(got, t)
				wv, ok2 := evalB(w, t)
				if !ok1 || !ok2 {
					return fmt.Sprintf("%s is not a truth value of the comparisons", name)
				}
				if gv != wv {
					return fmt.Sprintf("when %s: %s becomes %v, documented %v", describe(t), name, gv, wv)
				}
				return ""
			}
			ek := sym.String(got) + "\x00" + sym.String(w)
			eq, seen := eqCache[ek]
			if !seen {
				eq = sym.Equal(got, w)
				eqCache[ek] = eq
			}
			if !eq {
				return fmt.Sprintf("when %s: %s is %s, documented %s", describe(t), name, sym.CanonString(got), sym.CanonString(w))
			}
			return ""
		}
		for _, sn := range sp.State {
			got, has := sel.upd[sn]
			if !has {
				got = sym.V(sn)
			}
			want, hasW := specUpd[sn]
			if !hasW {
				want = sym.V(sn)
			}
			if msg := same(sn, got, want); msg != "" {
				return msg
			}
		}
		if sel.out == nil {
			return "the step returns no single value"
		}
		if msg := same("the result", sel.out, specOut); msg != "" {
			return msg
		}
	}
	return ""
}

// liftIte moves conditionals out of the operands of arithmetic and comparisons, so that every
// comparison is between conditional-free expressions.
func liftIte(e sym.Expr) sym.Expr {
	switch x := e.(type) {
	case sym.Ite:
		return sym.Ite{Cond: liftIte(x.Cond), A: liftIte(x.A), B: liftIte(x.B)}
	case sym.Neg:
		v := liftIte(x.X)
		if it, ok := v.(sym.Ite); ok {
			return sym.Ite{Cond: it.Cond, A: liftIte(sym.Neg{X: it.A}), B: liftIte(sym.Neg{X: it.B})}
		}
		return sym.Neg{X: v}
	case sym.Bin:
		l, r := liftIte(x.L), liftIte(x.R)
		if it, ok := l.(sym.Ite); ok {
			return sym.Ite{Cond: it.Cond, A: liftIte(sym.Bin{Op: x.Op, L: it.A, R: r}), B: liftIte(sym.Bin{Op: x.Op, L: it.B, R: r})}
		}
		if it, ok := r.(sym.Ite); ok {
			return sym.Ite{Cond: it.Cond, A: liftIte(sym.Bin{Op: x.Op, L: l, R: it.A}), B: liftIte(sym.Bin{Op: x.Op, L: l, R: it.B})}
		}
		return sym.Bin{Op: x.Op, L: l, R: r}
	case sym.Cmp:
		l, r := liftIte(x.L), liftIte(x.R)
		if it, ok := l.(sym.Ite); ok {
			return sym.Ite{Cond: it.Cond, A: liftIte(sym.Cmp{Op: x.Op, L: it.A, R: r}), B: liftIte(sym.Cmp{Op: x.Op, L: it.B, R: r})}
		}
		if it, ok := r.(sym.Ite); ok {
			return sym.Ite{Cond: it.Cond, A: liftIte(sym.Cmp{Op: x.Op, L: l, R: it.A}), B: liftIte(sym.Cmp{Op: x.Op, L: l, R: it.B})}
		}
		return sym.Cmp{Op: x.Op, L: l, R: r}
	case sym.Logic:
		as := make([]sym.Expr, len(x.Args))
		for i, a := range x.Args {
			as[i] = liftIte(a)
		}
		return sym.Logic{Op: x.Op, Args: as}
	}
	return e
}

// compiled truth functions: comparison keys are computed once, not per assignment.
type boolFn func(t truth) (bool, bool)

func compileB(e sym.Expr) boolFn {
	switch x := e.(type) {
	case sym.Var:
		name := x.Name
		switch name {
		case "#true":
			return func(truth) (bool, bool) { return true, true }
		case "#false":
			return func(truth) (bool, bool) { return false, true }
		}
		return func(t truth) (bool, bool) { v, ok := t.bools[name]; return v, ok }
	case sym.Cmp:
		if v, isConst := constCmp(x); isConst {
			return func(truth) (bool, bool) { return v, true }
		}
		k := cmpKey(x)
		op := x.Op
		return func(t truth) (bool, bool) {
			s, ok := t.sg[k.key]
			if !ok {
				return false, false
			}
			s *= k.orient
			switch op {
			case "<":
				return s < 0, true
			case "<=":
				return s <= 0, true
			case ">":
				return s > 0, true
			case ">=":
				return s >= 0, true
			case "==":
				return s == 0, true
			case "!=":
				return s != 0, true
			}
			return false, false
		}
	case sym.Logic:
		var fs []boolFn
		for _, a := range x.Args {
			fs = append(fs, compileB(a))
		}
		switch x.Op {
		case "!":
			return func(t truth) (bool, bool) { v, ok := fs[0](t); return !v, ok }
		case "&&":
			return func(t truth) (bool, bool) {
				for _, f := range fs {
					v, ok := f(t)
					if !ok {
						return false, false
					}
					if !v {
						return false, true
					}
				}
				return true, true
			}
		case "||":
			return func(t truth) (bool, bool) {
				for _, f := range fs {
					v, ok := f(t)
					if !ok {
						return false, false
					}
					if v {
						return true, true
					}
				}
				return false, true
			}
		}
	case sym.Ite:
		c, a, b := compileB(x.Cond), compileB(x.A), compileB(x.B)
		return func(t truth) (bool, bool) {
			v, ok := c(t)
			if !ok {
				return false, false
			}
			if v {
				return a(t)
			}
			return b(t)
		}
	}
	return func(truth) (bool, bool) { return false, false }
}

// compileSel: a (lifted) conditional expression as a function selecting its leaf.
type selFn func(t truth) (sym.Expr, bool)

func compileSel(e sym.Expr) selFn {
	if x, ok := e.(sym.Ite); ok {
		c, a, b := compileB(x.Cond), compileSel(x.A), compileSel(x.B)
		return func(t truth) (sym.Expr, bool) {
			v, ok := c(t)
			if !ok {
				return nil, false
			}
			if v {
				return a(t)
			}
			return b(t)
		}
	}
	return func(truth) (sym.Expr, bool) { return e, true }
}

// ---------------------------------------------------------------------------
// Window formulas computed by a counted loop over a ring (Wma, MovingStd): the step is loop-free
// once the loop is read as a sum; the value produced when the ring is full is compared with the
// documented formula.

type loopFormulaSpec struct {
	Site   string
	Kind   string // "closure" (passed to Callee) or "stage"
	Callee string
	Params []string
	State  string // "" = none
	Update string // documented update of the remembered value (every step)
	Value  string // the value produced when the ring is full
	Else   string // the value produced otherwise ("" = nothing is produced)
	Doc    string
}

var loopFormulaSpecs = []loopFormulaSpec{
	{Site: "trend.(*Wma).Compute", Kind: "closure", Callee: "Map", Params: []string{"x"},
		Value: "sum(0, Period, Ring.At(k1) * (k1 + 1) / Period) / 2", Else: "0",
		Doc: "WMA = ((Value1 * 1/N) + (Value2 * 2/N) + ...) / 2 over the last N values"},
	{Site: "volatility.(*MovingStd).Compute", Kind: "stage", Params: []string{"x"}, State: "s",
		Update: "s - Ring.Put(x) + x",
		Value:  "sqrt(sum(0, Period, pow(Ring.At(k1) - (s - Ring.Put(x) + x) / Period, 2)) / Period)",
		Doc:    "Std = Sqrt(1/Period * Sum(Pow(value - sma, 2))) over the last Period values"},
}

// ringFull classifies a path by its ring-fullness conditions: +1 full, -1 not full, 0 unconstrained.
func ringFull(conds []sym.Expr) (int, bool) {
	res := 0
	for _, cd := range conds {
		neg := false
		for {
			l, ok := cd.(sym.Logic)
			if !ok || l.Op != "!" || len(l.Args) != 1 {
				break
			}
			neg = !neg
			cd = l.Args[0]
		}
		call, ok := cd.(sym.Call)
		if !ok || call.Fn != "Ring.IsFull" {
			return 0, false
		}
		v := 1
		if neg {
			v = -1
		}
		if res != 0 && res != v {
			return 0, false
		}
		res = v
	}
	return res, true
}

func (c *Ctx) checkLoopFormulas() {
	run := c.Run
	for _, sp := range loopFormulaSpecs {
		parts := strings.SplitN(sp.Site, ".(*", 2)
		fi := c.fn(parts[0], strings.TrimSuffix(parts[1], ").Compute"), "Compute")
		if fi == nil {
			continue
		}
		run.Count("window_formulas", 1)
		info := fi.Pkg.TypesInfo
		var m *dtab.Machine
		pos := fi.Decl.Pos()
		if sp.Kind == "closure" {
			if lit := closureArg(info, fi.Decl, sp.Callee); lit != nil {
				m = dtab.FromFuncLit(info, lit)
				pos = lit.Pos()
			}
		} else {
			for _, fl := range goLitsOf(fi.Decl) {
				if mm := stageLoopMachine(info, fl); mm != nil {
					m = mm
					pos = fl.Pos()
				}
			}
		}
		nState := 0
		if sp.State != "" {
			nState = 1
		}
		if m == nil || len(m.Unsupported) > 0 || len(m.Params) != len(sp.Params) || len(m.State) != nState {
			why := "not found"
			if m != nil {
				why = fmt.Sprintf("params %v state %v %v", m.Params, m.State, m.Unsupported)
			}
			c.violate("formula/window", sp.Site, "shape", pos, "the step over the ring is no longer in the analysable form (one input, a counted sum over the ring) - undecided, fails closed: "+why)
			continue
		}
		ren := map[string]sym.Expr{}
		env := &specEnv{locals: map[string]bool{}}
		for i, p := range m.Params {
			ren[p] = sym.V(sp.Params[i])
			env.locals[sp.Params[i]] = true
		}
		if nState == 1 {
			ren[m.State[0]] = sym.V(sp.State)
			env.locals[sp.State] = true
		}
		for _, rd := range m.Reads {
			if i := strings.LastIndex(rd, "."); i >= 0 {
				ren[rd] = sym.V("cfg:" + rd[i+1:])
			}
		}
		parse := func(src string) sym.Expr {
			if src == "" {
				return nil
			}
			e, err := env.parse(src)
			if err != nil {
				run.Break("bad window-formula specification for " + sp.Site + ": " + err.Error())
				return nil
			}
			return e
		}
		wantVal, wantElse, wantUpd := parse(sp.Value), parse(sp.Else), parse(sp.Update)
		msg := ""
		seenFull, seenNot := false, false
		for _, p := range m.Paths {
			full, ok := ringFull(p.Conds)
			if !ok {
				msg = "a branch of the step depends on something other than the ring being full"
				break
			}
			var out sym.Expr
			switch {
			case len(p.Ret) == 1:
				out = sym.Subst(p.Ret[0], ren)
			case len(p.Sends) == 1:
				out = sym.Subst(p.Sends[0], ren)
			case len(p.Ret)+len(p.Sends) > 1:
				msg = "the step produces more than one value"
			}
			want := wantVal
			if full < 0 {
				want = wantElse
				seenNot = true
			} else {
				seenFull = true
			}
			switch {
			case want == nil && out != nil:
				msg = "a value is produced before the ring is full: " + sym.CanonString(out)
			case want != nil && out == nil:
				msg = "no value is produced although the ring is full"
			case want != nil && !sym.Equal(out, want) && !sym.Equal(sym.ExpandPow(out), sym.ExpandPow(want)):
				msg = fmt.Sprintf("the value is %s, documented %s", short(sym.CanonString(out), 200), short(sym.CanonString(want), 200))
			}
			if nState == 1 {
				got := sym.Expr(sym.V(sp.State))
				if u, has := p.Updates[m.State[0]]; has {
					got = sym.Subst(u, ren)
				}
				if wantUpd != nil && !sym.Equal(got, wantUpd) {
					msg = fmt.Sprintf("the remembered value becomes %s, documented %s", sym.CanonString(got), sym.CanonString(wantUpd))
				}
			}
			// every step puts the new element into the ring exactly once
			puts := 0
			for _, ef := range p.Effects {
				if strings.Contains(ef, ".Put(") {
					puts++
				}
			}
			if puts != 1 && msg == "" {
				msg = fmt.Sprintf("the new element is put into the ring %d times in one step", puts)
			}
			if msg != "" {
				break
			}
		}
		if msg == "" && (!seenFull || (sp.Else != "" && !seenNot)) {
			msg = "the step does not distinguish a full ring"
		}
		run.Oblige(msg == "")
		run.Sample(map[string]string{"obligation": "window formula of " + sp.Site + " = " + sp.Doc, "verdict": fmt.Sprint(msg == "")})
		if msg != "" {
			c.violate("formula/window", sp.Site, short(msg, 140), pos, "the window formula is not the documented one ("+sp.Doc+"): "+msg)
		}
	}
	c.windowExtremes()
	run.Floor("window_formulas", 4)
}

// windowExtremes: MovingMax/MovingMin keep the window in a search tree. Per element the closure
// must insert the new value once, remove only the value that left the window (the second
// parameter), and return the tree's maximum resp. minimum. That the tree's Max/Min/Remove are
// right is C17's subject; which of them is called with what is decided here.
func (c *Ctx) windowExtremes() {
	run := c.Run
	for _, w := range []struct{ typ, ret string }{{"MovingMax", "Bst.Max"}, {"MovingMin", "Bst.Min"}} {
		fi := c.fn("trend", w.typ, "Compute")
		if fi == nil {
			continue
		}
		site := "trend.(*" + w.typ + ").Compute"
		lit := closureArg(fi.Pkg.TypesInfo, fi.Decl, "Operate")
		if lit == nil {
			c.violate("formula/window", site, "not found", fi.Decl.Pos(), "the window closure was not found (undecided, fails closed)")
			continue
		}
		m := dtab.FromFuncLit(fi.Pkg.TypesInfo, lit)
		run.Count("window_formulas", 1)
		msg := ""
		if len(m.Unsupported) > 0 || len(m.Params) != 2 {
			msg = fmt.Sprintf("the window closure is not a loop-free function of (new value, value leaving the window): %v %v", m.Params, m.Unsupported)
		}
		removes := 0
		for _, p := range m.Paths {
			if msg != "" {
				break
			}
			ins, rem := 0, 0
			for _, ef := range p.Effects {
				switch {
				case strings.Contains(ef, ".Insert("):
					ins++
					if !strings.HasSuffix(ef, ".Insert("+m.Params[0]+")") {
						msg = "inserts " + ef + ", not the new value"
					}
				case strings.Contains(ef, ".Remove("):
					rem++
					if !strings.HasSuffix(ef, ".Remove("+m.Params[1]+")") {
						msg = "removes " + ef + ", not the value that left the window"
					}
				}
			}
			if ins != 1 && msg == "" {
				msg = fmt.Sprintf("inserts the new value %d times on one path", ins)
			}
			if rem > 1 && msg == "" {
				msg = "removes more than one value per step"
			}
			removes += rem
			if msg == "" {
				call, ok := sym.Expr(nil), false
				if len(p.Ret) == 1 {
					call = p.Ret[0]
					if cl, isCall := call.(sym.Call); isCall && cl.Fn == w.ret && len(cl.Args) == 0 {
						ok = true
					}
				}
				if !ok {
					got := "nothing"
					if call != nil {
						got = sym.CanonString(call)
					}
					msg = "returns " + got + ", not " + w.ret + "()"
				}
			}
		}
		if msg == "" && removes == 0 {
			msg = "never removes the value that left the window"
		}
		run.Oblige(msg == "")
		if msg != "" {
			c.violate("formula/window", site, short(msg, 120), lit.Pos(), "the sliding-window "+strings.TrimPrefix(w.ret, "Bst.")+" is not maintained as documented: the closure "+msg)
		}
	}
}

// flipState returns the machine with the remembered truth value v replaced by its negation
// everywhere (reads become !v, updates are negated): the same step with the opposite convention.
func flipState(m *dtab.Machine, v string) *dtab.Machine {
	neg := func(e sym.Expr) sym.Expr {
		switch x := e.(type) {
		case sym.Var:
			switch x.Name {
			case "#true":
				return sym.V("#false")
			case "#false":
				return sym.V("#true")
			}
		case sym.Logic:
			if x.Op == "!" && len(x.Args) == 1 {
				return x.Args[0]
			}
		}
		return sym.Logic{Op: "!", Args: []sym.Expr{e}}
	}
	sub := map[string]sym.Expr{v: sym.Logic{Op: "!", Args: []sym.Expr{sym.V(v)}}}
	out := &dtab.Machine{Params: m.Params, State: m.State, Reads: m.Reads, ReadExprs: m.ReadExprs, Unsupported: m.Unsupported, Pos: m.Pos}
	for _, p := range m.Paths {
		np := &dtab.Path{Updates: map[string]sym.Expr{}, Effects: p.Effects, Exit: p.Exit}
		for _, c := range p.Conds {
			np.Conds = append(np.Conds, simplifyNot(sym.Subst(c, sub)))
		}
		for k, u := range p.Updates {
			nu := sym.Subst(u, sub)
			if k == v {
				nu = neg(nu)
			}
			np.Updates[k] = simplifyNot(nu)
		}
		for _, r := range p.Ret {
			np.Ret = append(np.Ret, sym.Subst(r, sub))
		}
		for _, sd := range p.Sends {
			np.Sends = append(np.Sends, sym.Subst(sd, sub))
		}
		out.Paths = append(out.Paths, np)
	}
	return out
}

// simplifyNot removes double negations.
func simplifyNot(e sym.Expr) sym.Expr {
	switch x := e.(type) {
	case sym.Logic:
		as := make([]sym.Expr, len(x.Args))
		for i, a := range x.Args {
			as[i] = simplifyNot(a)
		}
		if x.Op == "!" && len(as) == 1 {
			if in, ok := as[0].(sym.Logic); ok && in.Op == "!" && len(in.Args) == 1 {
				return in.Args[0]
			}
		}
		return sym.Logic{Op: x.Op, Args: as}
	}
	return e
}

var opaqueCallAny = regexp.MustCompile(`cfg:[A-Za-z_][A-Za-z0-9_]*\(\)#`)
var opaqueCallResult = regexp.MustCompile(`^cfg:[A-Za-z_][A-Za-z0-9_]*\(\)#`)

// anonymise forgets the names of hand-written stages, stateful closures and unexported helper
// calls (they are named after the function that happens to hold them): what a named operator
// does is decided by its own rule, here only what it is applied to.
func anonymise(e sym.Expr) sym.Expr {
	switch x := e.(type) {
	case sym.Var:
		if loc := opaqueCallResult.FindStringIndex(x.Name); loc != nil {
			return sym.V("cfg:call()#" + x.Name[loc[1]:])
		}
		return x
	case sym.Neg:
		return sym.Neg{X: anonymise(x.X)}
	case sym.Bin:
		return sym.Bin{Op: x.Op, L: anonymise(x.L), R: anonymise(x.R)}
	case sym.Cmp:
		return sym.Cmp{Op: x.Op, L: anonymise(x.L), R: anonymise(x.R)}
	case sym.Logic:
		as := make([]sym.Expr, len(x.Args))
		for i, a := range x.Args {
			as[i] = anonymise(a)
		}
		return sym.Logic{Op: x.Op, Args: as}
	case sym.Ite:
		return sym.Ite{Cond: anonymise(x.Cond), A: anonymise(x.A), B: anonymise(x.B)}
	case sym.Call:
		as := make([]sym.Expr, len(x.Args))
		for i, a := range x.Args {
			as[i] = anonymise(a)
		}
		fn := opaqueCallAny.ReplaceAllString(x.Fn, "cfg:call()#")
		switch {
		case strings.HasPrefix(fn, "stage:"):
			fn = "stage:_"
		case strings.HasPrefix(fn, "closure:") && !strings.HasPrefix(fn, "closure:helper."):
			fn = "closure:_"
		}
		return sym.Call{Fn: fn, Args: as}
	}
	return e
}

// constDenominators: every division in the term divides by numbers and configuration values only.
func constDenominators(e sym.Expr) bool {
	ok := true
	var walk func(e sym.Expr)
	walk = func(e sym.Expr) {
		switch x := e.(type) {
		case sym.Bin:
			if x.Op == "/" {
				vars := map[string]bool{}
				sym.Vars(x.R, vars)
				for v := range vars {
					if !strings.HasPrefix(v, "cfg:") {
						ok = false
					}
				}
				if hasCall(x.R) {
					ok = false
				}
			}
			walk(x.L)
			walk(x.R)
		case sym.Neg:
			walk(x.X)
		case sym.Call:
			if x.Fn == "pow" || x.Fn == "sqrt" {
				ok = false // real-valued by nature
			}
			for _, a := range x.Args {
				walk(a)
			}
		case sym.Ite:
			walk(x.A)
			walk(x.B)
		}
	}
	walk(e)
	return ok
}
