package rules

import (
	"fmt"
	"go/ast"
	"go/token"
	"go/types"
	"sort"
	"strings"

	"verif/checker/internal/dtab"
	"verif/checker/internal/report"
	"verif/checker/internal/shape"
	"verif/checker/internal/sym"
)

// formulaSpec: the documented formula of an indicator's outputs, written over its parameters
// (by name), its sub-indicator objects (receiver fields applied as functions, or constructed
// objects pkg.Type{Field: value}), configuration fields, prev(x)/at(x,k), max, min, abs, sqrt,
// pow, sign, pos (keep positives), neg (keep negatives), since (run length) and arithmetic.
type formulaSpec struct {
	Type string
	Let  [][2]string // named sub-expressions, substituted textually (longest name first)
	Outs []string
	Doc  string
}

// FormulaSpecs is the frozen table, transcribed from the doc comment of each type.
var FormulaSpecs = []formulaSpec{
	{"trend.Apo", nil, []string{"trend.Ema{Period: FastPeriod, Smoothing: 2}(c) - trend.Ema{Period: SlowPeriod, Smoothing: 2}(c)"}, "APO = Ema(values, fast) - Ema(values, slow)"},
	{"trend.Bop", nil, []string{"(closing - opening) / (high - low)"}, "BOP = (Closing - Opening) / (High - Low)"},
	{"trend.Cci", [][2]string{{"TP", "trend.TypicalPrice{}(highs, lows, closings)"}, {"MA", "trend.Sma{Period: Period}(TP)"}},
		[]string{"(TP - MA) / (0.015 * trend.Sma{Period: Period}(abs(TP - MA)))"}, "CCI = (TP - SMA(TP)) / (0.015 * SMA(|TP - SMA(TP)|))"},
	{"trend.Dema", nil, []string{"2*Ema1(c) - Ema2(Ema1(c))"}, "DEMA = 2*EMA1(values) - EMA2(EMA1(values))"},
	{"trend.Envelope", nil, []string{"Ma(closings) * (1 + Percentage/100)", "Ma(closings)", "Ma(closings) * (1 - Percentage/100)"}, "moving average +/- percentage"},
	{"trend.Hma", nil, []string{"wma3(2*wma1(values) - wma2(values))"}, "HMA = WMA(sqrt(p), 2*WMA(p/2) - WMA(p))"},
	{"trend.Kdj", [][2]string{{"RSV", "(closing - MovingMin(low)) / (MovingMax(high) - MovingMin(low)) * 100"}},
		[]string{"Sma1(RSV)", "Sma2(Sma1(RSV))", "3*Sma1(RSV) - 2*Sma2(Sma1(RSV))"}, "K = Sma(RSV), D = Sma(K), J = 3K - 2D"},
	{"trend.Macd", nil, []string{"Ema1(c) - Ema2(c)", "Ema3(Ema1(c) - Ema2(c))"}, "MACD = EMA12 - EMA26, Signal = EMA9(MACD)"},
	{"trend.MassIndex", nil, []string{"MovingSum(Ema1(highs - lows) / Ema2(Ema1(highs - lows)))"}, "Mass Index = SUM(EMA(H-L) / EMA(EMA(H-L)))"},
	{"trend.Mlr", nil, []string{"Mls(x, y)[0]*x + Mls(x, y)[1]"}, "y = mx + b"},
	{"trend.Mls", [][2]string{{"M", "(Sum.Period*Sum(x*y) - Sum(x)*Sum(y)) / (Sum.Period*Sum(pow(x, 2)) - Sum(x)*Sum(x))"}},
		[]string{"M", "(Sum(y) - M*Sum(x)) / Sum.Period"}, "m = (p*sumXY - sumX*sumY)/(p*sumX2 - sumX*sumX), b = (sumY - m*sumX)/p"},
	{"trend.Sma", nil, []string{"trend.MovingSum{Period: Period}(c) / Period"}, "SMA = moving sum / period"},
	{"trend.Tema", nil, []string{"3*Ema1(c) - 3*Ema2(Ema1(c)) + Ema3(Ema2(Ema1(c)))"}, "TEMA = 3*EMA1 - 3*EMA2 + EMA3"},
	{"trend.Trima", nil, []string{"trend.Sma{Period: calculatePeriods_0}(trend.Sma{Period: calculatePeriods_1}(c))"}, "TRIMA = SMA(p1, SMA(p2, values))"},
	{"trend.Trix", [][2]string{{"E3", "trend.Ema{Period: Period, Smoothing: 2}(trend.Ema{Period: Period, Smoothing: 2}(trend.Ema{Period: Period, Smoothing: 2}(c)))"}},
		[]string{"(E3 - prev(E3)) / prev(E3)"}, "TRIX = (EMA3 - previous EMA3) / previous EMA3"},
	{"trend.Tsi", nil, []string{"FirstSmoothing(SecondSmoothing(closings - prev(closings))) / FirstSmoothing(SecondSmoothing(abs(closings - prev(closings)))) * 100"}, "TSI = (PCDS / APCDS) * 100"},
	{"trend.TypicalPrice", nil, []string{"(high + low + closing) / 3"}, "(High + Low + Closing) / 3"},
	{"trend.Vwma", nil, []string{"trend.MovingSum{Period: Period}(closing*volume) / trend.MovingSum{Period: Period}(volume)"}, "VWMA = Sum(Price*Volume) / Sum(Volume)"},
	{"trend.WeightedClose", nil, []string{"(highs + lows + closes*2) / 4"}, "(High + Low + Close*2) / 4"},
	{"trend.Aroon", nil, []string{"RoundDigit((Period - since(trend.MovingMax{Period: Period}(high))) / Period * 100, 0)", "RoundDigit((Period - since(trend.MovingMin{Period: Period}(low))) / Period * 100, 0)"}, "Aroon Up/Down = (period - days since the extreme) / period * 100"},
	{"momentum.AwesomeOscillator", nil, []string{"ShortSma((highs + lows)/2) - LongSma((highs + lows)/2)"}, "AO = SMA5(median) - SMA34(median)"},
	{"momentum.ChaikinOscillator", [][2]string{{"AD", "Ad(highs, lows, closings, volumes)"}}, []string{"ShortEma(AD) - LongEma(AD)", "AD"}, "CO = Ema(fast, AD) - Ema(slow, AD)"},
	{"momentum.IchimokuCloud", [][2]string{{"CONV", "(ConversionMax(highs) + ConversionMin(lows)) / 2"}, {"BASE", "(BaseMax(highs) + BaseMin(lows)) / 2"}},
		[]string{"CONV", "BASE", "(CONV + BASE) / 2", "(LeadingMax(highs) + LeadingMin(lows)) / 2", "closings"}, "conversion, base, span A, span B, lagging"},
	{"momentum.Ppo", [][2]string{{"PPO", "(ShortEma(closings) - LongEma(closings)) / LongEma(closings) * 100"}}, []string{"PPO", "SignalEma(PPO)", "PPO - SignalEma(PPO)"}, "PPO, Signal = EMA(PPO), Histogram = PPO - Signal"},
	{"momentum.Pvo", [][2]string{{"PVO", "(ShortEma(volumes) - LongEma(volumes)) / LongEma(volumes) * 100"}}, []string{"PVO", "SignalEma(PVO)", "PVO - SignalEma(PVO)"}, "PVO, Signal, Histogram"},
	{"momentum.Qstick", nil, []string{"Sma(closings - openings)"}, "QS = SMA(Closings - Openings)"},
	{"momentum.Rsi", [][2]string{{"CH", "(closings - prev(closings))"}, {"RS", "Rma(pos(CH)) / (-1*Rma(neg(CH)))"}}, []string{"100 - 100/(1 + RS)"}, "RSI = 100 - 100/(1+RS), RS = average gain / average loss"},
	{"momentum.StochasticOscillator", [][2]string{{"K", "(closings - Min(lows)) / (Max(highs) - Min(lows)) * 100"}}, []string{"K", "Sma(K)"}, "K = (C - LL)/(HH - LL)*100, D = SMA(K)"},
	{"momentum.StochasticRsi", nil, []string{"(Rsi(closings) - Min(Rsi(closings))) / (Max(Rsi(closings)) - Min(Rsi(closings)))"}, "(RSI - min RSI)/(max RSI - min RSI)"},
	{"momentum.WilliamsR", nil, []string{"(Max(highs) - closings) / (Max(highs) - Min(lows)) * -100"}, "WR = (HH - C)/(HH - LL) * -100"},
	{"volatility.AccelerationBands", nil, []string{"trend.Sma{Period: Period}(high * (1 + 4*(high - low)/(high + low)))", "trend.Sma{Period: Period}(closing)", "trend.Sma{Period: Period}(low * (1 - 4*(high - low)/(high + low)))"}, "upper/middle/lower acceleration bands"},
	{"volatility.Atr", nil, []string{"Ma(max(highs - lows, highs - prev(closings), prev(closings) - lows))"}, "ATR = MA(TR), TR = max(H-L, H-prevC, prevC-L)"},
	{"volatility.BollingerBandWidth", nil, []string{"(BollingerBands(c)[0] - BollingerBands(c)[2]) / BollingerBands(c)[1]"}, "(upper - lower) / middle"},
	{"volatility.BollingerBands", nil, []string{"trend.Sma{Period: Period}(c) + 2*volatility.MovingStd{Period: Period}(c)", "trend.Sma{Period: Period}(c)", "trend.Sma{Period: Period}(c) - 2*volatility.MovingStd{Period: Period}(c)"}, "SMA +/- 2 std"},
	{"volatility.ChandelierExit", [][2]string{{"ATR", "volatility.Atr{Ma: trend.Sma{Period: Period}}(highs, lows, closings)"}},
		[]string{"trend.MovingMax{Period: Period}(highs) - ATR*Multiplier", "trend.MovingMin{Period: Period}(lows) + ATR*Multiplier"}, "highest high - ATR*3, lowest low + ATR*3"},
	{"volatility.DonchianChannel", nil, []string{"Max(c)", "(Max(c) + Min(c)) / 2", "Min(c)"}, "upper = max, lower = min, middle = their mean"},
	{"volatility.KeltnerChannel", nil, []string{"Ema(closings) + 2*Atr(highs, lows, closings)", "Ema(closings)", "Ema(closings) - 2*Atr(highs, lows, closings)"}, "EMA +/- 2 ATR"},
	{"volatility.PercentB", nil, []string{"(closings - BollingerBands(closings)[2]) / (BollingerBands(closings)[0] - BollingerBands(closings)[2])"}, "%B = (C - lower)/(upper - lower)"},
	{"volatility.UlcerIndex", [][2]string{{"HC", "trend.MovingMax{Period: Period}(closings)"}, {"PD", "(100 * ((closings - HC) / HC))"}},
		[]string{"sqrt(trend.Sma{Period: Period}(PD * PD))"}, "UI = sqrt(SMA(PD*PD)), PD = 100*(C - max C)/max C"},
	{"volume.Cmf", nil, []string{"Sum(Mfv(highs, lows, closings, volumes)) / Sum(volumes)"}, "CMF = Sum(MFV) / Sum(Volume)"},
	{"volume.Emv", nil, []string{"Sma((((highs + lows)/2) - ((prev(highs) + prev(lows))/2)) / ((volumes/100000000) / (highs - lows)))"}, "EMV = SMA(distance moved / box ratio)"},
	{"volume.Fi", nil, []string{"Ema((closings - prev(closings)) * volumes)"}, "FI = EMA((Current - Previous) * Volume)"},
	{"volume.Mfi", [][2]string{{"RMF", "(TypicalPrice(highs, lows, closings) * volumes)"}, {"MF", "(sign(RMF - prev(RMF)) * RMF)"}, {"MR", "(Sum(pos(MF)) / Sum(-1*neg(MF)))"}},
		[]string{"100 - 100/(1 + MR)"}, "MFI = 100 - 100/(1 + money ratio)"},
	{"volume.Mfm", nil, []string{"((closings - lows) - (highs - closings)) / (highs - lows)"}, "MFM = ((C-L) - (H-C)) / (H-L)"},
	{"volume.Mfv", nil, []string{"Mfm(highs, lows, closings) * volumes"}, "MFV = MFM * Volume"},
	{"volume.Vwap", nil, []string{"Sum(closings*volumes) / Sum(volumes)"}, "VWAP = Sum(C*V)/Sum(V)"},
	{"volume.Ad", nil, []string{"scan(acc + Mfv(highs, lows, closings, volumes), 0)"}, "AD = previous AD + MFV"},
	{"volume.Vpt", nil, []string{"scan(acc + volumes * (closings - prev(closings)) / prev(closings), 0)"}, "VPT = previous VPT + Volume*(C - prevC)/prevC"},
}

// opaqueOperators: what the named stateful closures and hand-written stages compute; the loop-free ones
// are compared against the documented recurrence in recurrenceSpecs, the others are not decided.
var opaqueFormulaSpecs = []formulaSpec{
	{"trend.Ema", nil, []string{`op("stage:trend.(*Ema).Compute/go#1", trend.Sma{Period: Period}(c), c)`}, "EMA recurrence seeded with the SMA of the first period values"},
	{"trend.Rma", nil, []string{`op("stage:trend.(*Rma).Compute/go#1", trend.Sma{Period: Period}(c), c)`}, "RMA recurrence seeded with the SMA of the first period values"},
	{"trend.Smma", nil, []string{`op("stage:trend.(*Smma).Compute/go#1", trend.Sma{Period: Period}(c), c)`}, "SMMA recurrence seeded with the SMA of the first period values"},
	{"trend.Kama", [][2]string{{"ER", "(abs(closings - at(closings, ErPeriod)) / trend.MovingSum{Period: ErPeriod}(abs(closings - prev(closings))))"}},
		[]string{`op("stage:trend.(*Kama).Compute/go#1", closings, pow(ER*(2/(FastScPeriod + 1) - 2/(SlowScPeriod + 1)) + 2/(SlowScPeriod + 1), 2))`}, "KAMA = previous KAMA + SC*(price - previous KAMA), SC = (ER*(2/(fast+1) - 2/(slow+1)) + 2/(slow+1))^2"},
	{"trend.MovingSum", nil, []string{`op("closure:trend.(*MovingSum).Compute#1", c, at(c, Period))`}, "sliding sum over the last period values"},
	{"trend.MovingMax", nil, []string{`op("closure:trend.(*MovingMax).Compute#1", c, at(c, Period))`}, "maximum of the last period values"},
	{"trend.MovingMin", nil, []string{`op("closure:trend.(*MovingMin).Compute#1", c, at(c, Period))`}, "minimum of the last period values"},
	{"trend.Wma", nil, []string{`op("closure:trend.(*Wma).Compute#1", values)`}, "weighted moving average"},
	{"volatility.MovingStd", nil, []string{`op("stage:volatility.(*MovingStd).Compute/go#1", c)`}, "standard deviation of the last period values"},
	{"volatility.SuperTrend", nil, []string{`op("closure:volatility.(*SuperTrend).Compute#1", (highs + lows)/2, Multiplier*Atr(highs, lows, closings), closings)`}, "bands = (H+L)/2 +/- multiplier*ATR, trend selection on closings"},
	{"volatility.Po", [][2]string{{"X", `op("stage:helper.Count/helper.Count#1", closings)`}, {"PL", `op("ind:trend.MovingMin@min#0", highs + mls(X, highs)[0])`}, {"PH", `op("ind:trend.MovingMax@max#0", lows + mls(X, lows)[0])`}},
		[]string{"100 * (closings - PL) / (PH - PL)"}, "PO = 100*(Closing - PL)/(PH - PL)"},
	{"volume.Nvi", nil, []string{`op("closure:volume.(*Nvi).Compute#1", (closings - prev(closings)) / prev(closings), volumes - prev(volumes))`}, "NVI recurrence over the closing ratio and the volume change"},
	{"volume.Obv", nil, []string{`op("closure:volume.(*Obv).Compute#1", closings, volumes)`}, "OBV recurrence over closings and volumes"},
}

// formulasNotCompared: indicators whose values come from a hand-written loop or a stateful closure;
// their recurrences are compared in recurrenceSpecs where they are loop-free, otherwise not decided.
var formulasNotCompared = map[string]string{
	"trend.Ema": "recurrence (hand-written stage): see recurrence table", "trend.Rma": "recurrence: see recurrence table", "trend.Smma": "recurrence: see recurrence table",
	"trend.Kama": "recurrence: see recurrence table", "trend.MovingSum": "recurrence: see recurrence table",
	"trend.MovingMax": "window maximum kept in a search tree (values not decided)", "trend.MovingMin": "window minimum kept in a search tree (values not decided)",
	"trend.Wma": "weighted sum computed by a loop over a ring (values not decided)", "volatility.MovingStd": "loop over a ring inside the stage (values not decided)",
	"volatility.SuperTrend": "stateful band selection rule (values not decided)", "volatility.Po": "uses a counter stage for x (values not decided)",
	"volume.Nvi": "recurrence: see recurrence table", "volume.Obv": "recurrence: see recurrence table",
}

func (e *specEnv) expand(src string, lets [][2]string) string {
	// every definition may use the names defined before it: expand the later names first
	out := src
	for i := len(lets) - 1; i >= 0; i-- {
		out = replaceWord(out, lets[i][0], "("+lets[i][1]+")")
	}
	return out
}

func replaceWord(s, word, with string) string {
	var b strings.Builder
	for i := 0; i < len(s); {
		if strings.HasPrefix(s[i:], word) {
			before := i == 0 || !isWordChar(s[i-1])
			after := i+len(word) >= len(s) || !isWordChar(s[i+len(word)])
			if before && after {
				b.WriteString(with)
				i += len(word)
				continue
			}
		}
		b.WriteByte(s[i])
		i++
	}
	return b.String()
}

func isWordChar(c byte) bool {
	return c == '_' || c == '.' || (c >= '0' && c <= '9') || (c >= 'a' && c <= 'z') || (c >= 'A' && c <= 'Z')
}

// checkFormulas compares the value term of every indicator output with its documented formula.
func (c *Ctx) checkFormulas() {
	run := c.Run
	specs := map[string]formulaSpec{}
	for _, s := range FormulaSpecs {
		specs[s.Type] = s
	}
	for _, s := range opaqueFormulaSpecs {
		specs[s.Type] = s
		run.Assume("the values of " + s.Type + " are decided only as far as its inputs are wired (" + s.Doc + "); " + formulasNotCompared[s.Type])
	}
	for _, fi := range IndicatorComputes(c.P) {
		rs := c.Results(fi, Opts{Mode: shape.ModeContracts})
		if len(rs) == 0 {
			continue
		}
		r := rs[0]
		tn := ""
		if r.Recv != nil {
			tn = r.Recv.TypeName()
		}
		sp, has := specs[tn]
		if !has {
			run.Oblige(false)
			run.Violate(report.Finding{Rule: "formula", Site: r.RootName, Detail: "no specification", Pos: c.P.Pos(fi.Decl.Pos()),
				Message: "indicator " + tn + " has no entry in the documented-formula table: its arithmetic is not covered"})
			continue
		}
		run.Count("formulas", 1)
		outs := retStreams(r)
		if len(outs) != len(sp.Outs) {
			run.Oblige(false)
			run.Violate(report.Finding{Rule: "formula", Site: r.RootName, Detail: "output count", Pos: c.P.Pos(fi.Decl.Pos()),
				Message: fmt.Sprintf("%s has %d outputs, its documented formula has %d", tn, len(outs), len(sp.Outs))})
			continue
		}
		env := &specEnv{r: r, params: map[string]bool{}}
		for _, ps := range r.ParamStreams {
			env.params[ps.Param] = true
		}
		tm := shape.NewTerms(c.P, r)
		for i, o := range outs {
			site := fmt.Sprintf("%s/out%d", r.RootName, i)
			want, err := env.parse(env.expand(sp.Outs[i], sp.Let))
			if err != nil {
				run.Oblige(false)
				run.Violate(report.Finding{Rule: "formula", Site: site, Detail: "specification not evaluable", Pos: c.P.Pos(fi.Decl.Pos()),
					Message: "the documented formula refers to something the indicator no longer has: " + err.Error()})
				continue
			}
			got := tm.Of(o)
			ok := sym.Equal(got, want)
			run.Oblige(ok)
			run.Sample(map[string]string{"obligation": "value(" + site + ") = " + sp.Doc, "verdict": fmt.Sprint(ok)})
			if !ok {
				run.Violate(report.Finding{Rule: "formula", Site: site, Detail: short(sym.CanonString(got), 160), Pos: c.P.Pos(fi.Decl.Pos()),
					Message: fmt.Sprintf("the value computed is not the documented formula (%s). computed: %s ; documented: %s", sp.Doc, short(sym.CanonString(got), 300), short(sym.CanonString(want), 300))})
			}
		}
	}
	run.Floor("formulas", 61)
	c.checkRecurrences()
}

// ---------------------------------------------------------------------------
// Recurrences: stateful closures and hand-written loop bodies compared as guarded commands.

type recRule struct {
	Cond    string            // over parameters and state ("" = always)
	Updates map[string]string // state -> new value
	Out     string
}

type recurrenceSpec struct {
	Site   string   // "volume.(*Nvi).Compute" (closure passed to a helper) or a stage
	Kind   string   // "closure" or "stage"
	Params []string // names used in the spec for the inputs, in order
	State  string   // the name used in the spec for the single state variable
	Free   []string // further quantities the documented rule refers to
	Rules  []recRule
	Doc    string
}

var recurrenceSpecs = []recurrenceSpec{
	{"volume.(*Nvi).Compute", "closure", []string{"ratio", "dv"}, "nvi", nil,
		[]recRule{{"dv <= 0", map[string]string{"nvi": "nvi + ratio*nvi"}, "nvi + ratio*nvi"}, {"", map[string]string{}, "nvi"}},
		"NVI = previous NVI if the volume increased, else previous NVI + ratio * previous NVI"},
	{"trend.(*MovingSum).Compute", "closure", []string{"x", "old"}, "sum", nil,
		[]recRule{{"", map[string]string{"sum": "sum + x - old"}, "sum + x - old"}}, "sliding sum: add the new value, remove the one that left the window"},
	{"trend.(*Rma).Compute", "stage", []string{"x"}, "r", nil,
		[]recRule{{"", map[string]string{"r": "((r * (Period - 1)) + x) / Period"}, "((r * (Period - 1)) + x) / Period"}}, "R[i] = ((R[i-1]*(p-1)) + v[i]) / p"},
	{"trend.(*Smma).Compute", "stage", []string{"x"}, "r", nil,
		[]recRule{{"", map[string]string{"r": "((r * (Period - 1)) + x) / Period"}, "((r * (Period - 1)) + x) / Period"}}, "SMMA[i] = ((SMMA[i-1]*(N-1)) + Close[i]) / N"},
	{"trend.(*Kama).Compute", "stage", []string{"price", "sc"}, "kama", nil,
		[]recRule{{"", map[string]string{"kama": "kama + sc*(price - kama)"}, "kama + sc*(price - kama)"}}, "KAMA = previous KAMA + SC*(price - previous KAMA)"},
	{"volume.(*Obv).Compute", "closure", []string{"closing", "volume"}, "obv", []string{"previousClosing"},
		[]recRule{{"closing > previousClosing", map[string]string{"obv": "obv + volume"}, "obv + volume"},
			{"closing < previousClosing", map[string]string{"obv": "obv - volume"}, "obv - volume"},
			{"", map[string]string{}, "obv"}}, "OBV[i] = OBV[i-1] +/- Volume[i] as Closing[i] is above/below Closing[i-1]"},
	{"trend.(*Ema).Compute", "stage", []string{"x"}, "r", nil,
		[]recRule{{"", map[string]string{"r": "(x - r) * (Smoothing / (Period + 1)) + r"}, "(x - r) * (Smoothing / (Period + 1)) + r"}}, "EMA = (value - previous EMA) * smoothing/(period+1) + previous EMA"},
}

func (c *Ctx) checkRecurrences() {
	run := c.Run
	for _, sp := range recurrenceSpecs {
		parts := strings.SplitN(sp.Site, ".", 2)
		tn := strings.TrimSuffix(strings.TrimPrefix(parts[1], "(*"), ").Compute")
		fi := c.fn(parts[0], tn, "Compute")
		if fi == nil {
			continue
		}
		info := fi.Pkg.TypesInfo
		var m *dtab.Machine
		switch sp.Kind {
		case "closure":
			lit := closureArg(info, fi.Decl, "Operate")
			if lit != nil {
				m = dtab.FromFuncLit(info, lit)
			}
		case "stage":
			// the steady-state loop of the hand-written goroutine: `for n := range c { … }`
			for _, fl := range goLitsOf(fi.Decl) {
				if mm := stageLoopMachine(info, fl); mm != nil {
					m = mm
				}
			}
		}
		site := sp.Site
		run.Count("recurrences", 1)
		if m == nil {
			c.violate("formula/recurrence", site, "not found", fi.Decl.Pos(), "the recurrence could not be located (undecided, fails closed)")
			continue
		}
		if len(m.Unsupported) > 0 || len(m.Params) != len(sp.Params) || len(m.State) != 1 {
			c.violate("formula/recurrence", site, "shape", fi.Decl.Pos(), fmt.Sprintf("the recurrence no longer has %d input(s) and one remembered value in loop-free form (undecided, fails closed): params %v state %v %v", len(sp.Params), m.Params, m.State, m.Unsupported))
			continue
		}
		ren := map[string]sym.Expr{}
		for i, p := range m.Params {
			ren[p] = sym.V(sp.Params[i])
		}
		ren[m.State[0]] = sym.V(sp.State)
		// configuration reads (r.Period, e.Smoothing, multiplier) are resolved to field names
		for _, rd := range m.Reads {
			if i := strings.LastIndex(rd, "."); i >= 0 {
				ren[rd] = sym.V("cfg:" + rd[i+1:])
			}
		}
		rs := c.Results(fi, Opts{Mode: shape.ModeContracts})
		env := &specEnv{locals: map[string]bool{sp.State: true}}
		if len(rs) > 0 {
			env.r = rs[0]
		}
		for _, p := range sp.Params {
			env.locals[p] = true
		}
		for _, p := range sp.Free {
			env.locals[p] = true
		}
		// atoms of both sides
		keys := map[string]bool{}
		type srule struct {
			cond sym.Expr
			upd  map[string]sym.Expr
			out  sym.Expr
		}
		var srules []srule
		bad := false
		for _, rr := range sp.Rules {
			sr := srule{upd: map[string]sym.Expr{}}
			if rr.Cond != "" {
				e, err := env.parse(rr.Cond)
				if err != nil {
					bad = true
					break
				}
				sr.cond = e
				collectKeys(e, keys)
			}
			for k, v := range rr.Updates {
				e, err := env.parse(v)
				if err != nil {
					bad = true
					break
				}
				sr.upd[k] = e
			}
			e, err := env.parse(rr.Out)
			if err != nil {
				bad = true
				break
			}
			sr.out = e
			srules = append(srules, sr)
		}
		if bad {
			run.Break("bad recurrence specification for " + site)
			continue
		}
		for _, p := range m.Paths {
			for _, cd := range p.Conds {
				collectKeys(sym.Subst(cd, ren), keys)
			}
		}
		var ks []string
		for k := range keys {
			ks = append(ks, k)
		}
		sort.Strings(ks)
		okAll := true
		var msg string
		total := 1
		for range ks {
			total *= 3
		}
		for idx := 0; idx < total; idx++ {
			sg := map[string]int{}
			x := idx
			for _, k := range ks {
				sg[k] = x%3 - 1
				x /= 3
			}
			// specification rule
			var want *srule
			for i := range srules {
				if srules[i].cond == nil {
					want = &srules[i]
					break
				}
				if v, ok := evalCond(srules[i].cond, sg); ok && v {
					want = &srules[i]
					break
				}
			}
			// code path
			var got *dtab.Path
			n := 0
			for _, p := range m.Paths {
				take := true
				for _, cd := range p.Conds {
					v, ok := evalCond(sym.Subst(cd, ren), sg)
					if !ok {
						take = false
						okAll = false
						msg = "a condition of the recurrence is not a comparison of its inputs"
					}
					if !v {
						take = false
					}
				}
				if take {
					got = p
					n++
				}
			}
			if want == nil || got == nil || n != 1 {
				okAll = false
				if msg == "" {
					msg = "the recurrence is not single-valued on some ordering of its inputs"
				}
				continue
			}
			gu, has := got.Updates[m.State[0]]
			var gotUpd sym.Expr = sym.V(sp.State)
			if has {
				gotUpd = sym.Subst(gu, ren)
			}
			var wantUpd sym.Expr = sym.V(sp.State)
			if w, ok := want.upd[sp.State]; ok {
				wantUpd = w
			}
			var gotOut sym.Expr
			switch {
			case len(got.Ret) == 1:
				gotOut = sym.Subst(got.Ret[0], ren)
			case len(got.Sends) == 1:
				gotOut = sym.Subst(got.Sends[0], ren)
			}
			if gotOut == nil || !sym.Equal(gotUpd, wantUpd) || !sym.Equal(gotOut, want.out) {
				okAll = false
				var desc []string
				for _, k := range ks {
					desc = append(desc, fmt.Sprintf("%s %s 0", short(k, 50), map[int]string{-1: "<", 0: "=", 1: ">"}[sg[k]]))
				}
				o := "?"
				if gotOut != nil {
					o = sym.CanonString(gotOut)
				}
				msg = fmt.Sprintf("when %s: remembered value becomes %s and %s is emitted; documented: %s and %s", strings.Join(desc, ", "), sym.CanonString(gotUpd), o, sym.CanonString(wantUpd), sym.CanonString(want.out))
			}
		}
		run.Oblige(okAll)
		if !okAll {
			c.violate("formula/recurrence", site, short(msg, 120), fi.Decl.Pos(), "the recurrence is not the documented one ("+sp.Doc+"): "+msg)
		}
	}
	run.Floor("recurrences", 7)
}

// stageLoopMachine: the guarded commands of one iteration of the steady-state loop of a
// hand-written stage. Receives become the inputs, the `if !ok { break }` checks are dropped,
// pure definitions immediately before the loop are included.
func stageLoopMachine(info *types.Info, fl *ast.FuncLit) *dtab.Machine {
	list := fl.Body.List
	for i := len(list) - 1; i >= 0; i-- {
		var body *ast.BlockStmt
		var inputs []types.Object
		switch x := list[i].(type) {
		case *ast.RangeStmt:
			body = x.Body
			if id, ok := x.Key.(*ast.Ident); ok {
				if o := info.Defs[id]; o != nil {
					inputs = append(inputs, o)
				}
			}
		case *ast.ForStmt:
			if x.Cond == nil && x.Init == nil && x.Post == nil {
				body = x.Body
			}
		}
		if body == nil {
			continue
		}
		j := i
		for j > 0 {
			as, ok := list[j-1].(*ast.AssignStmt)
			if !ok || as.Tok != token.DEFINE || !pureExprs(info, as.Rhs) {
				break
			}
			j--
		}
		stmts := append([]ast.Stmt{}, list[j:i]...)
		okVars := map[types.Object]bool{}
		for _, s := range body.List {
			if as, ok := s.(*ast.AssignStmt); ok && len(as.Rhs) == 1 {
				if u, ok := as.Rhs[0].(*ast.UnaryExpr); ok && u.Op == token.ARROW {
					if id, ok := as.Lhs[0].(*ast.Ident); ok {
						if o := info.Defs[id]; o != nil {
							inputs = append(inputs, o)
						} else {
							return nil
						}
					}
					if len(as.Lhs) == 2 {
						if id, ok := as.Lhs[1].(*ast.Ident); ok {
							if o := info.ObjectOf(id); o != nil {
								okVars[o] = true
							}
						}
					}
					continue
				}
			}
			if is, ok := s.(*ast.IfStmt); ok && is.Else == nil && is.Init == nil {
				if u, ok := is.Cond.(*ast.UnaryExpr); ok && u.Op == token.NOT {
					if id, ok := u.X.(*ast.Ident); ok && okVars[info.ObjectOf(id)] {
						continue
					}
				}
			}
			stmts = append(stmts, s)
		}
		return dtab.FromStmts(info, stmts, inputs)
	}
	return nil
}

func pureExprs(info *types.Info, es []ast.Expr) bool {
	pure := true
	for _, e := range es {
		ast.Inspect(e, func(n ast.Node) bool {
			switch x := n.(type) {
			case *ast.UnaryExpr:
				if x.Op == token.ARROW {
					pure = false
				}
			case *ast.CallExpr:
				if tv, ok := info.Types[x.Fun]; !ok || !tv.IsType() {
					pure = false
				}
			case *ast.FuncLit:
				pure = false
			}
			return pure
		})
	}
	return pure
}
